(* C12: theorems about the label bookkeeping of conditional sampling
   (model: Model/CondSample.v, the source after the fixes fa9ce3f / baa4f86).
   HISTORY: for the earlier source this file held the refutations cond_scores_by_label_refuted,
   cond_dict_order_matters (F19) and cond_series_raises (F11); they are now the full theorems
   cond_scores_by_label, cond_dict_order_irrelevant and cond_series_equivalent. *)
From Coq Require Import List Arith Bool Lia Permutation.
From Cop Require Import Model.CondSample.
Import ListNotations.

(* ------------------------------------------------------------------ *)
(* generic helpers                                                     *)

Lemma mem_In l ls : mem l ls = true <-> In l ls.
Proof.
  unfold mem. rewrite existsb_exists. split.
  - intros (x & Hx & E). apply Nat.eqb_eq in E. now subst.
  - intros H. exists l. split; auto. apply Nat.eqb_refl.
Qed.

Lemma mem_false l ls : mem l ls = false <-> ~ In l ls.
Proof. rewrite <- mem_In. destruct (mem l ls); split; congruence. Qed.

Lemma lookup_In {A} l (kv : list (label * A)) v : lookup l kv = Some v -> In (l, v) kv.
Proof.
  induction kv as [|[k x] r IH]; simpl; [discriminate|].
  destruct (Nat.eqb l k) eqn:E.
  - apply Nat.eqb_eq in E. intros [= ->]. subst. now left.
  - intros H. right. auto.
Qed.

Lemma lookup_None {A} l (kv : list (label * A)) : lookup l kv = None <-> ~ In l (map fst kv).
Proof.
  induction kv as [|[k x] r IH]; simpl; [tauto|].
  destruct (Nat.eqb l k) eqn:E.
  - apply Nat.eqb_eq in E. subst. split; [discriminate|]. intros H. exfalso. apply H. now left.
  - apply Nat.eqb_neq in E. rewrite IH. split; intros H; [intros [?|?]; [congruence|auto]|tauto].
Qed.

Lemma lookup_Some_key {A} l (kv : list (label * A)) :
  In l (map fst kv) -> exists v, lookup l kv = Some v.
Proof.
  intros H. destruct (lookup l kv) eqn:E; [eauto|]. apply lookup_None in E. contradiction.
Qed.

(* dict keys are unique: the item (c, v) is what conditions[c] returns *)
Lemma lookup_NoDup {A} l (kv : list (label * A)) v :
  NoDup (map fst kv) -> In (l, v) kv -> lookup l kv = Some v.
Proof.
  induction kv as [|[k x] r IH]; simpl; [tauto|].
  intros ND [H|H]; inversion ND; subst.
  - inversion H; subst. now rewrite Nat.eqb_refl.
  - destruct (Nat.eqb l k) eqn:E; auto.
    apply Nat.eqb_eq in E. subst. exfalso. apply H2. apply (in_map fst) in H. exact H.
Qed.

Lemma index_of_nth c l i : index_of c l = Some i -> nth_error l i = Some c.
Proof.
  revert i; induction l as [|x r IH]; simpl; intros i; [discriminate|].
  destruct (Nat.eqb c x) eqn:E.
  - apply Nat.eqb_eq in E. intros [= <-]. now subst.
  - destruct (index_of c r); [|discriminate]. intros [= <-]. simpl. auto.
Qed.

Lemma index_of_In c l : In c l -> exists i, index_of c l = Some i.
Proof.
  induction l as [|x r IH]; simpl; [tauto|].
  intros H. destruct (Nat.eqb c x) eqn:E; [eauto|].
  apply Nat.eqb_neq in E. destruct H as [H|H]; [congruence|].
  destruct (IH H) as [i ->]. eauto.
Qed.

Lemma index_of_None c l : index_of c l = None -> ~ In c l.
Proof.
  intros H Hin. destruct (index_of_In c l Hin). congruence.
Qed.

Lemma sequence_Forall2 {A B} (f : A -> option B) l col :
  sequence (map f l) = Some col <-> Forall2 (fun a b => f a = Some b) l col.
Proof.
  revert col; induction l as [|a l IH]; simpl; intros col.
  - split; [intros [= <-]; constructor | intros H; inversion H; auto].
  - destruct (f a) eqn:E.
    + destruct (sequence (map f l)) eqn:E2.
      * split.
        -- intros [= <-]. constructor; auto. now apply IH.
        -- intros H. inversion H; subst. apply IH in H4. congruence.
      * split; [discriminate|]. intros H. inversion H; subst. apply IH in H4. discriminate.
    + split; [discriminate|]. intros H. inversion H; subst. congruence.
Qed.

Lemma Forall2_length' {A B} (P : A -> B -> Prop) l l' : Forall2 P l l' -> length l = length l'.
Proof. induction 1; simpl; auto. Qed.

Lemma mapM_Forall2 {A B} (f : A -> result B) l out :
  mapM f l = Ok out <-> Forall2 (fun a b => f a = Ok b) l out.
Proof.
  revert out; induction l as [|a l IH]; simpl; intros out.
  - split; [intros [= <-]; constructor | intros H; inversion H; auto].
  - destruct (f a) eqn:E; simpl.
    + destruct (mapM f l) eqn:E2; simpl.
      * split.
        -- intros [= <-]. constructor; auto. now apply IH.
        -- intros H. inversion H; subst. apply IH in H4. congruence.
      * split; [discriminate|]. intros H. inversion H; subst. apply IH in H4. discriminate.
    + split; [discriminate|]. intros H. inversion H; subst. congruence.
Qed.

Lemma combine_fst {A B} (l : list A) (l' : list B) :
  length l = length l' -> map fst (combine l l') = l.
Proof.
  revert l'; induction l as [|a l IH]; intros [|b l']; simpl; intros H; try discriminate; auto.
  f_equal. apply IH. lia.
Qed.

Lemma find_none_conv {A} (f : A -> bool) l :
  (forall x, In x l -> f x = false) -> find f l = None.
Proof.
  induction l as [|a l IH]; simpl; auto. intros H.
  rewrite (H a (or_introl eq_refl)). apply IH. intros; apply H; now right.
Qed.

(* insertion sort is a permutation *)
Lemma insert_perm x l : Permutation (insert x l) (x :: l).
Proof.
  induction l as [|y r IH]; simpl; auto.
  destruct (Nat.leb x y); auto.
  rewrite IH. apply perm_swap.
Qed.

Lemma isort_perm l : Permutation (isort l) l.
Proof. induction l as [|x r IH]; simpl; auto. rewrite insert_perm. now constructor. Qed.

(* ---------- more generic helpers ---------- *)
Lemma lookup_perm {A} c (l l' : list (label * A)) :
  NoDup (map fst l) -> Permutation l l' -> lookup c l = lookup c l'.
Proof.
  intros ND P.
  assert (ND' : NoDup (map fst l')) by (eapply Permutation_NoDup; [apply Permutation_map; exact P|exact ND]).
  destruct (lookup c l) as [v|] eqn:E.
  - apply lookup_In in E. symmetry. apply lookup_NoDup; auto. eapply Permutation_in; eauto.
  - symmetry. apply lookup_None. apply lookup_None in E. intros H. apply E.
    eapply Permutation_in; [apply Permutation_map; symmetry; exact P|exact H].
Qed.

Lemma lookup_filter_key {A} (f : label -> bool) c (l : list (label * A)) :
  f c = true -> lookup c (filter (fun p => f (fst p)) l) = lookup c l.
Proof.
  intros Hc. induction l as [|[k v] r IH]; simpl; auto.
  destruct (f k) eqn:Ek; simpl.
  - destruct (Nat.eqb c k); auto.
  - destruct (Nat.eqb c k) eqn:E; auto. apply Nat.eqb_eq in E. congruence.
Qed.

Lemma flat_map_ext_in {A B} (f g : A -> list B) l :
  (forall a, In a l -> f a = g a) -> flat_map f l = flat_map g l.
Proof.
  induction l as [|a l IH]; simpl; auto. intros H.
  rewrite (H a (or_introl eq_refl)), IH; auto.
Qed.

Lemma filter_ext_in' {A} (f g : A -> bool) l :
  (forall a, In a l -> f a = g a) -> filter f l = filter g l.
Proof.
  induction l as [|a l IH]; simpl; auto. intros H.
  rewrite (H a (or_introl eq_refl)), IH; auto.
Qed.

Lemma mapM_ext_in {A B} (f g : A -> result B) l :
  (forall a, In a l -> f a = g a) -> mapM f l = mapM g l.
Proof.
  induction l as [|a l IH]; simpl; auto. intros H.
  rewrite (H a (or_introl eq_refl)), IH; auto.
Qed.

Lemma mapM_err_inv {A B} (f : A -> result B) l e :
  mapM f l = Err e -> exists a, In a l /\ f a = Err e.
Proof.
  induction l as [|a l IH]; simpl; [discriminate|].
  destruct (f a) eqn:E; simpl.
  - destruct (mapM f l); simpl; [discriminate|]. intros [= ->].
    destruct (IH eq_refl) as (x & Hx & Hf). eauto.
  - intros [= ->]. eauto.
Qed.

(* ------------------------------------------------------------------ *)
Section Proofs.
Variable V : Type.
Variable sort : list label -> list label.
Variable score : label -> V -> V.
Variable ppf : label -> V -> V.
Variable Phi : V -> V.
Variable cond_params : list label -> list (label * V) -> list V * list (list V).
Variable uncond_params : list V * list (list V).
Variable mvn : list V -> list (list V) -> nat -> list (list V).
Variable columns : list label.

(* oracle hypotheses *)
(* pandas Index.difference orders its result somehow; only "same elements" matters *)
Hypothesis sort_perm : forall l, Permutation (sort l) l.
(* np.random.multivariate_normal(mu, S, size=n) has shape (n, len(mu)) *)
Hypothesis mvn_shape : forall mu Sg n,
  length (mvn mu Sg n) = n /\ Forall (fun r => length r = length mu) (mvn mu Sg n).
(* mu_bar has one entry per column of columns1 *)
Hypothesis cond_params_shape : forall cols1 nc,
  length (fst (cond_params cols1 nc)) = length cols1.
(* training columns are distinct *)
Hypothesis columns_nodup : NoDup columns.

Notation smp := (sample V sort score ppf Phi cond_params uncond_params mvn columns).
Notation cols1_of := (columns1 V sort columns).
Notation ncond := (normal_conditions V score columns).
Notation outcol := (output_column V ppf Phi).
Notation knownc := (known V columns).

(* the conditional draw: num_rows rows, labelled by columns1 *)
Definition draw_of (n : nat) (nconds : list (label * V)) : list (list V) :=
  let '(mu, Sg) := cond_params (cols1_of nconds) nconds in mvn mu Sg n.

Lemma draw_of_shape n nconds :
  length (draw_of n nconds) = n /\
  Forall (fun r => length r = length (cols1_of nconds)) (draw_of n nconds).
Proof.
  unfold draw_of. pose proof (cond_params_shape (cols1_of nconds) nconds) as Hs.
  destruct (cond_params (cols1_of nconds) nconds) as [mu Sg]. simpl in Hs.
  destruct (mvn_shape mu Sg n) as [H1 H2]. split; auto. now rewrite <- Hs.
Qed.

(* ---------------- columns1 = difference: a set statement, sort-independent *)

Theorem columns1_spec (conds : list (label * V)) c :
  In c (cols1_of conds) <-> In c columns /\ ~ In c (map fst conds).
Proof using sort_perm.
  unfold columns1, difference.
  rewrite (Permutation_in' (eq_refl c) (sort_perm _)), nodup_In, filter_In.
  rewrite negb_true_iff, mem_false. reflexivity.
Qed.

Theorem columns1_nodup (conds : list (label * V)) : NoDup (cols1_of conds).
Proof.
  unfold columns1, difference.
  eapply Permutation_NoDup; [symmetry; apply sort_perm|]. apply NoDup_nodup.
Qed.

(* a label occupies exactly one position of the draw *)
Corollary columns1_position_unique (conds : list (label * V)) c i j :
  nth_error (cols1_of conds) i = Some c -> nth_error (cols1_of conds) j = Some c -> i = j.
Proof.
  intros Hi Hj. pose proof (columns1_nodup conds) as ND.
  rewrite NoDup_nth_error in ND. apply ND; [|congruence].
  apply nth_error_Some. congruence.
Qed.

(* ---------------- known labels and normal_conditions ------------------- *)

Definition keys (conds : list (label * V)) : list label := map fst conds.

Lemma has_key_In c conds : has_key V c conds = true <-> In c (keys conds).
Proof.
  unfold has_key. destruct (lookup c conds) eqn:E.
  - split; auto. intros _. apply lookup_In in E. apply (in_map fst) in E. exact E.
  - split; [discriminate|]. intros H. apply lookup_None in E. contradiction.
Qed.

Lemma known_spec conds c : In c (knownc conds) <-> In c columns /\ In c (keys conds).
Proof. unfold known. rewrite filter_In, has_key_In. reflexivity. Qed.

Lemma known_nodup conds : NoDup (knownc conds).
Proof. apply NoDup_filter, columns_nodup. Qed.

(* the scores and their labels are produced by the same traversal of the training columns *)
Lemma transform_known_gen conds cs :
  combine (filter (fun c => has_key V c conds) cs)
          (flat_map (fun c => match lookup c conds with Some v => [score c v] | None => [] end) cs)
  = flat_map (fun c => match lookup c conds with Some v => [(c, score c v)] | None => [] end) cs
  /\ length (flat_map (fun c => match lookup c conds with Some v => [score c v] | None => [] end) cs)
     = length (filter (fun c => has_key V c conds) cs).
Proof.
  induction cs as [|c cs [IH1 IH2]]; [split; reflexivity|].
  cbn [filter flat_map].
  change (has_key V c conds) with (match lookup c conds with Some _ => true | None => false end).
  destruct (lookup c conds); cbn [app combine length]; [rewrite IH1, IH2|]; auto.
Qed.

(* What the code computes: every known label, in training order, with ITS OWN score *)
Theorem normal_conditions_spec conds nc :
  ncond conds = Ok nc ->
  nc = flat_map (fun c => match lookup c conds with Some v => [(c, score c v)] | None => [] end) columns.
Proof.
  unfold normal_conditions, bind, transform_conditions.
  destruct (transform_known_gen conds columns) as [H1 H2].
  destruct (flat_map _ columns) eqn:E; [discriminate|].
  unfold relabel, known. rewrite H2, Nat.eqb_refl. intros [= <-]. exact H1.
Qed.

Lemma normal_conditions_keys conds nc : ncond conds = Ok nc -> map fst nc = knownc conds.
Proof.
  unfold normal_conditions, bind, transform_conditions.
  destruct (transform_known_gen conds columns) as [H1 H2].
  destruct (flat_map _ columns) eqn:E; [discriminate|].
  unfold relabel. unfold known at 1. rewrite H2, Nat.eqb_refl. intros [= <-].
  apply combine_fst. unfold known. now rewrite H2.
Qed.

(* the relabelling can never fail: as many scores as known labels *)
Theorem normal_conditions_no_length_mismatch conds a b :
  ncond conds <> Err (ValueError_length_mismatch a b).
Proof.
  unfold normal_conditions, bind, transform_conditions.
  destruct (transform_known_gen conds columns) as [_ H2].
  destruct (flat_map _ columns) eqn:E; [discriminate|].
  unfold relabel, known. rewrite H2, Nat.eqb_refl. discriminate.
Qed.

Lemma lookup_flat_map_scores conds cs c :
  NoDup cs ->
  lookup c (flat_map (fun c => match lookup c conds with Some v => [(c, score c v)] | None => [] end) cs)
  = if mem c cs then match lookup c conds with Some v => Some (score c v) | None => None end else None.
Proof.
  induction cs as [|k cs IH]; simpl; [reflexivity|]. intros ND. inversion ND; subst.
  destruct (Nat.eqb c k) eqn:E.
  - apply Nat.eqb_eq in E. subst k. simpl.
    destruct (lookup c conds); simpl.
    + now rewrite Nat.eqb_refl.
    + rewrite IH by assumption. apply mem_false in H1. now rewrite H1.
  - simpl. destruct (lookup k conds); simpl; [rewrite E|]; now apply IH.
Qed.

(* FULL (was refuted before fa9ce3f): the score attached to label c is score_c(value_c), for every
   order of the keys of the conditions *)
Theorem cond_scores_by_label conds nc c :
  ncond conds = Ok nc ->
  lookup c nc = if mem c columns
                then match lookup c conds with Some v => Some (score c v) | None => None end
                else None.
Proof.
  intros H. rewrite (normal_conditions_spec _ _ H). now apply lookup_flat_map_scores.
Qed.

Corollary cond_scores_by_label_items conds nc c v :
  ncond conds = Ok nc -> In c columns -> lookup c conds = Some v -> lookup c nc = Some (score c v).
Proof.
  intros H Hc Hl. rewrite (cond_scores_by_label _ _ c H), Hl.
  apply mem_In in Hc. now rewrite Hc.
Qed.

(* with the keys in training order the result is literally the conditions with scored values *)
Definition conditioned_in_training_order (conds : list (label * V)) : list label := knownc conds.

Lemma flat_map_items conds (l : list (label * V)) :
  NoDup (keys conds) -> incl l conds ->
  flat_map (fun c => match lookup c conds with Some v => [(c, score c v)] | None => [] end)
           (map fst l)
  = map (fun p => (fst p, score (fst p) (snd p))) l.
Proof.
  intros ND. induction l as [|[c v] l IH]; simpl; intros Hi; auto.
  rewrite (lookup_NoDup c conds v ND) by (apply Hi; now left).
  simpl. f_equal. apply IH. intros x Hx. apply Hi. now right.
Qed.

(* ---------------- the model reads the conditions only through lookups at training columns ---- *)

Theorem sample_lookup_ext kind kind' n conds conds' :
  (forall c, In c columns -> lookup c conds = lookup c conds') ->
  smp kind n (Some conds) = smp kind' n (Some conds').
Proof.
  intros H.
  assert (HU : transform_conditions V score columns conds = transform_conditions V score columns conds').
  { unfold transform_conditions. erewrite flat_map_ext_in; [reflexivity|].
    intros c Hc. now rewrite (H c Hc). }
  assert (HK : knownc conds = knownc conds').
  { unfold known. apply filter_ext_in'. intros c Hc. unfold has_key. now rewrite (H c Hc). }
  assert (HN : ncond conds = ncond conds') by (unfold normal_conditions; now rewrite HU, HK).
  unfold sample, normal_samples. rewrite HN.
  destruct (ncond conds') as [nc|]; [|reflexivity]. unfold bind at 1 3. cbn [bind].
  destruct (first_unknown columns (map fst nc)); [reflexivity|].
  destruct (cond_params (cols1_of nc) nc) as [mu Sg].
  assert (HO : forall fr, mapM (outcol kind n (Some conds) fr) columns
                        = mapM (outcol kind' n (Some conds') fr) columns).
  { intros fr. apply mapM_ext_in. intros c Hc. unfold output_column. now rewrite (H c Hc). }
  destruct (cols1_of nc); [reflexivity|].
  destruct (mk_frame V (mvn mu Sg n) (l :: l0)); [|reflexivity]. apply HO.
Qed.

(* FULL (was refuted before baa4f86): a Series is accepted and behaves exactly like the dict with
   the same items *)
Theorem cond_series_equivalent n conds : smp Series n (Some conds) = smp Dict n (Some conds).
Proof. reflexivity. Qed.

(* FULL (was refuted before fa9ce3f): the order in which the conditions are listed is irrelevant *)
Theorem cond_dict_order_irrelevant kind n conds conds' :
  NoDup (keys conds) -> Permutation conds conds' ->
  smp kind n (Some conds) = smp kind n (Some conds').
Proof. intros ND P. apply sample_lookup_ext. intros c _. now apply lookup_perm. Qed.

(* a label that is not a training column is silently ignored ... *)
Theorem cond_unknown_label_ignored kind n conds :
  smp kind n (Some conds) = smp kind n (Some (filter (fun p => mem (fst p) columns) conds)).
Proof.
  apply sample_lookup_ext. intros c Hc. symmetry.
  apply (lookup_filter_key (fun k => mem k columns)). now apply mem_In.
Qed.

(* ... unless no label is known (this includes the empty dict): ValueError *)
Theorem cond_no_known_label_raises kind n conds :
  (forall c, In c columns -> lookup c conds = None) ->
  smp kind n (Some conds) = Err ValueError_no_arrays.
Proof.
  intros H. unfold sample, normal_samples, normal_conditions, transform_conditions.
  assert (E : flat_map (fun c => match lookup c conds with Some v => [score c v] | None => [] end) columns = []).
  { clear - H. induction columns as [|c cs IH]; simpl; auto.
    rewrite (H c (or_introl eq_refl)). simpl. apply IH. intros; apply H; now right. }
  rewrite E. reflexivity.
Qed.

(* ---------------- inversion of a successful conditional sample -------- *)

Lemma cols1_known conds nc : map fst nc = knownc conds ->
  forall c, In c (cols1_of nc) <-> In c columns /\ lookup c conds = None.
Proof.
  intros Hk c. rewrite columns1_spec, Hk, known_spec. split.
  - intros [Hc Hn]. split; auto. apply lookup_None. fold (keys conds). tauto.
  - intros [Hc Hn]. split; auto. apply lookup_None in Hn. fold (keys conds) in Hn. tauto.
Qed.

Lemma first_unknown_known conds : first_unknown columns (knownc conds) = None.
Proof.
  unfold first_unknown. apply find_none_conv. intros x Hx.
  apply known_spec in Hx. apply negb_false_iff, mem_In. tauto.
Qed.

Lemma sample_inv kind n conds out :
  smp kind n (Some conds) = Ok out ->
  exists nc, ncond conds = Ok nc /\ map fst nc = knownc conds /\
             cols1_of nc <> [] /\
             Forall2 (fun c p => outcol kind n (Some conds)
                                   (mkFrame V (cols1_of nc) (draw_of n nc)) c = Ok p)
                     columns out.
Proof.
  intros H. unfold sample, normal_samples in H. unfold bind at 1 2 in H.
  destruct (ncond conds) as [nc|] eqn:Enc; [|discriminate].
  pose proof (normal_conditions_keys _ _ Enc) as Hk.
  destruct (first_unknown columns (map fst nc)); [discriminate|].
  exists nc. split; [reflexivity|]. split; [exact Hk|].
  unfold draw_of.
  destruct (cond_params (cols1_of nc) nc) as [mu Sg].
  destruct (cols1_of nc) as [|c0 r0] eqn:Ecols; [discriminate|].
  unfold mk_frame in H.
  destruct (forallb _ _); [|discriminate].
  apply mapM_Forall2 in H.
  split; [discriminate|exact H].
Qed.

Lemma outcol_fst kind n conditions fr c p :
  outcol kind n conditions fr c = Ok p -> fst p = c.
Proof.
  unfold output_column, bind.
  assert (Hs : forall q, match frame_col V fr c with
                    | Ok a => Ok (c, map (fun x => ppf c (Phi x)) a)
                    | Err e => Err e end = Ok q -> fst q = c).
  { intros q. destruct (frame_col V fr c); [|discriminate]. now intros [= <-]. }
  destruct conditions as [conds|]; [|apply Hs].
  destruct (lookup c conds); [|apply Hs]. now intros [= <-].
Qed.

Lemma Forall2_fst (f : label -> result (label * list V)) cs out :
  (forall c p, f c = Ok p -> fst p = c) ->
  Forall2 (fun c p => f c = Ok p) cs out -> map fst out = cs.
Proof.
  intros Hf HF. induction HF as [|c p cs ps Hc _ IH]; simpl; [reflexivity|].
  rewrite IH. f_equal. now apply Hf.
Qed.

(* header of the returned frame = training columns, in training order;
   holds for every container and also for the unconditional call *)
Theorem cond_all_columns_in_order_header kind n conditions out :
  smp kind n conditions = Ok out -> map fst out = columns.
Proof.
  unfold sample, bind.
  destruct (normal_samples _ _ _ _ _ _ _ _ _) as [fr|]; [|discriminate].
  intros H. apply mapM_Forall2 in H.
  eapply Forall2_fst; [|exact H]. intros c p. apply outcol_fst.
Qed.

Lemma frame_col_length fr c col : frame_col V fr c = Ok col -> length col = length (rows V fr).
Proof.
  unfold frame_col. destruct (index_of c (header V fr)); [|discriminate].
  destruct (sequence _) eqn:E; [|discriminate]. intros [= <-].
  apply sequence_Forall2 in E. symmetry. eapply Forall2_length'; eauto.
Qed.

Theorem cond_all_columns_in_order kind n conds out :
  smp kind n (Some conds) = Ok out ->
  map fst out = columns /\ Forall (fun p => length (snd p) = n) out.
Proof.
  intros H. split; [eapply cond_all_columns_in_order_header; eauto|].
  destruct (sample_inv _ _ _ _ H) as (nc & _ & _ & _ & HF).
  clear H. induction HF as [|c p cs ps Hc _ IH]; constructor; auto.
  unfold output_column, bind in Hc.
  destruct (lookup c conds).
  - inversion Hc; subst. simpl. apply repeat_length.
  - destruct (frame_col _ _ _) eqn:E; [|discriminate]. inversion Hc; subst. simpl.
    rewrite map_length. apply frame_col_length in E. simpl in E.
    rewrite E. apply draw_of_shape.
Qed.

(* reading the result back by label *)
Lemma out_lookup (f : label -> result (label * list V)) cs out :
  (forall c p, f c = Ok p -> fst p = c) ->
  Forall2 (fun c p => f c = Ok p) cs out ->
  forall c, In c cs -> exists x, lookup c out = Some x /\ f c = Ok (c, x).
Proof.
  intros Hf HF. induction HF as [|c0 p cs ps Hc _ IH]; simpl; [tauto|].
  intros c Hin. destruct p as [k x]. pose proof (Hf _ _ Hc) as Hk. simpl in Hk. subst k.
  destruct (Nat.eqb c c0) eqn:E.
  - apply Nat.eqb_eq in E. subst. eauto.
  - apply Nat.eqb_neq in E. destruct Hin as [?|Hin]; [congruence|]. auto.
Qed.

(* every conditioned column holds the given value in all n rows (dict or Series) *)
Theorem cond_fixed_columns kind n conds out c v :
  smp kind n (Some conds) = Ok out ->
  In c columns -> lookup c conds = Some v ->
  lookup c out = Some (repeat v n).
Proof.
  intros H Hin Hl.
  destruct (sample_inv _ _ _ _ H) as (nc & _ & _ & _ & HF).
  destruct (out_lookup _ _ _ (fun c p => outcol_fst _ _ _ _ c p) HF c Hin) as (x & Hx & Hc).
  rewrite Hx. unfold output_column in Hc. rewrite Hl in Hc. congruence.
Qed.

(* dict form: for every item (c, v) of the conditions *)
Corollary cond_fixed_columns_items kind n conds out c v :
  NoDup (map fst conds) ->
  smp kind n (Some conds) = Ok out ->
  In (c, v) conds -> In c columns ->
  lookup c out = Some (repeat v n).
Proof. intros ND H Hi Hc. eapply cond_fixed_columns; eauto. now apply lookup_NoDup. Qed.

(* a sampled column c is ppf_c (Phi (.)) of THE component of the draw labelled c *)
Theorem cond_sampled_by_label kind n conds out c :
  smp kind n (Some conds) = Ok out ->
  In c columns -> lookup c conds = None ->
  exists nc i col,
    ncond conds = Ok nc /\
    nth_error (cols1_of nc) i = Some c /\
    Forall2 (fun row x => nth_error row i = Some x) (draw_of n nc) col /\
    lookup c out = Some (map (fun x => ppf c (Phi x)) col).
Proof.
  intros H Hin Hl.
  destruct (sample_inv _ _ _ _ H) as (nc & Hnc & _ & _ & HF).
  destruct (out_lookup _ _ _ (fun c p => outcol_fst _ _ _ _ c p) HF c Hin) as (x & Hx & Hc).
  unfold output_column, bind in Hc. rewrite Hl in Hc.
  unfold frame_col in Hc. simpl in Hc.
  destruct (index_of c (cols1_of nc)) as [i|] eqn:Ei; [|discriminate].
  destruct (sequence _) as [col|] eqn:Es; [|discriminate].
  inversion Hc; subst. exists nc, i, col. repeat split; auto.
  - now apply index_of_nth.
  - now apply sequence_Forall2 in Es.
Qed.

(* the free columns of the draw are exactly the training columns without a condition *)
Theorem cond_free_columns kind n conds out :
  smp kind n (Some conds) = Ok out ->
  exists nc, ncond conds = Ok nc /\
    forall c, In c (cols1_of nc) <-> In c columns /\ lookup c conds = None.
Proof.
  intros H. destruct (sample_inv _ _ _ _ H) as (nc & Hnc & Hk & _ & _).
  exists nc. split; auto. now apply cols1_known.
Qed.

(* KeyError is unreachable: the labels handed to .loc are training columns *)
Theorem cond_no_key_error kind n conds l : smp kind n (Some conds) <> Err (KeyError l).
Proof.
  unfold sample, normal_samples. unfold bind at 1 2.
  destruct (ncond conds) as [nc|] eqn:Enc.
  - rewrite (normal_conditions_keys _ _ Enc), first_unknown_known.
    destruct (cond_params _ _) as [mu Sg].
    assert (Hfr : forall fr c e, frame_col V fr c = Err e ->
              In c (header V fr) -> Forall (fun r => length r = length (header V fr)) (rows V fr) -> False).
    { intros fr c e Hc Hin Hr. unfold frame_col in Hc.
      destruct (index_of_In _ _ Hin) as [i Hi]. rewrite Hi in Hc.
      pose proof (index_of_nth _ _ _ Hi) as Hn.
      assert (Hilt : (i < length (header V fr))%nat) by (apply nth_error_Some; congruence).
      destruct (sequence _) eqn:Es; [discriminate|].
      clear - Hr Hilt Es. induction (rows V fr) as [|row rs IHr]; [discriminate|].
      inversion Hr; subst. simpl in Es. destruct (nth_error row i) eqn:En.
      - destruct (sequence (map (fun r => nth_error r i) rs)); [discriminate|]. auto.
      - apply nth_error_None in En. lia. }
    destruct (cols1_of nc) as [|c0 r0] eqn:Ec; [discriminate|]. rewrite <- Ec.
    unfold mk_frame. destruct (forallb _ _) eqn:Efb; [|discriminate].
    unfold bind. intros Hm.
    assert (Hrows : Forall (fun r => length r = length (cols1_of nc)) (mvn mu Sg n)).
    { apply Forall_forall. intros r Hr. rewrite forallb_forall in Efb. now apply Nat.eqb_eq, Efb. }
    clear Efb. apply mapM_err_inv in Hm. destruct Hm as (c & Hc & Eo).
    unfold output_column, bind in Eo.
    destruct (lookup c conds) eqn:El; [discriminate|].
    destruct (frame_col _ _ _) eqn:Ef; [discriminate|]. inversion Eo; subst.
    eapply Hfr; [exact Ef| |exact Hrows]. simpl.
    apply (cols1_known conds nc (normal_conditions_keys _ _ Enc)). split; auto.
  - unfold normal_conditions, bind, transform_conditions in Enc.
    destruct (transform_known_gen conds columns) as [_ H2].
    destruct (flat_map _ columns) eqn:E; [inversion Enc; discriminate|].
    unfold relabel, known in Enc. rewrite H2, Nat.eqb_refl in Enc. discriminate.
Qed.

(* conditioning on every training column raises (numpy cannot draw a 0-dimensional
   normal): the draw needs at least one free column *)
Theorem cond_all_columns_conditioned_raises kind n conds :
  (forall c, In c columns -> In c (keys conds)) ->
  forall out, smp kind n (Some conds) <> Ok out.
Proof.
  intros Hall out H.
  destruct (sample_inv _ _ _ _ H) as (nc & Hnc & Hk & Hne & _).
  destruct (cols1_of nc) as [|c0 r0] eqn:E; [congruence|].
  assert (Hin : In c0 (cols1_of nc)) by (rewrite E; now left).
  apply (cols1_known conds nc Hk) in Hin. destruct Hin as [H1 H2].
  apply lookup_None in H2. apply H2, Hall, H1.
Qed.

(* ---------------- success on the property's quantifier (and beyond) ---------- *)

Theorem cond_sample_ok kind n conds :
  (exists c v, In c columns /\ lookup c conds = Some v) ->
  (exists c, In c columns /\ lookup c conds = None) ->
  exists out, smp kind n (Some conds) = Ok out.
Proof.
  intros (ck & vk & Hk1 & Hk2) (cfree & Hf1 & Hf2).
  destruct (transform_known_gen conds columns) as [H1 H2].
  unfold sample, normal_samples, normal_conditions, transform_conditions.
  destruct (flat_map (fun c => match lookup c conds with Some v => [score c v] | None => [] end) columns)
    as [|u U] eqn:EU.
  { exfalso. clear - EU Hk1 Hk2. induction columns as [|c cs IH]; [destruct Hk1|].
    simpl in EU. destruct Hk1 as [->|Hin].
    - rewrite Hk2 in EU. discriminate.
    - destruct (lookup c conds); [discriminate|]. auto. }
  unfold bind at 3. unfold relabel. unfold known at 1. rewrite H2, Nat.eqb_refl. unfold bind at 2.
  set (nc := combine (knownc conds) (u :: U)).
  assert (Hk : map fst nc = knownc conds).
  { apply combine_fst. unfold known. now rewrite H2. }
  rewrite Hk, first_unknown_known.
  pose proof (draw_of_shape n nc) as [Hd1 Hd2]. unfold draw_of in Hd1, Hd2.
  destruct (cond_params (cols1_of nc) nc) as [mu Sg].
  assert (Hfree : In cfree (cols1_of nc)) by (apply (cols1_known conds nc Hk); auto).
  destruct (cols1_of nc) as [|c0 r0] eqn:Ecols; [destruct Hfree|].
  rewrite <- Ecols in *.
  unfold mk_frame.
  assert (Hfb : forallb (fun r => Nat.eqb (length r) (length (cols1_of nc))) (mvn mu Sg n) = true).
  { apply forallb_forall. intros r Hr. rewrite Forall_forall in Hd2.
    apply Nat.eqb_eq. auto. }
  rewrite Hfb. unfold bind.
  assert (Hall : forall cs, incl cs columns ->
            exists out, mapM (outcol kind n (Some conds)
                               (mkFrame V (cols1_of nc) (mvn mu Sg n))) cs = Ok out).
  { induction cs as [|c cs IH]; intros Hi; [exists []; reflexivity|].
    destruct IH as [out' Ho]; [intros x Hx; apply Hi; now right|].
    assert (Hcc : exists p, outcol kind n (Some conds)
                     (mkFrame V (cols1_of nc) (mvn mu Sg n)) c = Ok p).
    { unfold output_column.
      destruct (lookup c conds) eqn:El; [eauto|].
      assert (Hin : In c (cols1_of nc)).
      { apply (cols1_known conds nc Hk). split; auto. apply Hi. now left. }
      unfold frame_col. simpl header. simpl rows.
      destruct (index_of_In _ _ Hin) as [i Hi']. rewrite Hi'.
      pose proof (index_of_nth _ _ _ Hi') as Hn.
      assert (Hilt : (i < length (cols1_of nc))%nat) by (apply nth_error_Some; congruence).
      assert (Hseq : exists col, sequence (map (fun r1 => nth_error r1 i) (mvn mu Sg n)) = Some col).
      { clear - Hd2 Hilt. induction (mvn mu Sg n) as [|row rs IHr]; [exists []; reflexivity|].
        inversion Hd2; subst. destruct (IHr H2) as [col Hcol].
        simpl. destruct (nth_error row i) eqn:En.
        - rewrite Hcol. eauto.
        - apply nth_error_None in En. lia. }
      destruct Hseq as [col ->]. unfold bind. eauto. }
    destruct Hcc as [p Hp]. exists (p :: out'). cbn [mapM]. rewrite Hp. cbn [bind]. rewrite Ho. reflexivity. }
  apply Hall, incl_refl.
Qed.

End Proofs.

(* cond_caller_unmodified: the model is functional; [conds] is an immutable argument and
   `pd.Series(conditions)` builds a new object in the Python.  Nothing to prove: every
   theorem above mentions the same [conds] before and after the call. *)

(* ------------------------------------------------------------------ *)
(* Instantiation with the concrete sort, non-vacuity                    *)

Lemma demo_mvn_shape mu Sg n :
  length (Demo.mvn mu Sg n) = n /\ Forall (fun r => length r = length mu) (Demo.mvn mu Sg n).
Proof.
  unfold Demo.mvn. split.
  - now rewrite map_length, seq_length.
  - apply Forall_forall. intros r Hr. apply in_map_iff in Hr. destruct Hr as (k & <- & _).
    apply map_length.
Qed.

Lemma demo_cond_params_shape cols1 nc :
  length (fst (Demo.cond_params cols1 nc)) = length cols1.
Proof. apply map_length. Qed.

Lemma demo_columns_nodup : NoDup [2; 0; 1].
Proof. repeat constructor; simpl; intuition discriminate. Qed.

(* the preconditions of cond_sample_ok are satisfiable, and its conclusion is the
   evaluated result *)
Example cond_sample_ok_nonvacuous :
  exists out, Demo.run Dict [2; 0; 1] 2 (Some [(0, 7)]) = Ok out.
Proof.
  apply (cond_sample_ok nat isort Demo.score Demo.ppf Demo.Phi Demo.cond_params
           (Demo.uncond [2;0;1]) Demo.mvn [2;0;1]
           isort_perm demo_mvn_shape demo_cond_params_shape).
  - exists 0, 7. simpl; auto.
  - exists 2. simpl. auto.
Qed.

Example cond_fixed_columns_nonvacuous out :
  Demo.run Series [2; 0; 1] 2 (Some [(0, 7)]) = Ok out -> lookup 0 out = Some [7; 7].
Proof.
  intros H. unfold Demo.run in H. change [7; 7] with (repeat 7 2).
  eapply cond_fixed_columns; [exact H| |].
  - simpl; auto.
  - reflexivity.
Qed.

(* the former F19 witness: training order [2;0;1], conditions {0: 7, 2: 5} in either order give every
   label its own score *)
Example cond_scores_by_label_witness :
  normal_conditions nat Demo.score [2; 0; 1] [(0, 7); (2, 5)] = Ok [(2, Demo.score 2 5); (0, Demo.score 0 7)] /\
  normal_conditions nat Demo.score [2; 0; 1] [(2, 5); (0, 7)] = Ok [(2, Demo.score 2 5); (0, Demo.score 0 7)].
Proof. split; reflexivity. Qed.

(* with a cond_params oracle that reads the labelled scores, the two orders give the same sample
   (they differed before fa9ce3f) *)
Definition cp_reads_scores (cols1 : list label) (nc : list (label * nat)) :=
  (map (fun c => fold_right (fun kv acc => (S (fst kv)) * snd kv + acc) 0 nc) cols1,
   @nil (list nat)).

Example cond_dict_order_irrelevant_witness :
  sample nat isort Demo.score Demo.ppf Demo.Phi cp_reads_scores (Demo.uncond [2;0;1])
         Demo.mvn [2;0;1] Dict 1 (Some [(2, 5); (0, 7)])
  =
  sample nat isort Demo.score Demo.ppf Demo.Phi cp_reads_scores (Demo.uncond [2;0;1])
         Demo.mvn [2;0;1] Dict 1 (Some [(0, 7); (2, 5)]).
Proof. reflexivity. Qed.

(* a label that is not a training column is ignored; alone it leaves nothing to condition on *)
Example cond_unknown_label_example :
  Demo.run Dict [2; 0; 1] 2 (Some [(9, 7); (0, 1)]) = Demo.run Dict [2; 0; 1] 2 (Some [(0, 1)]) /\
  Demo.run Dict [2; 0; 1] 2 (Some [(9, 7)]) = Err ValueError_no_arrays.
Proof. split; reflexivity. Qed.

(* the empty dict is not "no conditions": it raises *)
Example cond_empty_dict_raises :
  Demo.run Dict [2; 0; 1] 2 (Some []) = Err ValueError_no_arrays.
Proof. reflexivity. Qed.

Print Assumptions cond_fixed_columns.
Print Assumptions cond_all_columns_in_order.
Print Assumptions cond_sampled_by_label.
Print Assumptions columns1_spec.
Print Assumptions cond_sample_ok.
Print Assumptions cond_scores_by_label.
Print Assumptions cond_dict_order_irrelevant.
Print Assumptions cond_series_equivalent.
Print Assumptions cond_unknown_label_ignored.
Print Assumptions cond_no_known_label_raises.
Print Assumptions cond_no_key_error.
Print Assumptions cond_all_columns_conditioned_raises.
