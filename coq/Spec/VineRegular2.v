(* R-vine, second tree: unconditional results.
   - distinct edges of the first (Prim) tree join distinct pairs,
   - (g, both directions at level 2) two first-level edges pass
     _check_constraint(level 2) iff they are different and share a variable,
   - the level-2 constraint graph (line graph of the first tree) is connected,
     hence RegularTree._build_kth_tree for tree 2 ALWAYS succeeds
     (regular_second_tree_ok), for every tau and every set-iteration order. *)
From Coq Require Import List Arith ZArith QArith Lia Bool Permutation Sorting.Sorted.
From Cop Require Import Lib.FinGraph Model.Vine Spec.VineDefs Spec.VineSets
     Spec.VineSort Spec.VineCenter Spec.VineDirect Spec.VineRegular
     Spec.VinePySort Spec.VineValid.
Import ListNotations.
Open Scope nat_scope.

Lemma In_firstn_le {A} (l : list A) p q x :
  p <= q -> In x (firstn p l) -> In x (firstn q l).
Proof.
  revert l q. induction p as [|p IH]; intros l q Hpq H; [destruct l; destruct H|].
  destruct q as [|q]; [lia|]. destruct l as [|a l]; [destruct H|].
  simpl in *. destruct H as [H|H]; auto. right. apply IH; auto. lia.
Qed.

Lemma nth_error_In_firstn {A} (l : list A) p q x :
  p < q -> nth_error l p = Some x -> In x (firstn q l).
Proof.
  revert l q. induction p as [|p IH]; intros [|a l] [|q] Hpq H; simpl in *;
    try discriminate; try lia.
  - injection H as <-. auto.
  - right. apply IH; auto. lia.
Qed.

(* ---------- distinct steps of a Prim trace join distinct pairs ---------- *)
Section TracePairs.
  Variables (sel : sel_t) (n : nat) (ok : nat -> nat -> bool)
            (key : nat * nat -> option Q) (order : order_t).
  Hypothesis Hsel_in : sel_in sel.
  Hypothesis Horder : perm_fun order.

  Lemma trace_pairs_distinct tr V p q tp tq :
    trace_all (step_ok sel n ok key order) V tr ->
    p < q -> nth_error tr p = Some tp -> nth_error tr q = Some tq ->
    norm (tpair tp) <> norm (tpair tq).
  Proof.
    intros Htr Hpq Hp Hq E.
    pose proof (trace_all_nth _ _ _ _ _ Htr Hp) as Hsp.
    pose proof (trace_all_nth _ _ _ _ _ Htr Hq) as Hsq.
    pose proof (step_ok_cand sel n ok key order Hsel_in Horder _ _ Hsp) as (Hxp & _ & _ & _).
    pose proof (step_ok_cand sel n ok key order Hsel_in Horder _ _ Hsq) as (_ & _ & Hkq & _).
    apply Hkq.
    assert (Hk : In (thd tp) (V ++ map thd (firstn q tr))).
    { apply in_or_app. right. apply in_map. eapply nth_error_In_firstn; eauto. }
    assert (Hx : In (snd (fst tp)) (V ++ map thd (firstn q tr))).
    { apply in_app_or in Hxp. apply in_or_app. destruct Hxp as [H|H]; auto.
      right. apply in_map_iff in H. destruct H as [y [Ey Hy]].
      apply in_map_iff. exists y. split; auto.
      eapply In_firstn_le; [|exact Hy]. lia. }
    destruct tp as [[ip xp] kp], tq as [[iq xq] kq]. unfold tpair in E. simpl in *.
    apply norm_eq_cases in E. destruct E as [[-> ->]|[-> ->]]; auto.
  Qed.
End TracePairs.

Lemma NoDup_by_nth {A} (l : list A) :
  (forall p q a b, p < q -> nth_error l p = Some a -> nth_error l q = Some b -> a <> b) ->
  NoDup l.
Proof.
  intros H. apply NoDup_nth_error. intros i j Hi E.
  destruct (nth_error l i) as [a|] eqn:Ea; [|apply nth_error_None in Ea; lia].
  symmetry in E.
  destruct (Nat.lt_trichotomy i j) as [Hlt|[Heq|Hgt]]; auto.
  - exfalso. apply (H i j a a Hlt Ea E). reflexivity.
  - exfalso. apply (H j i a a Hgt E Ea). reflexivity.
Qed.

Theorem regular_first_pairs_distinct sel n tau order :
  sel_in sel -> sel_some sel -> perm_fun order -> n >= 1 ->
  NoDup (map (fun e => (e_L e, e_R e)) (regular_first_gen sel n tau order)).
Proof.
  intros Hs Hsome Ho Hn.
  destruct (regular_first_run_facts sel n tau order Hs Hsome Ho Hn) as (Htr & _).
  unfold regular_first_gen. rewrite map_map.
  set (tr := fst (fst (regular_first_run sel n tau order))) in *.
  assert (E : map (fun t => (e_L (first_edge_of t), e_R (first_edge_of t))) tr
              = map (fun t => norm (tpair t)) tr).
  { apply map_ext. intros [[i x] k]. reflexivity. }
  rewrite E. apply NoDup_by_nth. intros p q a b Hpq Ha Hb.
  rewrite nth_error_map in Ha, Hb.
  destruct (nth_error tr p) as [tp|] eqn:Ep; [|discriminate].
  destruct (nth_error tr q) as [tq|] eqn:Eq; [|discriminate].
  injection Ha as <-. injection Hb as <-.
  eapply trace_pairs_distinct; eauto.
Qed.

(* ------------------------------------------------------------------ *)
(** * (g) at level 2, both directions                                  *)
Definition edge1_plain (e : edge) : Prop := e_D e = [] /\ e_L e < e_R e.

Theorem constraint_is_proximity_level2 (a b : edge) :
  edge1_plain a -> edge1_plain b ->
  (check_constraint 2 a b = true <->
   share_first a b /\ (e_L a, e_R a) <> (e_L b, e_R b)).
Proof.
  intros [Da La] [Db Lb]. split.
  - intros H. apply check_constraint_spec in H.
    assert (HA : NoDup (U a)).
    { unfold U. rewrite Da. repeat constructor; simpl; intuition lia. }
    assert (HB : NoDup (U b)).
    { unfold U. rewrite Db. repeat constructor; simpl; intuition lia. }
    pose proof (card_union_inter _ _ HA HB) as Hc.
    assert (HLa : length (U a) = 2) by (unfold U; rewrite Da; reflexivity).
    assert (HLb : length (U b) = 2) by (unfold U; rewrite Db; reflexivity).
    assert (Hi : length (set_inter (U a) (U b)) = 1) by lia.
    destruct (set_inter (U a) (U b)) as [|m [|m' r]] eqn:E; simpl in Hi; try lia.
    assert (Hm : In m (set_inter (U a) (U b))) by (rewrite E; left; auto).
    apply In_set_inter in Hm. unfold U in Hm. rewrite Da, Db in Hm. simpl in Hm.
    split.
    + unfold share_first. intuition lia.
    + intros Heq. injection Heq as E1 E2.
      assert (In (e_L a) (set_inter (U a) (U b))) as H1.
      { apply In_set_inter. unfold U. rewrite Da, Db, E1. simpl. auto. }
      assert (In (e_R a) (set_inter (U a) (U b))) as H2.
      { apply In_set_inter. unfold U. rewrite Da, Db, E2. simpl. auto. }
      rewrite E in H1, H2. simpl in H1, H2. lia.
  - intros [Hs Hne]. apply constraint_of_proximity_first; auto.
Qed.

(* ------------------------------------------------------------------ *)
(** * The line graph of a connected first tree is connected            *)
Section LineGraph.
  Variable T : list edge.
  Hypothesis Hplain : forall e, In e T -> edge1_plain e.
  Hypothesis Hpairs : NoDup (map (fun e => (e_L e, e_R e)) T).

  Let m := length T.
  Let G := okgraph m (ok_kth 2 T).

  Definition touches (v i : nat) : Prop :=
    exists e, nth_error T i = Some e /\ (v = e_L e \/ v = e_R e).

  Lemma touch_reach v i j : touches v i -> touches v j -> reach G i j.
  Proof.
    intros (ei & Hi & Hvi) (ej & Hj & Hvj).
    destruct (Nat.eq_dec i j) as [->|Hne]; [apply reach_refl|].
    apply reach_one. left. unfold G. apply okgraph_in.
    - apply nth_error_Some. congruence.
    - apply nth_error_Some. congruence.
    - unfold ok_kth. rewrite Hi, Hj.
      apply constraint_is_proximity_level2.
      + apply Hplain. eapply nth_error_In; eauto.
      + apply Hplain. eapply nth_error_In; eauto.
      + split.
        * unfold share_first.
          destruct Hvi as [E1|E1], Hvj as [E2|E2];
            [left | right; left | right; right; left | right; right; right];
            congruence.
        * intros E. apply Hne.
          rewrite NoDup_nth_error in Hpairs. apply Hpairs.
          -- rewrite map_length. apply nth_error_Some. congruence.
          -- rewrite !nth_error_map, Hi, Hj. simpl. now rewrite E.
  Qed.

  Lemma adj_touch a b :
    adj (graph1 T) a b -> exists f, touches a f /\ touches b f.
  Proof.
    intros [H|H]; unfold graph1 in H; apply in_map_iff in H;
      destruct H as [e [E He]]; injection E as E1 E2;
      apply In_nth_error in He; destruct He as [f Hf];
      exists f; split; exists e; split; auto.
  Qed.

  Lemma line_reach a b :
    reach (graph1 T) a b ->
    forall i j, touches a i -> touches b j -> reach G i j.
  Proof.
    induction 1 as [a|a b c Hab IH Hbc]; intros i j Hi Hj.
    - eapply touch_reach; eauto.
    - destruct (adj_touch _ _ Hbc) as [f [Hbf Hcf]].
      eapply reach_trans; [apply (IH i f); auto|].
      eapply touch_reach; eauto.
  Qed.

  Theorem line_graph_connected n :
    connected n (graph1 T) -> (forall e, In e T -> e_R e < n) ->
    connected m G.
  Proof.
    intros Hconn Hlt i j Hi Hj.
    destruct (nth_error_lt_Some T i Hi) as [ei Hei].
    destruct (nth_error_lt_Some T j Hj) as [ej Hej].
    pose proof (Hplain ei (nth_error_In _ _ Hei)) as [_ Li].
    pose proof (Hplain ej (nth_error_In _ _ Hej)) as [_ Lj].
    pose proof (Hlt ei (nth_error_In _ _ Hei)) as Ri.
    pose proof (Hlt ej (nth_error_In _ _ Hej)) as Rj.
    apply (line_reach (e_L ei) (e_L ej)).
    - apply Hconn; lia.
    - exists ei. auto.
    - exists ej. auto.
  Qed.
End LineGraph.

(* ------------------------------------------------------------------ *)
(** * Tree 2 of a regular vine always exists                           *)
Theorem regular_second_tree_ok n tau1 tau2 order :
  perm_fun order -> n >= 2 ->
  let T1 := regular_first n tau1 order in
  snd (regular_kth_run pick_py (n - 2) 2 (n - 1) tau2 T1 order) = Done /\
  exists T2,
    regular_kth_opt 2 (n - 1) tau2 T1 order = Some T2 /\
    length T2 = n - 2 /\ idx_ok T2 /\ is_tree (n - 1) (par_graph T2) /\
    (forall c, In c T2 -> child_edge_ok 0 T1 c) /\
    Uinv 3 T2.
Proof.
  intros Ho Hn T1.
  destruct (regular_first_spanning pick_py n tau1 order pick_py_sel_in pick_py_sel_some
                                   Ho ltac:(lia)) as (_ & HL & Hidx & Hedges & Htree).
  pose proof (regular_first_pairs_distinct pick_py n tau1 order pick_py_sel_in
                                           pick_py_sel_some Ho ltac:(lia)) as Hpairs.
  fold (regular_first n tau1 order) in *. fold T1 in HL, Hidx, Hedges, Htree, Hpairs.
  assert (Hplain : forall e, In e T1 -> edge1_plain e).
  { intros e He. destruct (Hedges e He) as (H1 & _ & H3). split; auto; lia. }
  assert (HU : Uinv 2 T1).
  { intros e He. destruct (Hplain e He) as [HD HLR]. unfold U. rewrite HD.
    split; [repeat constructor; simpl; intuition lia | reflexivity]. }
  assert (Hconn : connected (n - 1) (okgraph (n - 1) (ok_kth 2 T1))).
  { rewrite <- HL. apply (line_graph_connected T1 Hplain Hpairs n).
    - apply Htree.
    - intros e He. destruct (Hedges e He) as (_ & _ & H). lia. }
  destruct (regular_kth_progress pick_py 2 (n - 1) tau2 T1 order pick_py_sel_in
              pick_py_sel_some Ho ltac:(lia) ltac:(lia) HU Hconn)
    as (Hdone & T2 & Hrun & HL2 & Hidx2 & Htree2 & _ & Hch & HU2).
  replace (n - 1 - 1) with (n - 2) in * by lia.
  split; [exact Hdone|]. exists T2.
  split; [exact Hrun|]. split; [exact HL2|]. split; [exact Hidx2|].
  split; [exact Htree2|]. split; [|exact HU2].
  intros c Hc. destruct (Hch c Hc) as ((i & j & a & b & Hp & Hij & Ha & Hb & Hg) & HD).
  (* the chosen parents passed the constraint, hence share a variable *)
  destruct (regular_kth_sound pick_py 2 (n - 1) tau2 T1 order T2 pick_py_sel_in Ho
                              ltac:(lia) ltac:(lia) Hrun) as (_ & _ & _ & _ & Hsound).
  destruct (Hsound c Hc) as (i' & j' & a' & b' & Hp' & _ & Ha' & Hb' & _ & Hck).
  assert (i' = i /\ j' = j) as [-> ->] by (split; congruence).
  assert (a' = a) by congruence. assert (b' = b) by congruence. subst a' b'.
  apply (get_child_edge_ok 0 T1 c i j a b); auto.
  simpl. apply constraint_is_proximity_level2 in Hck.
  - apply Hck.
  - apply Hplain. eapply nth_error_In; eauto.
  - apply Hplain. eapply nth_error_In; eauto.
Qed.

Print Assumptions regular_second_tree_ok.
Print Assumptions constraint_is_proximity_level2.
