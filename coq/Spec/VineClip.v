(* C17, part 6: the "correction of 0 or 1" in Tree.prepare_next_tree
   (Model/VineData.clip_h): stored U entries are strictly inside (0,1). *)
From Coq Require Import QArith Lqa.
From Cop Require Import Model.VineData.
Open Scope Q_scope.

(* EPSILON = np.finfo(np.float32).eps = 2^-23 *)
Definition EPSILON_Q : Q := 1 # 8388608.

Theorem clipping eps x :
  0 < eps -> eps < 1 -> 0 <= x <= 1 ->
  0 < clip_h eps x < 1 /\
  (x == 0 -> clip_h eps x == eps) /\
  (x == 1 -> clip_h eps x == 1 - eps) /\
  (~ x == 0 -> ~ x == 1 -> clip_h eps x == x).
Proof.
  intros He0 He1 [Hx0 Hx1]. unfold clip_h.
  destruct (Qeq_bool x 0) eqn:E0.
  - apply Qeq_bool_iff in E0.
    destruct (Qeq_bool eps 1) eqn:E1.
    + apply Qeq_bool_iff in E1. lra.
    + repeat split; try lra; intros; lra.
  - apply Qeq_bool_neq in E0.
    destruct (Qeq_bool x 1) eqn:E1.
    + apply Qeq_bool_iff in E1. repeat split; try lra; intros; lra.
    + apply Qeq_bool_neq in E1. repeat split; try lra; intros; try lra.
Qed.

(* the library's constant *)
Corollary clipping_EPSILON x :
  0 <= x <= 1 -> 0 < clip_h EPSILON_Q x < 1.
Proof.
  intros H. apply clipping; auto; unfold EPSILON_Q; lra.
Qed.

(* non-vacuity / the two corner values *)
Example clip_zero : clip_h EPSILON_Q 0 == EPSILON_Q.
Proof. vm_compute. reflexivity. Qed.
Example clip_one : clip_h EPSILON_Q 1 == 1 - EPSILON_Q.
Proof. vm_compute. reflexivity. Qed.
Example clip_half : clip_h EPSILON_Q (1 # 2) == 1 # 2.
Proof. vm_compute. reflexivity. Qed.

(* without the hypothesis h in [0,1] nothing is guaranteed: a slightly
   negative finite-difference value is stored as it is *)
Example clip_negative : clip_h EPSILON_Q (- (1 # 1000)) == - (1 # 1000).
Proof. vm_compute. reflexivity. Qed.

Print Assumptions clipping.
