(* C20 -- entry-point form of the soundness theorem: the generated effect program of a
   public function has its EXPLICIT parameters first (variables 0..m-1), followed by implicit
   ones (attributes of self read by the method).  If the analysis reports "not written" for
   the explicit prefix, the caller's argument objects are bit-for-bit unchanged after the call,
   for every oracle (view/copy decisions of numpy/pandas) and every call depth. *)
From Coq Require Import ZArith List Bool Arith Lia.
From Cop Require Import Model.Alias Spec.AliasProofs.
Import ListNotations.

Definition explicit_verdict (ft : funtable) (fuel : nat) (f : func) (m : nat) : list bool :=
  firstn m (writes_fun ft fuel f).

Lemma nth_repeat_false : forall m k d, k < m -> nth k (repeat false m) d = false.
Proof.
  induction m as [|m IH]; intros k d H; [lia|].
  destruct k; simpl; [reflexivity|]. apply IH. lia.
Qed.

Lemma exec_fun_store_grows ft fe f (o : oracle) (actuals : store) :
  length actuals <= length (snd (exec_fun o ft fe f actuals)).
Proof.
  unfold exec_fun, exec, exec_full.
  pose proof (run_len _ (callexec_len ft fe) (snd f) o (init_env (fst f)) actuals) as H.
  destruct (run (callexec ft fe) (snd f) (o, init_env (fst f), actuals)) as [[o1 e1] s1].
  exact H.
Qed.

Theorem exec_fun_pure_prefix :
  forall ft fa fe f (o : oracle) (actuals : store) m,
    m <= fst f -> m <= length actuals ->
    explicit_verdict ft fa f m = repeat false m ->
    firstn m (snd (exec_fun o ft fe f actuals)) = firstn m actuals.
Proof.
  intros ft fa fe f o actuals m Hm Hl Hv. unfold explicit_verdict in Hv.
  pose proof (exec_fun_store_grows ft fe f o actuals) as Hge.
  apply nth_ext with (d := []) (d' := []).
  - rewrite !firstn_length. lia.
  - intros k Hk. rewrite firstn_length in Hk.
    assert (Hkm : k < m) by lia.
    rewrite !nth_firstn_lt by exact Hkm.
    apply (exec_fun_sound ft fa fe f o actuals k); [lia | lia |].
    rewrite <- (nth_firstn_lt true m k (writes_fun ft fa f) Hkm).
    rewrite Hv. now apply nth_repeat_false.
Qed.
Print Assumptions exec_fun_pure_prefix.

(* the same, one argument at a time *)
Theorem exec_fun_arg_unchanged :
  forall ft fa fe f (o : oracle) (actuals : store) m k,
    k < m -> m <= fst f -> m <= length actuals ->
    nth k (explicit_verdict ft fa f m) true = false ->
    content (snd (exec_fun o ft fe f actuals)) k = content actuals k.
Proof.
  intros ft fa fe f o actuals m k Hk Hm Hl Hv. unfold explicit_verdict in Hv.
  rewrite nth_firstn_lt in Hv by exact Hk.
  apply (exec_fun_sound ft fa fe f o actuals k); [lia | lia | exact Hv].
Qed.
Print Assumptions exec_fun_arg_unchanged.

(* a flagged parameter of a concrete program: the write is exhibited by running the program *)
Fixpoint zlist_eqb (a b : list Z) : bool :=
  match a, b with
  | [], [] => true
  | x :: a', y :: b' => Z.eqb x y && zlist_eqb a' b'
  | _, _ => false
  end.

Lemma zlist_eqb_eq : forall a b, zlist_eqb a b = true <-> a = b.
Proof.
  induction a as [|x a IH]; destruct b as [|y b]; simpl; split; intros H; try reflexivity; try discriminate.
  - apply andb_true_iff in H. destruct H as [H1 H2]. apply Z.eqb_eq in H1. apply IH in H2. now subst.
  - inversion H; subst. apply andb_true_iff. split; [apply Z.eqb_refl | now apply IH].
Qed.

Definition mutated (ft : funtable) (fuel : nat) (f : func) (o : oracle) (actuals : store) (k : nat) : bool :=
  negb (zlist_eqb (content (snd (exec_fun o ft fuel f actuals)) k) (content actuals k)).

Lemma mutated_true ft fuel f o actuals k :
  mutated ft fuel f o actuals k = true ->
  content (snd (exec_fun o ft fuel f actuals)) k <> content actuals k.
Proof.
  unfold mutated. intros H E. apply negb_true_iff in H.
  apply (proj2 (zlist_eqb_eq _ _)) in E. congruence.
Qed.

(* the standard test store: argument i holds the one-element content [i] *)
Definition unit_store (n : nat) : store := map (fun i => [Z.of_nat i]) (seq 0 n).

Lemma unit_store_length n : length (unit_store n) = n.
Proof. unfold unit_store. now rewrite map_length, seq_length. Qed.

(* non-vacuity on the hand-written idioms *)
Example prefix_nonvacuous :
  firstn 1 (snd (exec_fun [true] lib_table 5 p_vine_fit (unit_store 1))) = firstn 1 (unit_store 1).
Proof. apply (exec_fun_pure_prefix lib_table 5 5 p_vine_fit); simpl; try lia. reflexivity. Qed.
Example mutated_nonvacuous : mutated lib_table 5 p_bisect [] (unit_store 2) 1 = true.
Proof. vm_compute. reflexivity. Qed.
