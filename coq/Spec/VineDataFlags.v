(* C17, part 3: which edges are (hereditarily) good: levels 1-2 always, every
   tree whose parents share one conditioning set (all of a C-vine). *)
From Coq Require Import List Arith ZArith QArith Lia Bool Permutation Sorting.Sorted.
From Cop Require Import Lib.FinGraph Model.Vine Model.VineData
     Spec.VineDefs Spec.VineSets Spec.VineCenter Spec.VineDataProv Spec.VineDataChain.
Import ListNotations.
Open Scope nat_scope.

Definition sameD (T : list edge) : Prop :=
  forall a b, In a T -> In b T -> e_D a = e_D b.

Definition all_true (g : list bool) : Prop := forall i, i < length g -> nth i g false = true.

Lemma all_true_map {A} (l : list A) : all_true (map (fun _ => true) l).
Proof.
  intros i Hi. rewrite map_length in Hi. revert i Hi.
  induction l as [|a l IH]; intros [|i] Hi; simpl in *; try lia; auto.
  apply IH. lia.
Qed.

Lemma hgood_tree_length prev gprev T : length (hgood_tree prev gprev T) = length T.
Proof. unfold hgood_tree. apply map_length. Qed.

Lemma hgood_tree_all prev gprev T t :
  sstep t prev T -> (forall a, In a prev -> wf_edge a) -> sameD prev ->
  length gprev = length prev -> all_true gprev ->
  all_true (hgood_tree prev gprev T).
Proof.
  intros Hst Hwf HsD HL Hg i Hi. rewrite hgood_tree_length in Hi.
  destruct (nth_error T i) as [c|] eqn:Ec.
  2: { apply nth_error_None in Ec. lia. }
  rewrite (hgood_tree_nth _ _ _ _ _ Ec). simpl.
  assert (Hin : In c T) by (eapply nth_error_In; eauto).
  destruct (Hst c Hin) as (pi & pj & a & b & Hp & Ha & Hb & Hkey & Hid).
  rewrite Hp, Ha, Hb.
  assert (Hina : In a prev) by (eapply nth_error_In; eauto).
  assert (Hinb : In b prev) by (eapply nth_error_In; eauto).
  destruct (good_sameD a b _ _ _ (Hwf a Hina) (Hwf b Hinb) (HsD a b Hina Hinb) Hkey Hid)
    as [H1 H2].
  rewrite (proj2 (goodb_spec a b c) (conj H1 H2)).
  rewrite !Hg; auto.
  - rewrite HL. apply nth_error_Some. congruence.
  - rewrite HL. apply nth_error_Some. congruence.
Qed.

Lemma hgood_rest_all : forall ts t prev gprev,
  chain sstep t prev ts -> (forall a, In a prev -> wf_edge a) ->
  sameD prev -> (forall T, In T ts -> sameD T) ->
  length gprev = length prev -> all_true gprev ->
  forall k g, nth_error (hgood_rest prev gprev ts) k = Some g -> all_true g.
Proof.
  induction ts as [|T r IH]; intros t prev gprev Hch Hwf Hs Hss HL Hg k g Hk.
  - destruct k; discriminate.
  - destruct Hch as [Hst Hch]. simpl in Hk.
    assert (H0 : all_true (hgood_tree prev gprev T)) by (eapply hgood_tree_all; eauto).
    destruct k as [|k]; simpl in Hk.
    + injection Hk as <-. exact H0.
    + apply (IH (S t) T (hgood_tree prev gprev T)) with (k := k); auto.
      * intros a Ha. eapply sorted_child_wf. apply Hst; auto.
      * apply Hss. left; auto.
      * intros T' HT'. apply Hss. right; auto.
      * apply hgood_tree_length.
Qed.

(* ---------- the C-vine: one conditioning set per tree ---------- *)
Lemma cchain_sameD : forall ts K x,
  cchain K x ts ->
  forall T, In T ts -> forall a b, In a T -> In b T ->
  forall v, In v (e_D a) <-> In v (e_D b).
Proof.
  induction ts as [|T' r IH]; intros K x Hc T HT a b Ha Hb v.
  - destruct HT.
  - destruct Hc as (x' & _ & _ & HD & Hc). destruct HT as [<-|HT].
    + rewrite (HD a Ha v), (HD b Hb v). tauto.
    + eapply IH; eauto.
Qed.

Lemma chain_sameD_incr : forall ts t prev,
  chain sstep t prev ts ->
  (forall T, In T ts -> forall a b, In a T -> In b T ->
             forall v, In v (e_D a) <-> In v (e_D b)) ->
  forall T, In T ts -> sameD T.
Proof.
  induction ts as [|T' r IH]; intros t prev Hch H T HT a b Ha Hb.
  - destruct HT.
  - destruct Hch as [Hst Hch]. destruct HT as [<-|HT].
    + pose proof (sorted_child_wf _ _ (Hst a Ha)) as (_ & Hia & _).
      pose proof (sorted_child_wf _ _ (Hst b Hb)) as (_ & Hib & _).
      apply incr_ext_eq; auto. apply (H T'); auto. left; auto.
    + apply (IH (S t) T' Hch) with (T := T); auto.
      intros T0 HT0. apply H. right; auto.
Qed.
