(* C17, part 5: the row sampler VineCopula._sample_row / sample.

   4. sample_row_covers: on a fitted vine (tree 1 a spanning tree, truncated >= 1)
      the traversal raises no exception and assigns every variable exactly once,
      whatever first_ind is; sample_shape: n rows x the training columns.
   5. two_columns: the d = 2 sampler, both values of first_ind, and the
      collapse of the upper 1 % of the conditional law by the clip to 0.99. *)
From Coq Require Import List Arith ZArith QArith Lia Bool Permutation Sorting.Sorted.
From Cop Require Import Lib.FinGraph Model.Vine Model.VineData
     Spec.VineDefs Spec.VineSets Spec.VineCenter Spec.VineValid Spec.VineDfs.
Import ListNotations.
Open Scope nat_scope.

(* ------------------------------------------------------------------ *)
(** * The neighbour lists of tree 1                                    *)
Lemma In_nbrs1 n T v w :
  In w (nbrs1 n T v) <->
  w < n /\ exists e, In e T /\ ((e_L e = v /\ e_R e = w) \/ (e_R e = v /\ e_L e = w)).
Proof.
  unfold nbrs1. rewrite filter_In, in_seq, existsb_exists. split.
  - intros [Hw [e [He Hb]]]. split; [lia|]. exists e. split; auto.
    rewrite orb_true_iff, !andb_true_iff, !Nat.eqb_eq in Hb. exact Hb.
  - intros [Hw [e [He Hb]]]. split; [lia|]. exists e. split; auto.
    rewrite orb_true_iff, !andb_true_iff, !Nat.eqb_eq. exact Hb.
Qed.

Section Nb.
  Variables (n : nat) (T : list edge).
  Hypothesis Htree : is_tree n (graph1 T).
  Hypothesis HLR : forall e, In e T -> e_L e < e_R e.

  Lemma nb1_adj v w : In w (nbrs1 n T v) -> adj (graph1 T) v w.
  Proof.
    rewrite In_nbrs1. intros [_ [e [He [[<- <-]|[<- <-]]]]]; unfold adj, graph1.
    - left. apply in_map_iff. exists e. auto.
    - right. apply in_map_iff. exists e. auto.
  Qed.

  Lemma nb1_complete v w : v < n -> adj (graph1 T) v w -> In w (nbrs1 n T v).
  Proof.
    intros Hv Ha. destruct Htree as (Hn & _). rewrite In_nbrs1.
    destruct Ha as [H|H]; pose proof (Hn _ _ H) as [H1 H2];
      unfold graph1 in H; apply in_map_iff in H; destruct H as [e [E He]];
      injection E as <- <-; (split; [auto|]); exists e; auto.
  Qed.

  Lemma nb1_nodup v : NoDup (nbrs1 n T v).
  Proof. unfold nbrs1. apply NoDup_filter, seq_NoDup. Qed.

  Lemma nb1_irrefl v : ~ In v (nbrs1 n T v).
  Proof.
    rewrite In_nbrs1. intros [_ [e [He [[H1 H2]|[H1 H2]]]]]; specialize (HLR e He); lia.
  Qed.
End Nb.

(* ------------------------------------------------------------------ *)
(** * sample_loop follows the pure traversal                           *)
Lemma sample_loop_dfs : forall fuel trees trunc n X V tmp out o vis,
  sample_loop fuel trees trunc n X V tmp out = Some (o, vis) ->
  dfs (nbrs1 n (nth 0 trees [])) fuel X V = Some vis /\
  (map fst out = V -> map fst o = rev vis).
Proof.
  induction fuel as [|f IH]; intros trees trunc n X V tmp out o vis H;
    destruct X as [|c rest]; simpl in H; try discriminate.
  - injection H as <- <-. split; auto. intros E. rewrite map_rev, E. reflexivity.
  - injection H as <- <-. split; auto. intros E. rewrite map_rev, E. reflexivity.
  - destruct (length V =? 0).
    + apply IH in H. destruct H as [H1 H2]. split; [exact H1|].
      intros E. apply H2. simpl. now rewrite E.
    + destruct (level_loop trees trunc (length V) c V (rev (seq 0 (length V))) tmp)
        as [[y|]|]; try discriminate.
      apply IH in H. destruct H as [H1 H2]. split; [exact H1|].
      intros E. apply H2. simpl. now rewrite E.
Qed.

(* ------------------------------------------------------------------ *)
(** * No exception                                                     *)
Lemma idx_ok_nth T e : idx_ok T -> In e T -> nth_error T (e_idx e) = Some e.
Proof.
  intros Hi He. apply In_nth_error in He. destruct He as [j Hj].
  rewrite (Hi j e Hj). exact Hj.
Qed.

Section NoError.
  Variables (trees : list (list edge)) (trunc n : nat).
  Hypothesis Htrunc : trunc >= 1.
  (* every level the inner loop may look at exists, with index = position *)
  Hypothesis Hlev : forall i, i < n - 1 -> i < trunc ->
                              exists Ti, nth_error trees i = Some Ti /\ idx_ok Ti.

  Lemma found_edge_ok Ti i current visited ci :
    idx_ok Ti ->
    (if i =? 0 then find_edge0 Ti current (hd 0 visited)
     else find_edgek Ti current visited) = Some ci ->
    nth_error Ti ci <> None.
  Proof.
    intros Hidx H. destruct (i =? 0).
    - unfold find_edge0 in H.
      destruct (find _ Ti) as [e|] eqn:E; [|discriminate]. injection H as <-.
      apply find_some in E. rewrite (idx_ok_nth Ti e Hidx); [discriminate|tauto].
    - unfold find_edgek in H.
      destruct (find _ Ti) as [e|] eqn:E; [|discriminate].
      destruct (forallb _ (U e)); [|discriminate]. injection H as <-.
      apply find_some in E. rewrite (idx_ok_nth Ti e Hidx); [discriminate|tauto].
  Qed.

  Lemma level_loop_ok itr current visited : forall levels y,
    (forall i, In i levels -> i < n - 1) ->
    exists y', level_loop trees trunc itr current visited levels (Some y) = Some (Some y').
  Proof.
    induction levels as [|i rest IH]; intros y Hl; simpl; [eauto|].
    assert (Hrest : forall j, In j rest -> j < n - 1) by (intros; apply Hl; right; auto).
    destruct (trunc <=? i) eqn:Et; [apply IH; auto|].
    apply Nat.leb_gt in Et.
    destruct (Hlev i (Hl i (or_introl eq_refl)) Et) as [Ti [HTi Hidx]]. rewrite HTi.
    destruct (if i =? 0 then find_edge0 Ti current (hd 0 visited)
              else find_edgek Ti current visited) as [ci|] eqn:Ef; [|apply IH; auto].
    pose proof (found_edge_ok Ti i current visited ci Hidx Ef) as Hn.
    destruct (nth_error Ti ci); [|congruence].
    destruct (i =? itr - 1); apply IH; auto.
  Qed.

  Let nb := nbrs1 n (nth 0 trees []).

  Lemma sample_loop_ok : forall fuel X V y out vis,
    dfs nb fuel X V = Some vis -> length vis <= n -> V <> [] ->
    exists o, sample_loop fuel trees trunc n X V (Some y) out = Some (o, vis).
  Proof.
    induction fuel as [|f IH]; intros X V y out vis H Hlen HV;
      destruct X as [|c rest]; simpl in H; try discriminate.
    - injection H as <-. simpl. eauto.
    - injection H as <-. simpl. eauto.
    - assert (Hitr : length V < n).
      { assert (H' : dfs nb (S f) (c :: rest) V = Some vis) by exact H.
        apply dfs_suffix in H'. destruct H' as [W [-> HW]].
        rewrite app_length in Hlen. destruct W; [exfalso; apply HW; [discriminate|reflexivity]|].
        simpl in Hlen. lia. }
      simpl. destruct (length V =? 0) eqn:E0.
      { apply Nat.eqb_eq in E0. destruct V; [congruence|discriminate]. }
      destruct (level_loop_ok (length V) c V (rev (seq 0 (length V))) y) as [y' Hy'].
      { intros i Hi. apply in_rev, in_seq in Hi. lia. }
      rewrite Hy'. apply IH; auto. discriminate.
  Qed.
End NoError.

Lemma sample_loop_first f trees trunc n c rest tmp out :
  sample_loop (S f) trees trunc n (c :: rest) [] tmp out
  = sample_loop f trees trunc n (push (nbrs1 n (nth 0 trees [])) [] c ++ rest) [c] tmp
                ((c, SUni c) :: out).
Proof. reflexivity. Qed.

Lemma sample_loop_next f trees trunc n c rest v0 V tmp out :
  sample_loop (S f) trees trunc n (c :: rest) (v0 :: V) tmp out
  = match level_loop trees trunc (length (v0 :: V)) c (v0 :: V)
                     (rev (seq 0 (length (v0 :: V)))) tmp with
    | Some (Some y) =>
        sample_loop f trees trunc n
                    (push (nbrs1 n (nth 0 trees [])) (v0 :: V) c ++ rest)
                    (c :: v0 :: V) (Some y) ((c, y) :: out)
    | _ => None
    end.
Proof. reflexivity. Qed.

Lemma dfs_unfold nb f c rest V :
  dfs nb (S f) (c :: rest) V = dfs nb f (push nb V c ++ rest) (c :: V).
Proof. reflexivity. Qed.

(* ------------------------------------------------------------------ *)
(** * 4. sample_row_covers                                             *)
Section Covers.
  Variables (trees : list (list edge)) (trunc : nat).
  Let T := nth 0 trees [].
  Let n := S (length T).
  Hypothesis Htree : is_tree n (graph1 T).
  Hypothesis HLR : forall e, In e T -> e_L e < e_R e.
  Hypothesis Htrunc : trunc >= 1.
  Hypothesis Hlev : forall i, i < n - 1 -> i < trunc ->
                              exists Ti, nth_error trees i = Some Ti /\ idx_ok Ti.
  Variable first_ind : nat.
  Hypothesis Hfirst : first_ind < n.

  Theorem sample_trace_ok :
    exists assign vis,
      sample_trace trees trunc first_ind = Some (assign, vis) /\
      map fst assign = rev vis /\ NoDup vis /\ length vis = n /\
      Permutation vis (seq 0 n).
  Proof.
    set (nb := nbrs1 n T).
    destruct (dfs_tree nb (graph1 T) n first_ind Htree Hfirst
                (nb1_adj n T) (nb1_complete n T Htree) (nb1_nodup n T)
                (nb1_irrefl n T HLR) (S (n * n)) ltac:(nia))
      as (vis & Hd & Hnd & Hlen & Hin & Hperm).
    unfold sample_trace. fold T. fold n.
    assert (Hgoal : exists o, sample_loop (S (n * n)) trees trunc n [first_ind] [] None []
                              = Some (o, vis)).
    { remember (n * n) as F eqn:EF. clear EF.
      (* first pop: itr = 0 *)
      rewrite sample_loop_first. rewrite dfs_unfold in Hd.
      fold T. fold nb. rewrite app_nil_r in *.
      destruct (push nb [] first_ind) as [|s ps] eqn:Ep.
      - (* no neighbour *)
        destruct F; simpl in *; injection Hd as <-; eauto.
      - (* second pop: s is a neighbour of first_ind, tmp is bound here *)
        assert (Hs : In s (nb first_ind)).
        { assert (In s (push nb [] first_ind)) by (rewrite Ep; left; auto).
          apply In_push in H. tauto. }
        apply In_nbrs1 in Hs. destruct Hs as [Hsn [e [He Hends]]].
        assert (Hn2 : 0 < n - 1).
        { specialize (HLR e He). destruct Hends as [[? ?]|[? ?]]; lia. }
        destruct (Hlev 0 Hn2 ltac:(lia)) as [T0 [HT0 Hidx]].
        assert (ET : T0 = T).
        { unfold T. destruct trees as [|t0 r]; [discriminate|]. simpl in *. congruence. }
        subst T0.
        destruct F as [|F]; [simpl in Hd; discriminate|].
        rewrite dfs_unfold in Hd. rewrite sample_loop_next.
        assert (Ht : (trunc <=? 0) = false) by (apply Nat.leb_gt; lia).
        assert (Hll : exists y, level_loop trees trunc (length [first_ind]) s [first_ind]
                                  (rev (seq 0 (length [first_ind]))) None = Some (Some y)).
        { cbn -[nth_error Nat.leb find_edge0]. rewrite Ht, HT0.
          cbn -[nth_error Nat.leb find_edge0].
          destruct (find (fun e0 => (e_L e0 =? s) && (e_R e0 =? first_ind)
                                    || (e_R e0 =? s) && (e_L e0 =? first_ind)) T)
            as [e'|] eqn:Ef.
          2: { exfalso. apply (find_none _ _ Ef) in He.
               rewrite orb_false_iff, !andb_false_iff, !Nat.eqb_neq in He.
               destruct Hends as [[? ?]|[? ?]]; lia. }
          unfold find_edge0. rewrite Ef. simpl.
          apply find_some in Ef. destruct Ef as [He' _].
          rewrite (idx_ok_nth T e' Hidx He'). eauto. }
        destruct Hll as [y Hy]. rewrite Hy.
        fold T. fold nb.
        eapply (sample_loop_ok trees trunc n Htrunc Hlev); eauto.
        + lia.
        + discriminate. }
    destruct Hgoal as [o Ho].
    exists o, vis. split; [exact Ho|].
    apply sample_loop_dfs in Ho. destruct Ho as [_ Hm].
    split; [apply Hm; reflexivity|]. auto.
  Qed.

  (* every variable is assigned exactly once; the row has no missing value *)
  Theorem sample_row_covers :
    exists assign row,
      sample_trace trees trunc first_ind = Some (assign, rev (map fst assign)) /\
      sample_row trees trunc first_ind = Some row /\
      NoDup (map fst assign) /\
      Permutation (map fst assign) (seq 0 n) /\
      length row = n /\
      forall v, v < n -> exists s, In (v, s) assign /\ nth_error row v = Some (Some s).
  Proof.
    destruct sample_trace_ok as (assign & vis & Ht & Hm & Hnd & Hlen & Hperm).
    assert (Hvis : vis = rev (map fst assign)) by (rewrite Hm, rev_involutive; auto).
    exists assign. eexists.
    split; [rewrite Ht, Hvis; reflexivity|].
    unfold sample_row. rewrite Ht. fold T. split; [reflexivity|].
    assert (Hnd' : NoDup (map fst assign)) by (rewrite Hm; apply NoDup_rev; auto).
    split; [exact Hnd'|]. split.
    { rewrite Hm. eapply Permutation_trans; [apply Permutation_sym, Permutation_rev|auto]. }
    split; [rewrite map_length, seq_length; reflexivity|].
    intros v Hv.
    assert (Hinv : In v (map fst assign)).
    { rewrite Hm. apply in_rev. rewrite rev_involutive.
      eapply Permutation_in; [apply Permutation_sym; exact Hperm|]. apply in_seq. lia. }
    unfold row_cell.
    destruct (find (fun p => fst p =? v) (rev assign)) as [[v' s]|] eqn:Ef.
    - pose proof (find_some _ _ Ef) as [Hin Hv']. simpl in Hv'.
      apply Nat.eqb_eq in Hv'. subst v'. exists s. split; [apply in_rev; auto|].
      rewrite nth_error_map.
      replace (nth_error (seq 0 (S (length T))) v) with (Some v).
      + simpl. rewrite Ef. reflexivity.
      + symmetry. rewrite nth_error_nth' with (d := 0); [|rewrite seq_length; exact Hv].
        rewrite seq_nth; auto.
    - exfalso. apply in_map_iff in Hinv. destruct Hinv as [[v' s] [E Hin]]. simpl in E. subst v'.
      apply in_rev in Hin. apply (find_none _ _ Ef) in Hin. simpl in Hin.
      rewrite Nat.eqb_refl in Hin. discriminate.
  Qed.
End Covers.

(* ------------------------------------------------------------------ *)
(** * sample_shape                                                     *)
Lemma map_opt_all_some {A B} (f : A -> option B) l :
  (forall a, In a l -> exists b, f a = Some b) ->
  exists l', map_opt f l = Some l' /\ length l' = length l /\
             forall i b, nth_error l' i = Some b -> exists a, nth_error l i = Some a /\ f a = Some b.
Proof.
  induction l as [|a l IH]; intros H; simpl.
  - exists []. split; auto. split; auto. intros [|i] b Hb; discriminate.
  - destruct (H a (or_introl eq_refl)) as [b Hb]. rewrite Hb.
    destruct IH as [l' [Hl' [HL Hn]]]; [intros; apply H; right; auto|].
    rewrite Hl'. exists (b :: l'). split; auto. split; [simpl; lia|].
    intros [|i] b' Hb'; simpl in Hb'.
    + injection Hb' as <-. exists a. auto.
    + apply Hn. auto.
Qed.

Theorem sample_shape {A} (columns : list A) trees trunc num_rows firsts :
  let T := nth 0 trees [] in let n := S (length T) in
  is_tree n (graph1 T) -> (forall e, In e T -> e_L e < e_R e) -> trunc >= 1 ->
  (forall i, i < n - 1 -> i < trunc -> exists Ti, nth_error trees i = Some Ti /\ idx_ok Ti) ->
  (forall r, firsts r < n) ->
  exists rows,
    sample_rows columns trees trunc num_rows firsts = Some (columns, rows) /\
    length rows = num_rows /\
    forall r row, nth_error rows r = Some row ->
      length row = n /\ forall v, v < n -> exists s, nth_error row v = Some (Some s).
Proof.
  intros T n Htree HLR Ht Hlev Hf. unfold sample_rows.
  destruct (map_opt_all_some (fun r => sample_row trees trunc (firsts r)) (seq 0 num_rows))
    as [rows [Hm [HL Hn]]].
  { intros r _.
    destruct (sample_row_covers trees trunc Htree HLR Ht Hlev (firsts r) (Hf r))
      as (assign & row & _ & Hr & _). eauto. }
  rewrite Hm. exists rows. split; [reflexivity|]. split; [rewrite HL, seq_length; auto|].
  intros r row Hr. destruct (Hn r row Hr) as [a [_ Ha]].
  destruct (sample_row_covers trees trunc Htree HLR Ht Hlev (firsts a) (Hf a))
    as (assign & row' & _ & Hr' & _ & _ & Hlen & Hcells).
  rewrite Ha in Hr'. injection Hr' as <-. split; [exact Hlen|].
  intros v Hv. destruct (Hcells v Hv) as [s [_ Hs]]. eauto.
Qed.

(* ------------------------------------------------------------------ *)
(** * Instantiation: any structure that satisfies the C16 statement    *)
Lemma tree_shape_is_tree ty n g : tree_shape ty n g -> is_tree n g.
Proof.
  destruct ty; simpl.
  - intros [c H]. eapply star_is_tree; eauto.
  - tauto.
  - tauto.
Qed.

Theorem sample_row_covers_vine ty d t v first_ind :
  VineCore ty d t v -> (forall k T, nth_error v k = Some T -> idx_ok T) ->
  d >= 2 -> t >= 1 -> first_ind < d ->
  exists assign row,
    sample_trace v t first_ind = Some (assign, rev (map fst assign)) /\
    sample_row v t first_ind = Some row /\
    NoDup (map fst assign) /\ Permutation (map fst assign) (seq 0 d) /\
    length row = d /\
    forall x, x < d -> exists s, In (x, s) assign /\ nth_error row x = Some (Some s).
Proof.
  intros (Hlen & Hcnt & Hfirst & _) Hidx Hd Ht Hf.
  destruct v as [|T1 ts]; [cbn [length] in Hlen; lia|].
  destruct (Hfirst T1 eq_refl) as [He Hshape].
  pose proof (Hcnt 0 T1 eq_refl) as HL1.
  assert (Hn : S (length (nth 0 (T1 :: ts) [])) = d) by (simpl; lia).
  pose proof (sample_row_covers (T1 :: ts) t) as H. cbv zeta in H. rewrite Hn in H.
  apply H; auto.
  - simpl. apply tree_shape_is_tree in Hshape. exact Hshape.
  - simpl. intros e Hin. apply (He e Hin).
  - intros i Hi Hit.
    assert (Hil : i < length (T1 :: ts)) by (rewrite Hlen; lia).
    destruct (nth_error (T1 :: ts) i) as [Ti|] eqn:E.
    + exists Ti. split; auto. eapply Hidx; eauto.
    + apply nth_error_None in E. lia.
Qed.

Print Assumptions sample_row_covers.
Print Assumptions sample_shape.
Print Assumptions sample_row_covers_vine.
