(* ====================================================================== *)
(*  C15 -- theorems about the random-state management model (Model/Rng.v)  *)
(* ====================================================================== *)
From Coq Require Import ZArith List Bool Lia.
From Cop Require Import Model.Rng.
Import ListNotations.
Open Scope nat_scope.

(* ---------------------------------------------------------------------- *)
(*  0. Basic facts: tokens, list update, run                              *)
(* ---------------------------------------------------------------------- *)
Lemma tokens_from_length : forall k s c, length (tokens_from s c k) = k.
Proof. induction k; simpl; intros; [reflexivity | now rewrite IHk]. Qed.

Lemma tokens_from_app : forall k1 k2 s c,
  tokens_from s c (k1 + k2) = tokens_from s c k1 ++ tokens_from s (c + k1) k2.
Proof.
  induction k1; simpl; intros.
  - now rewrite Nat.add_0_r.
  - rewrite IHk1. now replace (S c + k1) with (c + S k1) by lia.
Qed.

Lemma In_tokens_from : forall k s c t,
  In t (tokens_from s c k) <-> fst t = s /\ c <= snd t < c + k.
Proof.
  induction k; simpl; intros.
  - split; [tauto | lia].
  - rewrite IHk. destruct t as [ts tc]; simpl. split.
    + intros [H | H]; [inversion H; subst; split; [reflexivity | lia] | split; [tauto | lia]].
    + intros [Hs Hc]. subst.
      destruct (Nat.eq_dec tc c); [left; now subst | right; split; [reflexivity | lia]].
Qed.

Lemma NoDup_tokens_from : forall k s c, NoDup (tokens_from s c k).
Proof.
  induction k; simpl; intros; constructor.
  - rewrite In_tokens_from; simpl. lia.
  - apply IHk.
Qed.

Lemma draw_spec : forall k s c,
  draw k (s, c) = (tokens_from s c k, (s, c + k)).
Proof. reflexivity. Qed.

Lemma update_length : forall A (l : list A) i x, length (update l i x) = length l.
Proof. induction l; destruct i; simpl; intros; auto. Qed.

Lemma nth_error_update_eq : forall A (l : list A) i x,
  i < length l -> nth_error (update l i x) i = Some x.
Proof.
  induction l; destruct i; simpl; intros; try lia; auto. apply IHl; lia.
Qed.

Lemma nth_error_update_neq : forall A (l : list A) i j x,
  i <> j -> nth_error (update l j x) i = nth_error l i.
Proof.
  induction l; destruct i, j; simpl; intros; try congruence; auto.
Qed.

Lemma update_update : forall A (l : list A) i x y,
  update (update l i x) i y = update l i y.
Proof. induction l; destruct i; simpl; intros; auto. now rewrite IHl. Qed.

Lemma get_model_lt : forall w i m, get_model w i = Some m -> i < length (models w).
Proof. unfold get_model; intros. apply nth_error_Some. congruence. Qed.

Lemma get_model_set_model_eq : forall w i m m0,
  get_model w i = Some m0 -> get_model (set_model i m w) i = Some m.
Proof.
  intros. unfold get_model, set_model; simpl.
  apply nth_error_update_eq. eapply get_model_lt; eauto.
Qed.

Lemma get_model_set_model_neq : forall w i j m,
  i <> j -> get_model (set_model j m w) i = get_model w i.
Proof. intros. unfold get_model, set_model; simpl. now apply nth_error_update_neq. Qed.

Lemma run_cons : forall w o ops,
  run w (o :: ops) =
  (fst (run (fst (step w o)) ops), snd (step w o) :: snd (run (fst (step w o)) ops)).
Proof.
  intros. simpl. destruct (step w o) as [w1 x]. simpl.
  destruct (run w1 ops) as [w2 xs]. reflexivity.
Qed.

Lemma world_eta : forall w, mkWorld (global w) (models w) = w.
Proof. destruct w; reflexivity. Qed.

(* ---------------------------------------------------------------------- *)
(*  4. validate_random_state                                              *)
(* ---------------------------------------------------------------------- *)
Theorem validate_none : validate_random_state VNone = inr None.
Proof. reflexivity. Qed.

Theorem validate_int : forall s, (0 <= s < 2 ^ 32)%Z ->
  validate_random_state (VInt s) = inr (Some (s, 0)).
Proof.
  intros s [H1 H2]. unfold validate_random_state, seed_in_range.
  apply Z.leb_le in H1. apply Z.ltb_lt in H2. now rewrite H1, H2.
Qed.

(* numpy quirk: RandomState(seed) rejects seeds outside [0, 2**32-1] *)
Theorem validate_int_out_of_range : forall s, (s < 0 \/ 2 ^ 32 <= s)%Z ->
  validate_random_state (VInt s) = inl ValueError.
Proof.
  intros s H. unfold validate_random_state, seed_in_range.
  destruct (0 <=? s)%Z eqn:E1; destruct (s <? 2 ^ 32)%Z eqn:E2; simpl; try reflexivity.
  apply Z.leb_le in E1. apply Z.ltb_lt in E2. lia.
Qed.

Theorem validate_state : forall r, validate_random_state (VState r) = inr (Some r).
Proof. reflexivity. Qed.

Theorem validate_other : validate_random_state VOther = inl TypeError.
Proof. reflexivity. Qed.

(* a validated seed is never an error other than Type/ValueError, and the  *)
(* only way to obtain "unseeded" is None                                    *)
Theorem validate_unseeded_iff_none : forall v,
  validate_random_state v = inr None <-> v = VNone.
Proof.
  destruct v; simpl; split; intros H; try congruence; try reflexivity.
  destruct (seed_in_range s); congruence.
Qed.

Print Assumptions validate_int.
Example validate_int_nonvacuous : validate_random_state (VInt 42) = inr (Some (42%Z, 0)).
Proof. apply validate_int. lia. Qed.

(* ---------------------------------------------------------------------- *)
(*  Equational characterisation of every kind of step                      *)
(* ---------------------------------------------------------------------- *)
Definition sample_out (st : rng) (k : nat) (raises : bool) : out :=
  if raises then OutErr BodyError else OutTokens (tokens_from (fst st) (snd st) k).

(* 3. advance *)
Theorem advance : forall w i st k r,
  get_model w i = Some (Some st) ->
  step w (OSample i k r) =
    (set_model i (Some (fst st, snd st + k)) w, sample_out st k r).
Proof.
  intros w i st k r H. unfold step, random_state_wrapper. rewrite H.
  unfold set_random_state_ctx, run_body, model_setter, model_set_random_state,
    sample_out, set_global, set_model. simpl.
  destruct r; reflexivity.
Qed.
Print Assumptions advance.

Corollary advance_explicit : forall w i s c k,
  get_model w i = Some (Some (s, c)) ->
  step w (OSample i k false) =
    (set_model i (Some (s, c + k)) w, OutTokens (tokens_from s c k)).
Proof. intros. now rewrite (advance _ _ _ _ _ H). Qed.

(* the write-back happens in the [finally] block: also when the body raises *)
Corollary advance_on_raise : forall w i s c k,
  get_model w i = Some (Some (s, c)) ->
  step w (OSample i k true) =
    (set_model i (Some (s, c + k)) w, OutErr BodyError).
Proof. intros. now rewrite (advance _ _ _ _ _ H). Qed.

Theorem unseeded_uses_global : forall w i k r,
  get_model w i = Some None ->
  step w (OSample i k r) =
    (set_global (fst (global w), snd (global w) + k) w, sample_out (global w) k r).
Proof.
  intros w i k r H. unfold step, random_state_wrapper. rewrite H.
  unfold run_body, sample_out. simpl. destruct r; reflexivity.
Qed.
Print Assumptions unseeded_uses_global.

Lemma step_sample_nomodel : forall w i k r,
  get_model w i = None -> step w (OSample i k r) = (w, OutErr NoSuchModel).
Proof. intros. unfold step, random_state_wrapper. now rewrite H. Qed.

Lemma step_setstate : forall w i v m0,
  get_model w i = Some m0 ->
  step w (OSetState i v) =
    match validate_random_state v with
    | inl e => (w, OutErr e)
    | inr m => (set_model i m w, OutNone)
    end.
Proof.
  intros. unfold step, model_set_random_state. rewrite H.
  destruct (validate_random_state v); reflexivity.
Qed.

Lemma step_setstate_nomodel : forall w i v,
  get_model w i = None -> step w (OSetState i v) = (w, OutErr NoSuchModel).
Proof. intros. unfold step. now rewrite H. Qed.

Lemma step_globaldraw : forall w k,
  step w (OGlobalDraw k) =
    (set_global (fst (global w), snd (global w) + k) w,
     OutTokens (tokens_from (fst (global w)) (snd (global w)) k)).
Proof. reflexivity. Qed.

Lemma step_undecorated : forall w i k m,
  get_model w i = Some m ->
  step w (OUndecorated i k) =
    (set_global (fst (global w), snd (global w) + k) w,
     OutTokens (tokens_from (fst (global w)) (snd (global w)) k)).
Proof. intros. unfold step. rewrite H. reflexivity. Qed.

Lemma step_undecorated_nomodel : forall w i k,
  get_model w i = None -> step w (OUndecorated i k) = (w, OutErr NoSuchModel).
Proof. intros. unfold step. now rewrite H. Qed.

Definition dataset_out (seed : seedval) (f : rng -> list rng) : out :=
  match validate_random_state seed with
  | inl e => OutErr e
  | inr None => OutErr AttributeError
  | inr (Some r) => OutTokens (f r)
  end.

(* A dataset generator NEVER changes the world, whatever the seed: bad     *)
(* seeds raise before anything is touched (seed=None raises AttributeError  *)
(* at [None.get_state()], after get_state but before set_state).            *)
Theorem step_dataset : forall w seed k,
  step w (ODataset seed k) =
    (w, dataset_out seed (fun r => tokens_from (fst r) (snd r) k)).
Proof.
  intros. unfold step, dataset, dataset_out.
  destruct (validate_random_state seed) as [e | [r |]]; try reflexivity.
  unfold set_random_state_ctx, run_body, dummy_fn, set_global. simpl.
  now rewrite world_eta.
Qed.

Theorem step_nested_dataset : forall w seed k1 k2,
  step w (ONestedDataset seed k1 k2) =
    (w, dataset_out seed (fun r => tokens_from (fst r) (snd r) k1
                                   ++ tokens_from (fst r) (snd r) k2)).
Proof.
  intros. unfold step, nested_dataset, dataset_out, dataset.
  destruct (validate_random_state seed) as [e | [r |]]; try reflexivity.
  unfold set_random_state_ctx, run_body, dummy_fn, set_global. simpl.
  now rewrite world_eta.
Qed.

(* ---------------------------------------------------------------------- *)
(*  5. dataset_deterministic                                              *)
(* ---------------------------------------------------------------------- *)
Theorem dataset_deterministic : forall w s k, (0 <= s < 2 ^ 32)%Z ->
  step w (ODataset (VInt s) k) = (w, OutTokens (tokens_from s 0 k)).
Proof.
  intros. rewrite step_dataset. unfold dataset_out. now rewrite validate_int.
Qed.
Print Assumptions dataset_deterministic.

Example dataset_deterministic_nonvacuous :
  step w0 (ODataset (VInt 42) 3) = (w0, OutTokens [(42%Z, 0); (42%Z, 1); (42%Z, 2)]).
Proof. apply dataset_deterministic. lia. Qed.

Theorem dataset_state_deterministic : forall w r k,
  step w (ODataset (VState r) k) = (w, OutTokens (tokens_from (fst r) (snd r) k)).
Proof. intros. now rewrite step_dataset. Qed.

(* quirk: the default-looking call sample_xxx(size, seed=None) raises *)
Theorem dataset_none_raises : forall w k,
  step w (ODataset VNone k) = (w, OutErr AttributeError).
Proof. intros. now rewrite step_dataset. Qed.

Theorem dataset_other_raises : forall w k,
  step w (ODataset VOther k) = (w, OutErr TypeError).
Proof. intros. now rewrite step_dataset. Qed.

Theorem dataset_preserves_world : forall w seed k,
  fst (step w (ODataset seed k)) = w.
Proof. intros. now rewrite step_dataset. Qed.

Theorem nested_dataset_preserves_world : forall w seed k1 k2,
  fst (step w (ONestedDataset seed k1 k2)) = w.
Proof. intros. now rewrite step_nested_dataset. Qed.

Theorem nested_dataset_deterministic : forall w s k1 k2, (0 <= s < 2 ^ 32)%Z ->
  step w (ONestedDataset (VInt s) k1 k2) =
    (w, OutTokens (tokens_from s 0 k1 ++ tokens_from s 0 k2)).
Proof.
  intros. rewrite step_nested_dataset. unfold dataset_out. now rewrite validate_int.
Qed.

(* Quirk of sample_univariate_bimodal: the inner generator's exit restores  *)
(* the outer generator's ENTRY state, so the outer draws re-use the very    *)
(* same stream positions the inner generator consumed: the two token lists  *)
(* overlap (they are NOT successive ranges of one stream).                  *)
Theorem nested_dataset_reuses_stream : forall w s k1 k2,
  (0 <= s < 2 ^ 32)%Z -> 0 < k1 -> 0 < k2 ->
  exists l1 l2,
    snd (step w (ONestedDataset (VInt s) k1 k2)) = OutTokens (l1 ++ l2)
    /\ length l1 = k1 /\ length l2 = k2
    /\ In (s, 0) l1 /\ In (s, 0) l2
    /\ ~ NoDup (l1 ++ l2).
Proof.
  intros w s k1 k2 Hs H1 H2.
  exists (tokens_from s 0 k1), (tokens_from s 0 k2).
  rewrite nested_dataset_deterministic by assumption. simpl.
  assert (I1 : In (s, 0) (tokens_from s 0 k1)) by (apply In_tokens_from; simpl; lia).
  assert (I2 : In (s, 0) (tokens_from s 0 k2)) by (apply In_tokens_from; simpl; lia).
  repeat split; auto using tokens_from_length.
  intro ND. destruct k1 as [|k1]; [lia|]. simpl in ND. inversion ND; subst.
  apply H3. apply in_or_app. right. exact I2.
Qed.
Print Assumptions nested_dataset_reuses_stream.

Example nested_dataset_reuses_stream_ex :
  snd (step w0 (ONestedDataset (VInt 42) 2 3))
  = OutTokens [(42%Z,0); (42%Z,1); (42%Z,0); (42%Z,1); (42%Z,2)].
Proof. reflexivity. Qed.

(* ---------------------------------------------------------------------- *)
(*  Generic facts about the context manager / decorator (ANY body)         *)
(* ---------------------------------------------------------------------- *)
(* A setter is "well behaved" if it returns normally and leaves the global  *)
(* generator alone -- true of both setters used in the library.             *)
Definition setter_ok (setter : rng -> comp unit) : Prop :=
  forall r w, snd (setter r w) = inr tt /\ global (fst (setter r w)) = global w.

Lemma model_setter_ok : forall i, setter_ok (model_setter i).
Proof. intros i r w. split; reflexivity. Qed.

Lemma dummy_fn_ok : setter_ok dummy_fn.
Proof. intros r w. split; reflexivity. Qed.

(* The try/finally restores the global generator for EVERY body: whatever   *)
(* it draws, whether it returns or raises, even if it contains further      *)
(* nested context managers.                                                 *)
Theorem ctx_preserves_global : forall A rs setter (bd : comp A) w,
  setter_ok setter ->
  global (fst (set_random_state_ctx rs setter bd w)) = global w.
Proof.
  intros A rs setter bd w Hs. unfold set_random_state_ctx.
  destruct rs as [r |]; [|reflexivity].
  destruct (bd (set_global r w)) as [w2 res].
  destruct (Hs (global w2) w2) as [H1 H2].
  destruct (setter (global w2) w2) as [w3 sres]. simpl in *. subst sres. reflexivity.
Qed.
Print Assumptions ctx_preserves_global.

(* ... and its outcome (value or exception) is the body's outcome, computed  *)
(* with the global generator set to the given state.                         *)
Theorem ctx_result : forall A r setter (bd : comp A) w,
  setter_ok setter ->
  snd (set_random_state_ctx (Some r) setter bd w) = snd (bd (set_global r w)).
Proof.
  intros A r setter bd w Hs. unfold set_random_state_ctx.
  destruct (bd (set_global r w)) as [w2 res].
  destruct (Hs (global w2) w2) as [H1 H2].
  destruct (setter (global w2) w2) as [w3 sres]. simpl in *. subst sres. reflexivity.
Qed.

Theorem wrapper_seeded_preserves_global : forall A i (bd : comp A) w st,
  get_model w i = Some (Some st) ->
  global (fst (random_state_wrapper i bd w)) = global w.
Proof.
  intros. unfold random_state_wrapper. rewrite H.
  apply ctx_preserves_global, model_setter_ok.
Qed.

(* the body of a decorated method of a seeded model never sees the caller's  *)
(* global generator: it runs with global := the model's state                *)
Theorem wrapper_seeded_result : forall A i (bd : comp A) w st,
  get_model w i = Some (Some st) ->
  snd (random_state_wrapper i bd w) = snd (bd (set_global st w)).
Proof.
  intros. unfold random_state_wrapper. rewrite H.
  apply ctx_result, model_setter_ok.
Qed.

Theorem wrapper_unseeded_is_body : forall A i (bd : comp A) w,
  get_model w i = Some None -> random_state_wrapper i bd w = bd w.
Proof. intros. unfold random_state_wrapper. now rewrite H. Qed.

Example ctx_preserves_global_nonvacuous :
  global (fst (set_random_state_ctx (Some (3%Z, 4)) (model_setter 0)
                 (run_body (5, true)) w0)) = global w0.
Proof. apply ctx_preserves_global, model_setter_ok. Qed.

(* ---------------------------------------------------------------------- *)
(*  1. global_preserved                                                   *)
(* ---------------------------------------------------------------------- *)
Theorem sample_seeded_preserves_global : forall w i st k r,
  get_model w i = Some (Some st) ->
  global (fst (step w (OSample i k r))) = global w.
Proof. intros. now rewrite (advance _ _ _ _ _ H). Qed.

Theorem setstate_preserves_global : forall w i v,
  global (fst (step w (OSetState i v))) = global w.
Proof.
  intros. destruct (get_model w i) eqn:E.
  - rewrite (step_setstate _ _ _ _ E). destruct (validate_random_state v); reflexivity.
  - now rewrite step_setstate_nomodel.
Qed.

Theorem dataset_preserves_global : forall w seed k,
  global (fst (step w (ODataset seed k))) = global w.
Proof. intros. now rewrite dataset_preserves_world. Qed.

Lemma step_safe_preserves_global : forall w o,
  global_safe w o = true -> global (fst (step w o)) = global w.
Proof.
  intros w o H. destruct o; simpl in H; try discriminate.
  - destruct (get_model w i) as [[st |] |] eqn:E; try discriminate.
    + eapply sample_seeded_preserves_global; eauto.
    + now rewrite step_sample_nomodel.
  - apply setstate_preserves_global.
  - now rewrite dataset_preserves_world.
  - now rewrite nested_dataset_preserves_world.
  - destruct (get_model w i) eqn:E; try discriminate.
    now rewrite step_undecorated_nomodel.
Qed.

(* Main form: every op is global-safe at the moment it is executed          *)
(* (sample calls on seeded models -- raising or not --, set_random_state,   *)
(* dataset generators with ANY seed).                                       *)
Theorem global_preserved : forall ops w,
  all_global_safe w ops = true -> global (fst (run w ops)) = global w.
Proof.
  induction ops as [|o ops IH]; intros w H; [reflexivity|].
  simpl in H. apply andb_true_iff in H. destruct H as [H1 H2].
  rewrite run_cons. simpl. rewrite (IH _ H2).
  now apply step_safe_preserves_global.
Qed.
Print Assumptions global_preserved.

Example global_preserved_nonvacuous :
  all_global_safe w0
    [OSample 0 3 false; OSample 2 3 true; OSetState 1 (VInt 11); OSample 1 4 true;
     ODataset (VInt 42) 4; ODataset VNone 1; ONestedDataset (VInt 1) 2 2;
     OSetState 0 VOther] = true.
Proof. reflexivity. Qed.

(* Static form: all models seeded initially, no op un-seeds a model, no     *)
(* direct draw, no undecorated sampler.                                     *)
Lemma forallb_update : forall A (f : A -> bool) l i x,
  forallb f l = true -> f x = true -> forallb f (update l i x) = true.
Proof.
  induction l; destruct i; simpl; intros; auto;
    apply andb_true_iff in H; destruct H; apply andb_true_iff; split; auto.
Qed.

Lemma forallb_nth_error : forall A (f : A -> bool) l i x,
  forallb f l = true -> nth_error l i = Some x -> f x = true.
Proof.
  induction l; destruct i; simpl; intros; try discriminate;
    apply andb_true_iff in H; destruct H.
  - congruence.
  - eapply IHl; eauto.
Qed.

Lemma static_safe_step : forall w o,
  all_seeded w = true -> static_safe o = true ->
  global_safe w o = true /\ all_seeded (fst (step w o)) = true.
Proof.
  unfold all_seeded. intros w o Hs Ho. destruct o; simpl in Ho; try discriminate.
  - (* OSample *)
    cbn [global_safe]. destruct (get_model w i) as [[st |] |] eqn:E.
    + split; [reflexivity|]. rewrite (advance _ _ _ _ _ E). simpl.
      now apply forallb_update.
    + pose proof (forallb_nth_error _ _ _ _ _ Hs E). discriminate.
    + split; [reflexivity|]. now rewrite step_sample_nomodel.
  - (* OSetState *)
    split; [reflexivity|].
    destruct (get_model w i) eqn:E.
    + rewrite (step_setstate _ _ _ _ E).
      destruct (validate_random_state v) as [e | [r |]] eqn:V; simpl; auto.
      * now apply forallb_update.
      * apply validate_unseeded_iff_none in V. subst. discriminate.
    + now rewrite step_setstate_nomodel.
  - split; [reflexivity|]. now rewrite dataset_preserves_world.
  - split; [reflexivity|]. now rewrite nested_dataset_preserves_world.
Qed.

Theorem global_preserved_static : forall ops w,
  all_seeded w = true -> forallb static_safe ops = true ->
  global (fst (run w ops)) = global w.
Proof.
  intros ops w Hs Ho. apply global_preserved. revert w Hs Ho.
  induction ops as [|o ops IH]; intros; [reflexivity|].
  simpl in Ho. apply andb_true_iff in Ho. destruct Ho as [H1 H2].
  destruct (static_safe_step _ _ Hs H1) as [G S].
  simpl. rewrite G. simpl. now apply IH.
Qed.
Print Assumptions global_preserved_static.

Example global_preserved_static_nonvacuous :
  all_seeded (mkWorld (99%Z, 5) [Some (7%Z, 0); Some (8%Z, 2)]) = true /\
  forallb static_safe
    [OSample 0 3 true; OSample 1 3 false; OSetState 1 (VInt 11); OSetState 0 VOther;
     ODataset VNone 4; ONestedDataset (VInt 1) 2 2] = true.
Proof. split; reflexivity. Qed.

(* The hypothesis cannot be dropped: each excluded op really moves global. *)
Example global_not_preserved_by_globaldraw :
  global (fst (step w0 (OGlobalDraw 1))) <> global w0.
Proof. vm_compute. congruence. Qed.

Example global_not_preserved_by_unseeded :
  get_model w0 1 = Some None /\
  global (fst (step w0 (OSample 1 1 false))) <> global w0.
Proof. split; [reflexivity | vm_compute; congruence]. Qed.

(* ---------------------------------------------------------------------- *)
(*  3 (cont.). successive calls: successive, disjoint token ranges          *)
(* ---------------------------------------------------------------------- *)
Theorem advance_twice : forall w i s c k1 k2,
  get_model w i = Some (Some (s, c)) ->
  run w [OSample i k1 false; OSample i k2 false] =
    (set_model i (Some (s, c + k1 + k2)) w,
     [OutTokens (tokens_from s c k1); OutTokens (tokens_from s (c + k1) k2)]).
Proof.
  intros w i s c k1 k2 H. rewrite run_cons.
  rewrite (advance_explicit _ _ _ _ _ H). cbn [fst snd].
  assert (H' : get_model (set_model i (Some (s, c + k1)) w) i = Some (Some (s, c + k1)))
    by (eapply get_model_set_model_eq; eauto).
  rewrite run_cons. rewrite (advance_explicit _ _ _ _ _ H'). cbn [fst snd run].
  f_equal. unfold set_model. simpl. f_equal. apply update_update.
Qed.
Print Assumptions advance_twice.

Theorem successive_ranges_disjoint : forall s c k1 k2,
  NoDup (tokens_from s c k1 ++ tokens_from s (c + k1) k2) /\
  tokens_from s c k1 ++ tokens_from s (c + k1) k2 = tokens_from s c (k1 + k2) /\
  (forall t, In t (tokens_from s c k1) -> In t (tokens_from s (c + k1) k2) -> False).
Proof.
  intros. rewrite <- tokens_from_app. split; [apply NoDup_tokens_from|].
  split; [reflexivity|]. intros t. rewrite !In_tokens_from. lia.
Qed.

(* a raising call consumes its range too: the next call continues after it *)
Theorem advance_after_raise : forall w i s c k1 k2,
  get_model w i = Some (Some (s, c)) ->
  snd (run w [OSample i k1 true; OSample i k2 false]) =
     [OutErr BodyError; OutTokens (tokens_from s (c + k1) k2)].
Proof.
  intros w i s c k1 k2 H. rewrite run_cons.
  rewrite (advance_on_raise _ _ _ _ _ H). cbn [fst snd].
  assert (H' : get_model (set_model i (Some (s, c + k1)) w) i = Some (Some (s, c + k1)))
    by (eapply get_model_set_model_eq; eauto).
  rewrite run_cons. now rewrite (advance_explicit _ _ _ _ _ H').
Qed.

(* ---------------------------------------------------------------------- *)
(*  2. noninterference                                                    *)
(* ---------------------------------------------------------------------- *)
Lemma step_other_model : forall w o i,
  addressed i o = None -> get_model (fst (step w o)) i = get_model w i.
Proof.
  intros w o i H. destruct o; simpl in H.
  - (* OSample i0 *)
    destruct (Nat.eqb i0 i) eqn:E; [discriminate|]. apply Nat.eqb_neq in E.
    destruct (get_model w i0) as [[st |] |] eqn:G.
    + rewrite (advance _ _ _ _ _ G). simpl. apply get_model_set_model_neq. congruence.
    + now rewrite (unseeded_uses_global _ _ _ _ G).
    + now rewrite step_sample_nomodel.
  - destruct (Nat.eqb i0 i) eqn:E; [discriminate|]. apply Nat.eqb_neq in E.
    destruct (get_model w i0) eqn:G.
    + rewrite (step_setstate _ _ _ _ G). destruct (validate_random_state v); simpl; auto.
      apply get_model_set_model_neq. congruence.
    + now rewrite step_setstate_nomodel.
  - reflexivity.
  - now rewrite dataset_preserves_world.
  - now rewrite nested_dataset_preserves_world.
  - destruct (get_model w i0) eqn:G.
    + now rewrite (step_undecorated _ _ _ _ G).
    + now rewrite step_undecorated_nomodel.
Qed.

Lemma step_addressed : forall w o i mo m,
  addressed i o = Some mo -> get_model w i = Some m ->
  match mo with MSample _ _ => is_some m | MSetState _ => true end = true ->
  snd (step w o) = snd (mstep m mo) /\
  get_model (fst (step w o)) i = Some (fst (mstep m mo)).
Proof.
  intros w o i mo m H G S. destruct o; simpl in H; try discriminate.
  - destruct (Nat.eqb i0 i) eqn:E; [|discriminate]. apply Nat.eqb_eq in E. subst i0.
    inversion H; subst mo; clear H. destruct m as [st |]; [|discriminate].
    rewrite (advance _ _ _ _ _ G). simpl. split.
    + unfold sample_out. destruct raises; reflexivity.
    + eapply get_model_set_model_eq; eauto.
  - destruct (Nat.eqb i0 i) eqn:E; [|discriminate]. apply Nat.eqb_eq in E. subst i0.
    inversion H; subst mo; clear H.
    rewrite (step_setstate _ _ _ _ G). simpl.
    destruct (validate_random_state v); simpl; split; auto.
    eapply get_model_set_model_eq; eauto.
Qed.

(* Functional form: the outputs of model i's calls, and its final state,    *)
(* are computed by the single-model machine [mrun] from model i's initial   *)
(* state and the projection of the op list onto model i -- the rest of the  *)
(* world (global, other models) and the interleaved ops do not appear.      *)
Theorem noninterference_fun : forall i ops w m,
  get_model w i = Some m ->
  seeded_at_samples m (proj i ops) = true ->
  outs_of i ops (snd (run w ops)) = snd (mrun m (proj i ops)) /\
  get_model (fst (run w ops)) i = Some (fst (mrun m (proj i ops))).
Proof.
  induction ops as [|o ops IH]; intros w m G S.
  - simpl. auto.
  - rewrite run_cons. cbn [fst snd outs_of proj]. cbn [proj] in S.
    destruct (addressed i o) as [mo|] eqn:A.
    + cbn [seeded_at_samples] in S. apply andb_true_iff in S. destruct S as [S1 S2].
      destruct (step_addressed _ _ _ _ _ A G S1) as [Ho Hm].
      destruct (IH _ _ Hm S2) as [IH1 IH2].
      cbn [mrun]. destruct (mstep m mo) as [m1 x] eqn:M. cbn [fst snd] in *.
      destruct (mrun m1 (proj i ops)) as [m2 xs] eqn:R. cbn [fst snd] in *.
      rewrite Ho, IH1. auto.
    + apply IH; [|assumption]. now rewrite step_other_model.
Qed.
Print Assumptions noninterference_fun.

(* Two-run form (also across model indices): equal initial state of the      *)
(* model + equal own call sequence => equal outputs and equal final state,   *)
(* whatever the two worlds' global generators, other models, and the other   *)
(* interleaved operations (other models' samples -- seeded or not --, direct *)
(* global draws, datasets, undecorated samplers, ...).                       *)
Theorem noninterference_gen : forall i j ops1 ops2 w1 w2 m,
  get_model w1 i = Some m -> get_model w2 j = Some m ->
  proj i ops1 = proj j ops2 ->
  seeded_at_samples m (proj i ops1) = true ->
  outs_of i ops1 (snd (run w1 ops1)) = outs_of j ops2 (snd (run w2 ops2)) /\
  get_model (fst (run w1 ops1)) i = get_model (fst (run w2 ops2)) j.
Proof.
  intros i j ops1 ops2 w1 w2 m G1 G2 P S.
  destruct (noninterference_fun i ops1 w1 m G1 S) as [A1 B1].
  rewrite P in S.
  destruct (noninterference_fun j ops2 w2 m G2 S) as [A2 B2].
  rewrite A1, A2, B1, B2, P. auto.
Qed.

Theorem noninterference : forall i ops1 ops2 w1 w2 m,
  get_model w1 i = Some m -> get_model w2 i = Some m ->
  proj i ops1 = proj i ops2 ->
  seeded_at_samples m (proj i ops1) = true ->
  outs_of i ops1 (snd (run w1 ops1)) = outs_of i ops2 (snd (run w2 ops2)).
Proof. intros. eapply noninterference_gen; eauto. Qed.
Print Assumptions noninterference.

(* two equal models with equal seeds produce equal streams *)
Corollary equal_seeds_equal_streams : forall w i j st ops1 ops2,
  get_model w i = Some (Some st) -> get_model w j = Some (Some st) ->
  proj i ops1 = proj j ops2 ->
  seeded_at_samples (Some st) (proj i ops1) = true ->
  outs_of i ops1 (snd (run w ops1)) = outs_of j ops2 (snd (run w ops2)).
Proof. intros. eapply noninterference_gen; eauto. Qed.
Print Assumptions equal_seeds_equal_streams.

(* ... also inside ONE run: models i <> j with the same state, receiving the *)
(* same call sequence arbitrarily interleaved, output the same stream.       *)
Corollary equal_seeds_equal_streams_one_run : forall w i j st ops,
  get_model w i = Some (Some st) -> get_model w j = Some (Some st) ->
  proj i ops = proj j ops ->
  seeded_at_samples (Some st) (proj i ops) = true ->
  outs_of i ops (snd (run w ops)) = outs_of j ops (snd (run w ops)).
Proof. intros. eapply noninterference_gen; eauto. Qed.

(* non-vacuity: two different worlds, different interleavings *)
Example noninterference_nonvacuous :
  let opsA := [OSample 0 3 false; OGlobalDraw 4; OSample 1 2 false; OSample 0 2 true;
               OUndecorated 0 3; OSetState 0 (VInt 5); OSample 0 1 false] in
  let opsB := [OSample 0 3 false; OSample 0 2 true; ODataset (VInt 1) 3;
               OSetState 0 (VInt 5); OSample 2 7 false; OSample 0 1 false] in
  let wB := mkWorld (1234%Z, 77) [Some (7%Z, 0); Some (1%Z, 1); None] in
  get_model w0 0 = Some (Some (7%Z, 0)) /\ get_model wB 0 = Some (Some (7%Z, 0)) /\
  proj 0 opsA = proj 0 opsB /\
  seeded_at_samples (Some (7%Z, 0)) (proj 0 opsA) = true /\
  outs_of 0 opsA (snd (run w0 opsA)) =
    [OutTokens [(7%Z,0); (7%Z,1); (7%Z,2)]; OutErr BodyError; OutNone; OutTokens [(5%Z,0)]].
Proof. repeat split. Qed.

Example equal_seeds_nonvacuous :
  let ops := [OSample 0 3 false; OSample 2 3 false; OGlobalDraw 1;
              OSample 2 2 false; OSample 0 2 false] in
  proj 0 ops = proj 2 ops /\
  outs_of 0 ops (snd (run w0 ops)) = outs_of 2 ops (snd (run w0 ops)).
Proof. split; reflexivity. Qed.

(* The seededness hypothesis cannot be dropped: an UNSEEDED model's output  *)
(* depends on the global generator.                                         *)
Example noninterference_fails_unseeded :
  exists w1 w2 i ops,
    get_model w1 i = get_model w2 i /\
    outs_of i ops (snd (run w1 ops)) <> outs_of i ops (snd (run w2 ops)).
Proof.
  exists (mkWorld (1%Z, 0) [None]), (mkWorld (2%Z, 0) [None]), 0, [OSample 0 1 false].
  split; [reflexivity | vm_compute; congruence].
Qed.

(* ---------------------------------------------------------------------- *)
(*  6. undecorated_breaks                                                 *)
(* ---------------------------------------------------------------------- *)
(* What a missing @random_state looks like (Univariate.sample, Univariate.fit *)
(* with selection_sample_size, GaussianKDE._fit with sample_size): a SEEDED   *)
(* model draws from -- and advances -- the global generator, and its own      *)
(* random_state is neither used nor advanced.                                 *)
Example undecorated_breaks :
  exists w i k st,
    get_model w i = Some (Some st) /\
    global (fst (step w (OUndecorated i k))) <> global w /\
    snd (step w (OUndecorated i k)) =
      OutTokens (tokens_from (fst (global w)) (snd (global w)) k) /\
    models (fst (step w (OUndecorated i k))) = models w /\
    (* whereas the decorated sampler would have returned the model's stream *)
    snd (step w (OSample i k false)) = OutTokens (tokens_from (fst st) (snd st) k) /\
    global (fst (step w (OSample i k false))) = global w.
Proof.
  exists w0, 0, 2, (7%Z, 0). repeat split. vm_compute. congruence.
Qed.

Theorem undecorated_uses_global : forall w i k m, 0 < k ->
  get_model w i = Some m ->
  global (fst (step w (OUndecorated i k))) <> global w /\
  snd (step w (OUndecorated i k)) =
    OutTokens (tokens_from (fst (global w)) (snd (global w)) k) /\
  models (fst (step w (OUndecorated i k))) = models w.
Proof.
  intros. rewrite (step_undecorated _ _ _ _ H0). simpl. repeat split.
  destruct (global w) as [s c]. simpl. intro E. inversion E. lia.
Qed.

Print Assumptions undecorated_uses_global.

(* hence: the output of an undecorated sampler on a seeded model is NOT a    *)
(* function of the model's seed -- reproducibility per seed is refuted.      *)
Theorem undecorated_reproducibility_refuted :
  exists w1 w2 i k,
    get_model w1 i = get_model w2 i /\ (exists st, get_model w1 i = Some (Some st)) /\
    snd (step w1 (OUndecorated i k)) <> snd (step w2 (OUndecorated i k)).
Proof.
  exists (mkWorld (1%Z, 0) [Some (7%Z, 0)]), (mkWorld (2%Z, 0) [Some (7%Z, 0)]), 0, 1.
  split; [reflexivity|]. split; [eexists; reflexivity|]. vm_compute. congruence.
Qed.

(* ---------------------------------------------------------------------- *)
(*  run_trace agrees with run                                             *)
(* ---------------------------------------------------------------------- *)
Theorem run_trace_outs : forall ops w,
  map (fun t => fst (fst t)) (run_trace w ops) = snd (run w ops).
Proof.
  induction ops as [|o ops IH]; intros; [reflexivity|].
  rewrite run_cons. simpl. destruct (step w o) as [w1 x]. simpl. now rewrite IH.
Qed.

(* the final world of [run] is the last (global, models) pair of the trace *)
Theorem run_trace_final : forall ops w,
  fst (run w ops) =
  fold_left (fun _ t => mkWorld (snd (fst t)) (snd t)) (run_trace w ops) w.
Proof.
  induction ops as [|o ops IH]; intros; [reflexivity|].
  rewrite run_cons. cbn [fst]. simpl run_trace. destruct (step w o) as [w1 x]. cbn [fst].
  simpl fold_left. rewrite world_eta. apply IH.
Qed.

Theorem run_trace_length : forall ops w, length (run_trace w ops) = length ops.
Proof.
  induction ops; intros; [reflexivity|]. simpl. destruct (step w a). simpl. now rewrite IHops.
Qed.
