(* C17 — vine pair-copula data flow: main theorems on the fit
   (provenance of the columns) for Model/VineData.v.

   1. provenance_full is REFUTED on the faithful model (and on the real
      library): [provenance_refuted] (d = 4, D-vine, level 3; the column handed
      to the copula is not even the swapped one), [provenance_swap_refuted]
      (pure swap), [first_inputs_order_refuted] (level 1: reversed order).
   2. [provenance_partial]: every hereditarily good edge (the child's L is a
      conditioned variable of parents[0], R of parents[1], and the same for all
      its ancestors) gets exactly (F(L|D), F(R|D)) and stores
      U = (F(L|D+R), F(R|D+L)); all edges of levels 1-2 and every edge of a
      C-vine are hereditarily good ([provenance_levels12], [provenance_center]).
   3. [bad_child_swapped]: conversely a child of correct parents whose L lies in
      parents[1] never gets F(L|D) first: its first column is F(R|D). *)
From Coq Require Import List Arith ZArith QArith Lia Bool Permutation Sorting.Sorted.
From Cop Require Import Lib.FinGraph Model.Vine Model.VineData
     Spec.VineDefs Spec.VineSets Spec.VineSort Spec.VineCenter Spec.VineDirect
     Spec.VineRegular Spec.VineValid Spec.VineProofs
     Spec.VineDataProv Spec.VineDataChain Spec.VineDataFlags.
Import ListNotations.
Open Scope nat_scope.

Definition triv : nat -> nat -> nat -> nat -> list nat -> bool := fun _ _ _ _ _ => true.

Lemma prov_is_triv c : prov c = prov_gen triv c.
Proof. reflexivity. Qed.

(* ------------------------------------------------------------------ *)
(** * Structure of a run                                               *)
Lemma train_inv tie sel ty d trunc taus order v :
  train_vine_gen_opt tie sel ty d trunc taus order = Some v ->
  exists ts, v = first_tree tie sel ty d (taus 0) order :: ts /\
             train_rest tie sel ty d taus order (Nat.min (d - 1) trunc - 1) 1
                        (first_tree tie sel ty d (taus 0) order) = Some ts.
Proof.
  unfold train_vine_gen_opt. intros H.
  destruct (train_rest tie sel ty d taus order (Nat.min (d - 1) trunc - 1) 1
                       (first_tree tie sel ty d (taus 0) order)) as [ts|]; [|discriminate].
  injection H as <-. eauto.
Qed.

Lemma map_fst_combine_le {A B} (l1 : list A) : forall (l2 : list B),
  length l1 <= length l2 -> map fst (combine l1 l2) = l1.
Proof.
  induction l1 as [|a l1 IH]; intros [|b l2] H; simpl in *; try lia; auto.
  f_equal. apply IH. lia.
Qed.

Lemma first_inputs_length tie sel ty n tau order :
  length (first_inputs tie sel ty n tau order) = length (first_tree tie sel ty n tau order).
Proof.
  destruct ty; simpl.
  - unfold center_first_gen. now rewrite !map_length.
  - unfold direct_first_gen. rewrite map_length, firstn_length.
    rewrite (combine_length (seq 0 (n - 1))), seq_length. reflexivity.
  - unfold regular_first_gen. now rewrite !map_length.
Qed.

Lemma first_data_edges tie sel ty n tau order :
  map ed_edge (first_data tie sel ty n tau order) = first_tree tie sel ty n tau order.
Proof.
  unfold first_data. rewrite map_map. simpl.
  change (map (fun x : edge * (nat * nat) => fst x)
              (combine (first_tree tie sel ty n tau order)
                       (first_inputs tie sel ty n tau order)))
    with (map fst (combine (first_tree tie sel ty n tau order)
                           (first_inputs tie sel ty n tau order))).
  apply map_fst_combine_le. rewrite first_inputs_length. lia.
Qed.

(* the data plane is total on every structure that train_vine returns and its
   structural projection is that structure *)
Theorem vine_data_total tie sel ty d trunc taus order v :
  train_vine_gen_opt tie sel ty d trunc taus order = Some v ->
  exists Dv, vine_data_gen_opt tie sel ty d trunc taus order = Some Dv /\
             edges_of Dv = v.
Proof.
  intros H. destruct (train_inv _ _ _ _ _ _ _ _ H) as (ts & -> & Hr).
  unfold vine_data_gen_opt. rewrite H.
  pose proof (train_rest_sorted _ _ _ _ _ _ _ _ _ _ Hr) as Hch.
  destruct (data_rest_total ts 1 _ (first_data tie sel ty d (taus 0) order)
                            (first_data_edges tie sel ty d (taus 0) order) Hch) as [ds Hds].
  rewrite Hds. eexists. split; [reflexivity|].
  unfold edges_of. simpl. f_equal.
  - apply first_data_edges.
  - eapply data_rest_edges; eauto.
Qed.

Theorem vine_data_structure tie sel ty d trunc taus order Dv :
  vine_data_gen_opt tie sel ty d trunc taus order = Some Dv ->
  train_vine_gen_opt tie sel ty d trunc taus order = Some (edges_of Dv).
Proof.
  intros H. unfold vine_data_gen_opt in H.
  destruct (train_vine_gen_opt tie sel ty d trunc taus order) as [v|] eqn:Ev; [|discriminate].
  destruct (vine_data_total _ _ _ _ _ _ _ _ Ev) as (Dv' & H' & <-).
  unfold vine_data_gen_opt in H'. rewrite Ev in H'. rewrite H' in H.
  injection H as <-. reflexivity.
Qed.

(* ------------------------------------------------------------------ *)
(** * 1. provenance_partial                                            *)
Section Partial.
  Variable chk : nat -> nat -> nat -> nat -> list nat -> bool.
  Variables (tie : tie_t) (sel : sel_t) (ty : vine_type) (d trunc : nat)
            (taus : nat -> tmat) (order : order_t).
  Variable Dv : list (list edge_data).
  Hypothesis Hrun : vine_data_gen_opt tie sel ty d trunc taus order = Some Dv.
  Let v := edges_of Dv.
  Hypothesis Hfirst : first_ok (nth 0 v []).
  (* the copula named (t, e_idx c) carries c's labels: trivial for [prov],
     from idx_ok for [provc v] *)
  Hypothesis Hchk : forall t T c, nth_error v t = Some T -> In c T -> chk_edge chk t c.

  Theorem provenance_partial_gen t DT i x :
    nth_error Dv t = Some DT -> nth_error DT i = Some x ->
    nth i (nth t (hgood v) []) false = true ->
    U_ok chk x /\
    (t >= 1 -> inputs_ok chk x) /\
    (t = 0 -> inputs_ok chk x \/ inputs_swapped chk x).
  Proof.
    intros Ht Hi Hg.
    pose proof (vine_data_structure _ _ _ _ _ _ _ _ Hrun) as Hs. fold v in Hs.
    destruct (train_inv _ _ _ _ _ _ _ _ Hs) as (ts & Hv & Hr).
    pose proof (train_rest_sorted _ _ _ _ _ _ _ _ _ _ Hr) as Hch.
    unfold vine_data_gen_opt in Hrun. rewrite Hs in Hrun. rewrite Hv in Hrun.
    set (D1 := first_data tie sel ty d (taus 0) order) in *.
    set (T1 := first_tree tie sel ty d (taus 0) order) in *.
    destruct (data_rest 1 D1 ts) as [ds|] eqn:Hds; [|discriminate].
    injection Hrun as <-.
    rewrite Hv in Hfirst. simpl in Hfirst.
    assert (HD1 : forall i0 y, nth_error D1 i0 = Some y ->
              wf_edge (ed_edge y) /\ U_ok chk y /\
              (inputs_ok chk y \/ inputs_swapped chk y)).
    { intros i0 y Hy. destruct (first_data_nth _ _ _ _ _ _ _ _ Hy) as (e & io & He & Hio & ->).
      assert (Hin : In e T1) by (eapply nth_error_In; eauto).
      destruct (Hfirst e Hin) as [Hlt HD].
      split; [apply first_wf; auto|]. split.
      - apply mk_first_U_ok; auto. apply (Hchk 0 T1 e); auto. rewrite Hv. reflexivity.
      - destruct (first_inputs_pair _ _ _ _ _ _ _ _ _ He Hio) as [HL HR].
        unfold inputs_ok, inputs_swapped, mk_first. simpl. rewrite HD.
        destruct (Nat.le_ge_cases (fst io) (snd io)) as [Hle|Hle].
        + left. rewrite HL, HR. rewrite Nat.min_l, Nat.max_r; auto.
        + right. rewrite HL, HR. rewrite Nat.min_r, Nat.max_l; auto. }
    destruct t as [|t].
    - simpl in Ht. injection Ht as <-.
      destruct (HD1 i x Hi) as (_ & HU & Hin). split; auto. split; [lia|auto].
    - simpl in Ht.
      rewrite Hv in Hg. simpl in Hg.
      assert (P1 : forall i0 y, nth_error D1 i0 = Some y -> wf_edge (ed_edge y))
        by (intros i0 y Hy; apply (HD1 i0 y Hy)).
      assert (P2 : forall i0 y, nth_error D1 i0 = Some y ->
                     nth i0 (map (fun _ : edge => true) T1) false = true -> U_ok chk y)
        by (intros i0 y Hy _; apply (HD1 i0 y Hy)).
      assert (P3 : forall k T c, nth_error ts k = Some T -> In c T -> chk_edge chk (1 + k) c).
      { intros k T c HT Hc. apply (Hchk (1 + k) T c); auto. rewrite Hv. exact HT. }
      destruct (prov_rest chk ts 1 T1 D1 (map (fun _ => true) T1) ds
                          (first_data_edges _ _ _ _ _ _) P1 P2 Hch P3 Hds t DT i x Ht Hi Hg)
        as [H1 H2].
      split; [exact H2|]. split; [intros _; exact H1|intros; lia].
  Qed.
End Partial.

(* the plain reading ([prov]: conditional CDFs, no check on the copula's name) *)
Theorem provenance_partial tie sel ty d trunc taus order Dv t DT i x :
  vine_data_gen_opt tie sel ty d trunc taus order = Some Dv ->
  first_ok (nth 0 (edges_of Dv) []) ->
  nth_error Dv t = Some DT -> nth_error DT i = Some x ->
  nth i (nth t (hgood (edges_of Dv)) []) false = true ->
  let e := ed_edge x in
  prov (fst (ed_U x)) = Some (e_L e, set_add (e_R e) (e_D e)) /\
  prov (snd (ed_U x)) = Some (e_R e, set_add (e_L e) (e_D e)) /\
  (t >= 1 -> prov (fst (ed_inputs x)) = Some (e_L e, e_D e) /\
             prov (snd (ed_inputs x)) = Some (e_R e, e_D e)) /\
  (t = 0 -> (prov (fst (ed_inputs x)) = Some (e_L e, []) /\
             prov (snd (ed_inputs x)) = Some (e_R e, [])) \/
            (prov (fst (ed_inputs x)) = Some (e_R e, []) /\
             prov (snd (ed_inputs x)) = Some (e_L e, []))).
Proof.
  intros Hrun Hf Ht Hi Hg e.
  destruct (provenance_partial_gen triv tie sel ty d trunc taus order Dv Hrun Hf)
    with (t := t) (DT := DT) (i := i) (x := x) as ([U0 U1] & Hin & H0); auto.
  { intros; split; reflexivity. }
  split; [exact U0|]. split; [exact U1|]. split; [exact Hin|].
  intros ->. assert (HD : e_D e = []).
  { apply (Hf e). unfold edges_of.
    destruct Dv as [|D0 r]; [discriminate|]. simpl in *. injection Ht as <-.
    apply in_map. eapply nth_error_In; eauto. }
  destruct (H0 eq_refl) as [[A B]|[A B]]; [left|right]; rewrite <- HD; split; auto.
Qed.

(* with the check that each h-function is the one of the copula labelled
   ({a,b} | S) in the vine: needs e_idx = position *)
Lemma chk_labels_edge v t T c :
  nth_error v t = Some T -> idx_ok T -> In c T -> chk_edge (chk_labels v) t c.
Proof.
  intros Ht Hidx Hc. apply In_nth_error in Hc. destruct Hc as [i Hi].
  pose proof (Hidx i c Hi) as Hidx'.
  unfold chk_edge, chk_labels. rewrite (nth_error_nth _ _ [] Ht), Hidx', Hi.
  rewrite nat_list_eqb_refl, !Nat.eqb_refl. simpl. split; auto.
  apply orb_true_r.
Qed.

Theorem provenance_partial_c tie sel ty d trunc taus order Dv t DT i x :
  vine_data_gen_opt tie sel ty d trunc taus order = Some Dv ->
  let v := edges_of Dv in
  first_ok (nth 0 v []) ->
  (forall t T, nth_error v t = Some T -> idx_ok T) ->
  nth_error Dv t = Some DT -> nth_error DT i = Some x ->
  nth i (nth t (hgood v) []) false = true ->
  U_ok (chk_labels v) x /\ (t >= 1 -> inputs_ok (chk_labels v) x).
Proof.
  intros Hrun v Hf Hidx Ht Hi Hg.
  destruct (provenance_partial_gen (chk_labels v) tie sel ty d trunc taus order Dv Hrun Hf)
    with (t := t) (DT := DT) (i := i) (x := x) as (HU & Hin & _); auto.
  intros t0 T c HT Hc. eapply chk_labels_edge; eauto.
Qed.

(* ------------------------------------------------------------------ *)
(** * Levels 1 and 2 are always right                                  *)
Lemma first_ok_sameD T : first_ok T -> sameD T.
Proof. intros H a b Ha Hb. rewrite (proj2 (H a Ha)), (proj2 (H b Hb)). reflexivity. Qed.

Lemma first_ok_wf T : first_ok T -> forall a, In a T -> wf_edge a.
Proof. intros H a Ha. destruct (H a Ha). apply first_wf; auto. Qed.

Theorem hgood_levels12 tie sel ty d trunc taus order v t :
  train_vine_gen_opt tie sel ty d trunc taus order = Some v ->
  first_ok (nth 0 v []) -> t <= 1 ->
  all_true (nth t (hgood v) []).
Proof.
  intros Hs Hf Ht.
  destruct (train_inv _ _ _ _ _ _ _ _ Hs) as (ts & Hv & Hr).
  pose proof (train_rest_sorted _ _ _ _ _ _ _ _ _ _ Hr) as Hch.
  rewrite Hv in *. simpl in Hf. simpl.
  set (T1 := first_tree tie sel ty d (taus 0) order) in *.
  destruct t as [|[|t]]; try lia; simpl.
  - apply all_true_map.
  - destruct ts as [|T2 r]; simpl.
    + intros i Hi. simpl in Hi. lia.
    + destruct Hch as [Hst _].
      eapply hgood_tree_all; eauto.
      * apply first_ok_wf; auto.
      * apply first_ok_sameD; auto.
      * apply map_length.
      * apply all_true_map.
Qed.

Theorem provenance_levels12 tie sel ty d trunc taus order Dv t DT i x :
  vine_data_gen_opt tie sel ty d trunc taus order = Some Dv ->
  first_ok (nth 0 (edges_of Dv) []) -> t <= 1 ->
  nth_error Dv t = Some DT -> nth_error DT i = Some x ->
  let e := ed_edge x in
  prov (fst (ed_U x)) = Some (e_L e, set_add (e_R e) (e_D e)) /\
  prov (snd (ed_U x)) = Some (e_R e, set_add (e_L e) (e_D e)) /\
  (t = 1 -> prov (fst (ed_inputs x)) = Some (e_L e, e_D e) /\
            prov (snd (ed_inputs x)) = Some (e_R e, e_D e)).
Proof.
  intros Hrun Hf Ht HDT Hi e.
  pose proof (vine_data_structure _ _ _ _ _ _ _ _ Hrun) as Hs.
  pose proof (hgood_levels12 _ _ _ _ _ _ _ _ t Hs Hf Ht) as Hall.
  assert (Hlen : i < length (nth t (hgood (edges_of Dv)) [])).
  { assert (Hi' : i < length DT) by (apply nth_error_Some; congruence).
    assert (HT : nth_error (edges_of Dv) t = Some (map ed_edge DT)).
    { unfold edges_of. rewrite nth_error_map, HDT. reflexivity. }
    clear - Hi' HT Ht. destruct (edges_of Dv) as [|T1 ts]; [destruct t; discriminate|].
    destruct t as [|[|t]]; try lia; simpl in *.
    - injection HT as ->. rewrite !map_length. auto.
    - destruct ts as [|T2 r]; [discriminate|]. simpl in *. injection HT as ->.
      rewrite hgood_tree_length, map_length. auto. }
  destruct (provenance_partial _ _ _ _ _ _ _ Dv t DT i x Hrun Hf HDT Hi (Hall i Hlen))
    as (U0 & U1 & Hin & _).
  split; auto. split; auto. intros ->. apply Hin. lia.
Qed.

(* ------------------------------------------------------------------ *)
(** * Every C-vine is right at every level                             *)
Theorem hgood_center tie sel d trunc taus order :
  d >= 2 ->
  (forall j, j < d - 1 -> good_sort tie (d - j) (taus j)) ->
  exists v, train_vine_gen_opt tie sel Center d trunc taus order = Some v /\
            first_ok (nth 0 v []) /\
            (forall t T, nth_error v t = Some T -> idx_ok T) /\
            forall t, all_true (nth t (hgood v) []).
Proof.
  intros Hd Hg.
  destruct (center_vine_ok tie sel d trunc taus order Hd Hg)
    as (T1 & ts & Hrun & _ & _ & HT1 & _ & Hfirst & Hchain & (K & x & HK & Hcc)).
  exists (T1 :: ts). split; [exact Hrun|].
  assert (Hf : first_ok T1).
  { intros e He. destruct (Hfirst e He) as (H1 & _ & H2). split; auto. lia. }
  split; [exact Hf|]. split.
  { intros t T HT. destruct t as [|t]; simpl in HT.
    - injection HT as <-. destruct HK as (_ & _ & _ & H & _). exact H.
    - assert (HT' : nth_error (T1 :: ts) (S t) = Some T) by exact HT.
      destruct t as [|t'].
      + destruct ts as [|T2 r]; [discriminate|]. simpl in HT. injection HT as <-.
        destruct Hchain as [(_ & H & _) _]. exact H.
      + assert (exists Tp, nth_error (T1 :: ts) (S t') = Some Tp) as [Tp HTp].
        { destruct (nth_error (T1 :: ts) (S t')) eqn:E; eauto.
          apply nth_error_None in E.
          assert (S (S t') < length (T1 :: ts)) by (apply nth_error_Some; congruence). lia. }
        pose proof (chain_nth _ _ _ _ Hchain (S t') Tp T HTp HT') as (_ & H & _). exact H. }
  destruct (train_inv _ _ _ _ _ _ _ _ Hrun) as (ts' & Hv & Hr).
  simpl first_tree in Hv, Hr.
  injection Hv as HT1' Hts. subst ts'. rewrite <- HT1' in Hr.
  pose proof (train_rest_sorted _ _ _ _ _ _ _ _ _ _ Hr) as Hch.
  intros t. destruct t as [|t]; simpl.
  - apply all_true_map.
  - destruct (nth_error (hgood_rest T1 (map (fun _ => true) T1) ts) t) as [g|] eqn:Eg.
    + rewrite (nth_error_nth _ _ [] Eg).
      eapply (hgood_rest_all ts 1 T1 (map (fun _ : edge => true) T1)); eauto.
      * apply first_ok_wf; auto.
      * apply first_ok_sameD; auto.
      * eapply chain_sameD_incr; eauto. eapply cchain_sameD; eauto.
      * apply map_length.
      * apply all_true_map.
    + apply nth_error_None in Eg. rewrite nth_overflow; auto.
      intros i Hi. simpl in Hi. lia.
Qed.

Lemma vine_data_first' tie sel ty d trunc taus order Dv :
  vine_data_gen_opt tie sel ty d trunc taus order = Some Dv ->
  exists r, Dv = first_data tie sel ty d (taus 0) order :: r.
Proof.
  unfold vine_data_gen_opt.
  destruct (train_vine_gen_opt tie sel ty d trunc taus order) as [[|T1 ts]|]; try discriminate.
  destruct (data_rest 1 (first_data tie sel ty d (taus 0) order) ts); [|discriminate].
  intros H. injection H as <-. eauto.
Qed.

Lemma vine_data_first tie sel ty d trunc taus order Dv :
  vine_data_gen_opt tie sel ty d trunc taus order = Some Dv ->
  nth_error Dv 0 = Some (first_data tie sel ty d (taus 0) order).
Proof. intros H. destruct (vine_data_first' _ _ _ _ _ _ _ _ H) as [r ->]. reflexivity. Qed.

Lemma center_first_input0 tie sel n tau order i x :
  nth_error (first_data tie sel Center n tau order) i = Some x ->
  fst (ed_inputs x) = CMarg 0.
Proof.
  intros H. destruct (first_data_nth _ _ _ _ _ _ _ _ H) as (e & io & _ & Hio & ->).
  simpl in Hio. apply nth_error_map_inv in Hio. destruct Hio as [p [_ <-]]. reflexivity.
Qed.

Theorem provenance_center tie sel d trunc taus order :
  d >= 2 ->
  (forall j, j < d - 1 -> good_sort tie (d - j) (taus j)) ->
  exists Dv, vine_data_gen_opt tie sel Center d trunc taus order = Some Dv /\
    forall t DT i x, nth_error Dv t = Some DT -> nth_error DT i = Some x ->
      inputs_ok (chk_labels (edges_of Dv)) x /\ U_ok (chk_labels (edges_of Dv)) x.
Proof.
  intros Hd Hg.
  destruct (hgood_center tie sel d trunc taus order Hd Hg) as (v & Hrun & Hf & Hidx & Hall).
  destruct (vine_data_total _ _ _ _ _ _ _ _ Hrun) as (Dv & HDv & Hv).
  exists Dv. split; [exact HDv|]. subst v.
  intros t DT i x Ht Hi.
  assert (Hlen : i < length (nth t (hgood (edges_of Dv)) [])).
  { assert (Hi' : i < length DT) by (apply nth_error_Some; congruence).
    assert (HT : nth_error (edges_of Dv) t = Some (map ed_edge DT)).
    { unfold edges_of. rewrite nth_error_map, Ht. reflexivity. }
    clear - Hi' HT. destruct (edges_of Dv) as [|T1 ts]; [destruct t; discriminate|].
    destruct t as [|t]; simpl in *.
    - injection HT as ->. rewrite !map_length. auto.
    - revert HT. generalize (map (fun _ : edge => true) T1). generalize T1.
      revert t. induction ts as [|T2 r IH]; intros [|t] T0 g HT; simpl in *; try discriminate.
      + injection HT as ->. rewrite hgood_tree_length, map_length. auto.
      + apply IH; auto. }
  assert (Hchk : forall t0 T c, nth_error (edges_of Dv) t0 = Some T -> In c T ->
                   chk_edge (chk_labels (edges_of Dv)) t0 c).
  { intros t0 T c HT Hc. eapply chk_labels_edge; eauto. }
  destruct (provenance_partial_gen (chk_labels (edges_of Dv)) tie sel Center d trunc taus order
              Dv HDv Hf Hchk t DT i x Ht Hi (Hall t i Hlen)) as (HU & Hin & H0).
  split; auto.
  destruct t as [|t]; [|apply Hin; lia].
  (* level 1 of a C-vine: the pair is (0, ind), already in (L, R) order *)
  destruct (H0 eq_refl) as [H|[A B]]; auto.
  exfalso.
  rewrite (vine_data_first _ _ _ _ _ _ _ _ HDv) in Ht. injection Ht as <-.
  pose proof (center_first_input0 _ _ _ _ _ _ _ Hi) as E0.
  assert (Hlt : e_L (ed_edge x) < e_R (ed_edge x)).
  { apply (Hf (ed_edge x)). unfold edges_of.
    destruct (vine_data_first' _ _ _ _ _ _ _ _ HDv) as [r ->]. simpl.
    apply in_map. eapply nth_error_In; eauto. }
  rewrite E0 in A. simpl in A. injection A as A _. lia.
Qed.

(* ------------------------------------------------------------------ *)
(** * provenance_full is refuted                                       *)
(* Smallest witness: d = 4 (a level-3 edge needs 4 variables; levels 1-2 are
   always right).  D-vine on Vine.tauA, path 3-2-0-1.  The level-3 edge is
   labelled (1,3 | 0,2); its parents in sort_edge order are (0,3|2), (1,2|0);
   its smaller variable 1 is the L of parents[1].  Handed to select_copula:
   (F(3|0,2), F(2|0,1)): the first column is F(R|D), the second is not a
   conditional of the pair at all; edge.U is not a conditional CDF. *)
Definition the_edge (Dv : option (list (list edge_data))) (t i : nat) : option edge_data :=
  match Dv with Some v => nth_error (nth t v []) i | None => None end.

Theorem provenance_refuted :
  exists ty d trunc taus order x,
    the_edge (vine_data_opt ty d trunc taus order) 2 0 = Some x /\
    show (ed_edge x) = (0, (1, 3), [0; 2], Some (0, 1)) /\
    prov (fst (ed_inputs x)) = Some (3, [0; 2]) /\        (* F(R | D) *)
    prov (snd (ed_inputs x)) = Some (2, [0; 1]) /\        (* F(2 | 0,1): neither F(L|D) nor F(R|D) *)
    prov (fst (ed_U x)) = None /\ prov (snd (ed_U x)) = None /\
    inputs_okb x = false /\ inputs_swappedb x = false /\ U_okb x = false.
Proof.
  exists Direct, 4, 3, (fun _ => tauA), id_order.
  eexists. split; [vm_compute; reflexivity|]. vm_compute. repeat split; reflexivity.
Qed.

(* the pure swap: D-vine (and R-vine) on tauS, path 3-1-0-2; the level-3 edge
   (2,3 | 0,1) has parents (0,3|1), (1,2|0); 2 is the R of parents[1] *)
Definition tauS : tmat :=
  [[one;      q 6 10;  q 5 10;  q 1 10];
   [q 6 10;   one;     q 3 10;  q 4 10];
   [q 5 10;   q 3 10;  one;     q 2 10];
   [q 1 10;   q 4 10;  q 2 10;  one]].

Theorem provenance_swap_refuted :
  forall ty, ty = Direct \/ ty = Regular ->
  exists x,
    the_edge (vine_data_opt ty 4 3 (fun _ => tauS) id_order) 2 0 = Some x /\
    (e_L (ed_edge x), e_R (ed_edge x), e_D (ed_edge x)) = (2, 3, [0; 1]) /\
    prov (fst (ed_inputs x)) = Some (3, [0; 1]) /\        (* F(R | D) *)
    prov (snd (ed_inputs x)) = Some (2, [0; 1]) /\        (* F(L | D) *)
    prov (fst (ed_U x)) = Some (3, [0; 1; 2]) /\          (* U[0] = F(R | D+L), labelled as F(L | D+R) *)
    prov (snd (ed_U x)) = Some (2, [0; 1; 3]) /\
    inputs_okb x = false /\ inputs_swappedb x = true /\ U_okb x = false.
Proof.
  intros ty [-> | ->]; eexists; (split; [vm_compute; reflexivity|]);
    vm_compute; repeat split; reflexivity.
Qed.

(* level 1: the two marginal columns reach select_copula in the order of the
   path / of Prim's orientation, not in (L, R) order *)
Theorem first_inputs_order_refuted :
  exists x,
    the_edge (vine_data_opt Direct 4 3 (fun _ => tauA) id_order) 0 0 = Some x /\
    (e_L (ed_edge x), e_R (ed_edge x)) = (2, 3) /\
    ed_inputs x = (CMarg 3, CMarg 2) /\
    ed_U x = (CH 0 0 (CMarg 2) (CMarg 3), CH 0 0 (CMarg 3) (CMarg 2)).
Proof. eexists. split; [vm_compute; reflexivity|]. vm_compute. repeat split; reflexivity. Qed.

(* the decidable criterion singles out exactly these edges *)
Example hgood_tauA :
  option_map hgood (train_vine_opt Direct 4 3 (fun _ => tauA) id_order)
  = Some [[true; true; true]; [true; true]; [false]].
Proof. vm_compute. reflexivity. Qed.
Example hgood_tauS :
  option_map hgood (train_vine_opt Regular 4 3 (fun _ => tauS) id_order)
  = Some [[true; true; true]; [true; true]; [false]].
Proof. vm_compute. reflexivity. Qed.
(* non-vacuity of provenance_partial / provenance_center: a C-vine with 5
   variables and all 4 levels *)
Example hgood_center_tauB :
  option_map hgood (train_vine_opt Center 5 9 (fun _ => tauB) id_order)
  = Some [[true; true; true; true]; [true; true; true]; [true; true]; [true]].
Proof. vm_compute. reflexivity. Qed.
Example center_tauB_all_ok :
  option_map (map (map (fun x => inputs_okb x && U_okb x)))
             (vine_data_opt Center 5 9 (fun _ => tauB) id_order)
  = Some [[true; true; true; true]; [true; true; true]; [true; true]; [true]].
Proof. vm_compute. reflexivity. Qed.

(* what a bad child gets, in general: [cond_uni_bad] (Spec/VineDataProv.v) *)
Check cond_uni_bad.

(* ------------------------------------------------------------------ *)
(** * The hypotheses of the partial theorems hold for fitted vines     *)
Theorem first_ok_direct tie sel d trunc taus order :
  d >= 2 -> good_sort tie d (taus 0) -> tau_ok d (taus 0) ->
  exists v, train_vine_gen_opt tie sel Direct d trunc taus order = Some v /\
            first_ok (nth 0 v []).
Proof.
  intros Hd Hg Hok.
  destruct (direct_vine_ok tie sel d trunc taus order Hd Hg Hok)
    as (T1 & ts & Hrun & _ & _ & _ & _ & Hfirst & _).
  exists (T1 :: ts). split; auto.
  intros e He. destruct (Hfirst e He) as (H1 & H2 & H3). split; auto. lia.
Qed.

Theorem first_ok_regular tie sel d trunc taus order v :
  sel_in sel -> sel_some sel -> perm_fun order -> d >= 2 ->
  train_vine_gen_opt tie sel Regular d trunc taus order = Some v ->
  first_ok (nth 0 v []).
Proof.
  intros Hs Hsome Ho Hd Hrun.
  destruct (regular_vine_sound tie sel d trunc taus order v Hs Hsome Ho Hd Hrun)
    as (_ & _ & T1 & ts & -> & _ & _ & Hfirst & _).
  intros e He. destruct (Hfirst e He) as (H1 & _ & H3 & _). split; auto.
Qed.

Print Assumptions provenance_partial.
Print Assumptions provenance_partial_c.
Print Assumptions provenance_levels12.
Print Assumptions provenance_center.
Print Assumptions provenance_refuted.
Print Assumptions provenance_swap_refuted.
Print Assumptions first_inputs_order_refuted.
Print Assumptions cond_uni_bad.
Print Assumptions first_ok_direct.
Print Assumptions first_ok_regular.
