(* C17, part 4b: on the hereditarily good edges the likelihood recursion feeds
   every pair copula with the right conditional distribution functions:
   args_e = (F(L | D), F(R | D)) (with F(i | {}) = the caller's u_i), hence
   get_likelihood is the log-density of the vine factorisation there — in
   particular on every C-vine. *)
From Coq Require Import List Arith ZArith QArith Lia Bool Permutation Sorting.Sorted.
From Cop Require Import Lib.FinGraph Model.Vine Model.VineData
     Spec.VineDefs Spec.VineSets Spec.VineSort Spec.VineCenter Spec.VinePairs
     Spec.VineDataProv Spec.VineDataChain Spec.VineDataFlags Spec.VineDataProofs
     Spec.VineLikProofs.
Import ListNotations.
Open Scope nat_scope.

Definition cell_ok (m : umat) (a : edge) : Prop :=
  exists x y,
    uget m (e_L a) (e_R a) = Some x /\ prov x = Some (e_L a, set_add (e_R a) (e_D a)) /\
    uget m (e_R a) (e_L a) = Some y /\ prov y = Some (e_R a, set_add (e_L a) (e_D a)).

Definition mat_ok (m : umat) (T : list edge) (g : list bool) : Prop :=
  forall i a, nth_error T i = Some a -> nth i g false = true -> cell_ok m a.

Definition args_ok (c : edge) (le : lik_edge) : Prop :=
  prov (fst (le_args le)) = Some (e_L c, e_D c) /\
  prov (snd (le_args le)) = Some (e_R c, e_D c).

(* ---------- one edge ---------- *)
Lemma args_good t d prev gprev m c le :
  mat_ok m prev gprev ->
  (forall a, In a prev -> wf_edge a) ->
  sorted_child prev c ->
  nth 0 (hgood_tree prev gprev [c]) false = true ->
  edge_lik t d prev m c = Some le ->
  args_ok c le.
Proof.
  intros Hm Hwf (i & j & a & b & Hp & Ha & Hb & Hkey & Hid) Hg Hle.
  simpl in Hg. rewrite Hp, Ha, Hb in Hg.
  apply andb_prop in Hg. destruct Hg as [Hg Hgj].
  apply andb_prop in Hg. destruct Hg as [Hg Hgi].
  apply goodb_spec in Hg. destruct Hg as [HL HR].
  assert (Hina : In a prev) by (eapply nth_error_In; eauto).
  assert (Hinb : In b prev) by (eapply nth_error_In; eauto).
  pose proof (Hwf a Hina) as Hwa. pose proof (Hwf b Hinb) as Hwb.
  unfold identify_eds_ing in Hid.
  destruct (set_symdiff (U a) (U b)) as [|l0 [|r0 [|z w]]] eqn:E; try discriminate.
  injection Hid as El Er ED.
  destruct (symdiff_two a b l0 r0 E) as [Hlt Hsd]. rewrite El, Er in *.
  destruct (child_D_side a b (e_L c) (e_R c) Hwa Hsd) as (oa & HDa & Hoa & Hca); auto; try lia.
  { rewrite U_members. tauto. }
  destruct (child_D_side b a (e_R c) (e_L c) Hwb) as (ob & HDb & Hob & Hcb); auto; try lia.
  { intros v. rewrite set_symdiff_comm, Hsd. tauto. }
  { rewrite U_members. tauto. }
  rewrite set_inter_comm in HDb.
  unfold edge_lik, edge_reads in Hle. rewrite Hp, Ha, Hb in Hle.
  rewrite <- ED in Hle.
  assert (D1 : set_diff (set_inter (U a) (U b)) (e_D a) = [oa]).
  { rewrite HDa. apply set_diff_add; auto. apply Hwa. }
  assert (D2 : set_diff (set_inter (U a) (U b)) (e_D b) = [ob]).
  { rewrite HDb. apply set_diff_add; auto. apply Hwb. }
  rewrite D1, D2 in Hle.
  destruct ((e_L c <? d) && (e_R c <? d) && (oa <? d) && (ob <? d)); [|discriminate].
  injection Hle as <-. unfold args_ok. simpl.
  destruct (Hm i a Ha Hgi) as (xa & ya & Ha1 & Ha2 & Ha3 & Ha4).
  destruct (Hm j b Hb Hgj) as (xb & yb & Hb1 & Hb2 & Hb3 & Hb4).
  rewrite <- ED. split.
  - destruct Hca as [[E1 E2]|[E1 E2]]; rewrite E1, E2.
    + rewrite Ha1. simpl. rewrite Ha2, HDa, E2. reflexivity.
    + rewrite Ha3. simpl. rewrite Ha4, HDa, E2. reflexivity.
  - destruct Hcb as [[E1 E2]|[E1 E2]]; rewrite E1, E2.
    + rewrite Hb1. simpl. rewrite Hb2, HDb, E2. reflexivity.
    + rewrite Hb3. simpl. rewrite Hb4, HDb, E2. reflexivity.
Qed.

(* ---------- one tree: which value ends up in which cell ---------- *)
Lemma tree_lik_preserve t d prev m : forall T newm les mm,
  tree_lik t d prev m T newm = Some (les, mm) ->
  forall r c, (forall e, In e T -> ~ (e_L e = r /\ e_R e = c) /\ ~ (e_R e = r /\ e_L e = c)) ->
  uget mm r c = uget newm r c.
Proof.
  induction T as [|e T IH]; intros newm les mm H r c Hno; simpl in H.
  - injection H as <- <-. reflexivity.
  - destruct (edge_lik t d prev m e) as [le|]; [|discriminate].
    destruct (le_args le) as [lu ru].
    destruct (tree_lik t d prev m T _) as [[les' mm']|] eqn:E; [|discriminate].
    injection H as <- <-.
    rewrite (IH _ _ _ E r c) by (intros; apply Hno; right; auto).
    destruct (Hno e (or_introl eq_refl)) as [N1 N2]. simpl.
    destruct ((e_R e =? r) && (e_L e =? c)) eqn:B1.
    { apply andb_prop in B1. rewrite !Nat.eqb_eq in B1. tauto. }
    destruct ((e_L e =? r) && (e_R e =? c)) eqn:B2.
    { apply andb_prop in B2. rewrite !Nat.eqb_eq in B2. tauto. }
    reflexivity.
Qed.

Lemma tree_lik_cell t d prev m : forall T newm les mm,
  tree_lik t d prev m T newm = Some (les, mm) ->
  NoDup (map LR T) -> (forall e, In e T -> e_L e < e_R e) ->
  forall i e le, nth_error T i = Some e -> nth_error les i = Some le ->
    uget mm (e_L e) (e_R e) = Some (CH t (e_idx e) (fst (le_args le)) (snd (le_args le))) /\
    uget mm (e_R e) (e_L e) = Some (CH t (e_idx e) (snd (le_args le)) (fst (le_args le))).
Proof.
  induction T as [|e0 T IH]; intros newm les mm H Hnd Hlt i e le Hi Hle; simpl in H.
  - destruct i; discriminate.
  - destruct (edge_lik t d prev m e0) as [le0|] eqn:El; [|discriminate].
    destruct (le_args le0) as [lu ru] eqn:Ea.
    destruct (tree_lik t d prev m T _) as [[les' mm']|] eqn:E; [|discriminate].
    injection H as <- <-. simpl in Hnd. inversion Hnd as [|? ? Hnot Hnd']; subst.
    destruct i as [|i]; simpl in Hi, Hle.
    + injection Hi as <-. injection Hle as <-. rewrite Ea. simpl.
      assert (Hno : forall e', In e' T ->
                ~ (e_L e' = e_L e0 /\ e_R e' = e_R e0) /\ ~ (e_R e' = e_L e0 /\ e_L e' = e_R e0)).
      { intros e' He'. split.
        - intros [A B]. apply Hnot. apply in_map_iff. exists e'. split; auto.
          unfold LR. now rewrite A, B.
        - intros [A B]. pose proof (Hlt e' (or_intror He')). pose proof (Hlt e0 (or_introl eq_refl)).
          lia. }
      pose proof (Hlt e0 (or_introl eq_refl)) as Hlt0.
      split.
      * rewrite (tree_lik_preserve _ _ _ _ _ _ _ _ E (e_L e0) (e_R e0) Hno). simpl.
        assert (B : (e_R e0 =? e_L e0) && (e_L e0 =? e_R e0) = false).
        { apply andb_false_iff. left. apply Nat.eqb_neq. lia. }
        rewrite B, !Nat.eqb_refl. reflexivity.
      * rewrite (tree_lik_preserve _ _ _ _ _ _ _ _ E (e_R e0) (e_L e0)).
        -- simpl. rewrite !Nat.eqb_refl. reflexivity.
        -- intros e' He'. destruct (Hno e' He'). tauto.
    + eapply IH; eauto. intros; apply Hlt; right; auto.
Qed.

Lemma tree_lik_level t d prev gprev m T les mm :
  mat_ok m prev gprev ->
  (forall a, In a prev -> wf_edge a) ->
  (forall c, In c T -> sorted_child prev c) ->
  NoDup (map LR T) ->
  tree_lik t d prev m T [] = Some (les, mm) ->
  (forall i c le, nth_error T i = Some c -> nth_error les i = Some le ->
                  nth i (hgood_tree prev gprev T) false = true -> args_ok c le) /\
  mat_ok mm T (hgood_tree prev gprev T).
Proof.
  intros Hm Hwf Hs Hnd H.
  assert (Hargs : forall i c le, nth_error T i = Some c -> nth_error les i = Some le ->
            nth i (hgood_tree prev gprev T) false = true -> args_ok c le).
  { intros i c le Hc Hle Hg.
    destruct (tree_lik_nth _ _ _ _ _ _ _ _ _ _ H Hc) as [le' [Hle' Hel]].
    rewrite Hle in Hle'. injection Hle' as <-.
    rewrite (hgood_tree_nth _ _ _ _ _ Hc) in Hg.
    eapply args_good; eauto. apply Hs. eapply nth_error_In; eauto. }
  split; [exact Hargs|].
  intros i c Hc Hg.
  destruct (tree_lik_nth _ _ _ _ _ _ _ _ _ _ H Hc) as [le [Hle Hel]].
  assert (Hwfc : wf_edge c).
  { eapply sorted_child_wf. apply Hs. eapply nth_error_In; eauto. }
  destruct (tree_lik_cell _ _ _ _ _ _ _ _ H Hnd) with (i := i) (e := c) (le := le)
    as [C1 C2]; auto.
  { intros e He. apply (sorted_child_wf prev e (Hs e He)). }
  destruct (Hargs i c le Hc Hle Hg) as [A1 A2].
  pose proof Hwfc as (Hlt & Hi & HL & HR).
  exists (CH t (e_idx c) (fst (le_args le)) (snd (le_args le))),
         (CH t (e_idx c) (snd (le_args le)) (fst (le_args le))).
  split; [exact C1|]. split.
  - rewrite prov_is_triv. apply prov_CH; auto. lia.
  - split; [exact C2|]. rewrite prov_is_triv. apply prov_CH; auto. lia.
Qed.

(* ---------- the trees of level >= 2 ---------- *)
Lemma vine_lik_from_args d : forall ts t prev gprev m res,
  mat_ok m prev gprev ->
  (forall a, In a prev -> wf_edge a) ->
  chain sstep t prev ts ->
  (forall T, In T ts -> NoDup (map LR T)) ->
  vine_lik_from t d prev m ts = Some res ->
  forall k T les i c le,
    nth_error ts k = Some T -> nth_error res k = Some les ->
    nth_error T i = Some c -> nth_error les i = Some le ->
    nth i (nth k (hgood_rest prev gprev ts) []) false = true ->
    args_ok c le.
Proof.
  induction ts as [|T0 r IH]; intros t prev gprev m res Hm Hwf Hch Hnd H k T les i c le HT Hres Hc Hle Hg;
    simpl in H.
  - destruct k; discriminate.
  - destruct (tree_lik t d prev m T0 []) as [[les0 newm]|] eqn:E; [|discriminate].
    destruct (vine_lik_from (S t) d T0 newm r) as [rest|] eqn:Er; [|discriminate].
    injection H as <-. destruct Hch as [Hst Hch].
    destruct (tree_lik_level t d prev gprev m T0 les0 newm Hm Hwf Hst
                             (Hnd T0 (or_introl eq_refl)) E) as [Hargs Hmat].
    destruct k as [|k]; simpl in *.
    + injection HT as <-. injection Hres as <-. eapply Hargs; eauto.
    + eapply (IH (S t) T0 (hgood_tree prev gprev T0) newm rest); eauto.
      intros a Ha. eapply sorted_child_wf. apply Hst; auto.
Qed.

(* ---------- tree 0 ---------- *)
Lemma tree0_level d T1 les mm :
  first_ok T1 -> (forall e, In e T1 -> e_par e = None) -> NoDup (map LR T1) ->
  tree_lik 0 d [] (umat0 d) T1 [] = Some (les, mm) ->
  (forall i c le, nth_error T1 i = Some c -> nth_error les i = Some le -> args_ok c le) /\
  mat_ok mm T1 (map (fun _ => true) T1).
Proof.
  intros Hf Hp Hnd H.
  assert (Hargs : forall i c le, nth_error T1 i = Some c -> nth_error les i = Some le ->
                                 le_args le = (CMarg (e_L c), CMarg (e_R c))).
  { intros i c le Hc Hle.
    destruct (tree_lik_nth _ _ _ _ _ _ _ _ _ _ H Hc) as [le' [Hle' Hel]].
    rewrite Hle in Hle'. injection Hle' as <-.
    apply tree0_reads in Hel; [tauto|]. apply Hp. eapply nth_error_In; eauto. }
  split.
  - intros i c le Hc Hle. unfold args_ok. rewrite (Hargs i c le Hc Hle). simpl.
    destruct (Hf c) as [_ ->]; [eapply nth_error_In; eauto|]. auto.
  - intros i c Hc _.
    destruct (tree_lik_nth _ _ _ _ _ _ _ _ _ _ H Hc) as [le [Hle Hel]].
    destruct (tree_lik_cell _ _ _ _ _ _ _ _ H Hnd) with (i := i) (e := c) (le := le)
      as [C1 C2]; auto.
    { intros e He. apply (Hf e He). }
    rewrite (Hargs i c le Hc Hle) in C1, C2. simpl in C1, C2.
    destruct (Hf c) as [Hlt HD]; [eapply nth_error_In; eauto|].
    do 2 eexists. split; [exact C1|]. split; [|split; [exact C2|]].
    + rewrite HD, prov_is_triv. apply prov_CH; try reflexivity; simpl; auto; lia.
    + rewrite HD, prov_is_triv. apply prov_CH; try reflexivity; simpl; auto; lia.
Qed.

(* ---------- the whole vine ---------- *)
Theorem likelihood_args_ok d T1 ts res :
  vine_lik d (T1 :: ts) = Some res ->
  first_ok T1 -> (forall e, In e T1 -> e_par e = None) ->
  chain sstep 1 T1 ts ->
  (forall T, In T (T1 :: ts) -> NoDup (map LR T)) ->
  forall t T les i c le,
    nth_error (T1 :: ts) t = Some T -> nth_error res t = Some les ->
    nth_error T i = Some c -> nth_error les i = Some le ->
    nth i (nth t (hgood (T1 :: ts)) []) false = true ->
    prov (fst (le_args le)) = Some (e_L c, e_D c) /\
    prov (snd (le_args le)) = Some (e_R c, e_D c).
Proof.
  unfold vine_lik. simpl. intros H Hf Hp Hch Hnd t T les i c le HT Hres Hc Hle Hg.
  destruct (tree_lik 0 d [] (umat0 d) T1 []) as [[les0 m1]|] eqn:E; [|discriminate].
  destruct (vine_lik_from 1 d T1 m1 ts) as [rest|] eqn:Er; [|discriminate].
  injection H as <-.
  destruct (tree0_level d T1 les0 m1 Hf Hp (Hnd T1 (or_introl eq_refl)) E) as [Hargs Hmat].
  destruct t as [|t]; simpl in *.
  - injection HT as <-. injection Hres as <-. eapply Hargs; eauto.
  - eapply (vine_lik_from_args d ts 1 T1 (map (fun _ => true) T1) m1 rest); eauto.
    apply first_ok_wf; auto.
Qed.

(* ---------- every C-vine ---------- *)
Lemma NoDup_app_l {A} (l1 l2 : list A) : NoDup (l1 ++ l2) -> NoDup l1.
Proof.
  induction l1 as [|a l1 IH]; simpl; intros H; [constructor|].
  inversion H; subst. constructor; auto. intros Hin. apply H2. apply in_or_app. auto.
Qed.
Lemma NoDup_app_r {A} (l1 l2 : list A) : NoDup (l1 ++ l2) -> NoDup l2.
Proof.
  induction l1 as [|a l1 IH]; simpl; intros H; auto. inversion H; auto.
Qed.

Lemma NoDup_concat_each {A B} (f : A -> B) (v : list (list A)) :
  NoDup (map f (concat v)) -> forall T, In T v -> NoDup (map f T).
Proof.
  induction v as [|T0 r IH]; intros H T HT; [destruct HT|]. simpl in H.
  rewrite map_app in H. destruct HT as [<-|HT].
  - eapply NoDup_app_l; eauto.
  - apply IH; auto. eapply NoDup_app_r; eauto.
Qed.

Theorem likelihood_args_center tie sel d trunc taus order :
  d >= 2 ->
  (forall j, j < d - 1 -> good_sort tie (d - j) (taus j)) ->
  exists v, train_vine_gen_opt tie sel Center d trunc taus order = Some v /\
    forall res, vine_lik d v = Some res ->
    forall t T les i c le,
      nth_error v t = Some T -> nth_error res t = Some les ->
      nth_error T i = Some c -> nth_error les i = Some le ->
      prov (fst (le_args le)) = Some (e_L c, e_D c) /\
      prov (snd (le_args le)) = Some (e_R c, e_D c).
Proof.
  intros Hd Hg.
  destruct (hgood_center tie sel d trunc taus order Hd Hg) as (v & Hrun & Hf & Hidx & Hall).
  exists v. split; [exact Hrun|].
  destruct (center_vine_ok tie sel d trunc taus order Hd Hg)
    as (T1 & ts & Hrun' & _ & _ & HT1 & _ & Hfirst & _ & (K & x & HK & Hcc)).
  rewrite Hrun in Hrun'. injection Hrun' as ->.
  destruct (train_inv _ _ _ _ _ _ _ _ Hrun) as (ts' & Hv & Hr).
  simpl first_tree in Hv, Hr. injection Hv as HT1' Hts. subst ts'. rewrite <- HT1' in Hr.
  pose proof (train_rest_sorted _ _ _ _ _ _ _ _ _ _ Hr) as Hch.
  assert (Hpairs : NoDup (map LR (concat (T1 :: ts)))).
  { destruct HK as (Hinv & HlenK & _ & _ & Hends).
    eapply center_pairs_distinct; eauto. destruct K; [simpl in HlenK; lia|discriminate]. }
  intros res Hres t T les i c le HT Hles Hc Hle.
  eapply (likelihood_args_ok d T1 ts res Hres); eauto.
  - intros e He. destruct (Hfirst e He) as (_ & H & _). exact H.
  - intros T' HT'. eapply NoDup_concat_each; eauto.
  - apply Hall.
    assert (Hi' : i < length T) by (apply nth_error_Some; congruence).
    clear - Hi' HT. destruct t as [|t]; simpl in *.
    + injection HT as ->. rewrite map_length. auto.
    + revert HT. generalize (map (fun _ : edge => true) T1). generalize T1.
      revert t. induction ts as [|T2 r IH]; intros [|t] T0 g HT; simpl in *; try discriminate.
      * injection HT as ->. rewrite hgood_tree_length. auto.
      * apply IH; auto.
Qed.

(* non-vacuity *)
Example likelihood_args_center_tauB :
  option_map (fun l => forallb (fun le => negb (has_garbage (fst (le_args le))) &&
                                          negb (has_garbage (snd (le_args le)))) (concat l))
             (match train_vine_opt Center 5 9 (fun _ => tauB) id_order with
              | Some v => vine_lik 5 v | None => None end) = Some true.
Proof. vm_compute. reflexivity. Qed.

Print Assumptions likelihood_args_ok.
Print Assumptions likelihood_args_center.
