(* The stack traversal of VineCopula._sample_row (explore / visited lists, no
   "already visited" test when popping) visits every vertex of a tree exactly
   once.  Pure graph/list reasoning; the tree is given as in Lib/FinGraph.v
   (connected, n-1 edges) — acyclicity is never needed: the pushes are counted
   against the edges. *)
From Coq Require Import List Arith Lia Bool Permutation.
From Cop Require Import Lib.FinGraph.
Import ListNotations.
Open Scope nat_scope.

Lemma NoDup_app_intro_local {A} (l1 l2 : list A) :
  NoDup l1 -> NoDup l2 -> (forall x, In x l1 -> ~ In x l2) -> NoDup (l1 ++ l2).
Proof.
  induction l1 as [|a l1 IH]; simpl; intros H1 H2 H; auto.
  inversion H1; subst. constructor.
  - intros Hin. apply in_app_or in Hin. destruct Hin; [auto|]. eapply H; eauto.
  - apply IH; auto.
Qed.

Lemma split_app {A} (p r : list A) : forall X1 x X2,
  p ++ r = X1 ++ x :: X2 ->
  In x p \/ exists X1', X1 = p ++ X1' /\ r = X1' ++ x :: X2.
Proof.
  induction p as [|a p IH]; intros X1 x X2 E; simpl in E.
  - right. exists X1. auto.
  - destruct X1 as [|b X1]; simpl in E.
    + injection E as -> _. left. left. auto.
    + injection E as -> E. destruct (IH _ _ _ E) as [H|[X1' [-> ->]]].
      * left. right. auto.
      * right. exists X1'. auto.
Qed.

Section Dfs.
  Variable nb : nat -> list nat.      (* np.where(adj[current, :] == 1)[0] *)

  Definition push (visited : list nat) (c : nat) : list nat :=
    rev (filter (fun s => negb (memb s visited)) (nb c)).

  (* while explore: current = explore.pop(0); ...;
       for s in neighbors: if s not in visited: explore.insert(0, s)
       visited.insert(0, current) *)
  Fixpoint dfs (fuel : nat) (explore visited : list nat) : option (list nat) :=
    match explore with
    | [] => Some visited
    | c :: rest =>
        match fuel with
        | 0 => None
        | S f => dfs f (push visited c ++ rest) (c :: visited)
        end
    end.

  Lemma dfs_suffix : forall fuel X V vis,
    dfs fuel X V = Some vis -> exists W, vis = W ++ V /\ (X <> [] -> W <> []).
  Proof.
    induction fuel as [|f IH]; intros X V vis H; destruct X as [|c rest]; simpl in H;
      try discriminate.
    - injection H as <-. exists []. split; auto.
    - injection H as <-. exists []. split; auto.
    - destruct (IH _ _ _ H) as [W [HW _]]. exists (W ++ [c]). split.
      + rewrite <- app_assoc. exact HW.
      + intros _. destruct W; discriminate.
  Qed.

  Lemma dfs_more_fuel : forall fuel X V vis k,
    dfs fuel X V = Some vis -> dfs (fuel + k) X V = Some vis.
  Proof.
    induction fuel as [|f IH]; intros X V vis k H; destruct X as [|c rest]; simpl in *;
      try discriminate; auto.
    - destruct k; auto.
  Qed.

  (* ---------------------------------------------------------------- *)
  Variable g : graph.
  Variable n : nat.
  Variable root : nat.
  Hypothesis Htree : is_tree n g.
  Hypothesis Hroot : root < n.
  Hypothesis nb_adj : forall v w, In w (nb v) -> adj g v w.
  Hypothesis nb_complete : forall v w, v < n -> adj g v w -> In w (nb v).
  Hypothesis nb_nodup : forall v, NoDup (nb v).
  Hypothesis nb_irrefl : forall v, ~ In v (nb v).

  Lemma adj_norm v w : adj g v w -> In (norm (v, w)) (map norm g).
  Proof.
    intros [H|H].
    - apply in_map with (f := norm) in H. exact H.
    - apply in_map with (f := norm) in H. rewrite norm_swap. exact H.
  Qed.

  Lemma nb_lt v w : In w (nb v) -> w < n.
  Proof.
    intros H. apply nb_adj in H. destruct Htree as [Hn _].
    destruct H as [H|H]; apply Hn in H; tauto.
  Qed.

  Lemma In_push V c s : In s (push V c) <-> In s (nb c) /\ ~ In s V.
  Proof.
    unfold push. rewrite <- in_rev, filter_In, negb_true_iff, memb_false. tauto.
  Qed.

  Lemma NoDup_push V c : NoDup (push V c).
  Proof.
    unfold push. apply NoDup_rev. apply NoDup_filter. apply nb_nodup.
  Qed.

  Record Inv (X V : list nat) : Prop := {
    inv_lt : forall v, In v V \/ In v X -> v < n;
    (* stack discipline: an already visited entry has all its neighbours
       visited or above it *)
    inv_K : forall X1 x X2, X = X1 ++ x :: X2 -> In x V ->
              forall w, In w (nb x) -> In w V \/ In w X1;
    inv_cl : forall v, In v V -> forall w, In w (nb v) -> In w V \/ In w X;
    inv_cnt : exists Pu : list (nat * nat),
        length V + length X = 1 + length Pu /\
        NoDup (map norm Pu) /\ incl (map norm Pu) (map norm g) /\
        forall a b, In (a, b) Pu -> In a V;
    inv_root : In root V \/ (V = [] /\ X = [root])
  }.

  Lemma Inv_init : Inv [root] [].
  Proof.
    constructor.
    - intros v [[]|[<-|[]]]. exact Hroot.
    - intros X1 x X2 _ [].
    - intros v [].
    - exists []. simpl. split; auto. split; [constructor|]. split.
      + intros x [].
      + intros a b [].
    - right. auto.
  Qed.

  Lemma norm_fix_inj c s s' : s <> c -> norm (c, s) = norm (c, s') -> s = s'.
  Proof.
    intros Hs H. apply norm_eq_cases in H. destruct H as [[_ H]|[H1 H2]]; auto.
    congruence.
  Qed.

  Lemma Inv_step c rest V : Inv (c :: rest) V -> Inv (push V c ++ rest) (c :: V).
  Proof.
    intros [Hlt HK Hcl Hcnt Hr].
    destruct (in_dec Nat.eq_dec c V) as [HcV|HcV].
    - (* a second pop of c: nothing is pushed *)
      assert (Hp : push V c = []).
      { destruct (push V c) as [|s l] eqn:E; auto. exfalso.
        assert (Hs : In s (push V c)) by (rewrite E; left; auto).
        apply In_push in Hs. destruct Hs as [Hs1 Hs2].
        destruct (HK [] c rest eq_refl HcV s Hs1) as [H|[]]. auto. }
      rewrite Hp. simpl. constructor.
      + intros v [[<-|H]|H]; apply Hlt; simpl; auto.
      + intros X1 x X2 E Hx w Hw.
        assert (Hx' : In x V) by (destruct Hx as [<-|Hx]; auto).
        destruct (HK (c :: X1) x X2) with (w := w) as [H|[<-|H]]; simpl; auto.
        rewrite E. reflexivity.
      + intros v Hv w Hw.
        assert (Hv' : In v V) by (destruct Hv as [<-|Hv]; auto).
        destruct (Hcl v Hv' w Hw) as [H|[<-|H]]; simpl; auto.
      + destruct Hcnt as (Pu & H1 & H2 & H3 & H4). exists Pu. simpl in *.
        split; [lia|]. split; auto. split; auto.
        intros a b Hab. right. eapply H4; eauto.
      + left. destruct Hr as [Hr|[-> _]]; [right; auto|destruct HcV].
    - (* the first pop of c *)
      constructor.
      + intros v [[<-|H]|H].
        * apply Hlt. right. left. auto.
        * apply Hlt. auto.
        * apply in_app_or in H. destruct H as [H|H].
          -- apply In_push in H. destruct H as [H _]. eapply nb_lt; eauto.
          -- apply Hlt. right. right. auto.
      + intros X1 x X2 E Hx w Hw.
        apply split_app in E. destruct E as [Hxp|[X1' [-> E]]].
        * exfalso. apply In_push in Hxp. destruct Hxp as [Hn HnV].
          destruct Hx as [<-|Hx]; [eapply nb_irrefl; eauto|auto].
        * destruct Hx as [<-|Hx].
          -- destruct (in_dec Nat.eq_dec w V) as [HwV|HwV]; [left; right; auto|].
             right. apply in_or_app. left. apply In_push. auto.
          -- destruct (HK (c :: X1') x X2) with (w := w) as [H|[<-|H]]; auto.
             ++ simpl. rewrite E. reflexivity.
             ++ left. right. auto.
             ++ left. left. auto.
             ++ right. apply in_or_app. right. exact H.
      + intros v [<-|Hv] w Hw.
        * destruct (in_dec Nat.eq_dec w V) as [HwV|HwV]; [left; right; auto|].
          right. apply in_or_app. left. apply In_push. auto.
        * destruct (Hcl v Hv w Hw) as [H|[<-|H]].
          -- left. right. auto.
          -- left. left. auto.
          -- right. apply in_or_app. right. auto.
      + destruct Hcnt as (Pu & H1 & H2 & H3 & H4).
        exists (map (fun s => (c, s)) (push V c) ++ Pu).
        split; [|split; [|split]].
        * rewrite !app_length, map_length. simpl in *. lia.
        * rewrite map_app, map_map.
          apply NoDup_app_intro_local.
          -- (* the new edges are pairwise distinct *)
             pose proof (NoDup_push V c) as Hnd.
             assert (Hne : forall s, In s (push V c) -> s <> c).
             { intros s Hs ->. apply In_push in Hs. destruct Hs as [Hs _].
               eapply nb_irrefl; eauto. }
             revert Hnd Hne. generalize (push V c). induction l as [|s l IH]; intros Hnd Hne.
             ++ constructor.
             ++ inversion Hnd as [|? ? Hs Hnd']; subst. simpl. constructor.
                ** intros Hin. apply in_map_iff in Hin. destruct Hin as [s' [E Hs']].
                   apply norm_fix_inj in E; [|apply Hne; right; auto]. subst. auto.
                ** apply IH; auto. intros; apply Hne; right; auto.
          -- exact H2.
          -- (* new against old *)
             intros e He Hold. apply in_map_iff in He. destruct He as [s [<- Hs]].
             apply in_map_iff in Hold. destruct Hold as [[a b] [E Hab]].
             apply In_push in Hs. destruct Hs as [Hs1 Hs2].
             apply norm_eq_cases in E. specialize (H4 a b Hab).
             destruct E as [[-> ->]|[-> ->]]; auto.
        * intros e He. rewrite map_app in He. apply in_app_or in He. destruct He as [He|He].
          -- rewrite map_map in He. apply in_map_iff in He. destruct He as [s [<- Hs]].
             apply In_push in Hs. destruct Hs as [Hs _].
             apply adj_norm. apply nb_adj. auto.
          -- apply H3. auto.
        * intros a b Hab. apply in_app_or in Hab. destruct Hab as [Hab|Hab].
          -- apply in_map_iff in Hab. destruct Hab as [s [E _]]. injection E as <- _. left. auto.
          -- right. eapply H4; eauto.
      + left. destruct Hr as [Hr|[_ E]]; [right; auto|]. injection E as <- _. left. auto.
  Qed.
  Lemma Inv_size X V : Inv X V -> length V + length X <= n.
  Proof.
    intros [_ _ _ (Pu & H1 & H2 & H3 & _) _].
    pose proof (NoDup_incl_length H2 H3) as H.
    rewrite !map_length in H. destruct Htree as (_ & _ & HL). lia.
  Qed.

  Lemma dfs_run : forall fuel X V,
    Inv X V -> n - length V <= fuel ->
    exists vis, dfs fuel X V = Some vis /\ Inv [] vis.
  Proof.
    induction fuel as [|f IH]; intros X V HI Hf.
    - destruct X as [|c rest]; [exists V; split; auto|].
      pose proof (Inv_size _ _ HI) as Hs. simpl in Hs. lia.
    - destruct X as [|c rest]; [exists V; split; auto|]. simpl.
      apply IH; [apply Inv_step; auto|]. simpl. lia.
  Qed.

  Lemma Inv_final_cover vis : Inv [] vis -> forall v, v < n -> In v vis.
  Proof.
    intros [_ _ Hcl _ Hr] v Hv.
    assert (Hroot' : In root vis) by (destruct Hr as [H|[_ H]]; [auto|discriminate]).
    destruct Htree as (_ & Hconn & _).
    pose proof (Hconn root v Hroot Hv) as Hre.
    clear Hv. induction Hre as [|a b c Hab IH Hbc]; auto.
    assert (Hbn : b < n) by (destruct Htree as (Hn & _);
                             destruct Hbc as [H|H]; apply Hn in H; tauto).
    assert (Hb : In b vis) by (apply IH; auto).
    destruct (Hcl b Hb c (nb_complete b c Hbn Hbc)) as [H|[]]. exact H.
  Qed.

  (* every vertex is popped exactly once *)
  Theorem dfs_tree fuel :
    n <= fuel ->
    exists vis, dfs fuel [root] [] = Some vis /\
                NoDup vis /\ length vis = n /\ (forall v, In v vis <-> v < n) /\
                Permutation vis (seq 0 n).
  Proof.
    intros Hf. destruct (dfs_run fuel [root] [] Inv_init) as [vis [Hrun HI]];
      [simpl; lia|].
    exists vis. split; [exact Hrun|].
    pose proof (Inv_size _ _ HI) as Hs. simpl in Hs. rewrite Nat.add_0_r in Hs.
    pose proof (Inv_final_cover vis HI) as Hcov.
    assert (Hincl : incl (seq 0 n) vis).
    { intros v Hv. apply in_seq in Hv. apply Hcov. lia. }
    assert (Hnd : NoDup vis).
    { apply (NoDup_incl_NoDup (seq_NoDup n 0)); auto. rewrite seq_length. exact Hs. }
    assert (Hlt : forall v, In v vis -> v < n).
    { intros v Hv. destruct HI as [Hl _ _ _ _]. apply Hl. auto. }
    assert (Hlen : length vis = n).
    { pose proof (NoDup_incl_length (seq_NoDup n 0) Hincl) as H.
      rewrite seq_length in H. lia. }
    split; [exact Hnd|]. split; [exact Hlen|]. split.
    - intros v. split; auto.
    - apply NoDup_Permutation; auto; [apply seq_NoDup|].
      intros v. rewrite in_seq. split; intros H; [apply Hlt in H; lia|apply Hcov; lia].
  Qed.
End Dfs.

Print Assumptions dfs_tree.
