(* Shared specification vocabulary for the vine-structure theorems. *)
From Coq Require Import List Arith ZArith QArith Lia Bool Permutation.
From Cop Require Import Lib.FinGraph Model.Vine.
Import ListNotations.
Open Scope nat_scope.

(* the graph of a first-level tree: nodes are variables *)
Definition graph1 (T : list edge) : graph := map (fun e => (e_L e, e_R e)) T.

(* the graph of a tree of level >= 2: nodes are positions in the previous
   tree's edge list, an edge joins the two parents *)
Definition par_of (e : edge) : nat * nat :=
  match e_par e with Some p => p | None => (0, 0) end.
Definition par_graph (T : list edge) : graph := map par_of T.

(* position = stored index *)
Definition idx_ok (T : list edge) : Prop :=
  forall i e, nth_error T i = Some e -> e_idx e = i.

(* nondeterminism parameters are arbitrary permutations *)
Definition perm_fun {A} (f : list A -> list A) : Prop :=
  forall l, Permutation l (f l).

(* two nodes of a tree share a node of the tree below:
   first-level edges share a variable; higher edges share a parent position *)
Definition share_first (a b : edge) : Prop :=
  e_L a = e_L b \/ e_L a = e_R b \/ e_R a = e_L b \/ e_R a = e_R b.
Definition share_par (a b : edge) : Prop :=
  exists i j i' j', e_par a = Some (i, j) /\ e_par b = Some (i', j') /\
                    (i = i' \/ i = j' \/ j = i' \/ j = j').
(* k = 0-based index of the tree that contains a and b *)
Definition share_node (k : nat) (a b : edge) : Prop :=
  match k with 0 => share_first a b | S _ => share_par a b end.

Lemma is_adjacent_share a b : is_adjacent a b = true <-> share_first a b.
Proof.
  unfold is_adjacent, share_first.
  rewrite !orb_true_iff, !Nat.eqb_eq. tauto.
Qed.
