(* C17 — index of the machine-checked statements about the vine data plane
   (Model/VineData.v), under the names used in the task description, plus the
   "edge_copula" statement of DESIGN.md and the get_tau_matrix observation. *)
From Coq Require Import List Arith ZArith QArith Lia Bool Permutation.
From Cop Require Import Lib.FinGraph Model.Vine Model.VineData
     Spec.VineDefs Spec.VineSets Spec.VineSort Spec.VineCenter Spec.VineValid
     Spec.VineDataProv Spec.VineDataChain Spec.VineDataFlags Spec.VineDataProofs
     Spec.VineLikProofs Spec.VineLikArgs Spec.VineDfs Spec.VineSampleProofs
     Spec.VineClip Spec.VineSampleR.
Import ListNotations.
Open Scope nat_scope.

(* ------------------------------------------------------------------ *)
(** * edge_copula: the copula of every edge is selected on exactly the two
      columns get_conditional_uni returns for its parents, and
      prepare_next_tree applies its h-functions to the same two columns     *)
Lemma child_data_spec t prev c x :
  child_data t prev c = Some x ->
  ed_edge x = c /\
  exists i j lp rp,
    e_par c = Some (i, j) /\ nth_error prev i = Some lp /\ nth_error prev j = Some rp /\
    get_conditional_uni lp rp = Some (ed_inputs x) /\
    ed_U x = mkU t (e_idx c) (fst (ed_inputs x)) (snd (ed_inputs x)).
Proof.
  unfold child_data. destruct (e_par c) as [[i j]|]; [|discriminate].
  destruct (nth_error prev i) as [lp|] eqn:Ei; [|discriminate].
  destruct (nth_error prev j) as [rp|] eqn:Ej; [|discriminate].
  destruct (get_conditional_uni lp rp) as [[lu ru]|] eqn:Eg; [|discriminate].
  intros H. injection H as <-. simpl. split; auto.
  exists i, j, lp, rp. auto.
Qed.

Lemma data_rest_nth : forall ts t Dprev ds k DT i x,
  data_rest t Dprev ts = Some ds ->
  nth_error ds k = Some DT -> nth_error DT i = Some x ->
  exists Dp, nth_error (Dprev :: ds) k = Some Dp /\
             child_data (t + k) Dp (ed_edge x) = Some x.
Proof.
  induction ts as [|T r IH]; intros t Dprev ds k DT i x H Hk Hi; simpl in H.
  - injection H as <-. destruct k; discriminate.
  - destruct (map_opt (child_data t Dprev) T) as [DT0|] eqn:Em; [|discriminate].
    destruct (data_rest (S t) DT0 r) as [ds'|] eqn:Er; [|discriminate].
    injection H as <-. destruct k as [|k]; simpl in Hk.
    + injection Hk as <-. exists Dprev. split; auto.
      apply map_opt_Forall2_inv in Em.
      destruct (Forall2_nth_error_r _ _ _ _ _ Em Hi) as [c [_ Hc]].
      rewrite Nat.add_0_r. rewrite (child_data_edge _ _ _ _ Hc). exact Hc.
    + destruct (IH _ _ _ _ _ _ _ Er Hk Hi) as [Dp [H1 H2]].
      exists Dp. split; auto. replace (t + S k) with (S t + k) by lia. exact H2.
Qed.

Theorem edge_copula tie sel ty d trunc taus order Dv t DT i x :
  vine_data_gen_opt tie sel ty d trunc taus order = Some Dv ->
  nth_error Dv t = Some DT -> nth_error DT i = Some x ->
  match t with
  | 0 => exists a b, ed_inputs x = (CMarg a, CMarg b) /\
                     e_L (ed_edge x) = Nat.min a b /\ e_R (ed_edge x) = Nat.max a b /\
                     ed_U x = mkU 0 (e_idx (ed_edge x)) (CMarg (e_L (ed_edge x))) (CMarg (e_R (ed_edge x)))
  | S t' => exists Dp pi pj lp rp,
              nth_error Dv t' = Some Dp /\
              e_par (ed_edge x) = Some (pi, pj) /\
              nth_error Dp pi = Some lp /\ nth_error Dp pj = Some rp /\
              get_conditional_uni lp rp = Some (ed_inputs x) /\
              ed_U x = mkU t (e_idx (ed_edge x)) (fst (ed_inputs x)) (snd (ed_inputs x))
  end.
Proof.
  intros Hrun Ht Hi.
  unfold vine_data_gen_opt in Hrun.
  destruct (train_vine_gen_opt tie sel ty d trunc taus order) as [[|T1 ts]|]; try discriminate.
  destruct (data_rest 1 (first_data tie sel ty d (taus 0) order) ts) as [ds|] eqn:Hds;
    [|discriminate].
  injection Hrun as <-. destruct t as [|t']; simpl in Ht.
  - injection Ht as <-.
    destruct (first_data_nth _ _ _ _ _ _ _ _ Hi) as (e & io & He & Hio & ->).
    destruct (first_inputs_pair _ _ _ _ _ _ _ _ _ He Hio) as [HL HR].
    exists (fst io), (snd io). simpl. auto.
  - destruct (data_rest_nth _ _ _ _ _ _ _ _ Hds Ht Hi) as [Dp [HDp Hc]].
    apply child_data_spec in Hc. destruct Hc as (_ & pi & pj & lp & rp & H1 & H2 & H3 & H4 & H5).
    exists Dp, pi, pj, lp, rp. simpl. auto 10.
Qed.

(* ------------------------------------------------------------------ *)
(** * get_tau_matrix: entry (i, j) correlates the two columns of edge i
      alone — it does not depend on j                                      *)
Theorem tau_row_constant t Dt i j j' c c' :
  nth_error (nth i (tau_matrix_cols t Dt) []) j = Some (Some c) ->
  nth_error (nth i (tau_matrix_cols t Dt) []) j' = Some (Some c') ->
  c = c'.
Proof.
  unfold tau_matrix_cols.
  set (nbs := get_constraints (map ed_edge Dt)).
  set (f := fun ix : nat * edge_data =>
              map (fun j0 => if memb j0 (nth (fst ix) nbs []) then Some (tau_cols t (snd ix)) else None)
                  (seq 0 (length Dt))).
  destruct (nth_error (combine (seq 0 (length Dt)) Dt) i) as [ix|] eqn:E.
  - rewrite (nth_error_nth (map f (combine (seq 0 (length Dt)) Dt)) i []
                           (map_nth_error f i _ E)).
    unfold f. rewrite !nth_error_map.
    destruct (nth_error (seq 0 (length Dt)) j) as [a|]; [|discriminate].
    destruct (nth_error (seq 0 (length Dt)) j') as [b|]; [|discriminate]. simpl.
    destruct (memb a _); [|discriminate]. destruct (memb b _); [|discriminate].
    intros H1 H2. injection H1 as <-. injection H2 as <-. reflexivity.
  - apply nth_error_None in E. rewrite nth_overflow; [|rewrite map_length; exact E].
    destruct j; discriminate.
Qed.

(* ------------------------------------------------------------------ *)
(** * The six requested statements                                     *)
(* 1 *)
Definition C17_provenance_refuted := provenance_refuted.
Definition C17_provenance_swap_refuted := provenance_swap_refuted.
Definition C17_first_inputs_order_refuted := first_inputs_order_refuted.
Definition C17_provenance_partial := provenance_partial.
Definition C17_provenance_partial_labels := provenance_partial_c.
Definition C17_provenance_levels12 := provenance_levels12.
Definition C17_provenance_center := provenance_center.
Definition C17_bad_child := cond_uni_bad.
(* 2 *)
Definition C17_likelihood_def_before_use_refuted := likelihood_def_before_use_refuted.
Definition C17_likelihood_def_before_use_partial := likelihood_def_before_use_partial.
Definition C17_likelihood_args_ok := likelihood_args_ok.
Definition C17_likelihood_args_center := likelihood_args_center.
(* 3 *)
Definition C17_likelihood_sum := likelihood_sum.
Definition C17_likelihood_depends_only_on_model_u := likelihood_depends_only_on_model_u.
Definition C17_likelihood_depends_on_garbage := likelihood_depends_on_garbage.
(* 4 *)
Definition C17_dfs_tree := dfs_tree.
Definition C17_sample_row_covers := sample_row_covers.
Definition C17_sample_row_covers_vine := sample_row_covers_vine.
Definition C17_sample_shape := @sample_shape.
(* 5 *)
Definition C17_two_columns := two_columns.
Definition C17_two_columns_upper_collapse := two_columns_upper_collapse_h.
(* 6 *)
Definition C17_clipping := clipping.
(* extra *)
Definition C17_edge_copula := edge_copula.
Definition C17_vine_data_total := vine_data_total.
Definition C17_vine_data_structure := vine_data_structure.
Definition C17_tau_row_constant := tau_row_constant.

Print Assumptions edge_copula.
Print Assumptions tau_row_constant.
