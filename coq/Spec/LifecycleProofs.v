(* ========================================================================= *)
(*  C19 + C14 : theorems about the life-cycle / serialisation machines        *)
(* ========================================================================= *)
From Coq Require Import ZArith QArith List String Bool Lia.
From Cop Require Import Model.Lifecycle.
Import ListNotations.
Open Scope string_scope.
Open Scope list_scope.

Definition nonconst (d : data) : Prop := d_const d = None.
Definition isconst (d : data) : Prop := d_const d <> None.

(* ------------------------------------------------------------------------- *)
(* 0. Small facts                                                             *)
(* ------------------------------------------------------------------------- *)
(* (since the F12 fix GaussianKDE.log_probability_density = log of the -- possibly shadowed -- density, so the
   class-level body of that one method can be the degenerate one) *)
Lemma class_query_not_const : forall s k k' c,
    (s_fam s <> FKDE \/ k <> QLogPdf) -> class_query s k <> ObsConst k' c.
Proof.
  intros s k k' c H. unfold class_query.
  destruct (s_fitted s); simpl; try discriminate.
  destruct (s_fam s); destruct k; simpl;
    try (destruct (s_params s); discriminate);
    try (destruct (s_model s); try discriminate; destruct (s_params s); try discriminate;
         match goal with |- context [has_key ?a ?b] => destruct (has_key a b) end; discriminate);
    try discriminate.
  destruct H as [H|H]; congruence.
Qed.

Lemma family_eq_dec : forall a b : family, {a = b} + {a <> b}.
Proof. decide equality. Defined.

(* keep `simpl` from exploding rational arithmetic *)
Local Opaque Qred Qminus Qplus Qdiv Qmult Qeq_bool Qle_bool EPS.

Section Proofs.
  Variable o_sfit : family -> data -> list Q -> list Q.
  Variable o_tg_opt : data -> Q -> Q -> Q * Q.
  Variable o_tolist : data -> list Q.
  Variable o_resample : data -> jv -> jv -> nat -> grng -> list Q.
  Variable o_select : data -> list cand -> option nat.
  Variable o_choice : data -> nat -> grng -> data.
  Variable o_corr : nat -> list obs -> list (list Q).
  Variable o_frank_theta : Q -> result jv.

  Notation fit := (fit_scipy o_sfit o_tg_opt o_tolist o_resample).
  Notation run_fits := (run_fits_s o_sfit o_tg_opt o_tolist o_resample).
  Notation fitw := (fit_wrapper o_sfit o_tg_opt o_tolist o_resample o_select o_choice).
  Notation run_fitsw := (run_fits_w o_sfit o_tg_opt o_tolist o_resample o_select o_choice).
  Notation fitg := (fit_gm o_sfit o_tg_opt o_tolist o_resample o_select o_choice o_corr).
  Notation run_fitsg := (run_fits_g o_sfit o_tg_opt o_tolist o_resample o_select o_choice o_corr).
  Notation fitb := (fit_biv o_frank_theta).
  Notation run_fitsb := (run_fits_b o_frank_theta).

  Definition st (r : sinst * grng * option err) : sinst := fst (fst r).
  Definition er {A B} (r : A * B * option err) : option err := snd r.

  (* ----------------------------------------------------------------------- *)
  (* 1. What ScipyModel.fit reads and writes                                  *)
  (* ----------------------------------------------------------------------- *)
  (* the constructor-time configuration of an instance *)
  Definition cfg (s : sinst) :=
    (s_fam s, s_rs s, s_min s, s_max s, s_ss s, s_bw s, s_w s, s_stored s).

  (* SINCE THE F5 FIX a non-constant fit clears _constant_value and the override table
     (before: it never touched them - lemma fit_nonconst_keeps_ov - and [fit const; fit X] stayed degenerate) *)
  Lemma fit_nonconst_resets_ov : forall s X g,
      d_const X = None ->
      s_ov (st (fit s X g)) = no_ov /\ s_const (st (fit s X g)) = None.
  Proof.
    intros s X g H. unfold fit_scipy, st. rewrite H.
    destruct s as [f fi p c ov rs mn mx ss bw w m sto]; simpl.
    destruct f; simpl; auto.
    - (* FTrunc *)
      destruct (is_none mn); simpl; destruct (is_none mx); simpl;
        repeat match goal with
               | |- context [match jv_q ?x with _ => _ end] => destruct (jv_q x); simpl
               | |- context [let '(_, _) := ?x in _] => destruct x; simpl
               end; auto.
    - (* FKDE *)
      destruct (truthy ss); simpl.
      + destruct (kde_check (d_n X) false bw w); simpl; auto.
        destruct (jv_nat ss); simpl; auto.
        unfold kde_get_model; simpl.
        match goal with |- context [kde_build ?a ?b ?c] => destruct (kde_build a b c) end; simpl; auto.
      + unfold kde_get_model; simpl.
        match goal with |- context [kde_build ?a ?b ?c] => destruct (kde_build a b c) end; simpl; auto.
  Qed.

  Lemma fit_const_sets_ov : forall s X g c,
      d_const X = Some c ->
      s_ov (st (fit s X g)) = all_ov /\ s_const (st (fit s X g)) = Some (qj c).
  Proof.
    intros s X g c H. unfold fit_scipy, st. rewrite H.
    destruct (constant_params o_sfit (set_constant (qj c) s) X c); simpl; auto.
  Qed.

  Lemma fit_keeps_fam : forall s X g, s_fam (st (fit s X g)) = s_fam s.
  Proof.
    intros s X g. unfold fit_scipy, st.
    destruct (d_const X).
    - destruct (constant_params o_sfit (set_constant (qj q) s) X q); reflexivity.
    - destruct s as [f fi p c ov rs mn mx ss bw w m sto]; simpl.
      destruct f; simpl; auto.
      + destruct (is_none mn); simpl; destruct (is_none mx); simpl;
          repeat match goal with
                 | |- context [match jv_q ?x with _ => _ end] => destruct (jv_q x); simpl
                 | |- context [let '(_, _) := ?x in _] => destruct x; simpl
                 end; auto.
      + destruct (truthy ss); simpl.
        * destruct (kde_check (d_n X) false bw w); simpl; auto.
          destruct (jv_nat ss); simpl; auto.
          unfold kde_get_model; simpl.
          match goal with |- context [kde_build ?a ?b ?c] => destruct (kde_build a b c) end; simpl; auto.
        * unfold kde_get_model; simpl.
          match goal with |- context [kde_build ?a ?b ?c] => destruct (kde_build a b c) end; simpl; auto.
  Qed.

  Ltac crush_fit :=
    repeat (simpl in *; match goal with
     | |- context [match d_const ?X with _ => _ end] => destruct (d_const X) eqn:?
     | |- context [is_none ?x] => destruct (is_none x) eqn:?
     | |- context [match jv_q ?x with _ => _ end] => destruct (jv_q x) eqn:?
     | |- context [let '(_, _) := ?x in _] => destruct x eqn:?
     | |- context [truthy ?x] => destruct (truthy x) eqn:?
     | |- context [match jv_nat ?x with _ => _ end] => destruct (jv_nat x) eqn:?
     | |- context [kde_check ?a ?b ?c ?d] => destruct (kde_check a b c d) eqn:?
     | |- context [kde_build ?a ?b ?c] => destruct (kde_build a b c) eqn:?
     end).

  (* Equivalence of instances: equal except for a gaussian_kde object `_model` that no
     public query can reach (class is not GaussianKDE, or all four readers are shadowed). *)
  Definition eqv (s1 s2 : sinst) : Prop :=
    set_model None s1 = set_model None s2 /\
    (s_fam s1 = FKDE -> s_ov s1 = all_ov \/ s_model s1 = s_model s2).

  Lemma eqv_refl : forall s, eqv s s.
  Proof. intro s; split; auto. Qed.

  Lemma q_s_spec : forall s k,
      q_s s k =
      if overridden s k then ObsConst k (s_const s)
      else match k with
           | QSample =>
               match class_query s QSample with
               | ObsErr e => ObsErr e
               | what => ObsDraw what 1 (match s_rs s with None => RsGlobal [] | Some r => RsOwn r end)
               end
           | _ => class_query s k
           end.
  Proof.
    intros s k. unfold q_s, query_scipy.
    destruct (overridden s k); [reflexivity|].
    destruct k; try reflexivity.
    destruct (class_query s QSample); destruct (s_rs s) as [[? ?]|]; reflexivity.
  Qed.

  Lemma class_query_model_irrel : forall s m k,
      s_fam s <> FKDE -> class_query (set_model m s) k = class_query s k.
  Proof.
    intros s m k H. destruct s as [f fi p c ov rs mn mx ss bw w m0 sto]; simpl in *.
    destruct f; try reflexivity. congruence.
  Qed.

  Lemma observe_model_irrel : forall s m,
      (s_fam s <> FKDE \/ s_ov s = all_ov) -> observe_s (set_model m s) = observe_s s.
  Proof.
    intros s m H. unfold observe_s. rewrite !q_s_spec.
    destruct H as [H|H].
    - rewrite !class_query_model_irrel by exact H.
      destruct s; reflexivity.
    - destruct s as [f fi p c ov rs mn mx ss bw w m0 sto]; simpl in *. subst ov.
      unfold overridden; simpl.
      f_equal; unfold class_query; simpl; destruct fi; simpl; try reflexivity;
        destruct f; reflexivity.
  Qed.

  Lemma eqv_observe : forall s1 s2, eqv s1 s2 -> observe_s s1 = observe_s s2.
  Proof.
    intros s1 s2 [H1 H2].
    destruct (family_eq_dec (s_fam s1) FKDE) as [E|E].
    - destruct (H2 E) as [H|H].
      + rewrite <- (observe_model_irrel s1 None) by (right; exact H).
        assert (H' : s_ov s2 = all_ov).
        { apply (f_equal s_ov) in H1. simpl in H1. congruence. }
        rewrite <- (observe_model_irrel s2 None) by (right; exact H').
        rewrite H1. reflexivity.
      + replace s1 with (set_model (s_model s1) (set_model None s1)) by (destruct s1; reflexivity).
        rewrite H1, H. destruct s2; reflexivity.
    - rewrite <- (observe_model_irrel s1 None) by (left; exact E).
      assert (E' : s_fam s2 <> FKDE).
      { apply (f_equal s_fam) in H1. simpl in H1. congruence. }
      rewrite <- (observe_model_irrel s2 None) by (left; exact E').
      rewrite H1. reflexivity.
  Qed.

  (* SINCE THE F5 FIX fit reads the instance ONLY through its configuration; on success everything
     else observable is overwritten.  (Before, for non-constant data it also read the never-reset
     constant value / override table.) *)
  Lemma fit_dep : forall s1 s2 X g,
      cfg s1 = cfg s2 ->
      er (fit s1 X g) = None ->
      eqv (st (fit s1 X g)) (st (fit s2 X g)) /\
      snd (fst (fit s1 X g)) = snd (fst (fit s2 X g)) /\
      er (fit s2 X g) = None.
  Proof.
    intros s1 s2 X g Hc.
    destruct s1 as [f fi p c ov rs mn mx ss bw w m sto].
    destruct s2 as [f2 fi2 p2 c2 ov2 rs2 mn2 mx2 ss2 bw2 w2 m2 sto2].
    unfold cfg in Hc; simpl in Hc.
    assert (f = f2 /\ rs = rs2 /\ mn = mn2 /\ mx = mx2 /\ ss = ss2 /\ bw = bw2 /\ w = w2 /\ sto = sto2)
      as (-> & -> & -> & -> & -> & -> & -> & ->) by (inversion Hc; repeat split; reflexivity).
    clear Hc.
    unfold er, st, eqv, fit_scipy.
    destruct (d_const X) eqn:HX.
    - unfold constant_params, set_constant; simpl.
      destruct f2; simpl; auto.
      destruct (truthy ss2); simpl.
      + destruct (jv_nat ss2); simpl; [auto | discriminate].
      + auto.
    - cbv beta iota delta [s_fam s_ss s_bw s_w s_min s_max set_ov set_const].
      destruct f2; try (simpl; repeat split; auto; discriminate).
      + (* FTrunc *)
        simpl.
        destruct (is_none mn2); simpl; destruct (is_none mx2); simpl;
          repeat match goal with
                 | |- context [match jv_q ?x with _ => _ end] => destruct (jv_q x); simpl
                 | |- context [o_tg_opt ?a ?b ?c] => destruct (o_tg_opt a b c); simpl
                 end;
          try discriminate; intros; repeat split; auto; discriminate.
      + (* FKDE *)
        destruct (truthy ss2) eqn:Hss.
        * destruct (kde_check (d_n X) false bw2 w2); [simpl; discriminate|].
          destruct (jv_nat ss2); [|simpl; discriminate].
          cbv beta iota delta [kde_get_model set_params s_params lookup String.eqb Ascii.eqb Bool.eqb s_ss s_bw s_w set_ss].
          match goal with |- context [kde_build ?a ?b ?c] => destruct (kde_build a b c) end;
            simpl; [intros; repeat split; auto | discriminate].
        * cbv beta iota delta [kde_get_model set_params s_params lookup String.eqb Ascii.eqb Bool.eqb s_ss s_bw s_w set_ss].
          match goal with |- context [kde_build ?a ?b ?c] => destruct (kde_build a b c) end;
            simpl; [intros; repeat split; auto | discriminate].
  Qed.

  (* configuration that later fits cannot disturb.  SINCE THE F6 FIX every TruncatedGaussian is stable
     (before: only with both bounds given by the user); GaussianKDE still caches _sample_size (F7). *)
  Definition stable (s : sinst) : Prop :=
    match s_fam s with
    | FKDE => truthy (s_ss s) = true                                    (* sample_size given by the user *)
    | _ => True
    end.

  Lemma fit_cfg_keep : forall s X g,
      (d_const X <> None \/ stable s) -> cfg (st (fit s X g)) = cfg s.
  Proof.
    intros s X g H.
    destruct s as [f fi p c ov rs mn mx ss bw w m sto].
    unfold cfg, st, fit_scipy, stable in *.
    cbv beta iota delta [s_fam s_ss s_bw s_w s_min s_max set_ov set_const] in *.
    destruct (d_const X) eqn:HX.
    - destruct (constant_params o_sfit _ X q); reflexivity.
    - destruct H as [H | H]; [congruence|].
      destruct f; try reflexivity.
      + simpl.
        destruct (is_none mn); simpl; destruct (is_none mx); simpl;
        repeat match goal with
               | |- context [match jv_q ?x with _ => _ end] => destruct (jv_q x); simpl
               | |- context [o_tg_opt ?a ?b ?c] => destruct (o_tg_opt a b c); simpl
               end; reflexivity.
      + rewrite H.
        destruct (kde_check (d_n X) false bw w); [reflexivity|].
        destruct (jv_nat ss); [|reflexivity].
        cbv beta iota delta [kde_get_model set_params s_params lookup String.eqb Ascii.eqb Bool.eqb s_ss s_bw s_w set_ss].
        rewrite H.
        match goal with |- context [kde_build ?a ?b ?c] => destruct (kde_build a b c) end; reflexivity.
  Qed.

  Lemma stable_cfg : forall s1 s2, cfg s1 = cfg s2 -> stable s1 -> stable s2.
  Proof.
    intros s1 s2 H. unfold cfg in H. inversion H. unfold stable.
    rewrite H1, H5. auto.
  Qed.

  Lemma run_fits_inv : forall hs s g,
      (stable s \/ Forall isconst hs) ->
      cfg (fst (run_fits s hs g)) = cfg s.
  Proof.
    induction hs as [|X r IH]; intros s g H; simpl.
    - auto.
    - destruct (fit s X g) as [[s' g'] e] eqn:E.
      assert (Hs' : s' = st (fit s X g)) by (rewrite E; reflexivity).
      assert (Hcfg : cfg s' = cfg s).
      { subst s'. apply fit_cfg_keep. destruct H as [H|H]; [right; exact H|].
        left. inversion H; assumption. }
      assert (H' : stable s' \/ Forall isconst r).
      { destruct H as [H|H]; [left; eapply stable_cfg; [symmetry; exact Hcfg | exact H]|].
        right. inversion H; assumption. }
      rewrite (IH s' g' H'). exact Hcfg.
  Qed.

  (* side condition under which a history of fits is harmless.  SINCE THE F5 / F6 FIXES the only trigger
     left is GaussianKDE's cached _sample_size (F7): benign = the instance is not a GaussianKDE without a
     user-given sample_size, or no earlier dataset was non-constant.  (Before the fixes benign also required
     "X constant or no constant dataset earlier" and, for TruncatedGaussian, both bounds given.)
     The third argument is kept for compatibility. *)
  Definition benign (s0 : sinst) (hs : list data) (X : data) : Prop :=
    stable s0 \/ Forall isconst hs.

  (* T1 (every ScipyModel family): under `benign`, a successful fit after any history of fits is
     observationally the fit on the never-fitted instance (same global-generator state in, same out). *)
  Theorem fit_pure_scipy_partial : forall s0 hs X g0 g,
      benign s0 hs X ->
      er (fit (fst (run_fits s0 hs g0)) X g) = None ->
      eqv (st (fit (fst (run_fits s0 hs g0)) X g)) (st (fit s0 X g)) /\
      snd (fst (fit (fst (run_fits s0 hs g0)) X g)) = snd (fst (fit s0 X g)) /\
      er (fit s0 X g) = None.
  Proof.
    intros s0 hs X g0 g H He.
    apply fit_dep; auto. apply run_fits_inv. exact H.
  Qed.

  Corollary fit_pure_scipy_partial_observe : forall s0 hs X g0 g,
      benign s0 hs X ->
      er (fit (fst (run_fits s0 hs g0)) X g) = None ->
      observe_s (st (fit (fst (run_fits s0 hs g0)) X g)) = observe_s (st (fit s0 X g)).
  Proof. intros. apply eqv_observe. apply fit_pure_scipy_partial; auto. Qed.

  (* for the six plain families fit cannot fail *)
  Definition plain (f : family) : Prop :=
    match f with FTrunc | FKDE => False | _ => True end.

  Lemma fit_plain_ok : forall s X g, plain (s_fam s) -> er (fit s X g) = None.
  Proof.
    intros s X g H. destruct s as [f fi p c ov rs mn mx ss bw w m sto].
    unfold er, fit_scipy, plain in *; simpl in *.
    destruct (d_const X); destruct f; simpl in *; try reflexivity; contradiction.
  Qed.

  Lemma run_fits_fam : forall hs s g, s_fam (fst (run_fits s hs g)) = s_fam s.
  Proof.
    induction hs as [|X r IH]; intros s g; simpl; auto.
    destruct (fit s X g) as [[s' g'] e] eqn:E.
    rewrite IH. change s' with (st (s', g', e)). rewrite <- E. apply fit_keeps_fam.
  Qed.

  (* T1 FULL for every family but GaussianKDE (successful final fit; the six plain families never fail) *)
  Theorem fit_pure_scipy_full : forall s0 hs X g0 g,
      s_fam s0 <> FKDE ->
      er (fit (fst (run_fits s0 hs g0)) X g) = None ->
      observe_s (st (fit (fst (run_fits s0 hs g0)) X g)) = observe_s (st (fit s0 X g)).
  Proof.
    intros s0 hs X g0 g Hf He. apply fit_pure_scipy_partial_observe; [|exact He].
    left. unfold stable. destruct (s_fam s0); auto; congruence.
  Qed.

  Theorem fit_pure_plain : forall s0 hs X g0 g,
      plain (s_fam s0) ->
      observe_s (st (fit (fst (run_fits s0 hs g0)) X g)) = observe_s (st (fit s0 X g)).
  Proof.
    intros s0 hs X g0 g Hp.
    apply fit_pure_scipy_full.
    - intro E. rewrite E in Hp. exact Hp.
    - apply fit_plain_ok. rewrite run_fits_fam. exact Hp.
  Qed.

  (* (kept under its old name and statement; the side condition on constant data is no longer needed) *)
  Theorem fit_pure_plain_partial : forall s0 hs X g0 g,
      plain (s_fam s0) ->
      (d_const X <> None \/ Forall nonconst hs) ->
      observe_s (st (fit (fst (run_fits s0 hs g0)) X g)) = observe_s (st (fit s0 X g)).
  Proof. intros. apply fit_pure_plain; assumption. Qed.

  (* ----------------------------------------------------------------------- *)
  (* T1, history [fit const; fit X]: REFUTED before the F5 fix for every      *)
  (* ScipyModel subclass (theorem fit_pure_scipy_refuted: the cdf stayed the   *)
  (* degenerate step at the old constant); now the overrides are gone.         *)
  (* ----------------------------------------------------------------------- *)
  Definition fresh (f : family) : sinst :=
    mkS f false None None no_ov None JNone JNone JNone JNone JNone None
        (if has_store_args f then Some ([], []) else None).

  Lemma new_scipy_default : forall f, new_scipy f [] [] = Ok (fresh f).
  Proof. destruct f; reflexivity. Qed.

  Lemma sm_cdf_overridden : forall s,
      ov_cdf (s_ov s) = true -> sm_cdf (observe_s s) = ObsConst QCdf (s_const s).
  Proof. intros s H. unfold observe_s; simpl. rewrite q_s_spec. unfold overridden. rewrite H. reflexivity. Qed.

  Lemma sm_cdf_not_overridden : forall s,
      ov_cdf (s_ov s) = false -> sm_cdf (observe_s s) = class_query s QCdf.
  Proof. intros s H. unfold observe_s; simpl. rewrite q_s_spec. unfold overridden. rewrite H. reflexivity. Qed.

  Theorem refit_after_constant_fixed : forall f,
      exists s0 hs X, new_scipy f [] [] = Ok s0 /\ hs = [Stub.Xc] /\ X = Stub.X1 /\
        forall g0 g,
          (* the degenerate state of the first fit is really there ... *)
          sm_cdf (observe_s (fst (run_fits s0 hs g0))) = ObsConst QCdf (Some (JNum 3)) /\
          (* ... and is gone after the second: no override, no constant, never a degenerate cdf *)
          s_ov (st (fit (fst (run_fits s0 hs g0)) X g)) = no_ov /\
          s_const (st (fit (fst (run_fits s0 hs g0)) X g)) = None /\
          (forall k c, sm_cdf (observe_s (st (fit (fst (run_fits s0 hs g0)) X g))) <> ObsConst k c) /\
          (er (fit (fst (run_fits s0 hs g0)) X g) = None ->
           observe_s (st (fit (fst (run_fits s0 hs g0)) X g)) = observe_s (st (fit s0 X g))).
  Proof.
    intro f. exists (fresh f), [Stub.Xc], Stub.X1.
    split; [apply new_scipy_default|]. split; [reflexivity|]. split; [reflexivity|].
    intros g0 g. simpl run_fits_s.
    destruct (fit (fresh f) Stub.Xc g0) as [[s1 g1] e1] eqn:E1. simpl fst.
    assert (H1 : s_ov s1 = all_ov /\ s_const s1 = Some (qj 3)).
    { change s1 with (st (s1, g1, e1)). rewrite <- E1. apply fit_const_sets_ov. reflexivity. }
    destruct (fit_nonconst_resets_ov s1 Stub.X1 g eq_refl) as [K1 K2].
    split.
    { rewrite sm_cdf_overridden.
      - destruct H1 as [_ ->]. reflexivity.
      - destruct H1 as [-> _]. reflexivity. }
    split; [exact K1|]. split; [exact K2|]. split.
    - intros k c. rewrite sm_cdf_not_overridden by (rewrite K1; reflexivity).
      apply class_query_not_const. right. discriminate.
    - intro He.
      assert (E : s1 = fst (run_fits (fresh f) [Stub.Xc] g0)) by (simpl; rewrite E1; reflexivity).
      rewrite E in *.
      apply fit_pure_scipy_partial_observe; [|exact He].
      right. constructor; [|constructor]. unfold isconst. discriminate.
  Qed.

  (* ----------------------------------------------------------------------- *)
  (* T1 for the Univariate wrapper, Bivariate, GaussianMultivariate:          *)
  (* a successful fit overwrites everything it does not treat as configuration *)
  (* ----------------------------------------------------------------------- *)
  Definition ucfg (u : uinst) := (u_cands u, u_rs u, u_sel_ss u, u_stored u).

  Lemma fitw_cfg : forall u X g, ucfg (fst (fst (fitw u X g))) = ucfg u.
  Proof.
    intros u X g. unfold fit_wrapper.
    destruct (truthy (u_sel_ss u) && jlt_nat (u_sel_ss u) (d_n X)).
    - destruct (choice_size (u_sel_ss u)) as [n|]; [|reflexivity].
      destruct (match o_select _ _ with Some i => nth_error (u_cands u) i | None => None end); [|reflexivity].
      destruct (get_instance_cand c); [|reflexivity].
      destruct (fit a X _) as [[s1 g2] [e|]]; reflexivity.
    - destruct (truthy (u_sel_ss u) && lt_raises (u_sel_ss u)); [reflexivity|].
      destruct (match o_select _ _ with Some i => nth_error (u_cands u) i | None => None end); [|reflexivity].
      destruct (get_instance_cand c); [|reflexivity].
      destruct (fit a X _) as [[s1 g2] [e|]]; reflexivity.
  Qed.

  Lemma fitw_dep : forall u1 u2 X g,
      ucfg u1 = ucfg u2 -> er (fitw u1 X g) = None -> fitw u1 X g = fitw u2 X g.
  Proof.
    intros u1 u2 X g H.
    destruct u1 as [c1 r1 ss1 f1 i1 st1]; destruct u2 as [c2 r2 ss2 f2 i2 st2].
    unfold ucfg in H; simpl in H.
    assert (c1 = c2 /\ r1 = r2 /\ ss1 = ss2 /\ st1 = st2) as (-> & -> & -> & ->)
        by (inversion H; repeat split; reflexivity).
    unfold er, fit_wrapper; simpl.
    destruct (truthy ss2 && jlt_nat ss2 (d_n X)).
    - destruct (choice_size ss2) as [n|]; [|discriminate].
      destruct (match o_select _ _ with Some i => nth_error c2 i | None => None end); [|discriminate].
      destruct (get_instance_cand c); [|discriminate].
      destruct (fit a X _) as [[s1 g2] [e|]]; [discriminate|reflexivity].
    - destruct (truthy ss2 && lt_raises ss2); [discriminate|].
      destruct (match o_select _ _ with Some i => nth_error c2 i | None => None end); [|discriminate].
      destruct (get_instance_cand c); [|discriminate].
      destruct (fit a X _) as [[s1 g2] [e|]]; [discriminate|reflexivity].
  Qed.

  Lemma run_fitsw_cfg : forall hs u g, ucfg (fst (run_fitsw u hs g)) = ucfg u.
  Proof.
    induction hs as [|X r IH]; intros u g; simpl; auto.
    destruct (fitw u X g) as [[u' g'] e] eqn:E. rewrite IH.
    change u' with (fst (fst (u', g', e))). rewrite <- E. apply fitw_cfg.
  Qed.

  (* T1, Univariate wrapper: FULL (no side condition on the history) for successful fits:
     a new inner instance is built by get_instance on every fit. *)
  Theorem fit_pure_wrapper : forall u0 hs X g0 g,
      er (fitw (fst (run_fitsw u0 hs g0)) X g) = None ->
      fitw (fst (run_fitsw u0 hs g0)) X g = fitw u0 X g.
  Proof. intros. apply fitw_dep; auto. apply run_fitsw_cfg. Qed.

  (* ... but the result depends on the GLOBAL generator when selection_sample_size is used *)
  (* (see fit_wrapper_reads_global_rng below, on the stub oracle) *)

  (* Bivariate *)
  Definition bcfg (b : binst) := (b_cls b, b_rs b, b_init b).

  Local Opaque compute_theta.
  Lemma fitb_cfg : forall b X, bcfg (fst (fitb b X)) = bcfg b.
  Proof.
    intros b X. destruct b as [c th ta r i]. unfold fit_biv, bcfg; simpl.
    destruct c as [[]|]; try reflexivity;
      destruct (p_empty X); try reflexivity; destruct (p_in_unit X); try reflexivity;
      simpl; destruct (p_tau X); try reflexivity;
      try (match goal with |- context [compute_theta ?o ?t ?q] => destruct (compute_theta o t q) end);
      reflexivity.
  Qed.

  Lemma fitb_dep : forall b1 b2 X,
      bcfg b1 = bcfg b2 -> b_cls b1 <> Some Independence ->
      snd (fitb b1 X) = None -> fitb b1 X = fitb b2 X.
  Proof.
    intros b1 b2 X H Hi.
    destruct b1 as [c1 th1 ta1 r1 i1]; destruct b2 as [c2 th2 ta2 r2 i2].
    unfold bcfg in H; simpl in *.
    assert (c1 = c2 /\ r1 = r2 /\ i1 = i2) as (-> & -> & ->) by (inversion H; repeat split; reflexivity).
    unfold fit_biv; simpl.
    destruct c2 as [[]|]; try congruence;
      destruct (p_empty X); try discriminate; destruct (p_in_unit X); try discriminate;
      simpl; destruct (p_tau X); try discriminate;
      match goal with |- context [compute_theta ?o ?t ?q] => destruct (compute_theta o t q) end;
      simpl; try discriminate; intros; reflexivity.
  Qed.

  Lemma run_fitsb_cfg : forall hs b, bcfg (run_fitsb b hs) = bcfg b.
  Proof. induction hs as [|X r IH]; intro b; simpl; auto. rewrite IH. apply fitb_cfg. Qed.

  (* T1, Clayton/Frank/Gumbel: FULL for successful fits *)
  Theorem fit_pure_biv : forall b0 hs X,
      b_cls b0 <> Some Independence ->
      snd (fitb (run_fitsb b0 hs) X) = None ->
      fitb (run_fitsb b0 hs) X = fitb b0 X.
  Proof.
    intros b0 hs X Hi H. apply fitb_dep; auto.
    - apply run_fitsb_cfg.
    - pose proof (run_fitsb_cfg hs b0) as E. unfold bcfg in E. inversion E. congruence.
  Qed.

  (* GaussianMultivariate *)
  Definition gcfg (x : ginst) := (g_dist x, g_rs x, g_stored x).

  Lemma fitg_cfg : forall x T g, gcfg (fst (fst (fitg x T g))) = gcfg x.
  Proof.
    intros x T g. unfold fit_gm.
    destruct (t_empty T); [reflexivity|]. destruct (negb (t_numeric T)); [reflexivity|].
    destruct (t_has_nan T); [reflexivity|].
    destruct (fit_columns _ _ _ _ _ _ _ _ _) as [g1 [[ns us]|e]]; [|reflexivity].
    destruct (first_err _); reflexivity.
  Qed.

  Lemma fitg_dep : forall x1 x2 T g,
      gcfg x1 = gcfg x2 -> er (fitg x1 T g) = None -> fitg x1 T g = fitg x2 T g.
  Proof.
    intros x1 x2 T g H.
    destruct x1 as [d1 r1 f1 c1 u1 k1 s1]; destruct x2 as [d2 r2 f2 c2 u2 k2 s2].
    unfold gcfg in H; simpl in H.
    assert (d1 = d2 /\ r1 = r2 /\ s1 = s2) as (-> & -> & ->) by (inversion H; repeat split; reflexivity).
    unfold er, fit_gm; simpl.
    destruct (t_empty T); [discriminate|]. destruct (negb (t_numeric T)); [discriminate|].
    destruct (t_has_nan T); [discriminate|].
    destruct (fit_columns _ _ _ _ _ _ _ _ _) as [g1 [[ns us]|e]]; [|discriminate].
    destruct (first_err _); [discriminate|reflexivity].
  Qed.

  Lemma run_fitsg_cfg : forall hs x g, gcfg (fst (run_fitsg x hs g)) = gcfg x.
  Proof.
    induction hs as [|T r IH]; intros x g; simpl; auto.
    destruct (fitg x T g) as [[x' g'] e] eqn:E. rewrite IH.
    change x' with (fst (fst (x', g', e))). rewrite <- E. apply fitg_cfg.
  Qed.

  (* T1, GaussianMultivariate: FULL for successful fits (fresh univariates via get_instance) *)
  Theorem fit_pure_gm : forall x0 hs T g0 g,
      er (fitg (fst (run_fitsg x0 hs g0)) T g) = None ->
      fitg (fst (run_fitsg x0 hs g0)) T g = fitg x0 T g.
  Proof. intros. apply fitg_dep; auto. apply run_fitsg_cfg. Qed.

  (* ----------------------------------------------------------------------- *)
  (* T3 validation: the decorator runs before the body                         *)
  (* ----------------------------------------------------------------------- *)
  Theorem validation : forall x T g,
      t_empty T = true \/ t_numeric T = false \/ t_has_nan T = true ->
      fitg x T g = (x, g, Some ValueErr).
  Proof.
    intros x T g H. unfold fit_gm.
    destruct (t_empty T); [reflexivity|].
    destruct (t_numeric T); simpl; [|reflexivity].
    destruct (t_has_nan T); [reflexivity|].
    destruct H as [H|[H|H]]; discriminate.
  Qed.

  (* ----------------------------------------------------------------------- *)
  (* T2 unfitted_raises                                                       *)
  (* ----------------------------------------------------------------------- *)
  Definition pristine (s : sinst) : Prop :=
    s_fitted s = false /\ s_params s = None /\ s_const s = None /\ s_ov s = no_ov /\ s_model s = None.

  Lemma new_scipy_pristine : forall f a k s,
      new_scipy f a k = Ok s -> pristine s /\ s_fam s = f /\
                                 s_stored s = (if has_store_args f then Some (a, k) else None).
  Proof.
    intros f a k s. unfold new_scipy, bind.
    destruct (bind_args (init_names f) a k); [|discriminate].
    destruct (validate_rs _); [|discriminate].
    intro H; inversion H; subst; clear H. unfold pristine; simpl. repeat split; reflexivity.
  Qed.

  Theorem unfitted_raises_scipy_gen : forall s q n g,
      s_fitted s = false -> s_ov s = no_ov ->
      query_scipy s q n g = (s, g, ObsErr NotFitted) /\ to_dict_scipy s = Err NotFitted.
  Proof.
    intros s q n g Hf Ho. unfold query_scipy, overridden, to_dict_scipy, class_query.
    rewrite Ho, Hf. simpl. destruct q; auto.
  Qed.

  (* every ScipyModel subclass, any constructor arguments *)
  Theorem unfitted_raises_scipy : forall f a k s q n g,
      new_scipy f a k = Ok s ->
      query_scipy s q n g = (s, g, ObsErr NotFitted) /\ to_dict_scipy s = Err NotFitted.
  Proof.
    intros f a k s q n g H. destruct (new_scipy_pristine _ _ _ _ H) as [(Hf & _ & _ & Ho & _) _].
    apply unfitted_raises_scipy_gen; assumption.
  Qed.

  Lemma new_wrapper_pristine : forall a k u,
      new_wrapper a k = Ok u -> u_fitted u = false /\ u_instance u = None /\ u_stored u = (a, k).
  Proof.
    intros a k u. unfold new_wrapper, bind.
    repeat (match goal with
            | |- context [match ?x with _ => _ end] => destruct x; try discriminate
            end);
      intro H; inversion H; subst; simpl; auto.
  Qed.

  Theorem unfitted_raises_wrapper : forall a k u q n g,
      new_wrapper a k = Ok u ->
      query_wrapper u q n g = (u, g, ObsErr NotFitted) /\ to_dict_wrapper u = Err NotFitted.
  Proof.
    intros a k u q n g H. destruct (new_wrapper_pristine _ _ _ H) as (Hf & _ & _).
    unfold query_wrapper, to_dict_wrapper. rewrite Hf. auto.
  Qed.

  Lemma new_gm_pristine : forall a k x,
      new_gm a k = Ok x -> g_fitted x = false /\ g_columns x = None /\ g_univariates x = None /\
                           g_corr x = None /\ g_stored x = (a, k).
  Proof.
    intros a k x. unfold new_gm, bind.
    repeat (match goal with
            | |- context [match ?x with _ => _ end] => destruct x; try discriminate
            end);
      intro H; inversion H; subst; simpl; auto.
  Qed.

  Theorem unfitted_raises_gm : forall a k x q n g,
      new_gm a k = Ok x ->
      query_gm x q n g = (x, g, ObsErr NotFitted) /\ to_dict_gm x = Err NotFitted.
  Proof.
    intros a k x q n g H. destruct (new_gm_pristine _ _ _ H) as (Hf & _).
    unfold query_gm, to_dict_gm. rewrite Hf. auto.
  Qed.

  (* Bivariate: the guard is `if not self.theta`, so theta = 0 counts as unfitted.
     Every query AND sample (since the F23 fix) raises NotFittedError, without touching any generator *)
  Theorem unfitted_raises_biv : forall b t k n g,
      b_cls b = Some t -> t <> Independence -> theta_unset b = true -> b_init b = true ->
      query_biv b k n g = (b, g, ObsErr NotFitted).
  Proof.
    intros b t k n g Hc Ht Hu Hi. unfold query_biv, check_fit_biv. rewrite Hc, Hu, Hi.
    destruct k; try congruence; destruct t; try congruence; reflexivity.
  Qed.

  (* ... in particular sample on a never-fitted copula (before the fix: TypeError, tau is None) *)
  Theorem unfitted_biv_sample : forall t rs n g,
      query_biv (mkB (Some t) JNone JNone rs true) BSample n g
      = (mkB (Some t) JNone JNone rs true, g, ObsErr NotFitted).
  Proof. reflexivity. Qed.

  (* ... and with theta = tau = 0 (Clayton fitted on tau = 0 data) sample raises NotFittedError BEFORE drawing
     (before the fix: after two draws from the generator) *)
  Theorem unfitted_biv_sample_theta0 : forall t n g,
      query_biv (mkB (Some t) (JNum 0) (JNum 0) None true) BSample n g
      = (mkB (Some t) (JNum 0) (JNum 0) None true, g, ObsErr NotFitted).
  Proof. intros t n g. reflexivity. Qed.

  (* ... and to_dict never raises: it returns a dict with theta = tau = None *)
  Theorem unfitted_biv_to_dict_refuted : forall t rs i,
      to_dict_biv (mkB (Some t) JNone JNone rs i)
      = Ok (JDict [("copula_type", JStr (ctype_NAME t)); ("theta", JNone); ("tau", JNone)]).
  Proof. reflexivity. Qed.

  (* ----------------------------------------------------------------------- *)
  (* T4 get_instance                                                          *)
  (* ----------------------------------------------------------------------- *)
  Definition pristine_u (o : uobj) : Prop :=
    match o with
    | OS s => pristine s
    | OU u => u_fitted u = false /\ u_instance u = None
    end.

  Definition proto_class (p : uproto) : result cls :=
    match p with
    | PName n => resolve_name n
    | PWrapperCls | PInstU _ => Ok KWrapper
    | PFamCls f => Ok (KFam f)
    | PInstS s => Ok (KFam (s_fam s))
    end.

  Lemma new_u_spec : forall c a k o,
      new_u c a k = Ok o -> pristine_u o /\ class_u o = c.
  Proof.
    intros c a k o. unfold new_u, bind.
    destruct c; try discriminate.
    - destruct (uargs_jv a); try discriminate. destruct (ukw_jv k); try discriminate.
      destruct (new_scipy f l l0) eqn:E; try discriminate.
      intro H; inversion H; subst. destruct (new_scipy_pristine _ _ _ _ E) as (P & F & _).
      simpl. rewrite F. auto.
    - destruct (new_wrapper a k) eqn:E; try discriminate.
      intro H; inversion H; subst. destruct (new_wrapper_pristine _ _ _ E) as (P & F & _).
      simpl. auto.
  Qed.

  (* the four prototype forms, with and without kwargs: the result is a never-fitted
     object (no params, no constant value, no overrides) of the prototype's class *)
  Theorem get_instance_fresh : forall p kw o,
      get_instance_u p kw = Ok o ->
      pristine_u o /\ fitted_u o = false /\ proto_class p = Ok (class_u o).
  Proof.
    intros p kw o H.
    assert (G : pristine_u o /\ proto_class p = Ok (class_u o)).
    { unfold get_instance_u, bind in H. destruct p; simpl.
      - destruct (resolve_name s) eqn:R; try discriminate.
        destruct (new_u_spec _ _ _ _ H) as [P C]. rewrite C. auto.
      - destruct (new_u_spec _ _ _ _ H) as [P C]. rewrite C. auto.
      - destruct (new_u_spec _ _ _ _ H) as [P C]. rewrite C. auto.
      - destruct kw.
        + destruct (s_stored s) as [[a k]|].
          * destruct (new_scipy (s_fam s) a k) eqn:E; try discriminate. inversion H; subst.
            destruct (new_scipy_pristine _ _ _ _ E) as (P & F & _). simpl. rewrite F. auto.
          * destruct (new_scipy (s_fam s) [] []) eqn:E; try discriminate. inversion H; subst.
            destruct (new_scipy_pristine _ _ _ _ E) as (P & F & _). simpl. rewrite F. auto.
        + destruct (new_u_spec _ _ _ _ H) as [P C]. rewrite C. auto.
      - destruct kw.
        + destruct (new_wrapper _ _) eqn:E; try discriminate. inversion H; subst.
          destruct (new_wrapper_pristine _ _ _ E) as (P & F & _). simpl. auto.
        + destruct (new_u_spec _ _ _ _ H) as [P C]. rewrite C. auto. }
    destruct G as [P C]. repeat split; auto.
    destruct o; simpl in *; unfold pristine in *; tauto.
  Qed.

  (* fit never changes the class nor the stored constructor arguments ... *)
  Lemma fit_keeps_stored : forall s X g,
      s_fam (st (fit s X g)) = s_fam s /\ s_stored (st (fit s X g)) = s_stored s.
  Proof.
    intros s X g. split; [apply fit_keeps_fam|].
    destruct s as [f fi p c ov rs mn mx ss bw w m sto].
    unfold st, fit_scipy. cbv beta iota delta [s_fam s_ss s_bw s_w s_min s_max set_ov set_const].
    destruct (d_const X).
    - destruct (constant_params o_sfit _ X q); reflexivity.
    - destruct f; try reflexivity.
      + simpl.
        destruct (is_none mn); simpl; destruct (is_none mx); simpl;
        repeat match goal with
               | |- context [match jv_q ?x with _ => _ end] => destruct (jv_q x); simpl
               | |- context [o_tg_opt ?a ?b ?c] => destruct (o_tg_opt a b c); simpl
               end; reflexivity.
      + destruct (truthy ss).
        * destruct (kde_check (d_n X) false bw w); [reflexivity|].
          destruct (jv_nat ss); [|reflexivity].
          cbv beta iota delta [kde_get_model set_params s_params lookup String.eqb Ascii.eqb Bool.eqb s_ss s_bw s_w set_ss].
          match goal with |- context [kde_build ?a ?b ?c] => destruct (kde_build a b c) end; reflexivity.
        * cbv beta iota delta [kde_get_model set_params s_params lookup String.eqb Ascii.eqb Bool.eqb s_ss s_bw s_w set_ss].
          match goal with |- context [kde_build ?a ?b ?c] => destruct (kde_build a b c) end; reflexivity.
  Qed.

  Lemma run_fits_stored : forall hs s g,
      s_fam (fst (run_fits s hs g)) = s_fam s /\ s_stored (fst (run_fits s hs g)) = s_stored s.
  Proof.
    induction hs as [|X r IH]; intros s g; simpl; auto.
    destruct (fit s X g) as [[s' g'] e] eqn:E.
    destruct (IH s' g') as [I1 I2]. rewrite I1, I2.
    change s' with (st (s', g', e)). rewrite <- E. apply fit_keeps_stored.
  Qed.

  (* ... hence get_instance(prototype instance) does not depend on what the prototype
     has been fitted to: it is configured from __args__/__kwargs__ only *)
  Theorem get_instance_ignores_fit_state : forall s hs g kw,
      get_instance_u (PInstS (fst (run_fits s hs g))) kw = get_instance_u (PInstS s) kw.
  Proof.
    intros s hs g kw. destruct (run_fits_stored hs s g) as [F S].
    unfold get_instance_u. rewrite F, S. reflexivity.
  Qed.

  Theorem get_instance_ignores_fit_state_wrapper : forall u hs g kw,
      get_instance_u (PInstU (fst (run_fitsw u hs g))) kw = get_instance_u (PInstU u) kw.
  Proof.
    intros u hs g kw. pose proof (run_fitsw_cfg hs u g) as E. unfold ucfg in E.
    unfold get_instance_u. destruct kw; [|reflexivity].
    replace (u_stored (fst (run_fitsw u hs g))) with (u_stored u) by (inversion E; congruence).
    reflexivity.
  Qed.

  (* classes WITH @store_args (TruncatedGaussian, GaussianKDE, Univariate, GaussianMultivariate):
     get_instance of a (fitted) instance rebuilds exactly the instance as first constructed *)
  Theorem get_instance_replays_ctor : forall f a k s hs g,
      has_store_args f = true -> new_scipy f a k = Ok s ->
      get_instance_u (PInstS (fst (run_fits s hs g))) [] = Ok (OS s).
  Proof.
    intros f a k s hs g Hs H. rewrite get_instance_ignores_fit_state.
    destruct (new_scipy_pristine _ _ _ _ H) as (_ & F & S). rewrite Hs in S.
    unfold get_instance_u. rewrite S, F. rewrite H. reflexivity.
  Qed.

  Theorem get_instance_replays_ctor_wrapper : forall a k u hs g,
      new_wrapper a k = Ok u ->
      get_instance_u (PInstU (fst (run_fitsw u hs g))) [] = Ok (OU u).
  Proof.
    intros a k u hs g H. rewrite get_instance_ignores_fit_state_wrapper.
    destruct (new_wrapper_pristine _ _ _ H) as (_ & _ & S).
    unfold get_instance_u. rewrite S. simpl. rewrite H. reflexivity.
  Qed.

  (* classes WITHOUT @store_args (the six plain ScipyModel families; also Bivariate):
     get_instance(instance) is cls() - constructor arguments such as random_state are lost *)
  Theorem get_instance_no_store_args : forall f a k s hs g,
      has_store_args f = false -> new_scipy f a k = Ok s ->
      get_instance_u (PInstS (fst (run_fits s hs g))) [] = Ok (OS (fresh f)).
  Proof.
    intros f a k s hs g Hs H. rewrite get_instance_ignores_fit_state.
    destruct (new_scipy_pristine _ _ _ _ H) as (_ & F & S). rewrite Hs in S.
    unfold get_instance_u. rewrite S, F. rewrite new_scipy_default. reflexivity.
  Qed.

  (* kwargs given: the stored arguments are ignored altogether *)
  Theorem get_instance_kwargs_override : forall s k kw,
      get_instance_u (PInstS s) (k :: kw) = new_u (KFam (s_fam s)) [] (k :: kw).
  Proof. reflexivity. Qed.

  (* ----------------------------------------------------------------------- *)
  (* T5 / C14 : serialisation round trips                                     *)
  (* ----------------------------------------------------------------------- *)
  Lemma lookup_dict_set : forall (p : params) k v, lookup k (dict_set k v p) = Some v.
  Proof.
    induction p as [|[k' v'] r IH]; intros k v; simpl.
    - rewrite String.eqb_refl. reflexivity.
    - destruct (String.eqb k k') eqn:E; simpl; rewrite ?E, ?String.eqb_refl; auto.
  Qed.

  Lemma dict_remove_set : forall (p : params) k v,
      lookup k p = None -> dict_remove k (dict_set k v p) = p.
  Proof.
    induction p as [|[k' v'] r IH]; intros k v H; simpl in *.
    - rewrite String.eqb_refl. reflexivity.
    - destruct (String.eqb k k') eqn:E; [discriminate|]. simpl. rewrite E. f_equal. auto.
  Qed.

  Lemma dict_pop_set : forall (p : params) k v,
      lookup k p = None -> dict_pop k (dict_set k v p) = Some (v, p).
  Proof. intros. unfold dict_pop. rewrite lookup_dict_set, dict_remove_set; auto. Qed.

  (* C14 dispatch, part 1: get_instance resolves every qualified name written by to_dict *)
  Lemma resolve_fqn : forall c, resolve_name (fqn c) = Ok c.
  Proof. destruct c as [[]| | | |[]]; vm_compute; reflexivity. Qed.

  Lemma set_params_scipy_spec : forall s p s',
      set_params_scipy s p = Ok s' ->
      s_params s' = Some p /\ s_fam s' = s_fam s /\ s_fitted s' = s_fitted s /\ s_rs s' = s_rs s.
  Proof.
    intros s p s'. unfold set_params_scipy, bind.
    destruct (is_constant (s_fam s) p) as [[|]|]; try discriminate.
    - destruct (extract_constant (s_fam s) p); try discriminate.
      intro H; inversion H; subst. destruct s; simpl; auto.
    - destruct (s_fam s) eqn:F; try (intro H; inversion H; subst; destruct s; simpl in *; auto; fail).
      destruct (kde_get_model (set_params (Some p) s)) as [s2 m] eqn:K.
      destruct m; try discriminate. intro H; inversion H; subst.
      unfold kde_get_model in K. destruct s; simpl in *.
      destruct (lookup "dataset" p); inversion K; subst; simpl; auto.
  Qed.

  Definition dict_of (s : sinst) (p : params) : jv :=
    JDict (dict_set "type" (JStr (fqn (KFam (s_fam s)))) p).

  Lemma from_dict_scipy_eq : forall f p,
      lookup "type" p = None ->
      from_dict_scipy (JDict (dict_set "type" (JStr (fqn (KFam f))) p))
      = match set_params_scipy (fresh f) p with Ok s' => Ok (set_fitted true s') | Err e => Err e end.
  Proof.
    intros f p Hp. unfold from_dict_scipy. rewrite dict_pop_set by exact Hp.
    rewrite resolve_fqn. unfold bind. rewrite new_scipy_default. reflexivity.
  Qed.

  Lemma to_dict_scipy_eq : forall s p,
      s_fitted s = true -> s_params s = Some p ->
      to_dict_scipy s = Ok (JDict (dict_set "type" (JStr (fqn (KFam (s_fam s)))) p)).
  Proof. intros s p Hf Hp. unfold to_dict_scipy. rewrite Hf, Hp. reflexivity. Qed.

  Lemma from_dict_scipy_spec : forall f p s',
      lookup "type" p = None ->
      from_dict_scipy (JDict (dict_set "type" (JStr (fqn (KFam f))) p)) = Ok s' ->
      set_params_scipy (fresh f) p = Ok (set_fitted false s') /\ s_fitted s' = true /\
      s_params s' = Some p /\ s_fam s' = f /\ s_rs s' = None.
  Proof.
    intros f p s' Hp. unfold from_dict_scipy. rewrite dict_pop_set by exact Hp.
    rewrite resolve_fqn. unfold bind. rewrite new_scipy_default.
    destruct (set_params_scipy (fresh f) p) as [s1|] eqn:E; [|discriminate].
    intro H; inversion H; subst; clear H.
    destruct (set_params_scipy_spec _ _ _ E) as (A & B & C & D).
    repeat split; destruct s1; simpl in *; unfold set_fitted; simpl; try congruence; auto.
  Qed.

  (* C14 roundtrip_params: to_dict (from_dict (to_dict m)) = to_dict m, same class,
     for EVERY fitted state m whose round trip does not raise *)
  Theorem roundtrip_params_scipy : forall s p j s',
      s_fitted s = true -> s_params s = Some p -> lookup "type" p = None ->
      to_dict_scipy s = Ok j -> from_dict_scipy j = Ok s' ->
      to_dict_scipy s' = Ok j /\ s_fam s' = s_fam s.
  Proof.
    intros s p j s' Hf Hp Ht Hd Hr.
    unfold to_dict_scipy in Hd. rewrite Hf, Hp in Hd. simpl in Hd. inversion Hd; subst; clear Hd.
    destruct (from_dict_scipy_spec _ _ _ Ht Hr) as (_ & F & P & Fa & _).
    unfold to_dict_scipy. rewrite F, P, Fa. auto.
  Qed.

  (* one round trip, as a partial function on instances *)
  Definition rt (s : sinst) : result sinst :=
    match to_dict_scipy s with Ok j => from_dict_scipy j | Err e => Err e end.

  Fixpoint rt_n (n : nat) (s : sinst) : result sinst :=
    match n with
    | O => Ok s
    | S n' => match rt s with Ok s' => rt_n n' s' | Err e => Err e end
    end.

  (* after one successful round trip, a second one is the identity on the object *)
  Theorem rt_idempotent : forall s p s',
      s_params s = Some p -> lookup "type" p = None -> rt s = Ok s' -> rt s' = Ok s'.
  Proof.
    intros s p s' Hp Ht H. unfold rt in H.
    destruct (to_dict_scipy s) as [j|] eqn:D; [|discriminate].
    assert (Hf : s_fitted s = true).
    { unfold to_dict_scipy in D. destruct (s_fitted s); [reflexivity|discriminate]. }
    destruct (roundtrip_params_scipy _ _ _ _ Hf Hp Ht D H) as [D' _].
    unfold rt. rewrite D'. exact H.
  Qed.

  (* any number n >= 1 of round trips gives the object of the first round trip *)
  Theorem roundtrip_n_scipy : forall n s p s',
      s_params s = Some p -> lookup "type" p = None -> rt s = Ok s' -> rt_n (S n) s = Ok s'.
  Proof.
    intros n s p s' Hp Ht H. simpl. rewrite H.
    assert (I : rt s' = Ok s') by (eapply rt_idempotent; eauto).
    clear - I. induction n; simpl; [reflexivity|]. rewrite I. exact IHn.
  Qed.

  (* --- behaviour (observe) after a round trip --- *)
  Lemma observe_congr : forall s s',
      s_fam s = s_fam s' -> s_fitted s = s_fitted s' -> s_params s = s_params s' ->
      s_ov s = s_ov s' -> s_rs s = s_rs s' ->
      (s_ov s = no_ov \/ s_ov s = all_ov) ->
      (s_ov s = all_ov -> s_const s = s_const s') ->
      (s_fam s = FKDE -> s_ov s = no_ov -> s_model s = s_model s') ->
      observe_s s = observe_s s'.
  Proof.
    intros s s' Hf Hfi Hp Ho Hr Hov Hc Hm.
    destruct s as [f fi p c ov rs mn mx ss bw w m sto].
    destruct s' as [f' fi' p' c' ov' rs' mn' mx' ss' bw' w' m' sto'].
    simpl in *. subst f' fi' p' ov' rs'.
    unfold observe_s. rewrite !q_s_spec. unfold to_dict_scipy, overridden. simpl.
    destruct Hov as [-> | ->]; simpl.
    - assert (Q : forall k, class_query (mkS f fi p c no_ov rs mn mx ss bw w m sto) k
                          = class_query (mkS f fi p c' no_ov rs mn' mx' ss' bw' w' m' sto') k).
      { intro k. unfold class_query; simpl. destruct fi; simpl; [|reflexivity].
        destruct f; try reflexivity. rewrite (Hm eq_refl eq_refl). reflexivity. }
      rewrite !Q. reflexivity.
    - rewrite (Hc eq_refl).
      f_equal; unfold class_query; simpl; destruct fi; simpl; try reflexivity; destruct f; reflexivity.
  Qed.

  (* A fitted state is CONSISTENT when its degenerate-behaviour switches agree with its
     parameters, its (KDE) scipy object is the default-option one for its dataset, and it
     carries no random state. *)
  Definition consistent (s : sinst) (p : params) : Prop :=
    s_fitted s = true /\ s_params s = Some p /\ lookup "type" p = None /\ s_rs s = None /\
    match is_constant (s_fam s) p with
    | Ok true => s_ov s = all_ov /\ exists k, extract_constant (s_fam s) p = Ok k /\ s_const s = Some k
    | Ok false =>
        s_ov s = no_ov /\
        (s_fam s = FKDE ->
         exists ds km, lookup "dataset" p = Some ds /\ kde_build ds JNone JNone = Ok km /\ s_model s = Some km)
    | Err _ => False
    end.

  (* C14 roundtrip, behaviour part: for consistent states the round trip exists and is
     observationally the identity. *)
  Theorem roundtrip_observe_scipy : forall s p,
      consistent s p -> exists s', rt s = Ok s' /\ observe_s s' = observe_s s.
  Proof.
    intros s p (Hf & Hp & Ht & Hr & Hc).
    unfold rt. rewrite (to_dict_scipy_eq _ _ Hf Hp). rewrite from_dict_scipy_eq by exact Ht.
    unfold set_params_scipy, bind. replace (s_fam (fresh (s_fam s))) with (s_fam s) by reflexivity.
    destruct (is_constant (s_fam s) p) as [[|]|] eqn:IC; [| |contradiction].
    - destruct Hc as (Ho & k & Hk & Hcv). rewrite Hk.
      eexists; split; [reflexivity|].
      apply observe_congr; simpl; auto; try congruence; try (intros; discriminate).
    - destruct Hc as (Ho & Hkde).
      destruct (family_eq_dec (s_fam s) FKDE) as [E|E].
      + destruct (Hkde E) as (ds & km & Hds & Hb & Hm).
        rewrite E. unfold kde_get_model. simpl. rewrite Hds. simpl. rewrite Hb.
        eexists; split; [reflexivity|].
        apply observe_congr; simpl; auto; try congruence; try (intros; discriminate).
      + assert (X : exists s1, (match s_fam s with
                               | FKDE => let '(s2, m) := kde_get_model (set_params (Some p) (fresh (s_fam s))) in
                                         match m with Ok km => Ok (set_model (Some km) s2) | Err e => Err e end
                               | _ => Ok (set_params (Some p) (fresh (s_fam s))) end) = Ok s1
                               /\ s1 = set_params (Some p) (fresh (s_fam s))).
        { destruct (s_fam s); try congruence; eexists; split; reflexivity. }
        destruct X as (s1 & X1 & X2). rewrite X1.
        eexists; split; [reflexivity|]. subst s1.
        apply observe_congr; simpl; auto; try congruence; try (intros; discriminate).
    Qed.

  (* --- which fitted states are consistent? --- *)
  Lemma fit_success_shape : forall s X g,
      er (fit s X g) = None ->
      s_fitted (st (fit s X g)) = true /\ s_rs (st (fit s X g)) = s_rs s /\
      exists p, s_params (st (fit s X g)) = Some p /\
        (s_fam s = FKDE -> d_const X = None ->
         exists ds km, lookup "dataset" p = Some ds /\ kde_build ds (s_bw s) (s_w s) = Ok km /\
                       s_model (st (fit s X g)) = Some km).
  Proof.
    intros s X g.
    destruct s as [f fi p c ov rs mn mx ss bw w m sto].
    unfold er, st, fit_scipy. cbv beta iota delta [s_fam s_ss s_bw s_w s_min s_max set_ov set_const].
    destruct (d_const X) eqn:HX.
    - destruct (constant_params o_sfit _ X q) eqn:E; simpl; [|discriminate].
      intros _. repeat split; auto. eexists; split; [reflexivity|]. intros _ H; discriminate.
    - destruct f; simpl;
        try (intros _; repeat split; auto; eexists; split; [reflexivity|]; intros H; discriminate).
      + destruct (is_none mn); simpl; destruct (is_none mx); simpl;
        repeat match goal with
               | |- context [match jv_q ?x with _ => _ end] => destruct (jv_q x); simpl
               | |- context [o_tg_opt ?a ?b ?c] => destruct (o_tg_opt a b c); simpl
               end; try discriminate;
        intros _; repeat split; auto; eexists; (split; [reflexivity|]); intros H; discriminate.
      + destruct (truthy ss).
        * destruct (kde_check (d_n X) false bw w); [simpl; discriminate|].
          destruct (jv_nat ss); [|simpl; discriminate].
          cbv beta iota delta [kde_get_model set_params s_params lookup String.eqb Ascii.eqb Bool.eqb s_ss s_bw s_w set_ss].
          match goal with |- context [kde_build ?a ?b ?c] => destruct (kde_build a b c) eqn:K end;
            simpl; [|discriminate].
          intros _; repeat split; auto. eexists; split; [reflexivity|]. intros _ _.
          eexists; eexists; split; [reflexivity|split; [exact K|reflexivity]].
        * cbv beta iota delta [kde_get_model set_params s_params lookup String.eqb Ascii.eqb Bool.eqb s_ss s_bw s_w set_ss].
          match goal with |- context [kde_build ?a ?b ?c] => destruct (kde_build a b c) eqn:K end;
            simpl; [|discriminate].
          intros _; repeat split; auto. eexists; split; [reflexivity|]. intros _ _.
          eexists; eexists; split; [reflexivity|split; [exact K|reflexivity]].
  Qed.

  (* A first successful fit of an instance built with default options and no seed is
     consistent as soon as the fitted parameters are not degenerate in the wrong way. *)
  Theorem fit_fresh_consistent : forall s0 X g p,
      s_ov s0 = no_ov -> s_rs s0 = None -> s_bw s0 = JNone -> s_w s0 = JNone ->
      er (fit s0 X g) = None ->
      s_params (st (fit s0 X g)) = Some p ->
      lookup "type" p = None ->
      is_constant (s_fam s0) p = Ok (match d_const X with Some _ => true | None => false end) ->
      (forall c, d_const X = Some c -> extract_constant (s_fam s0) p = Ok (qj c)) ->
      consistent (st (fit s0 X g)) p.
  Proof.
    intros s0 X g p Ho Hr Hb Hw He Hp Ht Hc Hk.
    destruct (fit_success_shape s0 X g He) as (Ff & Fr & p' & Fp & Fk).
    rewrite Hp in Fp. inversion Fp; subst p'; clear Fp.
    unfold consistent. rewrite fit_keeps_fam. repeat split; auto; try congruence.
    rewrite Hc. destruct (d_const X) as [c|] eqn:HX.
    - destruct (fit_const_sets_ov s0 X g c HX) as [A B]. split; [exact A|].
      exists (qj c). split; auto.
    - destruct (fit_nonconst_resets_ov s0 X g HX) as [A B]. split; [exact A|].
      intro Hf. destruct (Fk Hf eq_refl) as (ds & km & K1 & K2 & K3).
      exists ds, km. rewrite Hb, Hw in K2. auto.
  Qed.

  (* C14, non-constant data: round trip = identity on behaviour, for every family, PROVIDED
     scipy did not return degenerate parameters (scale = 0, a = b, one-point dataset) *)
  Corollary roundtrip_after_fit : forall f X g p,
      let s := st (fit (fresh f) X g) in
      er (fit (fresh f) X g) = None ->
      s_params s = Some p -> lookup "type" p = None ->
      is_constant f p = Ok (match d_const X with Some _ => true | None => false end) ->
      (forall c, d_const X = Some c -> extract_constant f p = Ok (qj c)) ->
      exists s', rt s = Ok s' /\ observe_s s' = observe_s s.
  Proof.
    intros f X g p s He Hp Ht Hc Hk.
    apply (roundtrip_observe_scipy s p).
    apply fit_fresh_consistent; auto.
  Qed.

  Lemma Qeq_bool_refl : forall x, Qeq_bool x x = true.
  Proof. intro x. apply Qeq_bool_iff. reflexivity. Qed.

  (* constant data, families whose _fit_constant writes the constant itself into `loc` *)
  Theorem roundtrip_const_fit : forall f X c g,
      f <> FStudentT -> f <> FUniform -> f <> FKDE -> d_const X = Some c ->
      let s := st (fit (fresh f) X g) in
      exists s', rt s = Ok s' /\ observe_s s' = observe_s s.
  Proof.
    intros f X c g H1 H2 H3 HX.
    destruct f; try congruence;
      (eapply roundtrip_after_fit;
       [ unfold er, fit_scipy; rewrite HX; reflexivity
       | unfold st, fit_scipy; rewrite HX; reflexivity
       | reflexivity
       | rewrite HX; unfold is_constant, jnum_eq, qj; simpl; rewrite ?Qeq_bool_refl; reflexivity
       | intros c' Hc'; rewrite HX in Hc'; inversion Hc'; subst; reflexivity ]).
  Qed.

  (* UniformUnivariate: both kinds of data (needs only that the data summary is coherent) *)
  Theorem roundtrip_uniform_fit : forall X g,
      wf_data X = true ->
      let s := st (fit (fresh FUniform) X g) in
      exists s', rt s = Ok s' /\ observe_s s' = observe_s s.
  Proof.
    intros X g Hwf. unfold wf_data in Hwf. apply andb_true_iff in Hwf. destruct Hwf as [Hwf _].
    destruct (d_const X) as [c|] eqn:HX.
    - apply andb_true_iff in Hwf. destruct Hwf as [Hmin Hmax].
      apply Qeq_bool_iff in Hmin. apply Qeq_bool_iff in Hmax.
      eapply roundtrip_after_fit;
        [ unfold er, fit_scipy; rewrite HX; reflexivity
        | unfold st, fit_scipy; rewrite HX; reflexivity
        | reflexivity | | ].
      + rewrite HX. unfold is_constant, jnum_eq, qj; simpl.
        f_equal. apply Qeq_bool_iff. rewrite Qred_correct. rewrite Hmin, Hmax. ring.
      + intros c' Hc'. rewrite HX in Hc'. inversion Hc'; subst. unfold extract_constant, qj; simpl.
        f_equal. f_equal. apply Qred_complete. exact Hmin.
    - eapply roundtrip_after_fit;
        [ unfold er, fit_scipy; rewrite HX; reflexivity
        | unfold st, fit_scipy; rewrite HX; reflexivity
        | reflexivity | | ].
      + rewrite HX. unfold is_constant, jnum_eq, qj; simpl. f_equal.
        destruct (Qeq_bool (Qred (d_max X - d_min X)) 0) eqn:E; [|reflexivity].
        apply Qeq_bool_iff in E. rewrite Qred_correct in E.
        apply negb_true_iff in Hwf.
        assert (L : Qle_bool (d_max X) (d_min X) = true).
        { apply Qle_bool_iff. apply Qle_minus_iff.
          setoid_replace (d_min X + - d_max X)%Q with (- (d_max X - d_min X))%Q by ring.
          rewrite E. discriminate. }
        congruence.
      + intros c' Hc'. rewrite HX in Hc'. discriminate.
  Qed.

  Lemma all_numbers_repeat : forall q n, all_numbers (repeat (JNum q) n) = true.
  Proof. induction n; simpl; auto. Qed.

  Lemma all_equal_tail_repeat : forall q n, forallb (jnum_eq (JNum q)) (repeat (JNum q) n) = true.
  Proof.
    induction n; simpl; auto. rewrite IHn. unfold jnum_eq; simpl. rewrite Qeq_bool_refl. reflexivity.
  Qed.

  (* GaussianKDE (default options), constant data *)
  Theorem roundtrip_kde_const_fit : forall X c g,
      (1 <= d_n X)%nat -> d_const X = Some c ->
      let s := st (fit (fresh FKDE) X g) in
      exists s', rt s = Ok s' /\ observe_s s' = observe_s s.
  Proof.
    intros X c g Hn HX.
    eapply roundtrip_after_fit;
      [ unfold er, fit_scipy; rewrite HX; reflexivity
      | unfold st, fit_scipy; rewrite HX; reflexivity
      | reflexivity | | ].
    - rewrite HX. unfold is_constant, qj; simpl.
      destruct (d_n X) as [|[|n]]; [lia| |]; simpl.
      + reflexivity.
      + rewrite all_numbers_repeat. simpl.
        unfold jnum_eq at 1; simpl. rewrite Qeq_bool_refl. simpl.
        f_equal. apply (all_equal_tail_repeat (Qred c) n).
    - intros c' Hc'. rewrite HX in Hc'. inversion Hc'; subst.
      unfold extract_constant; simpl. destruct (d_n X); [lia|]. reflexivity.
  Qed.

  (* --- the Univariate wrapper serialises as the selected family --- *)
  Theorem wrapper_serialises_as_instance : forall u s,
      u_fitted u = true -> u_instance u = Some s -> s_fitted s = true ->
      to_dict_wrapper u = to_dict_scipy s.
  Proof.
    intros u s Hf Hi Hs. unfold to_dict_wrapper, to_dict_scipy. rewrite Hf, Hi, Hs. reflexivity.
  Qed.

  Lemma fitw_success_shape : forall u X g,
      er (fitw u X g) = None ->
      u_fitted (fst (fst (fitw u X g))) = true /\
      exists s, u_instance (fst (fst (fitw u X g))) = Some s /\ s_fitted s = true /\
                exists p, s_params s = Some p.
  Proof.
    intros u X g. unfold er, fit_wrapper.
    destruct (truthy (u_sel_ss u) && jlt_nat (u_sel_ss u) (d_n X)).
    - destruct (choice_size (u_sel_ss u)) as [n|]; [|discriminate].
      destruct (match o_select _ _ with Some i => nth_error (u_cands u) i | None => None end); [|discriminate].
      destruct (get_instance_cand c); [|discriminate].
      destruct (fit a X _) as [[s1 g2] [e|]] eqn:E; [discriminate|].
      intros _. simpl. split; auto. exists s1. split; auto.
      assert (He : er (fit a X (mkDraw (JStr "choice") n :: g)) = None) by (rewrite E; reflexivity).
      destruct (fit_success_shape _ _ _ He) as (F & _ & p & P & _).
      rewrite E in F, P. simpl in F, P. split; auto. exists p; auto.
    - destruct (truthy (u_sel_ss u) && lt_raises (u_sel_ss u)); [discriminate|].
      destruct (match o_select _ _ with Some i => nth_error (u_cands u) i | None => None end); [|discriminate].
      destruct (get_instance_cand c); [|discriminate].
      destruct (fit a X _) as [[s1 g2] [e|]] eqn:E; [discriminate|].
      intros _. simpl. split; auto. exists s1. split; auto.
      assert (He : er (fit a X g) = None) by (rewrite E; reflexivity).
      destruct (fit_success_shape _ _ _ He) as (F & _ & p & P & _).
      rewrite E in F, P. simpl in F, P. split; auto. exists p; auto.
  Qed.

  (* Univariate.from_dict(wrapper.to_dict()) is an instance of the SELECTED family,
     not a Univariate wrapper, with the same dict *)
  Theorem wrapper_roundtrip : forall u X g,
      er (fitw u X g) = None ->
      let u' := fst (fst (fitw u X g)) in
      exists s j, u_instance u' = Some s /\ to_dict_wrapper u' = Ok j /\
        forall p s', s_params s = Some p -> lookup "type" p = None ->
                     from_dict_scipy j = Ok s' ->
                     s_fam s' = s_fam s /\ to_dict_scipy s' = Ok j.
  Proof.
    intros u X g He u'.
    destruct (fitw_success_shape u X g He) as (F & s & I & Fs & p & P).
    exists s. eexists. split; [exact I|]. split.
    - unfold u'. rewrite (wrapper_serialises_as_instance _ _ F I Fs). apply to_dict_scipy_eq; eauto.
    - intros p0 s' P0 Ht Hr. rewrite P in P0. inversion P0; subst p0.
      destruct (roundtrip_params_scipy s p _ s' Fs P Ht (to_dict_scipy_eq _ _ Fs P) Hr) as [A B].
      split; auto.
  Qed.

  (* --- Bivariate --- *)
  Definition biv_dict (t : ctype) (th ta : jv) : jv :=
    JDict [("copula_type", JStr (ctype_NAME t)); ("theta", th); ("tau", ta)].

  (* C14 dispatch + round trip through the documented entry point Bivariate.from_dict *)
  Theorem roundtrip_biv : forall w t th ta,
      t <> Independence ->
      from_dict_biv w None (biv_dict t th ta)
      = (mkBW true (bw_own_empty w) (bw_indep_imported w), Ok (mkB (Some t) th ta None true)).
  Proof. intros w t th ta H. destruct w; destruct t; try congruence; reflexivity. Qed.

  Theorem roundtrip_params_biv : forall w b t j,
      b_cls b = Some t -> t <> Independence -> to_dict_biv b = Ok j ->
      exists w' b', from_dict_biv w None j = (w', Ok b') /\
                    to_dict_biv b' = Ok j /\ b_cls b' = Some t /\
                    observe_b b' = observe_b (mkB (Some t) (b_theta b) (b_tau b) None true).
  Proof.
    intros w b t j Hc Ht Hd. unfold to_dict_biv in Hd. rewrite Hc in Hd. inversion Hd; subst j.
    eexists; eexists. split; [apply roundtrip_biv; exact Ht|]. auto.
  Qed.

  Fixpoint rt_biv_n (n : nat) (w : bworld) (b : binst) : bworld * result binst :=
    match n with
    | O => (w, Ok b)
    | S n' => match to_dict_biv b with
              | Ok j => match from_dict_biv w None j with
                        | (w', Ok b') => rt_biv_n n' w' b'
                        | (w', Err e) => (w', Err e)
                        end
              | Err e => (w, Err e)
              end
    end.

  Theorem roundtrip_n_biv : forall n w t th ta rs i,
      t <> Independence ->
      snd (rt_biv_n (S n) w (mkB (Some t) th ta rs i)) = Ok (mkB (Some t) th ta None true).
  Proof.
    intros n w t th ta rs i Ht.
    change (rt_biv_n (S n) w (mkB (Some t) th ta rs i))
      with (match from_dict_biv w None (biv_dict t th ta) with
            | (w', Ok b') => rt_biv_n n w' b'
            | (w', Err e) => (w', Err e) end).
    rewrite roundtrip_biv by exact Ht.
    generalize (mkBW true (bw_own_empty w) (bw_indep_imported w)). clear w rs i.
    induction n; intro w; [reflexivity|].
    change (rt_biv_n (S n) w (mkB (Some t) th ta None true))
      with (match from_dict_biv w None (biv_dict t th ta) with
            | (w', Ok b') => rt_biv_n n w' b'
            | (w', Err e) => (w', Err e) end).
    rewrite roundtrip_biv by exact Ht. apply IHn.
  Qed.

  (* Independence is declared in CopulaTypes but its module is not imported by the package:
     the dispatch loop finds no subclass, __new__ returns None *)
  Theorem dispatch_independence_refuted : forall th ta,
      new_biv bworld0 None [("copula_type", JStr "independence")] = (mkBW true [] false, Ok None) /\
      from_dict_biv bworld0 None (biv_dict Independence th ta) = (mkBW true [] false, Err AttributeErr).
  Proof. split; reflexivity. Qed.

  (* from_dict / load called on a SUBCLASS.
     BEFORE THE F24 FIX (`instance = cls(copula_type=...)`): in a fresh interpreter the subclass cached its own
     empty `_subclasses`, dispatch found nothing, the constructor evaluated to None:
       subclass_from_dict_refuted :
         from_dict_biv bworld0 (Some Frank) (biv_dict Frank th ta) = (mkBW false [Frank] false, Err AttributeErr)
       subclass_from_dict_history_dependent :
         from_dict_biv (mkBW true [Frank] false) (Some Frank) (biv_dict Frank th ta) = (.., Err AttributeErr) /\
         from_dict_biv (mkBW true [Frank] false) (Some Clayton) (biv_dict Frank th ta)
           = (.., Ok (mkB (Some Frank) th ta None false))
     SINCE THE FIX (`instance = Bivariate(copula_type=...)`) the class from_dict is called on is irrelevant: *)
  Theorem subclass_from_dict_fixed : forall w c j,
      from_dict_biv w (Some c) j = from_dict_biv w None j.
  Proof. reflexivity. Qed.

  Theorem subclass_from_dict_roundtrip : forall w c t th ta,
      t <> Independence ->
      from_dict_biv w (Some c) (biv_dict t th ta)
      = (mkBW true (bw_own_empty w) (bw_indep_imported w), Ok (mkB (Some t) th ta None true)).
  Proof. intros w c t th ta H. rewrite subclass_from_dict_fixed. apply roundtrip_biv. exact H. Qed.

  (* the two states of the class-level caches in which it used to fail *)
  Theorem subclass_from_dict_history_independent : forall th ta,
      from_dict_biv bworld0 (Some Frank) (biv_dict Frank th ta)
      = (mkBW true [] false, Ok (mkB (Some Frank) th ta None true)) /\
      from_dict_biv (mkBW true [Frank] false) (Some Frank) (biv_dict Frank th ta)
      = (mkBW true [Frank] false, Ok (mkB (Some Frank) th ta None true)) /\
      from_dict_biv (mkBW true [Frank] false) (Some Clayton) (biv_dict Frank th ta)
      = (mkBW true [Frank] false, Ok (mkB (Some Frank) th ta None true)).
  Proof. repeat split; reflexivity. Qed.

  (* --- dispatch: Univariate.from_dict / Multivariate.from_dict --- *)
  Theorem dispatch_univariate : forall f p s',
      lookup "type" p = None ->
      from_dict_scipy (JDict (dict_set "type" (JStr (fqn (KFam f))) p)) = Ok s' -> s_fam s' = f.
  Proof. intros f p s' Ht H. destruct (from_dict_scipy_spec _ _ _ Ht H) as (_ & _ & _ & F & _). exact F. Qed.

  Theorem dispatch_univariate_wrapper_name : forall p,
      lookup "type" p = None ->
      from_dict_scipy (JDict (dict_set "type" (JStr (fqn KWrapper)) p)) = Err NotImplementedErr.
  Proof.
    intros p Ht. unfold from_dict_scipy. rewrite dict_pop_set by exact Ht. rewrite resolve_fqn. reflexivity.
  Qed.

  Theorem dispatch_multivariate : forall d,
      lookup "type" d = Some (JStr (fqn KGM)) ->
      from_dict_multivariate (JDict d) = from_dict_gm (JDict d).
  Proof. intros d H. unfold from_dict_multivariate. rewrite H. rewrite resolve_fqn. reflexivity. Qed.

  (* --- GaussianMultivariate round trip --- *)
  Definition good_u (o : uobj) : Prop :=
    match o with
    | OS s => forall p, s_params s = Some p -> lookup "type" p = None
    | OU u => forall s p, u_instance u = Some s -> s_params s = Some p -> lookup "type" p = None
    end.

  Lemma from_dict_to_dict : forall f p s',
      lookup "type" p = None ->
      from_dict_scipy (JDict (dict_set "type" (JStr (fqn (KFam f))) p)) = Ok s' ->
      to_dict_scipy s' = Ok (JDict (dict_set "type" (JStr (fqn (KFam f))) p)) /\ s_params s' = Some p.
  Proof.
    intros f p s' Ht H. destruct (from_dict_scipy_spec _ _ _ Ht H) as (_ & F & P & Fa & _).
    split; auto. rewrite (to_dict_scipy_eq _ _ F P). rewrite Fa. reflexivity.
  Qed.

  Lemma roundtrip_params_u : forall o j o',
      good_u o -> to_dict_u o = Ok j -> from_dict_u j = Ok o' ->
      to_dict_u o' = Ok j /\ good_u o'.
  Proof.
    intros o j o' G D R. unfold from_dict_u, bind in R.
    destruct (from_dict_scipy j) as [s'|] eqn:E; [|discriminate]. inversion R; subst o'; clear R.
    destruct o as [s|u]; simpl in *.
    - unfold to_dict_scipy in D. destruct (s_fitted s); [|discriminate].
      destruct (s_params s) as [p|] eqn:P; [|discriminate]. simpl in D. inversion D; subst j.
      destruct (from_dict_to_dict _ _ _ (G p eq_refl) E) as [A B]. split; auto.
      intros p0 P0. rewrite B in P0. inversion P0; subst. apply G; reflexivity.
    - unfold to_dict_wrapper in D. destruct (u_fitted u); [|discriminate].
      destruct (u_instance u) as [s|] eqn:I; [|discriminate].
      destruct (s_params s) as [p|] eqn:P; [|discriminate]. simpl in D. inversion D; subst j.
      destruct (from_dict_to_dict _ _ _ (G s p eq_refl P) E) as [A B]. split; auto.
      intros p0 P0. rewrite B in P0. inversion P0; subst. eapply G; eauto.
  Qed.

  Lemma roundtrip_list_u : forall us ds us',
      Forall good_u us -> all_ok (map to_dict_u us) = Ok ds -> all_ok (map from_dict_u ds) = Ok us' ->
      all_ok (map to_dict_u us') = Ok ds /\ Forall good_u us'.
  Proof.
    induction us as [|o r IH]; intros ds us' G D R; simpl in *.
    - inversion D; subst. simpl in R. inversion R; subst. simpl. auto.
    - destruct (to_dict_u o) as [j|] eqn:Dj; [|discriminate].
      destruct (all_ok (map to_dict_u r)) as [dr|] eqn:Dr; [|discriminate].
      inversion D; subst ds; clear D. simpl in R.
      destruct (from_dict_u j) as [o'|] eqn:Rj; [|discriminate].
      destruct (all_ok (map from_dict_u dr)) as [ur|] eqn:Rr; [|discriminate].
      inversion R; subst us'; clear R.
      inversion G as [|? ? Go Gr]; subst.
      destruct (roundtrip_params_u _ _ _ Go Dj Rj) as [A B].
      destruct (IH dr ur Gr eq_refl Rr) as [C D]. simpl. rewrite A, C. auto.
  Qed.

  Lemma jlist_rows_map : forall corr, jlist_rows (JList (map JList corr)) = Ok corr.
  Proof.
    intro corr. unfold jlist_rows. rewrite map_map.
    induction corr as [|r c IH]; simpl; auto. rewrite IH. reflexivity.
  Qed.

  Lemma from_dict_gm_eq : forall a b c t,
      from_dict_gm (JDict [("correlation", a); ("univariates", JList b); ("columns", JList c); ("type", t)])
      = (us <- all_ok (map from_dict_u b) ;; corr <- jlist_rows a ;;
         Ok (mkG (DOne PWrapperCls) None true (Some c) (Some us) (Some corr) ([], []))).
  Proof. reflexivity. Qed.

  (* C14 roundtrip_params for GaussianMultivariate *)
  Theorem roundtrip_params_gm : forall x j x',
      (forall us, g_univariates x = Some us -> Forall good_u us) ->
      to_dict_gm x = Ok j -> from_dict_gm j = Ok x' ->
      to_dict_gm x' = Ok j /\ g_fitted x' = true /\
      (forall us, g_univariates x' = Some us -> Forall good_u us).
  Proof.
    intros x j x' G D R. unfold to_dict_gm in D.
    destruct (g_fitted x); [|discriminate]. simpl in D.
    destruct (g_columns x) as [cols|]; [|discriminate].
    destruct (g_univariates x) as [us|]; [|discriminate].
    destruct (g_corr x) as [corr|]; [|discriminate].
    unfold bind in D. destruct (all_ok (map to_dict_u us)) as [ds|] eqn:Dd; [|discriminate].
    inversion D; subst j; clear D.
    rewrite from_dict_gm_eq in R. unfold bind in R. rewrite jlist_rows_map in R.
    destruct (all_ok (map from_dict_u ds)) as [us'|] eqn:Rd; [|discriminate].
    inversion R; subst x'; clear R.
    destruct (roundtrip_list_u us ds us' (G us eq_refl) Dd Rd) as [A B].
    unfold to_dict_gm; simpl. unfold bind. rewrite A. repeat split; auto.
    intros us0 H0. inversion H0; subst. exact B.
  Qed.

  (* --- json_safe: no JSet in the dicts of univariate, bivariate and Gaussian models --- *)
  Lemma json_safe_dict_set : forall (p : params) k v,
      json_safe (JDict p) = true -> json_safe v = true -> json_safe (JDict (dict_set k v p)) = true.
  Proof.
    induction p as [|[k' v'] r IH]; intros k v Hp Hv; simpl in *.
    - rewrite Hv. reflexivity.
    - apply andb_true_iff in Hp. destruct Hp as [H1 H2].
      destruct (String.eqb k k'); simpl.
      + rewrite Hv. exact H2.
      + rewrite H1. simpl. apply (IH k v H2 Hv).
  Qed.

  Lemma json_safe_list_qj : forall l, json_safe (JList (map qj l)) = true.
  Proof. induction l; simpl; auto. Qed.

  Lemma json_safe_repeat_qj : forall c n, json_safe (JList (repeat (qj c) n)) = true.
  Proof. induction n; simpl; auto. Qed.

  Lemma json_safe_jdiv : forall a b, json_safe (jdiv a b) = true.
  Proof.
    intros a b. unfold jdiv. destruct (Qeq_bool b 0); [destruct (Qeq_bool a 0)|]; reflexivity.
  Qed.

  Lemma json_safe_single : forall k v, json_safe v = true -> json_safe (JDict [(k, v)]) = true.
  Proof. intros k v H. simpl. rewrite H. reflexivity. Qed.

  Lemma json_safe_nested : forall l, json_safe (JList l) = true -> json_safe (JList [JList l]) = true.
  Proof. intros l H. change (json_safe (JList l) && true = true). rewrite H. reflexivity. Qed.

  Theorem json_safe_scipy_after_fit : forall s X g j,
      er (fit s X g) = None -> to_dict_scipy (st (fit s X g)) = Ok j -> json_safe j = true.
  Proof.
    intros s X g j He Hd.
    destruct (fit_success_shape s X g He) as (F & _ & p & P & _).
    rewrite (to_dict_scipy_eq _ _ F P) in Hd. inversion Hd; subst j; clear Hd.
    apply json_safe_dict_set; [|reflexivity].
    remember (json_safe (JDict p)) as G eqn:EG.
    revert He P. destruct s as [f fi p0 c ov rs mn mx ss bw w m sto].
    unfold er, st, fit_scipy. cbv beta iota delta [s_fam s_ss s_bw s_w s_min s_max].
    destruct (d_const X) eqn:HX.
    - unfold constant_params, set_constant. cbv beta iota delta [s_fam s_ss set_ov set_const].
      destruct f; simpl; try (intros _ H; inversion H; subst; reflexivity).
      destruct (truthy ss); [destruct (jv_nat ss)|]; simpl; try discriminate;
          intros _ H; inversion H; subst; apply json_safe_single; apply json_safe_repeat_qj.
    - destruct f; simpl; try (intros _ H; inversion H; subst; reflexivity).
      + unfold set_min, set_max; simpl.
        destruct (is_none mn); simpl; destruct (is_none mx); simpl;
        repeat match goal with
               | |- context [match jv_q ?x with _ => _ end] => destruct (jv_q x); simpl
               | |- context [o_tg_opt ?a ?b ?c] => destruct (o_tg_opt a b c); simpl
               end; try discriminate;
        intros _ H; inversion H; subst; simpl; rewrite !json_safe_jdiv; reflexivity.
      + destruct (truthy ss).
        * destruct (kde_check (d_n X) false bw w); [simpl; discriminate|].
          destruct (jv_nat ss); [|simpl; discriminate].
          cbv beta iota delta [kde_get_model set_params s_params lookup String.eqb Ascii.eqb Bool.eqb s_ss s_bw s_w set_ss].
          match goal with |- context [kde_build ?a ?b ?c] => destruct (kde_build a b c) eqn:K end;
            simpl; [|discriminate].
          intros _ H; inversion H; subst.
          apply json_safe_single. apply json_safe_nested. apply json_safe_list_qj.
        * cbv beta iota delta [kde_get_model set_params s_params lookup String.eqb Ascii.eqb Bool.eqb s_ss s_bw s_w set_ss].
          match goal with |- context [kde_build ?a ?b ?c] => destruct (kde_build a b c) eqn:K end;
            simpl; [|discriminate].
          intros _ H; inversion H; subst.
          apply json_safe_single. apply json_safe_list_qj.
  Qed.

  Theorem json_safe_biv : forall b j,
      to_dict_biv b = Ok j -> json_safe (b_theta b) = true -> json_safe (b_tau b) = true ->
      json_safe j = true.
  Proof.
    intros b j H H1 H2. unfold to_dict_biv in H. destruct (b_cls b); [|discriminate].
    inversion H; subst; simpl. rewrite H1, H2. reflexivity.
  Qed.

  (* theta and tau written by fit are numbers (possibly inf / nan), never sets *)
  Local Transparent compute_theta.
  Theorem json_safe_biv_after_fit : forall b X j,
      json_safe (b_theta b) = true -> json_safe (b_tau b) = true -> json_safe (p_tau X) = true ->
      (forall q th, o_frank_theta q = Ok th -> json_safe th = true) ->
      to_dict_biv (fst (fitb b X)) = Ok j -> json_safe j = true.
  Proof.
    intros b X j H1 H2 H3 Hf Hd. apply (json_safe_biv _ _ Hd); clear Hd;
      destruct b as [c th ta r i]; unfold fit_biv, compute_theta; simpl in *;
      destruct c as [[]|]; auto; destruct (p_empty X); auto; destruct (p_in_unit X); auto; simpl;
      destruct (p_tau X) eqn:T; auto; simpl;
      try (destruct (Qeq_bool q 1); auto; fail);
      try (destruct (o_frank_theta q) eqn:E; simpl; auto; eapply Hf; eauto).
  Qed.
  Local Opaque compute_theta.

  Lemma json_safe_jlist : forall l, (forall x, In x l -> json_safe x = true) -> json_safe (JList l) = true.
  Proof.
    induction l as [|x r IH]; intro H; simpl; auto.
    rewrite (H x (or_introl eq_refl)). simpl. apply IH. intros y Hy. apply H. right; exact Hy.
  Qed.

  Lemma all_ok_In : forall A (l : list (result A)) r x, all_ok l = Ok r -> In x r -> In (Ok x) l.
  Proof.
    induction l as [|[a|e] l IH]; intros r x H Hx; simpl in *.
    - inversion H; subst. contradiction.
    - destruct (all_ok l) as [r'|]; [|discriminate]. inversion H; subst.
      destruct Hx as [->|Hx]; [left; reflexivity|right; eapply IH; eauto].
    - discriminate.
  Qed.

  Theorem json_safe_gm : forall x j,
      to_dict_gm x = Ok j ->
      (forall cols c, g_columns x = Some cols -> In c cols -> json_safe c = true) ->
      (forall corr row c, g_corr x = Some corr -> In row corr -> In c row -> json_safe c = true) ->
      (forall us u d, g_univariates x = Some us -> In u us -> to_dict_u u = Ok d -> json_safe d = true) ->
      json_safe j = true.
  Proof.
    intros x j D Hc Hk Hu. unfold to_dict_gm in D.
    destruct (g_fitted x); [|discriminate]. simpl in D.
    destruct (g_columns x) as [cols|]; [|discriminate].
    destruct (g_univariates x) as [us|]; [|discriminate].
    destruct (g_corr x) as [corr|]; [|discriminate].
    unfold bind in D. destruct (all_ok (map to_dict_u us)) as [ds|] eqn:Dd; [|discriminate].
    inversion D; subst j; clear D.
    change (json_safe (JList (map JList corr)) && (json_safe (JList ds) && (json_safe (JList cols) && true)) = true).
    rewrite (json_safe_jlist cols) by (intros; eapply Hc; eauto).
    rewrite (json_safe_jlist ds).
    - rewrite json_safe_jlist; [reflexivity|].
      intros r Hr. apply in_map_iff in Hr. destruct Hr as (row & <- & Hrow).
      apply json_safe_jlist. intros c Hcell. eapply Hk; eauto.
    - intros d Hd. pose proof (all_ok_In _ _ _ _ Dd Hd) as I.
      apply in_map_iff in I. destruct I as (u & Hu1 & Hu2). eapply Hu; eauto.
  Qed.

  (* --- GaussianMultivariate: behaviour after the round trip --- *)
  Definition consistent_u (o : uobj) : Prop :=
    match o with
    | OS s => exists p, consistent s p
    | OU u => u_fitted u = true /\ exists s p, u_instance u = Some s /\ consistent s p
    end.

  Lemma observe_s_queries : forall s s', observe_s s' = observe_s s -> forall k, q_s s' k = q_s s k.
  Proof.
    intros s s' H k. unfold observe_s in H. inversion H. destruct k; assumption.
  Qed.

  Lemma q_u_wrapper : forall u s k, u_fitted u = true -> u_instance u = Some s -> q_u (OU u) k = q_s s k.
  Proof.
    intros u s k F I. unfold q_u, q_s, query_u, query_wrapper. rewrite F, I. simpl.
    destruct (query_scipy s k 1 []) as [[s' g'] o]. reflexivity.
  Qed.

  Lemma q_u_scipy : forall s k, q_u (OS s) k = q_s s k.
  Proof.
    intros s k. unfold q_u, q_s, query_u. destruct (query_scipy s k 1 []) as [[s' g'] o]. reflexivity.
  Qed.

  Lemma rt_u : forall o,
      consistent_u o ->
      exists j o', to_dict_u o = Ok j /\ from_dict_u j = Ok o' /\
                   (forall k, q_u o' k = q_u o k) /\ to_dict_u o' = Ok j.
  Proof.
    intros [s|u] C; simpl in C.
    - destruct C as [p C]. destruct (roundtrip_observe_scipy s p C) as (s' & R & O).
      destruct C as (F & P & T & _).
      unfold rt in R. rewrite (to_dict_scipy_eq _ _ F P) in R.
      eexists; exists (OS s'). simpl. rewrite (to_dict_scipy_eq _ _ F P).
      split; [reflexivity|]. unfold from_dict_u, bind. rewrite R. split; [reflexivity|]. split.
      + intro k. rewrite !q_u_scipy. apply observe_s_queries; exact O.
      + destruct (from_dict_to_dict _ _ _ T R) as [A _]. exact A.
    - destruct C as (Fu & s & p & I & C). destruct (roundtrip_observe_scipy s p C) as (s' & R & O).
      destruct C as (F & P & T & _).
      unfold rt in R. rewrite (to_dict_scipy_eq _ _ F P) in R.
      eexists; exists (OS s'). simpl. rewrite (wrapper_serialises_as_instance _ _ Fu I F).
      rewrite (to_dict_scipy_eq _ _ F P).
      split; [reflexivity|]. unfold from_dict_u, bind. rewrite R. split; [reflexivity|]. split.
      + intro k. rewrite q_u_scipy. rewrite (q_u_wrapper _ _ k Fu I). apply observe_s_queries; exact O.
      + destruct (from_dict_to_dict _ _ _ T R) as [A _]. exact A.
  Qed.

  Lemma rt_list_u : forall us,
      Forall consistent_u us ->
      exists ds us', all_ok (map to_dict_u us) = Ok ds /\ all_ok (map from_dict_u ds) = Ok us' /\
                     (forall k, map (fun u => q_u u k) us' = map (fun u => q_u u k) us) /\
                     all_ok (map to_dict_u us') = Ok ds.
  Proof.
    induction us as [|o r IH]; intro H.
    - exists [], []. simpl. auto.
    - inversion H as [|? ? Ho Hr]; subst.
      destruct (rt_u o Ho) as (j & o' & A & B & C & D).
      destruct (IH Hr) as (ds & us' & A' & B' & C' & D').
      exists (j :: ds), (o' :: us'). simpl. rewrite A, A', B, B', D, D'.
      repeat split; auto. intro k. simpl. rewrite C, C'. reflexivity.
  Qed.

  (* C14 for GaussianMultivariate: dict AND behaviour are preserved (unseeded model whose
     marginals are consistent) *)
  Theorem roundtrip_observe_gm : forall x cols us corr,
      g_fitted x = true -> g_rs x = None ->
      g_columns x = Some cols -> g_univariates x = Some us -> g_corr x = Some corr ->
      Forall consistent_u us ->
      exists j x', to_dict_gm x = Ok j /\ from_dict_multivariate j = Ok x' /\
                   to_dict_gm x' = Ok j /\ observe_g x' = observe_g x.
  Proof.
    intros x cols us corr F R Hc Hu Hk C.
    destruct (rt_list_u us C) as (ds & us' & A & B & Q & D).
    assert (TD : to_dict_gm x = Ok (JDict [("correlation", JList (map JList corr)); ("univariates", JList ds);
                                           ("columns", JList cols); ("type", JStr (fqn KGM))])).
    { unfold to_dict_gm. rewrite F, Hc, Hu, Hk. simpl. unfold bind. rewrite A. reflexivity. }
    eexists; eexists. split; [exact TD|].
    rewrite dispatch_multivariate by reflexivity.
    rewrite from_dict_gm_eq. unfold bind. rewrite B, jlist_rows_map.
    split; [reflexivity|]. split.
    - unfold to_dict_gm; simpl. unfold bind. rewrite D. reflexivity.
    - unfold observe_g. rewrite TD.
      unfold to_dict_gm at 1; simpl. unfold bind. rewrite D.
      unfold q_g, query_gm. simpl. rewrite F, Hc, Hu, Hk, R. simpl.
      rewrite !Q.
      destruct (first_err (map (fun u => q_u u QCdf) us));
        destruct (first_err (map (fun u => q_u u QPpf) us)); reflexivity.
  Qed.
End Proofs.

(* T1 restated per class.  SINCE THE F5 / F6 FIXES:
   - TruncatedGaussian: FULL for successful fits (fit_pure_tg); the old statement with its side
     conditions (both bounds given, no constant dataset earlier) is kept as fit_pure_tg_partial;
   - GaussianKDE: still needs a user-given sample_size (F7); the condition on constant data is gone. *)
Theorem fit_pure_tg : forall o1 o2 o3 o4 s0 hs X g0 g,
    s_fam s0 = FTrunc ->
    er (fit_scipy o1 o2 o3 o4 (fst (run_fits_s o1 o2 o3 o4 s0 hs g0)) X g) = None ->
    observe_s (st (fit_scipy o1 o2 o3 o4 (fst (run_fits_s o1 o2 o3 o4 s0 hs g0)) X g))
    = observe_s (st (fit_scipy o1 o2 o3 o4 s0 X g)).
Proof. intros. apply fit_pure_scipy_full; auto. rewrite H. discriminate. Qed.

Corollary fit_pure_tg_partial : forall o1 o2 o3 o4 s0 hs X g0 g,
    s_fam s0 = FTrunc ->
    is_none (s_min s0) = false -> is_none (s_max s0) = false ->
    (d_const X <> None \/ Forall nonconst hs) ->
    er (fit_scipy o1 o2 o3 o4 (fst (run_fits_s o1 o2 o3 o4 s0 hs g0)) X g) = None ->
    observe_s (st (fit_scipy o1 o2 o3 o4 (fst (run_fits_s o1 o2 o3 o4 s0 hs g0)) X g))
    = observe_s (st (fit_scipy o1 o2 o3 o4 s0 X g)).
Proof. intros. apply fit_pure_tg; auto. Qed.

Theorem fit_pure_kde : forall o1 o2 o3 o4 s0 hs X g0 g,
    s_fam s0 = FKDE ->
    truthy (s_ss s0) = true ->                                      (* sample_size given by the user *)
    er (fit_scipy o1 o2 o3 o4 (fst (run_fits_s o1 o2 o3 o4 s0 hs g0)) X g) = None ->
    observe_s (st (fit_scipy o1 o2 o3 o4 (fst (run_fits_s o1 o2 o3 o4 s0 hs g0)) X g))
    = observe_s (st (fit_scipy o1 o2 o3 o4 s0 X g)).
Proof.
  intros. apply fit_pure_scipy_partial_observe; auto.
  left. unfold stable. rewrite H. auto.
Qed.

Corollary fit_pure_kde_partial : forall o1 o2 o3 o4 s0 hs X g0 g,
    s_fam s0 = FKDE ->
    truthy (s_ss s0) = true ->
    (d_const X <> None \/ Forall nonconst hs) ->
    er (fit_scipy o1 o2 o3 o4 (fst (run_fits_s o1 o2 o3 o4 s0 hs g0)) X g) = None ->
    observe_s (st (fit_scipy o1 o2 o3 o4 (fst (run_fits_s o1 o2 o3 o4 s0 hs g0)) X g))
    = observe_s (st (fit_scipy o1 o2 o3 o4 s0 X g)).
Proof. intros. apply fit_pure_kde; auto. Qed.

(* ... and without a user-given sample size, as long as only constant data came before
   (in particular [fit const; fit X] is now pure for GaussianKDE as well) *)
Theorem fit_pure_after_constants : forall o1 o2 o3 o4 s0 hs X g0 g,
    Forall isconst hs ->
    er (fit_scipy o1 o2 o3 o4 (fst (run_fits_s o1 o2 o3 o4 s0 hs g0)) X g) = None ->
    observe_s (st (fit_scipy o1 o2 o3 o4 (fst (run_fits_s o1 o2 o3 o4 s0 hs g0)) X g))
    = observe_s (st (fit_scipy o1 o2 o3 o4 s0 X g)).
Proof. intros. apply fit_pure_scipy_partial_observe; auto. right. assumption. Qed.

Corollary fit_pure_after_constants_partial : forall o1 o2 o3 o4 s0 hs X g0 g,
    Forall isconst hs -> d_const X <> None ->
    er (fit_scipy o1 o2 o3 o4 (fst (run_fits_s o1 o2 o3 o4 s0 hs g0)) X g) = None ->
    observe_s (st (fit_scipy o1 o2 o3 o4 (fst (run_fits_s o1 o2 o3 o4 s0 hs g0)) X g))
    = observe_s (st (fit_scipy o1 o2 o3 o4 s0 X g)).
Proof. intros. apply fit_pure_after_constants; auto. Qed.

(* ========================================================================= *)
(*  Concrete witnesses (stub oracles; each was replayed on the real library)   *)
(* ========================================================================= *)
Local Transparent Qred Qminus Qplus Qdiv Qmult Qeq_bool Qle_bool EPS.

Definition sfit := Stub.fit_scipy.
Definition sst (r : sinst * grng * option err) : sinst := fst (fst r).
Definition srun (s : sinst) (hs : list data) : sinst :=
  fst (run_fits_s Stub.sfit Stub.tg_opt Stub.tolist Stub.resample s hs []).

Ltac differ_on proj :=
  let H := fresh in intro H; apply (f_equal proj) in H; vm_compute in H; discriminate H.

(* --- T1 (b): TruncatedGaussian, [fit X; fit 10X].
   BEFORE THE F6 FIX this was the refutation fit_pure_tg_refuted: the second fit still used
   s_min = qj (d_min X1 - EPS), s_max = qj (d_max X1 + EPS), the bounds derived from X.
   SINCE THE FIX the instance never stores data-derived bounds: --- *)
Theorem fit_pure_tg_witness_fixed :
  exists s0 hs X, new_scipy FTrunc [] [] = Ok s0 /\ hs = [Stub.X1] /\ X = Stub.X10 /\
    observe_s (sst (sfit (srun s0 hs) X [])) = observe_s (sst (sfit s0 X [])) /\
    s_min (sst (sfit (srun s0 hs) X [])) = JNone /\
    s_max (sst (sfit (srun s0 hs) X [])) = JNone /\
    (* the bounds of the second fit are those of 10X *)
    to_dict_scipy (sst (sfit (srun s0 hs) X []))
    = Ok (JDict [("a", JNum (-2)); ("b", JNum 2); ("loc", JNum 40); ("scale", qj ((60 + 2 * EPS) / 4));
                 ("type", JStr "copulas.univariate.truncated_gaussian.TruncatedGaussian")]).
Proof.
  exists (fresh FTrunc), [Stub.X1], Stub.X10. split; [reflexivity|]. split; [reflexivity|]. split; [reflexivity|].
  repeat split; vm_compute; reflexivity.
Qed.

(* --- T1 (c): GaussianKDE caches _sample_size in _get_model:  [fit X50; fit X6] --- *)
Theorem fit_pure_kde_refuted :
  exists s0 hs X, new_scipy FKDE [] [] = Ok s0 /\
    observe_s (sst (sfit (srun s0 hs) X [])) <> observe_s (sst (sfit s0 X [])) /\
    s_ss (srun s0 hs) = natj 50 /\                       (* cached by the first fit *)
    (exists l, lookup "dataset" (match s_params (sst (sfit (srun s0 hs) X [])) with Some p => p | None => [] end)
               = Some (JList [JList l]) /\ List.length l = 50%nat) /\   (* 50 resampled points, nested *)
    (exists l, lookup "dataset" (match s_params (sst (sfit s0 X [])) with Some p => p | None => [] end)
               = Some (JList l) /\ List.length l = 6%nat) /\
    (* and the second fit consumed the GLOBAL generator *)
    snd (fst (sfit (srun s0 hs) X [])) = [mkDraw (JStr "kde.fit.resample") 50].
Proof.
  exists (fresh FKDE), [Stub.X50], Stub.X1. split; [reflexivity|]. split; [differ_on sm_dict|].
  split; [reflexivity|]. split; [|split].
  - eexists. split; vm_compute; reflexivity.
  - eexists. split; vm_compute; reflexivity.
  - reflexivity.
Qed.

(* ... the cached size also leaks into a later CONSTANT fit:  [fit X50; fit const(5)] *)
Theorem fit_pure_kde_const_refuted :
  exists s0 hs X, new_scipy FKDE [] [] = Ok s0 /\ d_const X <> None /\
    to_dict_scipy (sst (sfit (srun s0 hs) X [])) <> to_dict_scipy (sst (sfit s0 X [])).
Proof.
  exists (fresh FKDE), [Stub.X50], Stub.Xc. split; [reflexivity|]. split; [discriminate|].
  intro H. vm_compute in H. discriminate H.
Qed.

(* --- a failing fit is not atomic: GaussianKDE keeps new _params with the old _model --- *)
Theorem kde_failed_fit_not_atomic :
  exists s0 X1 X2 s e,
    new_scipy FKDE [] [("sample_size", natj 1)] = Ok s0 /\
    (* make it fitted first through a round trip, as in the replay on the library *)
    sfit (set_ss JNone s0) X1 [] = (s, [], None) /\
    sfit (set_ss (natj 1) s) X2 [] = (e, [mkDraw (JStr "kde.fit.resample") 1], Some ValueErr) /\
    s_fitted e = true /\ s_params e <> s_params s /\ s_model e = s_model s.
Proof.
  eexists; exists Stub.X1, Stub.X50; eexists; eexists.
  split; [reflexivity|]. split; [vm_compute; reflexivity|]. split; [vm_compute; reflexivity|].
  split; [reflexivity|]. split; [|reflexivity]. intro H. vm_compute in H. discriminate H.
Qed.

(* --- T1, Univariate wrapper: selection_sample_size reads the GLOBAL generator (F9) --- *)
Definition select2 (X : data) (cands : list cand) : option nat := Some (d_id X mod 2)%nat.
Definition fitw2 := fit_wrapper Stub.sfit Stub.tg_opt Stub.tolist Stub.resample select2 Stub.choice.

Theorem fit_wrapper_reads_global_rng :
  exists u X g1 g2,
    new_wrapper [] [("selection_sample_size", UJ (natj 3))] = Ok u /\
    er (fitw2 u X g1) = None /\ er (fitw2 u X g2) = None /\
    to_dict_wrapper (fst (fst (fitw2 u X g1))) <> to_dict_wrapper (fst (fst (fitw2 u X g2))) /\
    snd (fst (fitw2 u X g1)) = mkDraw (JStr "choice") 3 :: g1.
Proof.
  eexists; exists Stub.X1, [], [mkDraw JNone 1]. split; [reflexivity|].
  split; [reflexivity|]. split; [reflexivity|]. split; [|reflexivity].
  intro H. vm_compute in H. discriminate H.
Qed.

(* ... and a failing Univariate.fit (no candidate could be fitted: select_univariate returns
   get_instance(None) = None) is not atomic: `fitted` stays True with `_instance = None` *)
Definition select3 (X : data) (cands : list cand) : option nat :=
  if (d_id X =? 99)%nat then None else Some 0%nat.
Definition fitw3 := fit_wrapper Stub.sfit Stub.tg_opt Stub.tolist Stub.resample select3 Stub.choice.
Definition Xbad : data := mkData 99 None 1 3 3.     (* e.g. [1, nan, 3] on the library *)

Theorem fit_failure_not_atomic_wrapper :
  exists u u1, new_wrapper [] [] = Ok u /\ fitw3 u Stub.X1 [] = (u1, [], None) /\
    er (fitw3 u1 Xbad []) = Some AttributeErr /\
    u_fitted (fst (fst (fitw3 u1 Xbad []))) = true /\ u_instance (fst (fst (fitw3 u1 Xbad []))) = None /\
    q_u (OU (fst (fst (fitw3 u1 Xbad [])))) QCdf = ObsErr AttributeErr /\
    to_dict_wrapper (fst (fst (fitw3 u1 Xbad []))) = Err AttributeErr /\
    q_u (OU (fst (fst (fitw3 u Xbad [])))) QCdf = ObsErr NotFitted.
Proof.
  eexists; eexists. split; [reflexivity|]. split; [vm_compute; reflexivity|].
  repeat split; vm_compute; reflexivity.
Qed.

(* --- T1, Bivariate: fit_pure_full is false once failing fits are allowed, because a
       failing fit is not atomic (tau, and theta, are assigned before validation) --- *)
Definition fitb := Stub.fit_biv.
Definition clayton0 := mkB (Some Clayton) JNone JNone None true.

Theorem fit_failure_not_atomic_biv :
  exists b X, fitb clayton0 Stub.P1 = (b, None) /\
    snd (fitb b X) = Some ValueErr /\
    b_theta (fst (fitb b X)) = JNum (-2 # 3) /\          (* the rejected theta is kept *)
    q_b b BCdf = ObsBiv BCdf Clayton (JNum 2) /\         (* worked before the failed fit *)
    q_b (fst (fitb b X)) BCdf = ObsErr ValueErr.         (* every query now raises *)
Proof.
  eexists; exists Stub.Pneg. split; [vm_compute; reflexivity|]. repeat split; vm_compute; reflexivity.
Qed.

Theorem fit_pure_biv_full_refuted :
  exists b0 hs X,
    observe_b (fst (fitb (run_fits_b Stub.frank_theta b0 hs) X)) <> observe_b (fst (fitb b0 X)) /\
    (* constant column / NaN tau: tau := nan, theta stays the OLD one and keeps answering *)
    b_tau (fst (fitb (run_fits_b Stub.frank_theta b0 hs) X)) = JNaN /\
    q_b (fst (fitb (run_fits_b Stub.frank_theta b0 hs) X)) BCdf = ObsBiv BCdf Clayton (JNum 2) /\
    q_b (fst (fitb b0 X)) BCdf = ObsErr NotFitted.
Proof.
  exists clayton0, [Stub.P1], Stub.Pnan. split; [differ_on bs_cdf|].
  repeat split; vm_compute; reflexivity.
Qed.

(* --- C14 refutations --- *)
Definition rt' := rt.

(* (i) [fit const; fit X] then round trip.
   BEFORE THE F5 FIX this was roundtrip_observe_stale_overrides_refuted: the original kept the degenerate
   overrides (sm_cdf = ObsConst QCdf (Some 3)) while the copy rebuilt from the same dict did not:
   observe_s s' <> observe_s s although to_dict_scipy s' = to_dict_scipy s.
   SINCE THE FIX the re-fitted original has no overrides and the copy behaves like it: *)
Theorem roundtrip_observe_after_refit_fixed :
  exists s s', s = sst (sfit (srun (fresh FGaussian) [Stub.Xc]) Stub.X1 []) /\
    rt s = Ok s' /\ to_dict_scipy s' = to_dict_scipy s /\ observe_s s' = observe_s s /\
    sm_cdf (observe_s s) = ObsScipy QCdf FGaussian [("loc", JNum 4); ("scale", JNum (3 # 2))] /\
    sm_cdf (observe_s s') = ObsScipy QCdf FGaussian [("loc", JNum 4); ("scale", JNum (3 # 2))].
Proof.
  eexists; eexists. split; [reflexivity|]. split; [vm_compute; reflexivity|].
  repeat split; vm_compute; reflexivity.
Qed.

(* (ii) StudentTUnivariate on constant data: `loc` is whatever t.fit returns on constant
   data, _constant_value is the data value; the round trip re-reads the constant from `loc`.
   Oracle shaped after the library run: data = 1000000.3 (x5) gave loc = -1571.2357... *)
Definition sfit_t (f : family) (X : data) (start : list Q) : list Q :=
  match f with FStudentT => [12709; -1571; 1]%Q | _ => Stub.sfit f X start end.
Definition Xbig : data := mkData 7 (Some (10000003 # 10)) (10000003 # 10) (10000003 # 10) 5.

Theorem roundtrip_studentt_constant_refuted :
  exists s s', s = sst (fit_scipy sfit_t Stub.tg_opt Stub.tolist Stub.resample (fresh FStudentT) Xbig []) /\
    rt s = Ok s' /\ observe_s s' <> observe_s s /\
    s_const s = Some (JNum (10000003 # 10)) /\ s_const s' = Some (JNum (-1571)).
Proof.
  eexists; eexists. split; [reflexivity|]. split; [vm_compute; reflexivity|].
  split; [differ_on sm_cdf|]. split; vm_compute; reflexivity.
Qed.

(* (iii) GaussianKDE(bw_method=0.3): to_dict stores only the dataset (F15) *)
Theorem roundtrip_kde_options_refuted :
  exists s0 s s', new_scipy FKDE [] [("bw_method", JNum (3 # 10))] = Ok s0 /\
    sfit s0 Stub.X1 [] = (s, [], None) /\ rt s = Ok s' /\
    to_dict_scipy s' = to_dict_scipy s /\ observe_s s' <> observe_s s /\
    (exists m, s_model s = Some m /\ km_bw m = JNum (3 # 10)) /\
    (exists m, s_model s' = Some m /\ km_bw m = JNone).
Proof.
  eexists; eexists; eexists. split; [reflexivity|]. split; [vm_compute; reflexivity|].
  split; [vm_compute; reflexivity|]. split; [vm_compute; reflexivity|]. split; [differ_on sm_pdf|].
  split; eexists; split; vm_compute; reflexivity.
Qed.

Theorem roundtrip_kde_weights_refuted :
  exists s0 s s', new_scipy FKDE [] [("weights", JList [JNum 1; JNum 1; JNum 1; JNum 1; JNum 1; JNum 5])] = Ok s0 /\
    sfit s0 Stub.X1 [] = (s, [], None) /\ rt s = Ok s' /\ observe_s s' <> observe_s s.
Proof.
  eexists; eexists; eexists. split; [reflexivity|]. split; [vm_compute; reflexivity|].
  split; [vm_compute; reflexivity|]. differ_on sm_pdf.
Qed.

(* (iv) hidden state: GaussianKDE(sample_size=10) - the dataset is the nested list [[..10..]],
   so the copy caches _sample_size = len(dataset) = 1 and its NEXT fit raises *)
Theorem roundtrip_kde_hidden_state_refuted :
  exists s0 s s', new_scipy FKDE [] [("sample_size", natj 10)] = Ok s0 /\
    sst (sfit s0 Stub.X50 []) = s /\ rt s = Ok s' /\
    observe_s s' = observe_s s /\                          (* same behaviour now ... *)
    s_ss s = natj 10 /\ s_ss s' = natj 1 /\
    er (sfit s Stub.X50 []) = None /\ er (sfit s' Stub.X50 []) = Some ValueErr.   (* ... not later *)
Proof.
  eexists; eexists; eexists. split; [reflexivity|]. split; [reflexivity|].
  split; [vm_compute; reflexivity|]. repeat split; vm_compute; reflexivity.
Qed.

(* (v) by design: to_dict does not carry random_state *)
Theorem roundtrip_drops_random_state :
  exists s0 s s', new_scipy FGaussian [] [("random_state", natj 42)] = Ok s0 /\
    sst (sfit s0 Stub.X1 []) = s /\ rt s = Ok s' /\
    s_rs s = Some (42%Z, []) /\ s_rs s' = None /\ sm_sample (observe_s s') <> sm_sample (observe_s s).
Proof.
  eexists; eexists; eexists. split; [reflexivity|]. split; [reflexivity|].
  split; [vm_compute; reflexivity|]. split; [reflexivity|]. split; [reflexivity|].
  intro H. vm_compute in H. discriminate H.
Qed.

(* (vi) necessity of the non-degeneracy hypothesis of roundtrip_after_fit: if np.std
   underflows to 0 on non-constant data ([0, 1e-320] on the library), the copy is degenerate *)
Definition sfit_0 (f : family) (X : data) (start : list Q) : list Q :=
  match f with FGaussian => [d_min X; 0]%Q | _ => Stub.sfit f X start end.

Theorem roundtrip_gaussian_underflow_refuted :
  exists s s', s = sst (fit_scipy sfit_0 Stub.tg_opt Stub.tolist Stub.resample (fresh FGaussian) Stub.X1 []) /\
    rt s = Ok s' /\ s_ov s = no_ov /\ s_ov s' = all_ov /\ observe_s s' <> observe_s s.
Proof.
  eexists; eexists. split; [reflexivity|]. split; [vm_compute; reflexivity|].
  split; [reflexivity|]. split; [reflexivity|]. differ_on sm_cdf.
Qed.

(* --- T4: a class without @store_args loses its constructor arguments --- *)
Theorem get_instance_drops_seed :
  exists s s', new_scipy FGaussian [] [("random_state", natj 42)] = Ok s /\
    get_instance_u (PInstS s) [] = Ok (OS s') /\ s_rs s = Some (42%Z, []) /\ s_rs s' = None.
Proof. eexists; eexists. repeat split; reflexivity. Qed.

(* ... whereas TruncatedGaussian (with @store_args) is rebuilt with its bounds and seed
   (since the F6 fix fitting no longer stores a data-derived upper bound on the prototype: s_max s1 = JNone;
   before the fix s_max s1 = qj (7 + EPS) and the clone still had JNone) *)
Theorem get_instance_tg_example :
  exists s s1 s2,
    new_scipy FTrunc [JNum 0] [("random_state", natj 7)] = Ok s /\
    sst (sfit s Stub.X1 []) = s1 /\ s_max s1 = JNone /\
    get_instance_u (PInstS s1) [] = Ok (OS s2) /\ s2 = s /\ s_max s2 = JNone /\
    (* with kwargs, even the stored bounds are dropped *)
    (exists s3, get_instance_u (PInstS s1) [("random_state", UJ JNone)] = Ok (OS s3) /\ s_min s3 = JNone).
Proof.
  eexists; eexists; eexists. split; [reflexivity|]. split; [reflexivity|].
  split; [vm_compute; reflexivity|]. split; [vm_compute; reflexivity|]. split; [reflexivity|].
  split; [reflexivity|]. eexists. split; reflexivity.
Qed.

(* name forms of get_instance *)
Example get_instance_names :
  (exists s, get_instance_u (PName "copulas.univariate.gaussian.GaussianUnivariate") [] = Ok (OS s) /\ s_fam s = FGaussian) /\
  (exists s, get_instance_u (PName "copulas.univariate.GaussianKDE") [("sample_size", UJ (natj 5))] = Ok (OS s) /\ s_ss s = natj 5) /\
  (exists u, get_instance_u (PName "copulas.univariate.Univariate") [] = Ok (OU u)) /\
  get_instance_u (PName "Nope") [] = Err ValueErr /\
  get_instance_u (PName "copulas.nomodule.Nope") [] = Err ImportErr /\
  get_instance_u (PName "copulas.univariate.gaussian.Nope") [] = Err AttributeErr /\
  get_instance_u (PName "copulas.univariate.gaussian.GaussianUnivariate") [("foo", UJ (JNum 3))] = Err TypeErr /\
  get_instance_u (PFamCls FGaussian) [("random_state", UJ (JNum (3 # 2)))] = Err TypeErr.
Proof.
  repeat split; try reflexivity; eexists; try split; reflexivity.
Qed.

(* ========================================================================= *)
(*  Non-vacuity of the hypotheses of the main theorems                         *)
(* ========================================================================= *)
Example benign_nonvacuous_plain :
  benign (fresh FGaussian) [Stub.X1; Stub.X10] Stub.X50 /\
  benign (fresh FGaussian) [Stub.X1; Stub.Xc] Stub.Xc /\
  er (sfit (srun (fresh FGaussian) [Stub.X1; Stub.X10]) Stub.X50 []) = None.
Proof.
  split; [left; exact I|]. split; [left; exact I|]. reflexivity.
Qed.

Example benign_nonvacuous_tg :
  exists s0, new_scipy FTrunc [JNum 0; JNum 100] [] = Ok s0 /\
    benign s0 [Stub.X1; Stub.X10] Stub.X50 /\
    er (sfit (srun s0 [Stub.X1; Stub.X10]) Stub.X50 []) = None.
Proof.
  eexists. split; [reflexivity|]. split; [|reflexivity].
  left; exact I.
Qed.

Example benign_nonvacuous_kde :
  exists s0, new_scipy FKDE [natj 4] [] = Ok s0 /\
    benign s0 [Stub.X1; Stub.X10] Stub.X50 /\
    er (sfit (srun s0 [Stub.X1; Stub.X10]) Stub.X50 []) = None.
Proof.
  eexists. split; [reflexivity|]. split; [|reflexivity].
  left; reflexivity.
Qed.

Example consistent_nonvacuous :
  exists p, consistent (sst (sfit (fresh FBeta) Stub.X1 [])) p /\
  exists p', consistent (sst (sfit (fresh FKDE) Stub.X1 [])) p' /\
  exists p'', consistent (sst (sfit (fresh FTrunc) Stub.Xc [])) p''.
Proof.
  eexists. split.
  { unfold consistent. split; [reflexivity|]. split; [vm_compute; reflexivity|].
    split; [reflexivity|]. split; [reflexivity|]. vm_compute. split; [reflexivity|]. intro; discriminate. }
  eexists. split.
  { unfold consistent. split; [reflexivity|]. split; [vm_compute; reflexivity|].
    split; [reflexivity|]. split; [reflexivity|]. vm_compute. split; [reflexivity|].
    intros _. eexists; eexists. repeat split; reflexivity. }
  eexists.
  unfold consistent. split; [reflexivity|]. split; [vm_compute; reflexivity|].
  split; [reflexivity|]. split; [reflexivity|]. vm_compute. split; [reflexivity|].
  eexists; split; reflexivity.
Qed.

Example validation_nonvacuous :
  exists x, new_gm [] [] = Ok x /\
    Stub.fit_gm x Stub.Tempty [] = (x, [], Some ValueErr) /\
    exists x1, Stub.fit_gm x Stub.T1 [] = (x1, [], None) /\
               Stub.fit_gm x1 Stub.Tempty [] = (x1, [], Some ValueErr) /\
               Stub.fit_gm x1 (mkT 3 false false false []) [] = (x1, [], Some ValueErr) /\
               Stub.fit_gm x1 (mkT 4 false true true []) [] = (x1, [], Some ValueErr).
Proof.
  eexists. split; [reflexivity|]. split; [reflexivity|].
  eexists. split; [vm_compute; reflexivity|]. repeat split; reflexivity.
Qed.

Example gm_roundtrip_nonvacuous :
  exists x x1 j x2, new_gm [] [] = Ok x /\ Stub.fit_gm x Stub.T1 [] = (x1, [], None) /\
    to_dict_gm x1 = Ok j /\ from_dict_multivariate j = Ok x2 /\ to_dict_gm x2 = Ok j /\
    json_safe j = true /\ observe_g x2 = observe_g x1.
Proof.
  eexists; eexists; eexists; eexists. split; [reflexivity|]. split; [vm_compute; reflexivity|].
  split; [vm_compute; reflexivity|]. split; [vm_compute; reflexivity|].
  repeat split; vm_compute; reflexivity.
Qed.

Example gm_roundtrip_theorem_applies :
  exists x x1 cols us corr, new_gm [] [] = Ok x /\ Stub.fit_gm x Stub.T1 [] = (x1, [], None) /\
    g_fitted x1 = true /\ g_rs x1 = None /\ g_columns x1 = Some cols /\ g_univariates x1 = Some us /\
    g_corr x1 = Some corr /\ Forall consistent_u us.
Proof.
  eexists; eexists; eexists; eexists; eexists. split; [reflexivity|]. split; [vm_compute; reflexivity|].
  split; [reflexivity|]. split; [reflexivity|]. split; [reflexivity|]. split; [reflexivity|].
  split; [reflexivity|].
  apply Forall_cons; [|apply Forall_cons; [|apply Forall_cons; [|apply Forall_nil]]];
    simpl; (split; [reflexivity|]); eexists; eexists; (split; [reflexivity|]);
    unfold consistent; (split; [reflexivity|]); (split; [reflexivity|]); (split; [reflexivity|]);
    (split; [reflexivity|]); vm_compute.
  - split; [reflexivity|]. intro; discriminate.
  - split; [reflexivity|]. intro; discriminate.
  - split; [reflexivity|]. eexists; split; reflexivity.
Qed.

(* Edge.to_dict of the vine package stores the conditioning set 'D' as a Python set:
   that shape is NOT json-safe (which is why vines are excluded from the JSON clause) *)
Example edge_dict_not_json_safe :
  json_safe (JDict [("index", JNum 0); ("D", JSet [1%nat; 2%nat]); ("theta", JNum 2)]) = false.
Proof. reflexivity. Qed.

(* ========================================================================= *)
(*  Assumptions                                                                *)
(* ========================================================================= *)
Print Assumptions fit_pure_scipy_partial.
Print Assumptions fit_pure_plain_partial.
Print Assumptions fit_pure_tg_partial.
Print Assumptions fit_pure_kde_partial.
Print Assumptions fit_pure_scipy_full.
Print Assumptions fit_pure_plain.
Print Assumptions fit_pure_tg.
Print Assumptions refit_after_constant_fixed.
Print Assumptions fit_pure_tg_witness_fixed.
Print Assumptions fit_pure_kde_refuted.
Print Assumptions fit_pure_wrapper.
Print Assumptions fit_pure_biv.
Print Assumptions fit_pure_gm.
Print Assumptions fit_failure_not_atomic_biv.
Print Assumptions fit_failure_not_atomic_wrapper.
Print Assumptions unfitted_raises_scipy.
Print Assumptions unfitted_raises_wrapper.
Print Assumptions unfitted_raises_gm.
Print Assumptions unfitted_raises_biv.
Print Assumptions validation.
Print Assumptions get_instance_fresh.
Print Assumptions get_instance_replays_ctor.
Print Assumptions get_instance_no_store_args.
Print Assumptions roundtrip_params_scipy.
Print Assumptions roundtrip_n_scipy.
Print Assumptions roundtrip_observe_scipy.
Print Assumptions roundtrip_after_fit.
Print Assumptions roundtrip_uniform_fit.
Print Assumptions roundtrip_const_fit.
Print Assumptions roundtrip_kde_const_fit.
Print Assumptions roundtrip_params_biv.
Print Assumptions roundtrip_n_biv.
Print Assumptions roundtrip_params_gm.
Print Assumptions roundtrip_observe_gm.
Print Assumptions wrapper_roundtrip.
Print Assumptions subclass_from_dict_fixed.
Print Assumptions dispatch_independence_refuted.
Print Assumptions json_safe_scipy_after_fit.
Print Assumptions json_safe_gm.
Print Assumptions roundtrip_kde_options_refuted.
Print Assumptions roundtrip_studentt_constant_refuted.
