(* R-vine, ALL levels: the counting argument.
   A forest on k distinct edges spans at least k+1 nodes.  Descending from k
   distinct nodes of tree j through j forests down to the variables therefore
   reaches at least k + j variables.  Consequences:
   - I2: distinct nodes of a tree have distinct constraint sets,
   - constraint => proximity at every level: two edges of a tree whose four
     parents are distinct cover at least level + 2 variables. *)
From Coq Require Import List Arith ZArith QArith Lia Bool Permutation Sorting.Sorted.
From Cop Require Import Lib.FinGraph Model.Vine Spec.VineDefs Spec.VineSets
     Spec.VineSort Spec.VineCenter Spec.VineDirect Spec.VineRegular
     Spec.VinePySort Spec.VineValid Spec.VineRegular2 Spec.VineRegular3.
Import ListNotations.
Open Scope nat_scope.

(* ------------------------------------------------------------------ *)
(** * Forests (edge lists addressed by position)                       *)
Definition on_edge (u : nat) (e : nat * nat) : Prop := u = fst e \/ u = snd e.

(* acyclic, leaf form: no loops, and every non-empty set of edge positions
   contains an edge one of whose endpoints is on no other edge of the set *)
Definition forest (g : graph) : Prop :=
  (forall e, In e g -> fst e <> snd e) /\
  forall ps : list nat, ps <> [] -> (forall p, In p ps -> p < length g) ->
    exists p e u, In p ps /\ nth_error g p = Some e /\ on_edge u e /\
      forall p' e', In p' ps -> p' <> p -> nth_error g p' = Some e' -> ~ on_edge u e'.

(* F: edge positions, V: a node set containing all their endpoints *)
Definition covers (g : graph) (F V : list nat) : Prop :=
  forall p e, In p F -> nth_error g p = Some e -> In (fst e) V /\ In (snd e) V.

Lemma NoDup_remove_nat (x : nat) l : NoDup l -> NoDup (remove Nat.eq_dec x l).
Proof.
  induction 1 as [|y l Hy Hnd IH]; simpl; [constructor|].
  destruct (Nat.eq_dec x y); auto. constructor; auto.
  intros H. apply in_remove in H. tauto.
Qed.

Lemma forest_card g : forest g -> forall k F V,
  length F = k -> NoDup F -> NoDup V -> (forall p, In p F -> p < length g) ->
  covers g F V -> F <> [] -> length F + 1 <= length V.
Proof.
  intros [Hloop Hleaf]. induction k as [|k IH]; intros F V Hk HF HV Hlt Hcov Hne.
  - destruct F; [congruence|discriminate].
  - destruct (Hleaf F Hne Hlt) as (p & e & u & Hp & He & Hu & Hother).
    destruct (Hcov p e Hp He) as [H1 H2].
    assert (HuV : In u V) by (destruct Hu as [-> | ->]; auto).
    pose proof (remove_length_nodup p F HF Hp) as LF.
    pose proof (remove_length_nodup u V HV HuV) as LV.
    destruct (Nat.eq_dec k 0) as [->|Hk0].
    + (* a single edge: two distinct endpoints *)
      assert (Hloop' : fst e <> snd e) by (apply Hloop; eapply nth_error_In; eauto).
      assert (Hincl : incl [fst e; snd e] V) by (intros x [<-|[<-|[]]]; auto).
      apply NoDup_incl_length in Hincl.
      * simpl in *. lia.
      * constructor; [simpl; intuition|]. constructor; [simpl; tauto|constructor].
    + assert (IH' : length (remove Nat.eq_dec p F) + 1 <= length (remove Nat.eq_dec u V)).
      { apply IH.
        - lia.
        - apply NoDup_remove_nat. exact HF.
        - apply NoDup_remove_nat. exact HV.
        - intros q Hq. apply in_remove in Hq. apply Hlt. tauto.
        - intros q eq Hq Heq. apply in_remove in Hq. destruct Hq as [Hq Hqp].
          destruct (Hcov q eq Hq Heq) as [G1 G2].
          pose proof (Hother q eq Hq Hqp Heq) as Hno. unfold on_edge in Hno.
          split; apply in_in_remove; auto.
        - intros E. rewrite E in LF. simpl in LF. lia. }
      lia.
Qed.

(* ------------------------------------------------------------------ *)
(** * Descending one level: the endpoints of a set of edge positions   *)
Definition ends_at (g : graph) (p : nat) : list nat :=
  match nth_error g p with Some e => [fst e; snd e] | None => [] end.
Definition ends_of (g : graph) (S : list nat) : list nat :=
  nodup Nat.eq_dec (flat_map (ends_at g) S).

Lemma In_ends_of g S u :
  In u (ends_of g S) <-> exists p e, In p S /\ nth_error g p = Some e /\ on_edge u e.
Proof.
  unfold ends_of, ends_at, on_edge. rewrite nodup_In, in_flat_map. split.
  - intros (p & Hp & Hu). destruct (nth_error g p) as [e|] eqn:E; [|destruct Hu].
    exists p, e. simpl in Hu. intuition.
  - intros (p & e & Hp & He & Hu). exists p. split; auto. rewrite He. simpl. intuition.
Qed.

Lemma ends_of_card g S :
  forest g -> NoDup S -> (forall p, In p S -> p < length g) -> S <> [] ->
  length S + 1 <= length (ends_of g S).
Proof.
  intros Hf HS Hlt Hne.
  apply (forest_card g Hf (length S) S (ends_of g S)); auto.
  - apply NoDup_nodup.
  - intros p e Hp He. split; apply In_ends_of; exists p, e; unfold on_edge; auto.
Qed.

(* descending through a stack of graphs, top level first *)
Fixpoint down (gs : list graph) (S : list nat) : list nat :=
  match gs with
  | [] => S
  | g :: r => down r (ends_of g S)
  end.

(* the nodes of each graph are edge positions of the next one *)
Fixpoint stack_ok (gs : list graph) : Prop :=
  match gs with
  | [] => True
  | g :: r => forest g /\
              match r with
              | [] => True
              | g' :: _ => nodes_ok (length g') g
              end /\ stack_ok r
  end.

Lemma down_card gs : forall S,
  stack_ok gs -> NoDup S ->
  (forall p, In p S -> match gs with g :: _ => p < length g | [] => True end) ->
  S <> [] ->
  length S + length gs <= length (down gs S) /\ NoDup (down gs S).
Proof.
  induction gs as [|g r IH]; intros S Hok HS Hlt Hne; simpl.
  - split; [lia|auto].
  - destruct Hok as (Hf & Hnodes & Hok).
    pose proof (ends_of_card g S Hf HS Hlt Hne) as Hc.
    destruct (IH (ends_of g S)) as [H1 H2]; auto.
    + apply NoDup_nodup.
    + intros u Hu. destruct r as [|g' r']; auto.
      apply In_ends_of in Hu. destruct Hu as (p & [a b] & Hp & He & Hu).
      apply nth_error_In in He. apply Hnodes in He. unfold on_edge in Hu. simpl in Hu. lia.
    + intros E. rewrite E in Hc. simpl in Hc. lia.
    + split; [lia|auto].
Qed.

Lemma down_union gs : forall S v,
  In v (down gs S) <-> exists s, In s S /\ In v (down gs [s]).
Proof.
  induction gs as [|g r IH]; intros S v; simpl.
  - split; [intros H; exists v; auto|intros (s & Hs & [<-|[]]); auto].
  - rewrite IH. split.
    + intros (x & Hx & Hv). apply In_ends_of in Hx. destruct Hx as (p & e & Hp & He & Hu).
      exists p. split; auto. apply IH. exists x. split; auto.
      apply In_ends_of. exists p, e. simpl. auto.
    + intros (s & Hs & Hv). apply IH in Hv. destruct Hv as (x & Hx & Hv).
      exists x. split; auto. apply In_ends_of in Hx.
      destruct Hx as (p & e & [E|[]] & He & Hu). subst p.
      apply In_ends_of. exists s, e. auto.
Qed.

(* ------------------------------------------------------------------ *)
(** * Structural invariants of a vine (trees listed top level first)   *)
Definition child_U (Tp : list edge) (c : edge) : Prop :=
  exists i j a b, e_par c = Some (i, j) /\
    nth_error Tp i = Some a /\ nth_error Tp j = Some b /\
    (forall v, In v (U c) <-> In v (U a) \/ In v (U b)) /\
    (forall v, In v (e_D c) <-> In v (U a) /\ In v (U b)).

Fixpoint vine_inv (vs : list (list edge)) : Prop :=
  match vs with
  | [] => False
  | T :: r =>
      match r with
      | [] => (forall e, In e T -> edge1_plain e) /\ forest (graph1 T)
      | Tp :: _ => (forall c, In c T -> child_U Tp c) /\ forest (par_graph T) /\ vine_inv r
      end
  end.

Fixpoint graphs_of (vs : list (list edge)) : list graph :=
  match vs with
  | [] => []
  | T :: r => match r with
              | [] => [graph1 T]
              | _ :: _ => par_graph T :: graphs_of r
              end
  end.

Lemma graphs_of_length vs : length (graphs_of vs) = length vs.
Proof.
  induction vs as [|T r IH]; simpl; auto. destruct r; simpl in *; auto.
Qed.

Lemma graphs_of_head T r :
  match graphs_of (T :: r) with g :: _ => length g = length T | [] => False end.
Proof.
  simpl. destruct r; simpl; unfold graph1, par_graph; now rewrite map_length.
Qed.

Lemma vine_stack_ok vs : vine_inv vs -> stack_ok (graphs_of vs).
Proof.
  induction vs as [|T r IH]; intros H; [destruct H|].
  destruct r as [|Tp r'].
  - simpl in *. tauto.
  - destruct H as (Hch & Hf & Hinv).
    change (graphs_of (T :: Tp :: r')) with (par_graph T :: graphs_of (Tp :: r')).
    split; [exact Hf|]. split; [|apply IH; exact Hinv].
    pose proof (graphs_of_head Tp r') as Hh.
    destruct (graphs_of (Tp :: r')) as [|g' gs']; [destruct Hh|]. rewrite Hh.
    intros x y Hxy. unfold par_graph in Hxy. apply in_map_iff in Hxy.
    destruct Hxy as (c & E & Hc). destruct (Hch c Hc) as (i & j & a & b & Hp & Ha & Hb & _).
    unfold par_of in E. rewrite Hp in E. injection E as <- <-.
    split; apply nth_error_Some; congruence.
Qed.

Lemma U_down vs : vine_inv vs ->
  forall T r s e, vs = T :: r -> nth_error T s = Some e ->
  forall v, In v (U e) <-> In v (down (graphs_of vs) [s]).
Proof.
  induction vs as [|T0 r0 IH]; intros H T r s e E He v; [destruct H|].
  injection E as -> ->.
  destruct r as [|Tp r'].
  - destruct H as [Hplain _].
    change (down (graphs_of [T]) [s]) with (ends_of (graph1 T) [s]).
    rewrite (U_plain e (Hplain e (nth_error_In _ _ He))).
    rewrite In_ends_of. unfold has, on_edge. split.
    + intros Hv. exists s, (e_L e, e_R e). simpl. split; auto. split; auto.
      unfold graph1. rewrite nth_error_map, He. reflexivity.
    + intros (p & e' & [<-|[]] & He' & Hu). unfold graph1 in He'.
      rewrite nth_error_map, He in He'. injection He' as <-. auto.
  - destruct H as (Hch & Hf & Hinv).
    destruct (Hch e (nth_error_In _ _ He)) as (i & j & a & b & Hp & Ha & Hb & HU & _).
    change (graphs_of (T :: Tp :: r')) with (par_graph T :: graphs_of (Tp :: r')).
    simpl down. rewrite HU.
    rewrite (IH Hinv Tp r' i a eq_refl Ha v), (IH Hinv Tp r' j b eq_refl Hb v).
    rewrite (down_union _ (ends_of _ _)).
    assert (Hends : forall x, In x (ends_of (par_graph T) [s]) <-> x = i \/ x = j).
    { intros x. rewrite In_ends_of. unfold on_edge. split.
      - intros (p & e' & [<-|[]] & He' & Hu). unfold par_graph in He'.
        rewrite nth_error_map, He in He'. injection He' as <-.
        unfold par_of in Hu. rewrite Hp in Hu. exact Hu.
      - intros Hx. exists s, (i, j). split; [simpl; auto|]. split; auto.
        unfold par_graph. rewrite nth_error_map, He. simpl. unfold par_of. now rewrite Hp. }
    split.
    + intros [Hv|Hv]; [exists i|exists j]; split; auto; apply Hends; auto.
    + intros (x & Hx & Hv). apply Hends in Hx. destruct Hx as [-> | ->]; auto.
Qed.

(* ------------------------------------------------------------------ *)
(** * The counting theorem                                             *)
(* k distinct nodes of tree j (= length vs) jointly cover >= k + j variables *)
Theorem U_union_card vs T r (S W : list nat) :
  vine_inv vs -> vs = T :: r ->
  NoDup S -> S <> [] -> (forall s, In s S -> s < length T) -> NoDup W ->
  (forall s e v, In s S -> nth_error T s = Some e -> In v (U e) -> In v W) ->
  length S + length vs <= length W.
Proof.
  intros Hinv E HS Hne Hlt HW Hcov.
  pose proof (vine_stack_ok vs Hinv) as Hok.
  destruct (down_card (graphs_of vs) S Hok HS) as [Hc Hnd]; auto.
  { intros p Hp. subst vs. pose proof (graphs_of_head T r) as Hh.
    destruct (graphs_of (T :: r)); [destruct Hh|]. rewrite Hh. auto. }
  rewrite graphs_of_length in Hc.
  assert (Hincl : incl (down (graphs_of vs) S) W).
  { intros v Hv. apply down_union in Hv. destruct Hv as (s & Hs & Hv).
    destruct (nth_error_lt_Some T s (Hlt s Hs)) as [e He].
    apply (Hcov s e v Hs He). apply (U_down vs Hinv T r s e E He v). exact Hv. }
  apply NoDup_incl_length in Hincl; auto. lia.
Qed.

(* I2: distinct nodes of a tree have distinct constraint sets *)
Theorem U_injective_general vs T r s s' e e' :
  vine_inv vs -> vs = T :: r ->
  nth_error T s = Some e -> nth_error T s' = Some e' -> s <> s' ->
  NoDup (U e) -> length (U e) = length vs + 1 ->
  ~ (forall v, In v (U e) <-> In v (U e')).
Proof.
  intros Hinv E He He' Hss Hnd Hlen Heq.
  assert (H : length [s; s'] + length vs <= length (U e)).
  { apply (U_union_card vs T r [s; s'] (U e) Hinv E); auto.
    - constructor; [simpl; intuition|]. constructor; [simpl; tauto|constructor].
    - discriminate.
    - intros x [<-|[<-|[]]]; apply nth_error_Some; congruence.
    - intros x ex v [<-|[<-|[]]] Hx Hv.
      + assert (ex = e) by congruence. subst ex. auto.
      + assert (ex = e') by congruence. subst ex. apply Heq. auto. }
  change (length [s; s']) with 2 in H. lia.
Qed.

(* ------------------------------------------------------------------ *)
(** * (g, =>) at every level                                           *)
(* a, b: edges of the top tree T of vs (tree number length vs, 1-based);
   _check_constraint is called with level = length vs + 1 *)
Theorem constraint_is_proximity_general vs T r a b :
  vine_inv vs -> vs = T :: r -> In a T -> In b T ->
  check_constraint (length vs + 1) a b = true ->
  share_node (length vs - 1) a b.
Proof.
  intros Hinv E Ha Hb Hck. subst vs.
  destruct r as [|Tp r'].
  - (* first tree *)
    destruct Hinv as [Hplain _]. simpl.
    apply (constraint_is_proximity_level2 a b (Hplain a Ha) (Hplain b Hb)) in Hck. tauto.
  - destruct Hinv as (Hch & Hf & Hinv).
    destruct (Hch a Ha) as (i & j & ai & aj & Hpa & Hai & Haj & HUa & _).
    destruct (Hch b Hb) as (i' & j' & bi & bj & Hpb & Hbi & Hbj & HUb & _).
    change (share_par a b). unfold share_par.
    exists i, j, i', j'. split; [exact Hpa|]. split; [exact Hpb|].
    destruct (Nat.eq_dec i i') as [|N1]; [auto|].
    destruct (Nat.eq_dec i j') as [|N2]; [auto|].
    destruct (Nat.eq_dec j i') as [|N3]; [auto|].
    destruct (Nat.eq_dec j j') as [|N4]; [auto|].
    exfalso.
    assert (Hij : i <> j).
    { destruct Hf as [Hloop _]. specialize (Hloop (i, j)). apply Hloop.
      unfold par_graph. apply in_map_iff. exists a. split; auto.
      unfold par_of. now rewrite Hpa. }
    assert (Hij' : i' <> j').
    { destruct Hf as [Hloop _]. specialize (Hloop (i', j')). apply Hloop.
      unfold par_graph. apply in_map_iff. exists b. split; auto.
      unfold par_of. now rewrite Hpb. }
    apply check_constraint_spec in Hck.
    assert (H : length [i; j; i'; j'] + length (Tp :: r')
                <= length (set_union (U a) (U b))).
    { apply (U_union_card (Tp :: r') Tp r' [i; j; i'; j'] _ Hinv eq_refl).
      - repeat constructor; simpl; intuition.
      - discriminate.
      - intros x [<-|[<-|[<-|[<-|[]]]]]; apply nth_error_Some; congruence.
      - apply incr_NoDup, incr_set_union.
      - intros x ex v Hx Hex Hv. apply In_set_union.
        destruct Hx as [<-|[<-|[<-|[<-|[]]]]].
        + left. apply HUa. left. congruence.
        + left. apply HUa. right. congruence.
        + right. apply HUb. left. congruence.
        + right. apply HUb. right. congruence. }
    rewrite Hck in H. simpl in H. lia.
Qed.

(* cardinalities: a node of tree j has a constraint set of j + 1 variables *)
Fixpoint vine_U (vs : list (list edge)) : Prop :=
  match vs with
  | [] => True
  | T :: r => Uinv (length vs + 1) T /\ vine_U r
  end.

Theorem constraint_iff_proximity_general vs T r s s' a b :
  vine_inv vs -> vine_U vs -> vs = T :: r ->
  nth_error T s = Some a -> nth_error T s' = Some b -> s <> s' ->
  (check_constraint (length vs + 1) a b = true <-> share_node (length vs - 1) a b).
Proof.
  intros Hinv HU E Ha Hb Hss. split.
  { apply (constraint_is_proximity_general vs T r a b Hinv E); eapply nth_error_In; eauto. }
  subst vs. destruct HU as [HUT HUr].
  destruct (HUT a (nth_error_In _ _ Ha)) as [Na La].
  destruct (HUT b (nth_error_In _ _ Hb)) as [Nb Lb].
  pose proof (U_injective_general _ T r s s' a b Hinv eq_refl Ha Hb Hss Na La) as Hdiff.
  destruct r as [|Tp r'].
  - destruct Hinv as [Hplain _]. simpl. intros Hsh.
    destruct (Hplain a (nth_error_In _ _ Ha)) as [Da LRa].
    destruct (Hplain b (nth_error_In _ _ Hb)) as [Db LRb].
    apply constraint_of_proximity_first; auto.
    intros Epair. injection Epair as E1 E2. apply Hdiff. intros v.
    unfold U. rewrite Da, Db, E1, E2. tauto.
  - destruct Hinv as (Hch & Hf & Hinv). intros Hsh.
    change (share_par a b) in Hsh.
    destruct Hsh as (i & j & i' & j' & Hpa & Hpb & Hshare).
    destruct (Hch a (nth_error_In _ _ Ha)) as (i0 & j0 & ai & aj & Hpa0 & Hai & Haj & HUa & _).
    destruct (Hch b (nth_error_In _ _ Hb)) as (i1 & j1 & bi & bj & Hpb0 & Hbi & Hbj & HUb & _).
    rewrite Hpa in Hpa0. injection Hpa0 as <- <-.
    rewrite Hpb in Hpb0. injection Hpb0 as <- <-.
    assert (exists em, In em Tp /\ incl (U em) (U a) /\ incl (U em) (U b))
      as (em & Hem & Ia & Ib).
    { destruct Hshare as [Es|[Es|[Es|Es]]]; subst.
      - exists ai. split; [eapply nth_error_In; eauto|].
        assert (bi = ai) by congruence. subst bi.
        split; intros v Hv; [apply HUa|apply HUb]; auto.
      - exists ai. split; [eapply nth_error_In; eauto|].
        assert (bj = ai) by congruence. subst bj.
        split; intros v Hv; [apply HUa|apply HUb]; auto.
      - exists aj. split; [eapply nth_error_In; eauto|].
        assert (bi = aj) by congruence. subst bi.
        split; intros v Hv; [apply HUa|apply HUb]; auto.
      - exists aj. split; [eapply nth_error_In; eauto|].
        assert (bj = aj) by congruence. subst bj.
        split; intros v Hv; [apply HUa|apply HUb]; auto. }
    destruct HUr as [HUp _]. destruct (HUp em Hem) as [Nm Lm].
    apply (constraint_of_proximity _ a b (U em)); auto.
    rewrite Lm. simpl. lia.
Qed.

Print Assumptions constraint_is_proximity_general.
Print Assumptions constraint_iff_proximity_general.
