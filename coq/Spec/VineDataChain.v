(* C17, part 2: provenance along the whole vine (induction over the trees). *)
From Coq Require Import List Arith ZArith QArith Lia Bool Permutation Sorting.Sorted.
From Cop Require Import Lib.FinGraph Model.Vine Model.VineData
     Spec.VineDefs Spec.VineSets Spec.VineCenter Spec.VineDataProv.
Import ListNotations.
Open Scope nat_scope.

(* ------------------------------------------------------------------ *)
(** * Every tree of level >= 2 consists of sorted children             *)
Definition sstep (_ : nat) (prev T : list edge) : Prop :=
  forall c, In c T -> sorted_child prev c.

Lemma nth_pair_inv prev i p : nth_pair prev i = Some p ->
  fst p = i /\ nth_error prev i = Some (snd p).
Proof.
  unfold nth_pair. destruct (nth_error prev i); [|discriminate].
  intros H. injection H as <-. auto.
Qed.

Lemma pair_child_sorted prev idx i j c :
  match nth_pair prev i, nth_pair prev j with
  | Some a, Some b => child_of_pair idx a b
  | _, _ => None
  end = Some c -> sorted_child prev c.
Proof.
  destruct (nth_pair prev i) as [[i' a]|] eqn:Ei; [|discriminate].
  destruct (nth_pair prev j) as [[j' b]|] eqn:Ej; [|discriminate].
  apply nth_pair_inv in Ei. apply nth_pair_inv in Ej. simpl in *.
  destruct Ei as [-> Ha]. destruct Ej as [-> Hb].
  intros H. destruct (child_of_pair_sorted prev idx _ _ _ _ c Ha Hb H) as [Hs _]. exact Hs.
Qed.

Lemma kth_tree_sorted tie sel ty level n tau prev order T :
  kth_tree_opt tie sel ty level n tau prev order = Some T ->
  forall c, In c T -> sorted_child prev c.
Proof.
  intros H c Hc. destruct ty; simpl in H.
  - unfold center_kth_opt_gen in H.
    apply map_opt_Forall2_inv in H.
    destruct (Forall2_In_r _ _ _ _ H Hc) as [p [_ Hp]].
    eapply pair_child_sorted; eauto.
  - unfold direct_kth_opt in H.
    apply map_opt_Forall2_inv in H.
    destruct (Forall2_In_r _ _ _ _ H Hc) as [p [_ Hp]].
    eapply pair_child_sorted; eauto.
  - unfold regular_kth_opt_gen, regular_kth_fuel in H.
    destruct ((2 <=? n) && (length prev <? n)); [discriminate|].
    destruct (regular_kth_run sel n level n tau prev order) as [[tr vis] o].
    destruct o; try discriminate.
    apply map_opt_Forall2_inv in H.
    destruct (Forall2_In_r _ _ _ _ H Hc) as [[[i x] k] [_ Hp]].
    unfold kth_edge_of in Hp.
    eapply pair_child_sorted; eauto.
Qed.

Lemma train_rest_sorted tie sel ty d taus order cnt : forall k prev ts,
  train_rest tie sel ty d taus order cnt k prev = Some ts ->
  chain sstep k prev ts.
Proof.
  induction cnt as [|c IH]; intros k prev ts H; simpl in H.
  - injection H as <-. exact I.
  - destruct (kth_tree_opt tie sel ty (k + 1) (d - k) (taus k) prev order) as [T|] eqn:ET;
      [|discriminate].
    destruct (train_rest tie sel ty d taus order c (S k) T) as [ts'|] eqn:Er;
      [|discriminate].
    injection H as <-. simpl. split.
    + intros x Hx. eapply kth_tree_sorted; eauto.
    + apply IH; auto.
Qed.

(* ------------------------------------------------------------------ *)
(** * The data plane follows the structure                             *)
Lemma child_data_edge t prev c x : child_data t prev c = Some x -> ed_edge x = c.
Proof.
  unfold child_data. destruct (e_par c) as [[i j]|]; [|discriminate].
  destruct (nth_error prev i); [|discriminate].
  destruct (nth_error prev j); [|discriminate].
  destruct (get_conditional_uni e e0) as [[lu ru]|]; [|discriminate].
  intros H. injection H as <-. reflexivity.
Qed.

Lemma map_opt_child_edges t prev T DT :
  map_opt (child_data t prev) T = Some DT -> map ed_edge DT = T.
Proof.
  revert DT. induction T as [|c T IH]; simpl; intros DT H.
  - injection H as <-. reflexivity.
  - destruct (child_data t prev c) eqn:Ec; [|discriminate].
    destruct (map_opt (child_data t prev) T) eqn:Em; [|discriminate].
    injection H as <-. simpl. f_equal; auto.
    eapply child_data_edge; eauto.
Qed.

Lemma data_rest_edges : forall ts t prev ds,
  data_rest t prev ts = Some ds -> map (map ed_edge) ds = ts.
Proof.
  induction ts as [|T r IH]; simpl; intros t prev ds H.
  - injection H as <-. reflexivity.
  - destruct (map_opt (child_data t prev) T) as [DT|] eqn:Em; [|discriminate].
    destruct (data_rest (S t) DT r) as [ds'|] eqn:Er; [|discriminate].
    injection H as <-. simpl. f_equal.
    + eapply map_opt_child_edges; eauto.
    + eapply IH; eauto.
Qed.

Lemma nth_error_map_inv {A B} (f : A -> B) l i b :
  nth_error (map f l) i = Some b -> exists a, nth_error l i = Some a /\ f a = b.
Proof.
  rewrite nth_error_map. destruct (nth_error l i); simpl; intros H; [|discriminate].
  injection H as <-. eauto.
Qed.

(* ------------------------------------------------------------------ *)
(** * One level                                                        *)
Section Level.
  Variable chk : nat -> nat -> nat -> nat -> list nat -> bool.

  Lemma child_data_good t (Dprev : list edge_data) prev (gprev : list bool) c x :
    map ed_edge Dprev = prev ->
    (forall i y, nth_error Dprev i = Some y -> wf_edge (ed_edge y)) ->
    (forall i y, nth_error Dprev i = Some y -> nth i gprev false = true -> U_ok chk y) ->
    sorted_child prev c -> chk_edge chk t c ->
    child_data t Dprev c = Some x ->
    nth 0 (hgood_tree prev gprev [c]) false = true ->
    inputs_ok chk x /\ U_ok chk x.
  Proof.
    intros Hmap Hwf HU Hs Hchk Hx Hg.
    pose proof (sorted_child_wf _ _ Hs) as Hwfc.
    destruct Hs as (i & j & a & b & Hp & Ha & Hb & Hkey & Hid).
    simpl in Hg. rewrite Hp, Ha, Hb in Hg.
    apply andb_prop in Hg. destruct Hg as [Hg Hgj].
    apply andb_prop in Hg. destruct Hg as [Hg Hgi].
    apply goodb_spec in Hg. destruct Hg as [HL HR].
    rewrite <- Hmap in Ha, Hb.
    apply nth_error_map_inv in Ha. destruct Ha as [xa [Hxa Ea]].
    apply nth_error_map_inv in Hb. destruct Hb as [xb [Hxb Eb]].
    unfold child_data in Hx. rewrite Hp, Hxa, Hxb in Hx.
    destruct (cond_uni_good chk xa xb (e_L c) (e_R c) (e_D c))
      as (lu & ru & Hcu & Hlu & Hru); auto.
    - eapply Hwf; eauto.
    - eapply Hwf; eauto.
    - eapply HU; eauto.
    - eapply HU; eauto.
    - rewrite Ea, Eb. exact Hid.
    - rewrite Ea. exact HL.
    - rewrite Eb. exact HR.
    - rewrite Hcu in Hx. injection Hx as <-. split.
      + split; simpl; auto.
      + apply mkU_ok; auto.
  Qed.

  Lemma hgood_tree_nth prev gprev T i c :
    nth_error T i = Some c ->
    nth i (hgood_tree prev gprev T) false = nth 0 (hgood_tree prev gprev [c]) false.
  Proof.
    revert i. induction T as [|c0 T IH]; intros [|i] H; simpl in H; try discriminate.
    - injection H as ->. reflexivity.
    - simpl. apply IH; auto.
  Qed.

  (* ---------- induction over the trees ---------- *)
  Lemma prov_rest : forall ts t prev Dprev gprev ds,
    map ed_edge Dprev = prev ->
    (forall i y, nth_error Dprev i = Some y -> wf_edge (ed_edge y)) ->
    (forall i y, nth_error Dprev i = Some y -> nth i gprev false = true -> U_ok chk y) ->
    chain sstep t prev ts ->
    (forall k T c, nth_error ts k = Some T -> In c T -> chk_edge chk (t + k) c) ->
    data_rest t Dprev ts = Some ds ->
    forall k DT i x,
      nth_error ds k = Some DT -> nth_error DT i = Some x ->
      nth i (nth k (hgood_rest prev gprev ts) []) false = true ->
      inputs_ok chk x /\ U_ok chk x.
  Proof.
    induction ts as [|T r IH]; intros t prev Dprev gprev ds Hmap Hwf HU Hch Hchk Hd k DT i x Hk Hi Hg.
    - simpl in Hd. injection Hd as <-. destruct k; discriminate.
    - simpl in Hd.
      destruct (map_opt (child_data t Dprev) T) as [DT0|] eqn:Em; [|discriminate].
      destruct (data_rest (S t) DT0 r) as [ds'|] eqn:Er; [|discriminate].
      injection Hd as <-.
      destruct Hch as [Hst Hch].
      pose proof (map_opt_child_edges _ _ _ _ Em) as HE.
      pose proof (map_opt_Forall2_inv _ _ _ Em) as HF.
      assert (Hlevel : forall i0 x0, nth_error DT0 i0 = Some x0 ->
                wf_edge (ed_edge x0) /\
                (nth i0 (hgood_tree prev gprev T) false = true ->
                 inputs_ok chk x0 /\ U_ok chk x0)).
      { intros i0 x0 H0.
        destruct (Forall2_nth_error_r _ _ _ _ _ HF H0) as [c [Hc Hcx]].
        pose proof (child_data_edge _ _ _ _ Hcx) as Hed.
        assert (Hin : In c T) by (eapply nth_error_In; eauto).
        split.
        - rewrite Hed. eapply sorted_child_wf. apply Hst; auto.
        - intros Hg0. rewrite (hgood_tree_nth _ _ _ _ _ Hc) in Hg0.
          eapply (child_data_good t Dprev prev gprev c x0); eauto.
          replace t with (t + 0) by lia. apply (Hchk 0 T c); auto. }
      destruct k as [|k]; simpl in Hk, Hg.
      + injection Hk as <-. apply (Hlevel i x Hi); auto.
      + apply (IH (S t) T DT0 (hgood_tree prev gprev T) ds' HE) with (k := k) (DT := DT) (i := i);
          auto.
        * intros i0 y Hy. apply (Hlevel i0 y Hy).
        * intros i0 y Hy Hgy. apply (Hlevel i0 y Hy); auto.
        * intros k0 T0 c0 HT0 Hc0. replace (S t + k0) with (t + S k0) by lia.
          apply (Hchk (S k0) T0 c0); auto.
  Qed.

  (* totality: the data plane never fails on sorted children *)
  Lemma data_rest_total : forall ts t prev Dprev,
    map ed_edge Dprev = prev -> chain sstep t prev ts ->
    exists ds, data_rest t Dprev ts = Some ds.
  Proof.
    induction ts as [|T r IH]; intros t prev Dprev Hmap Hch; simpl.
    - eauto.
    - destruct Hch as [Hst Hch].
      destruct (map_opt_Forall2 (child_data t Dprev) (fun c x => ed_edge x = c) T)
        as [DT [Hm HF]].
      { intros c Hc. destruct (Hst c Hc) as (i & j & a & b & Hp & Ha & Hb & Hkey & Hid).
        rewrite <- Hmap in Ha, Hb.
        apply nth_error_map_inv in Ha. destruct Ha as [xa [Hxa Ea]].
        apply nth_error_map_inv in Hb. destruct Hb as [xb [Hxb Eb]].
        unfold child_data. rewrite Hp, Hxa, Hxb.
        unfold get_conditional_uni. rewrite Ea, Eb, Hid.
        eexists. split; [reflexivity|]. reflexivity. }
      rewrite Hm.
      destruct (IH (S t) T DT) as [ds Hds]; auto.
      { eapply map_opt_child_edges; eauto. }
      rewrite Hds. eauto.
  Qed.
End Level.

(* ------------------------------------------------------------------ *)
(** * Level 1                                                          *)
Definition first_ok (T1 : list edge) : Prop :=
  forall e, In e T1 -> e_L e < e_R e /\ e_D e = [].

Lemma first_wf e : e_L e < e_R e -> e_D e = [] -> wf_edge e.
Proof.
  intros H1 H2. unfold wf_edge. rewrite H2. repeat split; auto. constructor.
Qed.

(* level 1 of prepare_next_tree always uses (u[:, L], u[:, R]) *)
Lemma mk_first_U_ok chk e io :
  e_L e < e_R e -> e_D e = [] -> chk_edge chk 0 e -> U_ok chk (mk_first e io).
Proof.
  intros H1 H2 [C1 C2]. unfold U_ok, mk_first, mkU. cbn [ed_U ed_edge fst snd].
  rewrite H2 in *. split.
  - apply prov_CH; try reflexivity; simpl; auto; lia.
  - apply prov_CH; try reflexivity; simpl; auto; lia.
Qed.

Lemma nth_error_combine_inv {A B} (l1 : list A) (l2 : list B) i p :
  nth_error (combine l1 l2) i = Some p ->
  nth_error l1 i = Some (fst p) /\ nth_error l2 i = Some (snd p).
Proof.
  revert l2 i. induction l1 as [|a l1 IH]; intros [|b l2] [|i] H; simpl in *;
    try discriminate.
  - injection H as <-. auto.
  - apply IH; auto.
Qed.

Lemma first_data_nth tie sel ty n tau order i x :
  nth_error (first_data tie sel ty n tau order) i = Some x ->
  exists e io, nth_error (first_tree tie sel ty n tau order) i = Some e /\
               nth_error (first_inputs tie sel ty n tau order) i = Some io /\
               x = mk_first e io.
Proof.
  unfold first_data. intros H. apply nth_error_map_inv in H.
  destruct H as [[e io] [H <-]]. apply nth_error_combine_inv in H. simpl in *.
  exists e, io. tauto.
Qed.

(* ------------------------------------------------------------------ *)
(** * The inputs of level 1: the right pair, possibly in reverse order *)
Lemma combine_seq_snd_nth {B} (l : list B) m i p :
  nth_error (combine (seq 0 m) l) i = Some p -> nth_error l i = Some (snd p).
Proof. intros H. apply nth_error_combine_inv in H. tauto. Qed.

Lemma first_inputs_pair tie sel ty n tau order i e io :
  nth_error (first_tree tie sel ty n tau order) i = Some e ->
  nth_error (first_inputs tie sel ty n tau order) i = Some io ->
  e_L e = Nat.min (fst io) (snd io) /\ e_R e = Nat.max (fst io) (snd io).
Proof.
  destruct ty; simpl; intros He Hio.
  - unfold center_first_gen in He.
    apply nth_error_map_inv in He. destruct He as [p [Hp <-]].
    apply nth_error_map_inv in Hio. destruct Hio as [p' [Hp' <-]].
    rewrite Hp in Hp'. injection Hp' as <-. simpl. lia.
  - unfold direct_first_gen in He.
    apply nth_error_map_inv in He. destruct He as [p [Hp <-]].
    apply nth_error_combine_inv in Hp. destruct Hp as [Hp1 Hp2]. simpl.
    assert (Hio' : nth_error (combine (direct_T1_gen tie n tau) (tl (direct_T1_gen tie n tau))) i
                   = Some io).
    { assert (Hi : i < n - 1).
      { assert (i < length (firstn (n - 1) (combine (direct_T1_gen tie n tau)
                                                     (tl (direct_T1_gen tie n tau))))).
        { apply nth_error_Some. congruence. }
        rewrite firstn_length in H. lia. }
      rewrite <- Hio. symmetry.
      clear - Hi. revert i Hi. generalize (n - 1).
      generalize (combine (direct_T1_gen tie n tau) (tl (direct_T1_gen tie n tau))).
      induction l as [|a l IH]; intros m [|i] Hi; destruct m; simpl; try lia; auto.
      apply IH. lia. }
    rewrite Hp2 in Hio'. injection Hio' as <-. auto.
  - unfold regular_first_gen in He.
    apply nth_error_map_inv in He. destruct He as [[[k x] y] [Hp <-]].
    apply nth_error_map_inv in Hio. destruct Hio as [p' [Hp' <-]].
    rewrite Hp in Hp'. injection Hp' as <-. simpl. auto.
Qed.
