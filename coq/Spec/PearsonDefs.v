(* C02: definitions for the sample Pearson correlation matrix over [list R].
   Imports only Reals and List.

   Python (copulas/multivariate/gaussian.py, _get_correlation):
       correlation = pd.DataFrame(data=result).corr().to_numpy()
       correlation = np.nan_to_num(correlation, nan=0.0)
       if np.linalg.cond(correlation) > 1.0 / sys.float_info.epsilon:
           correlation = correlation + np.identity(correlation.shape[0]) * EPSILON

   pandas' corr() divides both covariance and variances by (n-1); the factor
   cancels in the quotient, so the sums below are the un-normalised ones.  *)
From Coq Require Import Reals List.
Import ListNotations.
Open Scope R_scope.

Fixpoint Rsum (l : list R) : R :=
  match l with [] => 0 | x :: r => x + Rsum r end.

Fixpoint map2 {A B C : Type} (f : A -> B -> C) (x : list A) (y : list B) : list C :=
  match x, y with
  | a :: x', b :: y' => f a b :: map2 f x' y'
  | _, _ => []
  end.

Definition mean (l : list R) : R := Rsum l / INR (length l).

Definition cov (x y : list R) : R :=
  Rsum (map2 (fun a b => (a - mean x) * (b - mean y)) x y).

Definition var (x : list R) : R := cov x x.

(* pandas: NaN exactly when one of the variances is 0 (0/0). *)
Definition pearson (x y : list R) : R := cov x y / (sqrt (var x) * sqrt (var y)).

Definition constant (x : list R) : Prop := var x = 0.

(* entry after np.nan_to_num(nan=0.0) *)
Definition corr_entry (x y : list R) : R :=
  if Req_EM_T (var x) 0 then 0
  else if Req_EM_T (var y) 0 then 0
  else pearson x y.

(* ---- matrices as lists of rows ------------------------------------- *)

Definition dotl (u v : list R) : R := Rsum (map2 Rmult u v).

(* DataFrame.corr() followed by nan_to_num: entry (i,j) = corr_entry col_i col_j *)
Definition corr_matrix (cols : list (list R)) : list (list R) :=
  map (fun ci => map (fun cj => corr_entry ci cj) cols) cols.

(* a^T M a = sum_i a_i * (sum_j a_j * M_ij) *)
Definition quad_form (a : list R) (M : list (list R)) : R :=
  Rsum (map2 (fun ai row => ai * dotl a row) a M).

(* np.identity n, block-recursively: I_{n+1} = [[1, 0], [0, I_n]] *)
Fixpoint identity (n : nat) : list (list R) :=
  match n with
  | O => []
  | S n' => (1 :: repeat 0 n') :: map (cons 0) (identity n')
  end.

Definition madd (M N : list (list R)) : list (list R) := map2 (map2 Rplus) M N.
Definition mscale (c : R) (M : list (list R)) : list (list R) := map (map (Rmult c)) M.

(* correlation + np.identity(correlation.shape[0]) * EPSILON *)
Definition ridge (eps : R) (M : list (list R)) : list (list R) :=
  madd M (mscale eps (identity (length M))).

(* the whole of _get_correlation after the normal-score transform; [ill] is the
   oracle for  np.linalg.cond(correlation) > 1/sys.float_info.epsilon *)
Definition get_correlation (ill : list (list R) -> bool) (eps : R)
           (cols : list (list R)) : list (list R) :=
  let c := corr_matrix cols in
  if ill c then ridge eps c else c.

Definition entry (M : list (list R)) (i j : nat) : R := nth j (nth i M []) 0.

(* standardised column: zero vector for a constant column *)
Definition standardise (c : list R) : list R :=
  if Req_EM_T (var c) 0 then repeat 0 (length c)
  else map (fun v => (v - mean c) / sqrt (var c)) c.

Definition vadd (u v : list R) : list R := map2 Rplus u v.
Definition vscale (c : R) (u : list R) : list R := map (Rmult c) u.

(* sum_i a_i * v_i  for vectors of length n *)
Fixpoint lincomb (n : nat) (a : list R) (vs : list (list R)) : list R :=
  match a, vs with
  | ai :: a', v :: vs' => vadd (vscale ai v) (lincomb n a' vs')
  | _, _ => repeat 0 n
  end.
