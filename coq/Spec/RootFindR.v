(* ------------------------------------------------------------------------- *)
(*  Spec/RootFindR.v                                                          *)
(*  The real-number instance RA of the arithmetic record and the theorems     *)
(*  about `bisect` / `chandrupatla` of Model/RootFind.v run over R.           *)
(* ------------------------------------------------------------------------- *)
From Coq Require Import Reals Lra Lia List Bool Arith.
From Coq Require Import Ranalysis5.
From Cop Require Import Model.RootFind.
Import ListNotations.
Local Open Scope R_scope.

(* ------------------------------------------------------------------------- *)
(* 0. The R instance                                                          *)
(* ------------------------------------------------------------------------- *)
Definition Rleb (x y : R) : bool := if Rle_dec x y then true else false.
Definition Rltb (x y : R) : bool := if Rlt_dec x y then true else false.
Definition Reqb (x y : R) : bool := if Req_EM_T x y then true else false.
Definition Rsign (x : R) : R :=
  if Rlt_dec 0 x then 1 else if Rlt_dec x 0 then -1 else 0.

Definition RA : arith R := {|
  add := Rplus; sub := Rminus; mul := Rmult; div := Rdiv; abs := Rabs;
  zero := 0; one := 1; two := 2; half := / 2; eps := / 2 ^ 52;
  leb := Rleb; ltb := Rltb; eqb := Reqb;
  sign := Rsign; minimum := Rmin; maximum := Rmax |}.

Lemma Rleb_true x y : Rleb x y = true <-> x <= y.
Proof. unfold Rleb; destruct (Rle_dec x y); split; auto; discriminate. Qed.
Lemma Rleb_false x y : Rleb x y = false <-> y < x.
Proof. unfold Rleb; destruct (Rle_dec x y); split; auto; try discriminate; lra. Qed.
Lemma Rltb_true x y : Rltb x y = true <-> x < y.
Proof. unfold Rltb; destruct (Rlt_dec x y); split; auto; discriminate. Qed.
Lemma Rltb_false x y : Rltb x y = false <-> y <= x.
Proof. unfold Rltb; destruct (Rlt_dec x y); split; auto; try discriminate; lra. Qed.
Lemma Reqb_true x y : Reqb x y = true <-> x = y.
Proof. unfold Reqb; destruct (Req_EM_T x y); split; auto; discriminate. Qed.
Lemma Reqb_false x y : Reqb x y = false <-> x <> y.
Proof. unfold Reqb; destruct (Req_EM_T x y); split; auto; try discriminate; tauto. Qed.

Lemma Rsign_cases x :
  (0 < x /\ Rsign x = 1) \/ (x < 0 /\ Rsign x = -1) \/ (x = 0 /\ Rsign x = 0).
Proof.
  unfold Rsign; destruct (Rlt_dec 0 x); [left; auto|].
  destruct (Rlt_dec x 0); [right; left; auto|right; right; split; lra].
Qed.

Lemma Rsign_prod_le0 x y : Rsign x * Rsign y <= 0 <-> x * y <= 0.
Proof.
  destruct (Rsign_cases x) as [[Hx ->]|[[Hx ->]|[Hx ->]]];
  destruct (Rsign_cases y) as [[Hy ->]|[[Hy ->]|[Hy ->]]]; split; intros; nra.
Qed.

(* ------------------------------------------------------------------------- *)
(* 1. bisect : one lane, one step                                             *)
(* ------------------------------------------------------------------------- *)
(* the per-lane invariant: f lo <= 0 <= f hi, lo <= hi *)
Definition bok (l : blane R) : Prop :=
  bf l (blo l) <= 0 /\ 0 <= bf l (bhi l) /\ blo l <= bhi l.

Lemma bguess_R l : bguess RA l = (blo l + bhi l) / 2.
Proof. reflexivity. Qed.

Lemma bstep_f l : bf (bstep RA l) = bf l.
Proof. reflexivity. Qed.

(* What one loop body does to a lane (any lane, no hypothesis). *)
Lemma bstep_cases l :
  let g := (blo l + bhi l) / 2 in
  (bf l g < 0 /\ blo (bstep RA l) = g /\ bhi (bstep RA l) = bhi l) \/
  (0 < bf l g /\ blo (bstep RA l) = blo l /\ bhi (bstep RA l) = g) \/
  (bf l g = 0 /\ blo (bstep RA l) = g /\ bhi (bstep RA l) = g).
Proof.
  intros g. unfold bstep. rewrite bguess_R. fold g. cbn.
  unfold Rleb.
  destruct (Rle_dec (bf l g) 0) as [H1|H1]; destruct (Rle_dec 0 (bf l g)) as [H2|H2].
  - right; right. repeat split; lra.
  - left. repeat split; lra.
  - right; left. repeat split; lra.
  - exfalso; lra.
Qed.

(* (b) one step: sign conditions kept, bracket nested, width exactly halved
   (or collapsed to the point `guess` when f guess = 0). *)
Lemma bstep_ok l : bok l ->
  bok (bstep RA l) /\
  blo l <= blo (bstep RA l) /\ bhi (bstep RA l) <= bhi l /\
  ((bf l (bguess RA l) <> 0 /\
    bhi (bstep RA l) - blo (bstep RA l) = (bhi l - blo l) / 2) \/
   (bf l (bguess RA l) = 0 /\
    blo (bstep RA l) = bguess RA l /\ bhi (bstep RA l) = bguess RA l)).
Proof.
  intros (Hlo & Hhi & Hle). unfold bok. rewrite bstep_f, bguess_R.
  destruct (bstep_cases l) as [(Hg & -> & ->)|[(Hg & -> & ->)|(Hg & -> & ->)]];
    (split; [repeat split; lra|]); (split; [lra|]); (split; [lra|]).
  - left; split; lra.
  - left; split; lra.
  - right; split; auto.
Qed.

Lemma bstep_width l : bok l ->
  0 <= bhi (bstep RA l) - blo (bstep RA l) <= (bhi l - blo l) / 2.
Proof.
  intros H. destruct (bstep_ok _ H) as ((_ & _ & Hle) & _ & _ & [[_ E]|(_ & E1 & E2)]).
  - lra.
  - destruct H as (_ & _ & H). rewrite E1, E2. lra.
Qed.

(* ------------------------------------------------------------------------- *)
(* 2. bisect : k steps of one lane                                            *)
(* ------------------------------------------------------------------------- *)
Lemma blane_iter_S k l : blane_iter RA (S k) l = bstep RA (blane_iter RA k l).
Proof.
  revert l; induction k; intros l; [reflexivity|].
  change (blane_iter RA (S (S k)) l) with (blane_iter RA (S k) (bstep RA l)).
  rewrite IHk. reflexivity.
Qed.

Lemma blane_iter_f k l : bf (blane_iter RA k l) = bf l.
Proof. induction k; [reflexivity|]. rewrite blane_iter_S, bstep_f; auto. Qed.

(* (b) the invariant after any number of iterations *)
Theorem bisect_invariant : forall k l, bok l ->
  let l' := blane_iter RA k l in
  bf l' = bf l /\
  bf l (blo l') <= 0 <= bf l (bhi l') /\
  blo l <= blo l' /\ blo l' <= bhi l' /\ bhi l' <= bhi l /\
  bhi l' - blo l' <= (bhi l - blo l) / 2 ^ k.
Proof.
  induction k; intros l H.
  - cbn. destruct H as (? & ? & ?). repeat split; try lra.
  - cbv zeta. rewrite blane_iter_S.
    destruct (IHk l H) as (Hf & (Hlo & Hhi) & H1 & H2 & H3 & H4).
    set (m := blane_iter RA k l) in *.
    assert (Hm : bok m) by (unfold bok; rewrite Hf; lra).
    destruct (bstep_ok _ Hm) as ((Ha & Hb & Hc) & Hd & He & _).
    pose proof (bstep_width _ Hm) as Hw.
    rewrite bstep_f in *. rewrite Hf in *.
    repeat split; try lra.
    assert (0 < 2 ^ k) by (apply pow_lt; lra).
    replace ((bhi l - blo l) / 2 ^ S k) with ((bhi l - blo l) / 2 ^ k / 2)
      by (simpl; field; lra).
    lra.
Qed.

(* (b) exact halving, step by step *)
Theorem bisect_step_halves : forall k l, bok l ->
  let m := blane_iter RA k l in
  let m' := blane_iter RA (S k) l in
  (bf l (bguess RA m) <> 0 /\ bhi m' - blo m' = (bhi m - blo m) / 2) \/
  (bf l (bguess RA m) = 0 /\ blo m' = bguess RA m /\ bhi m' = bguess RA m).
Proof.
  intros k l H m m'. unfold m'. rewrite blane_iter_S. fold m.
  destruct (bisect_invariant k _ H) as (Hf & (Hlo & Hhi) & H1 & H2 & H3 & H4).
  fold m in Hf, Hlo, Hhi, H2.
  assert (Hm : bok m) by (unfold bok; rewrite Hf; lra).
  destruct (bstep_ok _ Hm) as (_ & _ & _ & Hcases). rewrite Hf in Hcases. exact Hcases.
Qed.

(* ------------------------------------------------------------------------- *)
(* 3. bisect : the batch loop                                                 *)
(* ------------------------------------------------------------------------- *)
Lemma bisect_iter_map k ls : bisect_iter RA k ls = map (blane_iter RA k) ls.
Proof.
  revert ls; induction k; intros ls.
  - simpl. symmetry. apply map_id.
  - change (bisect_iter RA (S k) ls) with (bisect_iter RA k (map (bstep RA) ls)).
    rewrite IHk, map_map. reflexivity.
Qed.

(* (b) batch form: lane i after k loop bodies is lane i iterated k times, so
   bisect_invariant / bisect_step_halves apply to every lane of the batch *)
Lemma bisect_iter_nth k ls i l : nth_error ls i = Some l ->
  nth_error (bisect_iter RA k ls) i = Some (blane_iter RA k l).
Proof. intros H. rewrite bisect_iter_map. apply map_nth_error; auto. Qed.

(* (d) a one-lane batch is the scalar run *)
Lemma bisect_iter_single k l : bisect_iter RA k [l] = [blane_iter RA k l].
Proof. rewrite bisect_iter_map. reflexivity. Qed.

Lemma fold_left_Rmax_lt ws : forall w tol,
  fold_left Rmax ws w < tol <-> w < tol /\ Forall (fun x => x < tol) ws.
Proof.
  induction ws as [|a ws IH]; intros w tol; simpl.
  - split; [intros; split; auto|tauto].
  - rewrite IH. split.
    + intros [H1 H2]. pose proof (Rmax_l w a). pose proof (Rmax_r w a).
      split; [lra|constructor; [lra|auto]].
    + intros [H1 H2]. inversion H2; subst. split; auto.
      unfold Rmax. destruct (Rle_dec w a); lra.
Qed.

Lemma maxl_lt ws tol : ws <> [] ->
  (maxl RA ws < tol <-> Forall (fun x => x < tol) ws).
Proof.
  destruct ws as [|w r]; [congruence|]. intros _.
  change (maxl RA (w :: r)) with (fold_left Rmax r w).
  rewrite fold_left_Rmax_lt. split.
  - intros [? ?]; constructor; auto.
  - intros H; inversion H; auto.
Qed.

Definition all_narrow (tol : R) (ls : list (blane R)) : Prop :=
  Forall (fun l => bhi l - blo l < tol) ls.

(* the stop test `(xmax - xmin).max() < tol` means: EVERY lane is narrower than tol *)
Lemma bstop_true tol ls : ls <> [] ->
  (bstop RA tol ls = true <-> all_narrow tol ls).
Proof.
  intros Hne. unfold bstop. change (ltb RA) with Rltb. rewrite Rltb_true.
  rewrite maxl_lt by (destruct ls; simpl; congruence).
  unfold all_narrow. rewrite Forall_map. reflexivity.
Qed.

Lemma bisect_iter_nonempty k ls : ls <> [] -> bisect_iter RA k ls <> [].
Proof. rewrite bisect_iter_map. destruct ls; simpl; congruence. Qed.

(* The loop performs k bodies where k is the first index in 1..fuel at which the
   stop test holds, or fuel if there is none. *)
Lemma bisect_loop_spec : forall fuel tol ls k0,
  exists k,
    bisect_loop RA fuel tol ls k0 = (bisect_iter RA k ls, (k0 + k)%nat) /\
    (k <= fuel)%nat /\ (fuel <> O -> k <> O) /\
    (k = fuel \/ bstop RA tol (bisect_iter RA k ls) = true) /\
    (forall j, (1 <= j < k)%nat -> bstop RA tol (bisect_iter RA j ls) = false).
Proof.
  induction fuel as [|n IH]; intros tol ls k0.
  - exists O. simpl. rewrite Nat.add_0_r. repeat split; auto; try lia.
  - cbn [bisect_loop].
    destruct (bstop RA tol (map (bstep RA) ls)) eqn:Hs.
    + exists 1%nat. replace (k0 + 1)%nat with (S k0) by lia.
      split; [reflexivity|]. split; [lia|]. split; [lia|].
      split; [right; exact Hs|intros; lia].
    + destruct (IH tol (map (bstep RA) ls) (S k0)) as (k & E & Hk & Hnz & Hstop & Hbefore).
      exists (S k). rewrite E. replace (S k0 + k)%nat with (k0 + S k)%nat by lia.
      repeat split; auto; try lia.
      * destruct Hstop as [->|Hstop]; [left; auto|right; exact Hstop].
      * intros j Hj. destruct j as [|j]; [lia|]. destruct j as [|j].
        -- exact Hs.
        -- change (bisect_iter RA (S (S j)) ls)
             with (bisect_iter RA (S j) (map (bstep RA) ls)).
           apply Hbefore. lia.
Qed.

Lemma bprecond_true ls :
  bprecond RA ls = true <->
  Forall (fun l => bf l (blo l) <= 0 /\ 0 <= bf l (bhi l)) ls.
Proof.
  unfold bprecond. rewrite andb_true_iff, !forallb_forall, Forall_forall.
  change (leb RA) with Rleb. change (zero RA) with 0.
  split.
  - intros [H1 H2] l Hl. split; apply Rleb_true; auto.
  - intros H. split; intros l Hl; apply Rleb_true; apply (H l Hl).
Qed.

(* (a) rejection / acceptance, lane level *)
Theorem bisect_lanes_rejects maxiter tol ls :
  (exists l, In l ls /\ (bf l (blo l) > 0 \/ bf l (bhi l) < 0)) ->
  bisect_lanes RA maxiter tol ls = None.
Proof.
  intros (l & Hin & Hbad). unfold bisect_lanes.
  destruct (bprecond RA ls) eqn:E; [|reflexivity].
  apply bprecond_true in E. rewrite Forall_forall in E. specialize (E l Hin). lra.
Qed.

Theorem bisect_lanes_accepts maxiter tol ls : ls <> [] ->
  Forall (fun l => bf l (blo l) <= 0 /\ 0 <= bf l (bhi l)) ls ->
  exists r, bisect_lanes RA maxiter tol ls = Some r.
Proof.
  intros Hne H. apply bprecond_true in H. unfold bisect_lanes. rewrite H.
  destruct ls; [congruence|]. eexists; reflexivity.
Qed.

(* Complete description of a successful run. *)
Theorem bisect_lanes_spec maxiter tol ls ls' k :
  bisect_lanes RA maxiter tol ls = Some (ls', k) ->
  Forall (fun l => bf l (blo l) <= 0 /\ 0 <= bf l (bhi l)) ls /\
  ls' = map (blane_iter RA k) ls /\
  (k <= maxiter)%nat /\ (maxiter <> O -> k <> O) /\
  (k = maxiter \/ all_narrow tol ls') /\
  (forall j, (1 <= j < k)%nat -> ~ all_narrow tol (map (blane_iter RA j) ls)).
Proof.
  unfold bisect_lanes. destruct (bprecond RA ls) eqn:Hp; [|discriminate].
  apply bprecond_true in Hp. intros H.
  assert (Hne : maxiter <> O -> ls <> []).
  { intros Hm ->. destruct maxiter; [congruence|discriminate]. }
  assert (E : bisect_loop RA maxiter tol ls 0 = (ls', k)).
  { destruct ls; [destruct maxiter; [|discriminate]|]; inversion H; reflexivity. }
  clear H.
  destruct (bisect_loop_spec maxiter tol ls 0) as (k1 & E1 & Hk & Hnz & Hstop & Hbefore).
  rewrite E in E1. simpl in E1. inversion E1; subst k1 ls'. clear E1.
  rewrite <- !bisect_iter_map.
  repeat split; auto.
  - destruct Hstop as [->|Hstop]; [left; auto|].
    destruct maxiter as [|m]; [left; lia|]. right.
    apply bstop_true; auto. apply bisect_iter_nonempty. apply Hne. discriminate.
  - intros j Hj Hn. rewrite <- bisect_iter_map in Hn.
    assert (Hm : maxiter <> O) by lia.
    apply bstop_true in Hn; [|apply bisect_iter_nonempty; auto].
    rewrite (Hbefore j Hj) in Hn. discriminate.
Qed.
Arguments bisect_lanes_spec {maxiter tol ls ls' k} _.

(* ------------------------------------------------------------------------- *)
(* 4. bisect : result in bracket, near a root (c); lane independence (d)      *)
(* ------------------------------------------------------------------------- *)
Lemma ivt_weak (f : R -> R) a b :
  a <= b -> (forall x, a <= x <= b -> continuity_pt f x) ->
  f a <= 0 -> 0 <= f b -> exists z, a <= z <= b /\ f z = 0.
Proof.
  intros Hab Hc Ha Hb.
  destruct (Req_dec (f a) 0) as [E|Na]; [exists a; split; [lra|auto]|].
  destruct (Req_dec (f b) 0) as [E|Nb]; [exists b; split; [lra|auto]|].
  assert (a < b).
  { destruct (Req_dec a b) as [E|]; [|lra]. subst b. lra. }
  destruct (IVT_interv f a b Hc) as (z & Hz & Ez); try lra.
  exists z; auto.
Qed.

Definition bcont (l : blane R) : Prop :=
  forall x, blo l <= x <= bhi l -> continuity_pt (bf l) x.

Lemma bisect_lanes_lane maxiter tol ls ls' k i l :
  bisect_lanes RA maxiter tol ls = Some (ls', k) ->
  nth_error ls i = Some l ->
  nth_error ls' i = Some (blane_iter RA k l) /\
  bf l (blo l) <= 0 /\ 0 <= bf l (bhi l).
Proof.
  intros H Hi. destruct (bisect_lanes_spec H) as (Hp & -> & _).
  split; [apply map_nth_error; auto|].
  rewrite Forall_forall in Hp. apply (Hp l). eapply nth_error_In; eauto.
Qed.
Arguments bisect_lanes_lane {maxiter tol ls ls' k i l} _ _.

(* (c) the returned value lies in the initial bracket *)
Theorem bisect_result_in_bracket maxiter tol ls ls' k i l :
  bisect_lanes RA maxiter tol ls = Some (ls', k) ->
  nth_error ls i = Some l -> blo l <= bhi l ->
  exists l', nth_error ls' i = Some l' /\
    blo l <= blo l' /\ blo l' <= bresult RA l' /\ bresult RA l' <= bhi l' /\
    bhi l' <= bhi l.
Proof.
  intros H Hi Hle. destruct (bisect_lanes_lane H Hi) as (E & Hlo & Hhi).
  exists (blane_iter RA k l). split; auto.
  assert (Hok : bok l) by (unfold bok; lra).
  destruct (bisect_invariant k _ Hok) as (_ & _ & H1 & H2 & H3 & _).
  unfold bresult. rewrite bguess_R. lra.
Qed.

(* (c) near a root: IVT inside the final bracket *)
Theorem bisect_result_near_root maxiter tol ls ls' k i l :
  bisect_lanes RA maxiter tol ls = Some (ls', k) ->
  nth_error ls i = Some l -> blo l <= bhi l -> bcont l ->
  exists l' z, nth_error ls' i = Some l' /\
    blo l <= blo l' /\ bhi l' <= bhi l /\
    blo l' <= z <= bhi l' /\ bf l z = 0 /\
    Rabs (bresult RA l' - z) <= (bhi l' - blo l') / 2 /\
    bhi l' - blo l' <= (bhi l - blo l) / 2 ^ k /\
    (k <= maxiter)%nat /\ (k = maxiter \/ all_narrow tol ls').
Proof.
  intros H Hi Hle Hc. destruct (bisect_lanes_lane H Hi) as (E & Hlo & Hhi).
  destruct (bisect_lanes_spec H) as (_ & _ & Hk & _ & Hstop & _).
  assert (Hok : bok l) by (unfold bok; lra).
  destruct (bisect_invariant k _ Hok) as (Hf & (Ha & Hb) & H1 & H2 & H3 & H4).
  set (l' := blane_iter RA k l) in *.
  destruct (ivt_weak (bf l) (blo l') (bhi l')) as (z & Hz & Ez); auto.
  { intros x Hx. apply Hc. lra. }
  exists l', z. repeat split; auto; try lra.
  unfold bresult. rewrite bguess_R. apply Rabs_le. lra.
Qed.
Arguments bisect_result_near_root {maxiter tol ls ls' k i l} _ _ _ _.

(* (c) the bound in closed form:  max(tol, w0 / 2^maxiter) / 2 *)
Corollary bisect_result_error_bound maxiter tol ls ls' k i l :
  bisect_lanes RA maxiter tol ls = Some (ls', k) ->
  nth_error ls i = Some l -> blo l <= bhi l -> bcont l ->
  exists l' z, nth_error ls' i = Some l' /\
    blo l <= z <= bhi l /\ bf l z = 0 /\
    Rabs (bresult RA l' - z) <= Rmax tol ((bhi l - blo l) / 2 ^ maxiter) / 2.
Proof.
  intros H Hi Hle Hc.
  destruct (bisect_result_near_root H Hi Hle Hc)
    as (l' & z & E & H1 & H2 & Hz & Ez & Hr & Hw & Hk & Hstop).
  exists l', z. repeat split; auto; try lra.
  eapply Rle_trans; [exact Hr|].
  apply Rmult_le_compat_r; [lra|].
  destruct Hstop as [->|Hn].
  - eapply Rle_trans; [exact Hw|apply Rmax_r].
  - unfold all_narrow in Hn. rewrite Forall_forall in Hn.
    apply nth_error_In in E. specialize (Hn _ E).
    eapply Rle_trans; [|apply Rmax_l]. lra.
Qed.

(* (c) if moreover f is strictly increasing on the bracket, EVERY root of the
   bracket is that close (the root is unique). *)
Corollary bisect_result_near_any_root maxiter tol ls ls' k i l z0 :
  bisect_lanes RA maxiter tol ls = Some (ls', k) ->
  nth_error ls i = Some l -> blo l <= bhi l ->
  (forall x y, blo l <= x -> x < y -> y <= bhi l -> bf l x < bf l y) ->
  blo l <= z0 <= bhi l -> bf l z0 = 0 ->
  exists l', nth_error ls' i = Some l' /\
    blo l' <= z0 <= bhi l' /\
    Rabs (bresult RA l' - z0) <= (bhi l' - blo l') / 2 /\
    bhi l' - blo l' <= (bhi l - blo l) / 2 ^ k.
Proof.
  intros H Hi Hle Hmono Hz0 Ez0.
  destruct (bisect_lanes_lane H Hi) as (E & Hlo & Hhi).
  assert (Hok : bok l) by (unfold bok; lra).
  destruct (bisect_invariant k _ Hok) as (Hf & (Ha & Hb) & H1 & H2 & H3 & H4).
  set (l' := blane_iter RA k l) in *.
  assert (blo l' <= z0).
  { destruct (Rle_dec (blo l') z0); auto. exfalso.
    assert (bf l z0 < bf l (blo l')) by (apply Hmono; lra). lra. }
  assert (z0 <= bhi l').
  { destruct (Rle_dec z0 (bhi l')); auto. exfalso.
    assert (bf l (bhi l') < bf l z0) by (apply Hmono; lra). lra. }
  exists l'. repeat split; auto.
  unfold bresult. rewrite bguess_R. apply Rabs_le. lra.
Qed.

(* (d) lane independence: lane i of the batch is the one-lane run of lane i for
   the batch's iteration count k, and the lane alone stops after k1 <= k bodies;
   the extra k - k1 bodies preserve the invariant (bisect_invariant holds for
   every k). *)
Theorem bisect_lane_independent maxiter tol ls ls' k i l :
  bisect_lanes RA maxiter tol ls = Some (ls', k) ->
  nth_error ls i = Some l ->
  nth_error ls' i = Some (blane_iter RA k l) /\
  bisect_iter RA k [l] = [blane_iter RA k l] /\
  exists k1, bisect_lanes RA maxiter tol [l] = Some ([blane_iter RA k1 l], k1) /\
             (k1 <= k)%nat.
Proof.
  intros H Hi. destruct (bisect_lanes_lane H Hi) as (E & Hlo & Hhi).
  split; auto. split; [apply bisect_iter_single|].
  destruct (bisect_lanes_accepts maxiter tol [l]) as ([ls1 k1] & H1);
    [discriminate|constructor; auto|].
  exists k1.
  destruct (bisect_lanes_spec H1) as (_ & -> & Hk1 & Hnz1 & _ & Hbefore1).
  split; [exact H1|].
  destruct (bisect_lanes_spec H) as (_ & E' & Hk & Hnz & Hstop & _).
  destruct (le_lt_dec k1 k) as [|Hlt]; auto. exfalso.
  destruct Hstop as [->|Hn]; [lia|].
  assert (Hkpos : k <> O) by (apply Hnz; lia).
  apply (Hbefore1 k); [lia|].
  unfold all_narrow in *. rewrite Forall_forall in Hn.
  constructor; [|constructor]. apply Hn. eapply nth_error_In; eauto.
Qed.

(* ------------------------------------------------------------------------- *)
(* 5. bisect : statements on the list interface (fs, xmin, xmax)              *)
(* ------------------------------------------------------------------------- *)
Section Zip.
Variable T : Type.

Lemma bzip_maps : forall (fs : list (T -> T)) xmin xmax ls,
  bzip fs xmin xmax = Some ls ->
  map (@bf T) ls = fs /\ map (@blo T) ls = xmin /\ map (@bhi T) ls = xmax.
Proof.
  induction fs as [|f fs IH]; intros [|lo xmin] [|hi xmax] ls H; simpl in H;
    try discriminate.
  - inversion H; subst; auto.
  - destruct (bzip fs xmin xmax) as [r|] eqn:E; [|discriminate].
    inversion H; subst. destruct (IH _ _ _ E) as (<- & <- & <-). auto.
Qed.

Lemma bzip_Some : forall (fs : list (T -> T)) xmin xmax,
  length xmin = length fs -> length xmax = length fs ->
  exists ls, bzip fs xmin xmax = Some ls.
Proof.
  induction fs as [|f fs IH]; intros [|lo xmin] [|hi xmax] H1 H2;
    simpl in *; try discriminate.
  - eexists; reflexivity.
  - destruct (IH xmin xmax) as (r & ->); [lia|lia|]. eexists; reflexivity.
Qed.

Lemma bzip_None : forall (fs : list (T -> T)) xmin xmax,
  length xmin <> length fs \/ length xmax <> length fs ->
  bzip fs xmin xmax = None.
Proof.
  intros fs xmin xmax H. destruct (bzip fs xmin xmax) as [ls|] eqn:E; auto.
  exfalso. destruct (bzip_maps _ _ _ _ E) as (<- & <- & <-).
  rewrite !map_length in H. tauto.
Qed.

Lemma bzip_nth : forall (fs : list (T -> T)) xmin xmax ls i f lo hi,
  bzip fs xmin xmax = Some ls ->
  nth_error fs i = Some f -> nth_error xmin i = Some lo -> nth_error xmax i = Some hi ->
  nth_error ls i = Some (mk_blane f lo hi).
Proof.
  intros fs xmin xmax ls i f lo hi H. destruct (bzip_maps _ _ _ _ H) as (<- & <- & <-).
  rewrite !nth_error_map. destruct (nth_error ls i) as [[f' lo' hi']|]; simpl;
    [|discriminate].
  intros; congruence.
Qed.
End Zip.
Arguments bzip_maps {T fs xmin xmax ls} _.
Arguments bzip_Some {T} fs xmin xmax _ _.
Arguments bzip_None {T} fs xmin xmax _.
Arguments bzip_nth {T fs xmin xmax ls i f lo hi} _ _ _ _.

Lemma bisect_fun_unfold maxiter tol fs xmin xmax r :
  bisect_fun RA maxiter tol fs xmin xmax = Some r ->
  exists ls ls' k,
    bzip fs xmin xmax = Some ls /\
    bisect_lanes RA maxiter tol ls = Some (ls', k) /\
    r = map (bresult RA) ls'.
Proof.
  unfold bisect_fun, bisect_full_fun.
  destruct (bzip fs xmin xmax) as [ls|] eqn:E1; [|discriminate].
  destruct (bisect_lanes RA maxiter tol ls) as [[ls' k]|] eqn:E2; [|discriminate].
  intros H; inversion H. exists ls, ls', k. repeat split; auto.
Qed.

(* (a) AssertionError: some lane has f(xmin) > 0 or f(xmax) < 0 *)
Theorem bisect_rejects maxiter tol fs xmin xmax i f lo hi :
  nth_error fs i = Some f -> nth_error xmin i = Some lo -> nth_error xmax i = Some hi ->
  f lo > 0 \/ f hi < 0 ->
  bisect_fun RA maxiter tol fs xmin xmax = None.
Proof.
  intros Hf Hlo Hhi Hbad. unfold bisect_fun, bisect_full_fun.
  destruct (bzip fs xmin xmax) as [ls|] eqn:E; [|reflexivity].
  rewrite bisect_lanes_rejects; [reflexivity|].
  exists (mk_blane f lo hi). split; [|exact Hbad].
  eapply nth_error_In. eapply bzip_nth; eauto.
Qed.

Theorem bisect_length_mismatch maxiter tol (fs : list (R -> R)) xmin xmax :
  length xmin <> length fs \/ length xmax <> length fs ->
  bisect_fun RA maxiter tol fs xmin xmax = None.
Proof.
  intros H. unfold bisect_fun, bisect_full_fun. rewrite bzip_None; auto.
Qed.

(* (a) converse: all lanes satisfy f(xmin) <= 0 <= f(xmax), n >= 1  =>  Some *)
Theorem bisect_accepts maxiter tol fs xmin xmax :
  length xmin = length fs -> length xmax = length fs -> fs <> [] ->
  (forall i f lo hi, nth_error fs i = Some f -> nth_error xmin i = Some lo ->
                     nth_error xmax i = Some hi -> f lo <= 0 /\ 0 <= f hi) ->
  exists r, bisect_fun RA maxiter tol fs xmin xmax = Some r /\
            length r = length fs.
Proof.
  intros H1 H2 Hne Hall.
  destruct (bzip_Some fs xmin xmax H1 H2) as (ls & E).
  destruct (bzip_maps E) as (Ef & Elo & Ehi).
  destruct (bisect_lanes_accepts maxiter tol ls) as ([ls' k] & Hr).
  - intros ->. simpl in Ef. congruence.
  - rewrite Forall_forall. intros l Hl.
    destruct (In_nth_error _ _ Hl) as (i & Hi).
    apply (Hall i (bf l) (blo l) (bhi l)).
    + rewrite <- Ef, nth_error_map, Hi. reflexivity.
    + rewrite <- Elo, nth_error_map, Hi. reflexivity.
    + rewrite <- Ehi, nth_error_map, Hi. reflexivity.
  - exists (map (bresult RA) ls'). unfold bisect_fun, bisect_full_fun.
    rewrite E, Hr. split; [reflexivity|].
    destruct (bisect_lanes_spec Hr) as (_ & -> & _).
    rewrite !map_length. rewrite <- Ef, map_length. reflexivity.
Qed.

(* (c) on the list interface *)
Theorem bisect_correct maxiter tol fs xmin xmax r i f lo hi :
  bisect_fun RA maxiter tol fs xmin xmax = Some r ->
  nth_error fs i = Some f -> nth_error xmin i = Some lo -> nth_error xmax i = Some hi ->
  lo <= hi ->
  exists x, nth_error r i = Some x /\ lo <= x <= hi /\
    ((forall y, lo <= y <= hi -> continuity_pt f y) ->
     exists z, lo <= z <= hi /\ f z = 0 /\
               Rabs (x - z) <= Rmax tol ((hi - lo) / 2 ^ maxiter) / 2).
Proof.
  intros H Hf Hlo Hhi Hle.
  destruct (bisect_fun_unfold _ _ _ _ _ _ H) as (ls & ls' & k & E & Hr & ->).
  pose proof (bzip_nth E Hf Hlo Hhi) as Hi.
  destruct (bisect_result_in_bracket _ _ _ _ _ _ _ Hr Hi Hle) as (l' & E' & B1 & B2 & B3 & B4).
  simpl in *.
  exists (bresult RA l'). split; [apply map_nth_error; auto|].
  split; [unfold bresult; rewrite bguess_R; lra|].
  intros Hc.
  destruct (bisect_result_error_bound _ _ _ _ _ _ _ Hr Hi Hle Hc) as (l'' & z & E'' & Hz & Ez & Hb).
  rewrite E' in E''. inversion E''; subst l''.
  exists z. simpl in *. auto.
Qed.

(* the same for lanes given by the `fn` datatype *)
Corollary bisect_fn_correct maxiter tol (fs : list (fn R)) xmin xmax r i g lo hi :
  bisect RA maxiter tol fs xmin xmax = Some r ->
  nth_error fs i = Some g -> nth_error xmin i = Some lo -> nth_error xmax i = Some hi ->
  lo <= hi ->
  exists x, nth_error r i = Some x /\ lo <= x <= hi /\
    ((forall y, lo <= y <= hi -> continuity_pt (feval RA g) y) ->
     exists z, lo <= z <= hi /\ feval RA g z = 0 /\
               Rabs (x - z) <= Rmax tol ((hi - lo) / 2 ^ maxiter) / 2).
Proof.
  intros H Hg. unfold bisect in H.
  eapply bisect_correct; eauto. apply map_nth_error; auto.
Qed.

(* ------------------------------------------------------------------------- *)
(* 6. chandrupatla : one lane                                                 *)
(* ------------------------------------------------------------------------- *)
Ltac rminmax :=
  repeat match goal with
  | |- context [Rmax ?a ?b] =>
      destruct (Rle_dec a b);
      [rewrite (Rmax_right a b) in * by lra|rewrite (Rmax_left a b) in * by lra]
  | |- context [Rmin ?a ?b] =>
      destruct (Rle_dec a b);
      [rewrite (Rmin_left a b) in * by lra|rewrite (Rmin_right a b) in * by lra]
  end.

Lemma clip_R x lo hi : clip RA x lo hi = Rmin (Rmax x lo) hi.
Proof. reflexivity. Qed.

Lemma clip_range x lo hi : Rmin lo hi <= clip RA x lo hi <= Rmax lo hi.
Proof.
  rewrite clip_R. rminmax; lra.
Qed.

Lemma clip_id x lo hi : lo <= x <= hi -> clip RA x lo hi = x.
Proof.
  intros H. rewrite clip_R. rminmax; lra.
Qed.

(* xt = np.clip(a + t*(b-a), xmin, xmax) *)
Definition cxt (s : cstate R) : R :=
  clip RA (ca s + ct s * (cb s - ca s)) (cmin s) (cmax s).

(* tol = 2*eps*|xm| + 2*eps *)
Definition ctolR (xm : R) : R := 2 * / 2 ^ 52 * Rabs xm + 2 * / 2 ^ 52.
Lemma ctol_R xm : ctol RA xm = ctolR xm.
Proof. reflexivity. Qed.
Lemma ctolR_pos xm : 0 < ctolR xm.
Proof.
  unfold ctolR. pose proof (Rabs_pos xm).
  assert (0 < / 2 ^ 52) by (apply Rinv_0_lt_compat, pow_lt; lra). nra.
Qed.

(* the a/b/c shuffle of the loop body *)
Lemma cphase1_abc s :
  let m := cphase1 RA s in
  let xt := cxt s in let ft := cf s xt in
  cf (mst m) = cf s /\ cmin (mst m) = cmin s /\ cmax (mst m) = cmax s /\
  ct (mst m) = ct s /\
  ca (mst m) = xt /\ cfa (mst m) = ft /\
  ((Rsign ft = Rsign (cfa s) /\ cb (mst m) = cb s /\ cc (mst m) = ca s /\
    cfb (mst m) = cfb s /\ cfc (mst m) = cfa s) \/
   (Rsign ft <> Rsign (cfa s) /\ cb (mst m) = ca s /\ cc (mst m) = cb s /\
    cfb (mst m) = cfa s /\ cfc (mst m) = cfb s)).
Proof.
  intros m xt ft. unfold m, cphase1. cbn.
  change (Rmin (Rmax (ca s + ct s * (cb s - ca s)) (cmin s)) (cmax s)) with xt.
  change (cf s xt) with ft.
  repeat (split; [reflexivity|]).
  destruct (Reqb (Rsign ft) (Rsign (cfa s))) eqn:E.
  - left. apply Reqb_true in E. auto.
  - right. apply Reqb_false in E. auto.
Qed.

(* xm / fm / tlim / terminate *)
Lemma cphase1_xm s :
  let m := cphase1 RA s in
  ((Rabs (cfa (mst m)) < Rabs (cfb (mst m)) /\
    mxm m = ca (mst m) /\ mfm m = cfa (mst m)) \/
   (Rabs (cfb (mst m)) <= Rabs (cfa (mst m)) /\
    mxm m = cb (mst m) /\ mfm m = cfb (mst m))) /\
  mtlim m = ctolR (mxm m) / Rabs (cb (mst m) - cc (mst m)) /\
  cterm (mst m) = cterm s || (Reqb (mfm m) 0 || Rltb (/ 2) (mtlim m)).
Proof.
  intros m. unfold m, cphase1. cbn.
  split; [|split; reflexivity].
  match goal with |- context [Rltb ?x ?y] => destruct (Rltb x y) eqn:E end.
  - left. apply Rltb_true in E. auto.
  - right. apply Rltb_false in E. auto.
Qed.

(* phase 2 only recomputes t *)
Lemma cphase2_same m :
  let s := cphase2 RA m in
  cf s = cf (mst m) /\ cmin s = cmin (mst m) /\ cmax s = cmax (mst m) /\
  ca s = ca (mst m) /\ cb s = cb (mst m) /\ cc s = cc (mst m) /\
  cfa s = cfa (mst m) /\ cfb s = cfb (mst m) /\ cfc s = cfc (mst m) /\
  cterm s = cterm (mst m).
Proof. cbn. repeat split; reflexivity. Qed.

(* t = min(1 - tlim, max(tlim, t0)):  tlim <= 1/2 gives tlim <= t <= 1 - tlim *)
Lemma cphase2_t m : mtlim m <= / 2 ->
  mtlim m <= ct (cphase2 RA m) <= 1 - mtlim m.
Proof.
  intros H. unfold cphase2. cbn.
  match goal with |- context [Rmax (mtlim m) ?t0] => generalize t0 end.
  intros t0. rminmax; lra.
Qed.

(* once terminated (tlim > 1/2) the next t is exactly 1 - tlim (< 1/2, negative
   when tlim > 1): the lane keeps moving *)
Lemma cphase2_t_terminated m : / 2 < mtlim m ->
  ct (cphase2 RA m) = 1 - mtlim m.
Proof.
  intros H. unfold cphase2. cbn.
  match goal with |- context [Rmax (mtlim m) ?t0] => generalize t0 end.
  intros t0. rminmax; lra.
Qed.

(* The per-lane invariant. *)
Definition cL (s : cstate R) : R := Rmin (cmin s) (cmax s).
Definition cH (s : cstate R) : R := Rmax (cmin s) (cmax s).

Definition cinv (s : cstate R) : Prop :=
  cfa s = cf s (ca s) /\ cfb s = cf s (cb s) /\ cfc s = cf s (cc s) /\
  cL s <= ca s <= cH s /\ cL s <= cb s <= cH s /\ cL s <= cc s <= cH s /\
  Rsign (cfa s) * Rsign (cfb s) <= 0.

Lemma Rsign_neq_prod x y : Rsign x <> Rsign y -> Rsign x * Rsign y <= 0.
Proof.
  destruct (Rsign_cases x) as [[Hx ->]|[[Hx ->]|[Hx ->]]];
  destruct (Rsign_cases y) as [[Hy ->]|[[Hy ->]|[Hy ->]]]; intros; try lra;
  exfalso; apply H; reflexivity.
Qed.

Lemma cphase1_inv s : cinv s -> cinv (mst (cphase1 RA s)).
Proof.
  intros (Ea & Eb & Ec & Ha & Hb & Hc & Hs).
  destruct (cphase1_abc s) as (Hf & Hmin & Hmax & _ & Eqa & Eqfa & Hcases).
  unfold cinv, cL, cH. rewrite Hf, Hmin, Hmax, Eqa, Eqfa.
  pose proof (clip_range (ca s + ct s * (cb s - ca s)) (cmin s) (cmax s)) as Hr.
  fold (cxt s) in Hr. unfold cL, cH in *.
  destruct Hcases as [(Hsg & -> & -> & -> & ->)|(Hsg & -> & -> & -> & ->)].
  - repeat split; auto; try lra. rewrite Hsg. exact Hs.
  - repeat split; auto; try lra. apply Rsign_neq_prod; auto.
Qed.

Lemma cphase2_inv m : cinv (mst m) -> cinv (cphase2 RA m).
Proof. intros H. exact H. Qed.

Lemma cstep_inv s : cinv s -> cinv (cstep RA s).
Proof. intros H. apply cphase2_inv, cphase1_inv, H. Qed.

Lemma cstep_static s :
  cf (cstep RA s) = cf s /\ cmin (cstep RA s) = cmin s /\ cmax (cstep RA s) = cmax s.
Proof. repeat split; reflexivity. Qed.

Lemma cstate_iter_S k s : cstate_iter RA (S k) s = cstep RA (cstate_iter RA k s).
Proof.
  revert s; induction k; intros s; [reflexivity|].
  change (cstate_iter RA (S (S k)) s) with (cstate_iter RA (S k) (cstep RA s)).
  rewrite IHk. reflexivity.
Qed.

Lemma cstate_iter_inv k s : cinv s ->
  let s' := cstate_iter RA k s in
  cinv s' /\ cf s' = cf s /\ cmin s' = cmin s /\ cmax s' = cmax s.
Proof.
  intros H. induction k.
  - cbn. auto.
  - cbv zeta in *. rewrite cstate_iter_S.
    destruct IHk as (Hi & Hf & Hlo & Hhi).
    destruct (cstep_static (cstate_iter RA k s)) as (-> & -> & ->).
    split; [apply cstep_inv; auto|auto].
Qed.

(* the xm of an iteration is one of the new a, b; f xm = fm; it is in the bracket *)
Lemma cphase1_xm_inv s : cinv s ->
  let m := cphase1 RA s in
  (mxm m = ca (mst m) \/ mxm m = cb (mst m)) /\
  mfm m = cf s (mxm m) /\
  cL s <= mxm m <= cH s.
Proof.
  intros H m. pose proof (cphase1_inv s H) as (Ea & Eb & _ & Ha & Hb & _).
  destruct (cphase1_abc s) as (Hf & Hmin & Hmax & _).
  unfold cL, cH in *. rewrite Hf, Hmin, Hmax in *. fold m in Ea, Eb, Ha, Hb.
  destruct (cphase1_xm s) as ([(_ & E1 & E2)|(_ & E1 & E2)] & _); fold m in E1, E2.
  - rewrite E1, E2. auto.
  - rewrite E1, E2. auto.
Qed.

(* (e) what the terminate flag of a lane means when it is first set.
   NOTE on b = c: in the R model tlim = tol / |b-c| = tol / 0 = 0 (Coq's Rinv_0),
   so the second disjunct is never taken with b = c.  In binary64 the same
   expression is tol / 0.0 = +inf > 0.5: the float code DOES terminate the lane
   there (and the next t is 1 - inf = -inf; see the report).  The theorem
   therefore carries b <> c explicitly. *)
Theorem chandrupatla_terminated s : cinv s ->
  let m := cphase1 RA s in
  cterm s = false ->
  (cterm (mst m) = true <->
   (cf s (mxm m) = 0 \/
    (cb (mst m) <> cc (mst m) /\
     Rabs (cb (mst m) - cc (mst m)) < 2 * ctolR (mxm m)))).
Proof.
  intros H m Hnt.
  destruct (cphase1_xm_inv s H) as (_ & Efm & _). fold m in Efm.
  destruct (cphase1_xm s) as (_ & Etl & Et). fold m in Etl, Et.
  rewrite Et, Hnt, Etl, Efm. cbn [orb].
  rewrite orb_true_iff, Reqb_true, Rltb_true.
  pose proof (ctolR_pos (mxm m)) as Htol.
  set (d := cb (mst m) - cc (mst m)).
  split; (intros [H0|H1]; [left; exact H0|right]).
  - destruct (Req_dec d 0) as [E|N].
    + exfalso. rewrite E, Rabs_R0 in H1. unfold Rdiv in H1. rewrite Rinv_0 in H1. lra.
    + assert (0 < Rabs d) by (apply Rabs_pos_lt; auto).
      split; [unfold d in N; lra|].
      apply (Rmult_lt_compat_r (Rabs d)) in H1; auto.
      unfold Rdiv in H1. rewrite Rmult_assoc, Rinv_l in H1; lra.
  - destruct H1 as (N & Hlt).
    assert (0 < Rabs d) by (apply Rabs_pos_lt; unfold d; lra).
    apply (Rmult_lt_reg_r (Rabs d)); auto.
    unfold Rdiv. rewrite Rmult_assoc, Rinv_l; lra.
Qed.

(* the flag is sticky *)
Lemma cterm_sticky s : cterm s = true -> cterm (cstep RA s) = true.
Proof.
  intros H. destruct (cphase2_same (cphase1 RA s)) as (_&_&_&_&_&_&_&_&_&E).
  unfold cstep. rewrite E.
  destruct (cphase1_xm s) as (_ & _ & ->). rewrite H. reflexivity.
Qed.

(* while the lane is not terminated its t stays in [0,1] *)
Definition cinv2 (s : cstate R) : Prop :=
  cinv s /\ (cterm s = false -> 0 <= ct s <= 1).

Lemma mtlim_nonneg s : 0 <= mtlim (cphase1 RA s).
Proof.
  destruct (cphase1_xm s) as (_ & -> & _).
  pose proof (ctolR_pos (mxm (cphase1 RA s))).
  set (d := Rabs _). assert (0 <= d) by apply Rabs_pos.
  destruct (Req_dec d 0) as [->|N].
  - unfold Rdiv. rewrite Rinv_0. lra.
  - assert (0 < / d) by (apply Rinv_0_lt_compat; lra). unfold Rdiv. nra.
Qed.

Lemma cstep_inv2 s : cinv2 s -> cinv2 (cstep RA s).
Proof.
  intros (H & Ht). split; [apply cstep_inv; auto|].
  intros Hn. unfold cstep in *.
  destruct (cphase2_same (cphase1 RA s)) as (_&_&_&_&_&_&_&_&_&E).
  rewrite E in Hn.
  destruct (cphase1_xm s) as (_ & _ & Et). rewrite Et in Hn.
  apply orb_false_iff in Hn. destruct Hn as (_ & Hn).
  apply orb_false_iff in Hn. destruct Hn as (_ & Hn).
  apply Rltb_false in Hn.
  pose proof (cphase2_t _ Hn). pose proof (mtlim_nonneg s). lra.
Qed.

Lemma cstate_iter_inv2 k s : cinv2 s -> cinv2 (cstate_iter RA k s).
Proof.
  intros H. induction k; [exact H|]. rewrite cstate_iter_S. apply cstep_inv2; auto.
Qed.

(* with t in [0,1] and xmin <= xmax the new point xt lies between a and b,
   the clip is inactive, and |a' - b'| <= |b' - c'| *)
Lemma cphase1_between s : cinv s -> cmin s <= cmax s -> 0 <= ct s <= 1 ->
  let m := cphase1 RA s in
  ca (mst m) = ca s + ct s * (cb s - ca s) /\
  Rmin (ca s) (cb s) <= ca (mst m) <= Rmax (ca s) (cb s) /\
  Rabs (ca (mst m) - cb (mst m)) <= Rabs (cb (mst m) - cc (mst m)).
Proof.
  intros (_ & _ & _ & Ha & Hb & _) Hle Ht m.
  unfold cL, cH in *. rewrite Rmin_left, Rmax_right in * by lra.
  destruct (cphase1_abc s) as (_ & _ & _ & _ & Eqa & _ & Hcases). fold m in Eqa, Hcases.
  set (x0 := ca s + ct s * (cb s - ca s)) in *.
  assert (Hx : Rmin (ca s) (cb s) <= x0 <= Rmax (ca s) (cb s)).
  { unfold x0. rminmax; nra. }
  assert (Hx' : cmin s <= x0 <= cmax s).
  { revert Hx. rminmax; intros; lra. }
  assert (E : ca (mst m) = x0).
  { rewrite Eqa. unfold cxt. fold x0. apply clip_id; auto. }
  split; [exact E|]. split; [rewrite E; exact Hx|].
  rewrite E.
  destruct Hcases as [(_ & -> & -> & _)|(_ & -> & -> & _)].
  - replace (x0 - cb s) with ((1 - ct s) * (ca s - cb s)) by (unfold x0; ring).
    rewrite Rabs_mult, (Rabs_right (1 - ct s)) by lra.
    rewrite (Rabs_minus_sym (cb s) (ca s)).
    pose proof (Rabs_pos (ca s - cb s)). nra.
  - replace (x0 - ca s) with (ct s * (cb s - ca s)) by (unfold x0; ring).
    rewrite Rabs_mult, (Rabs_right (ct s)) by lra.
    rewrite (Rabs_minus_sym (ca s) (cb s)).
    pose proof (Rabs_pos (cb s - ca s)). nra.
Qed.

Lemma ivt_sign (f : R -> R) a b :
  (forall x, Rmin a b <= x <= Rmax a b -> continuity_pt f x) ->
  Rsign (f a) * Rsign (f b) <= 0 ->
  exists z, Rmin a b <= z <= Rmax a b /\ f z = 0.
Proof.
  intros Hc Hs. apply (proj1 (Rsign_prod_le0 _ _)) in Hs.
  destruct (Req_dec (f a) 0) as [E|Na].
  { exists a. split; [rminmax; lra|auto]. }
  destruct (Req_dec (f b) 0) as [E|Nb].
  { exists b. split; [rminmax; lra|auto]. }
  assert (Hopp : (f a < 0 /\ 0 < f b) \/ (f b < 0 /\ 0 < f a)).
  { destruct (Rlt_dec (f a) 0), (Rlt_dec (f b) 0).
    - exfalso. assert (0 < f a * f b).
      { replace (f a * f b) with ((- f a) * (- f b)) by ring.
        apply Rmult_lt_0_compat; lra. }
      lra.
    - left; lra.
    - right; lra.
    - exfalso. assert (0 < f a * f b) by (apply Rmult_lt_0_compat; lra). lra. }
  assert (Hcm : forall x, Rmin a b <= x <= Rmax a b -> continuity_pt (fun y => - f y) x).
  { intros x Hx. apply continuity_pt_opp. apply Hc; auto. }
  destruct (Rle_dec a b) as [Hab|Hab].
  - rewrite Rmin_left, Rmax_right in * by lra.
    destruct Hopp as [[? ?]|[? ?]].
    + apply ivt_weak; auto; lra.
    + destruct (ivt_weak (fun y => - f y) a b) as (z & Hz & Ez); auto; try lra.
      exists z. split; auto. lra.
  - rewrite Rmin_right, Rmax_left in * by lra.
    destruct Hopp as [[? ?]|[? ?]].
    + destruct (ivt_weak (fun y => - f y) b a) as (z & Hz & Ez); auto; try lra.
      exists z. split; auto. lra.
    + apply ivt_weak; auto; lra.
Qed.

(* (e) a lane whose flag is set in this iteration: its xm of THIS iteration is
   within 2*tol of a root (tol = 2*eps*|xm| + 2*eps). *)
Theorem chandrupatla_terminated_near_root s :
  cinv2 s -> cmin s <= cmax s ->
  (forall x, cmin s <= x <= cmax s -> continuity_pt (cf s) x) ->
  let m := cphase1 RA s in
  cterm s = false -> cterm (mst m) = true ->
  exists z, cmin s <= z <= cmax s /\ cf s z = 0 /\
            Rabs (mxm m - z) < 2 * ctolR (mxm m).
Proof.
  intros (H & Ht) Hle Hc m Hn Hy.
  pose proof (ctolR_pos (mxm m)) as Htol.
  destruct (cphase1_xm_inv s H) as (Hxm & _ & Hr). fold m in Hxm, Hr.
  unfold cL, cH in Hr. rewrite Rmin_left, Rmax_right in Hr by lra.
  apply (proj1 (chandrupatla_terminated s H Hn)) in Hy. fold m in Hy.
  destruct Hy as [E0|(Nbc & Hlt)].
  - exists (mxm m). repeat split; try lra; auto.
    replace (mxm m - mxm m) with 0 by ring. rewrite Rabs_R0. lra.
  - destruct (cphase1_between s H Hle (Ht Hn)) as (_ & _ & Hab). fold m in Hab.
    pose proof (cphase1_inv s H) as (Ea & Eb & _ & Ha & Hb & _ & Hs). fold m in Ea, Eb, Ha, Hb, Hs.
    destruct (cphase1_abc s) as (Hf & Hmin & Hmax & _). fold m in Hf, Hmin, Hmax.
    unfold cL, cH in Ha, Hb. rewrite Hmin, Hmax in Ha, Hb.
    rewrite Rmin_left, Rmax_right in Ha, Hb by lra.
    rewrite Ea, Eb, Hf in Hs.
    destruct (ivt_sign (cf s) (ca (mst m)) (cb (mst m))) as (z & Hz & Ez); auto.
    { intros x Hx. apply Hc. revert Hx. rminmax; intros; lra. }
    exists z. split; [revert Hz; rminmax; intros; lra|]. split; auto.
    eapply Rle_lt_trans; [|exact Hlt]. eapply Rle_trans; [|exact Hab].
    revert Hz.
    destruct Hxm as [-> | ->]; unfold Rabs; rminmax;
      repeat match goal with |- context [Rcase_abs ?x] => destruct (Rcase_abs x) end;
      intros; lra.
Qed.

(* ------------------------------------------------------------------------- *)
(* 7. chandrupatla : the batch loop                                           *)
(* ------------------------------------------------------------------------- *)
Lemma chand_iter_map k ls : chand_iter RA k ls = map (cstate_iter RA k) ls.
Proof.
  revert ls; induction k; intros ls.
  - simpl. symmetry. apply map_id.
  - change (chand_iter RA (S k) ls) with (chand_iter RA k (map (cstep RA) ls)).
    rewrite IHk, map_map. reflexivity.
Qed.

(* lane states seen by the break test of loop body number j+1 *)
Definition cmids (j : nat) (ls : list (cstate R)) : list (cmid R) :=
  map (fun s => cphase1 RA (cstate_iter RA j s)) ls.

Lemma cmids_nth j ls i s : nth_error ls i = Some s ->
  nth_error (cmids j ls) i = Some (cphase1 RA (cstate_iter RA j s)).
Proof.
  intros H. unfold cmids.
  exact (map_nth_error (fun s0 => cphase1 RA (cstate_iter RA j s0)) i ls H).
Qed.

Lemma cmids_iter j ls : cmids j ls = map (cphase1 RA) (chand_iter RA j ls).
Proof. unfold cmids. rewrite chand_iter_map, map_map. reflexivity. Qed.

(* With fuel > 0 the loop executes j+1 bodies, where j is the first index at
   which all flags are set, or fuel-1 if there is none; it returns the cmids
   of the last executed body. *)
Lemma chand_loop_spec : forall fuel ls prev k0, fuel <> O ->
  exists j,
    chand_loop RA fuel ls prev k0 = (cmids j ls, (k0 + S j)%nat) /\
    (S j <= fuel)%nat /\
    (S j = fuel \/ call_term (cmids j ls) = true) /\
    (forall i, (i < j)%nat -> call_term (cmids i ls) = false).
Proof.
  induction fuel as [|n IH]; intros ls prev k0 Hne; [congruence|].
  cbn [chand_loop].
  assert (E0 : cmids 0 ls = map (cphase1 RA) ls) by reflexivity.
  destruct (call_term (map (cphase1 RA) ls)) eqn:Hs.
  - exists O. rewrite E0. replace (k0 + 1)%nat with (S k0) by lia.
    split; [reflexivity|]. split; [lia|]. split; [right; exact Hs|intros; lia].
  - destruct n as [|n].
    + exists O. rewrite E0. replace (k0 + 1)%nat with (S k0) by lia.
      split; [reflexivity|]. split; [lia|]. split; [left; reflexivity|intros; lia].
    + destruct (IH (map (cphase2 RA) (map (cphase1 RA) ls)) (map (cphase1 RA) ls) (S k0))
        as (j & E & Hj & Hstop & Hbefore); [discriminate|].
      assert (Eshift : forall i, cmids i (map (cphase2 RA) (map (cphase1 RA) ls))
                                 = cmids (S i) ls).
      { intros i. unfold cmids. rewrite !map_map. reflexivity. }
      exists (S j). rewrite E, Eshift.
      replace (S k0 + S j)%nat with (k0 + S (S j))%nat by lia.
      split; [reflexivity|]. split; [lia|]. split.
      * destruct Hstop as [Hst|Hst]; [left; lia|right; rewrite <- Eshift; exact Hst].
      * intros i Hi. destruct i as [|i]; [rewrite E0; exact Hs|].
        rewrite <- Eshift. apply Hbefore. lia.
Qed.

Lemma cprecond_true (ls : list (cstate R)) :
  cprecond RA ls = true <->
  Forall (fun s => Rsign (cfa s) * Rsign (cfb s) <= 0) ls.
Proof.
  unfold cprecond. rewrite forallb_forall, Forall_forall.
  split; intros H s Hs; apply Rleb_true; apply (H s Hs).
Qed.

Lemma call_term_true (ms : list (cmid R)) :
  call_term ms = true <-> Forall (fun m => cterm (mst m) = true) ms.
Proof. unfold call_term. rewrite forallb_forall, Forall_forall. reflexivity. Qed.

(* (e) rejection, lane level *)
Theorem chand_lanes_rejects maxiter ls :
  (exists s, In s ls /\ Rsign (cfa s) * Rsign (cfb s) > 0) ->
  chand_lanes RA maxiter ls = None.
Proof.
  intros (s & Hin & Hbad). unfold chand_lanes.
  destruct (cprecond RA ls) eqn:E; [|reflexivity].
  apply cprecond_true in E. rewrite Forall_forall in E. specialize (E s Hin). lra.
Qed.

Theorem chand_lanes_maxiter0 ls : chand_lanes RA 0 ls = None.
Proof. unfold chand_lanes. destruct (cprecond RA ls); reflexivity. Qed.

Theorem chand_lanes_accepts maxiter ls : maxiter <> O ->
  Forall (fun s => Rsign (cfa s) * Rsign (cfb s) <= 0) ls ->
  exists r, chand_lanes RA maxiter ls = Some r.
Proof.
  intros Hm H. apply cprecond_true in H. unfold chand_lanes. rewrite H.
  destruct maxiter; [congruence|]. eexists; reflexivity.
Qed.

(* Complete description of a successful run: k = j+1 bodies were executed. *)
Theorem chand_lanes_spec maxiter ls ms k :
  chand_lanes RA maxiter ls = Some (ms, k) ->
  Forall (fun s => Rsign (cfa s) * Rsign (cfb s) <= 0) ls /\
  exists j, k = S j /\ (k <= maxiter)%nat /\ ms = cmids j ls /\
    (k = maxiter \/ Forall (fun m => cterm (mst m) = true) ms) /\
    (forall i, (i < j)%nat ->
       ~ Forall (fun m => cterm (mst m) = true) (cmids i ls)).
Proof.
  unfold chand_lanes. destruct (cprecond RA ls) eqn:Hp; [|discriminate].
  apply cprecond_true in Hp. destruct maxiter as [|n]; [discriminate|].
  intros H.
  assert (E : chand_loop RA (S n) ls [] 0 = (ms, k)) by (inversion H; reflexivity).
  clear H. split; auto.
  destruct (chand_loop_spec (S n) ls [] 0) as (j & E1 & Hj & Hstop & Hbefore);
    [discriminate|].
  rewrite E in E1. inversion E1; subst ms k. clear E1.
  exists j. repeat split; auto.
  - destruct Hstop as [Hs|Hs]; [left; auto|right; apply call_term_true; auto].
  - intros i Hi Hn. apply call_term_true in Hn. rewrite (Hbefore i Hi) in Hn.
    discriminate.
Qed.
Arguments chand_lanes_spec {maxiter ls ms k} _.

(* (e) invariant of the run: for every lane, the state behind the returned xm *)
Theorem chandrupatla_invariant maxiter ls ms k i s :
  chand_lanes RA maxiter ls = Some (ms, k) ->
  nth_error ls i = Some s -> cinv s ->
  exists m, nth_error ms i = Some m /\
    m = cphase1 RA (cstate_iter RA (pred k) s) /\
    cf (mst m) = cf s /\ cmin (mst m) = cmin s /\ cmax (mst m) = cmax s /\
    cinv (mst m) /\
    (mxm m = ca (mst m) \/ mxm m = cb (mst m)) /\
    mfm m = cf s (mxm m) /\
    Rmin (cmin s) (cmax s) <= mxm m <= Rmax (cmin s) (cmax s).
Proof.
  intros H Hi Hinv.
  destruct (chand_lanes_spec H) as (_ & j & -> & _ & -> & _).
  exists (cphase1 RA (cstate_iter RA j s)).
  split; [apply cmids_nth; auto|]. split; [reflexivity|].
  destruct (cstate_iter_inv j s Hinv) as (Hj & Hf & Hlo & Hhi).
  set (sj := cstate_iter RA j s) in *.
  destruct (cphase1_abc sj) as (Hf' & Hlo' & Hhi' & _).
  destruct (cphase1_xm_inv sj Hj) as (Hxm & Hfm & Hr).
  unfold cL, cH in Hr.
  rewrite Hf', Hlo', Hhi', Hfm. rewrite Hf, Hlo, Hhi in *.
  split; [reflexivity|]. split; [reflexivity|]. split; [reflexivity|].
  split; [apply cphase1_inv; auto|]. split; [exact Hxm|].
  split; [reflexivity|exact Hr].
Qed.

(* (e) the lane that sets its flag in the LAST executed body (in particular any
   one-lane run that stops before maxiter) returns an xm within 2*tol of a root *)
Theorem chandrupatla_last_terminated_near_root maxiter ls ms k i s :
  chand_lanes RA maxiter ls = Some (ms, k) ->
  nth_error ls i = Some s -> cinv2 s -> cmin s <= cmax s ->
  (forall x, cmin s <= x <= cmax s -> continuity_pt (cf s) x) ->
  cterm (cstate_iter RA (pred k) s) = false ->
  forall m, nth_error ms i = Some m -> cterm (mst m) = true ->
  exists z, cmin s <= z <= cmax s /\ cf s z = 0 /\
            Rabs (mxm m - z) < 2 * ctolR (mxm m).
Proof.
  intros H Hi Hinv Hle Hc Hn m Hm Hy.
  destruct (chand_lanes_spec H) as (_ & j & -> & _ & -> & _).
  rewrite (cmids_nth j _ _ _ Hi) in Hm. inversion Hm; subst m.
  simpl pred in *.
  pose proof (cstate_iter_inv2 j s Hinv) as Hj2.
  destruct (cstate_iter_inv j s (proj1 Hinv)) as (_ & Hf & Hlo & Hhi).
  set (sj := cstate_iter RA j s) in *.
  destruct (chandrupatla_terminated_near_root sj Hj2) as (z & Hz & Ez & Hb); auto.
  - rewrite Hlo, Hhi; auto.
  - rewrite Hf, Hlo, Hhi. exact Hc.
  - exists z. rewrite Hf, Hlo, Hhi in *. auto.
Qed.

(* ------------------------------------------------------------------------- *)
(* 8. chandrupatla : statements on the list interface                         *)
(* ------------------------------------------------------------------------- *)
Lemma cinit_inv2 l :
  Rsign (bf l (bhi l)) * Rsign (bf l (blo l)) <= 0 -> cinv2 (cinit RA l).
Proof.
  intros H. split.
  - unfold cinv, cL, cH. cbn. repeat split; auto; rminmax; lra.
  - intros _. cbn. lra.
Qed.

Lemma czip_nth fs xmin xmax ls i f lo hi :
  czip RA fs xmin xmax = Some ls ->
  nth_error fs i = Some f -> nth_error xmin i = Some lo -> nth_error xmax i = Some hi ->
  nth_error ls i = Some (cinit RA (mk_blane f lo hi)).
Proof.
  unfold czip. destruct (bzip fs xmin xmax) as [bl|] eqn:E; [|discriminate].
  intros H Hf Hlo Hhi. inversion H. apply map_nth_error. eapply bzip_nth; eauto.
Qed.
Arguments czip_nth {fs xmin xmax ls i f lo hi} _ _ _ _.

(* (e) AssertionError: sign f(xmax) * sign f(xmin) > 0 in some lane
   (equivalently f(xmin) * f(xmax) > 0) *)
Theorem chandrupatla_rejects maxiter fs xmin xmax i f lo hi :
  nth_error fs i = Some f -> nth_error xmin i = Some lo -> nth_error xmax i = Some hi ->
  f lo * f hi > 0 ->
  chandrupatla_fun RA maxiter fs xmin xmax = None.
Proof.
  intros Hf Hlo Hhi Hbad. unfold chandrupatla_fun, chandrupatla_full_fun.
  destruct (czip RA fs xmin xmax) as [ls|] eqn:E; [|reflexivity].
  rewrite chand_lanes_rejects; [reflexivity|].
  exists (cinit RA (mk_blane f lo hi)). split.
  - eapply nth_error_In. eapply czip_nth; eauto.
  - cbn. destruct (Rle_dec (Rsign (f hi) * Rsign (f lo)) 0) as [Hle|]; [|lra].
    apply (proj1 (Rsign_prod_le0 _ _)) in Hle. lra.
Qed.

Theorem chandrupatla_maxiter0 fs xmin xmax :
  chandrupatla_fun RA 0 fs xmin xmax = None.
Proof.
  unfold chandrupatla_fun, chandrupatla_full_fun.
  destruct (czip RA fs xmin xmax); [rewrite chand_lanes_maxiter0|]; reflexivity.
Qed.

Theorem chandrupatla_accepts maxiter fs xmin xmax :
  maxiter <> O -> length xmin = length fs -> length xmax = length fs ->
  (forall i f lo hi, nth_error fs i = Some f -> nth_error xmin i = Some lo ->
                     nth_error xmax i = Some hi -> f lo * f hi <= 0) ->
  exists r, chandrupatla_fun RA maxiter fs xmin xmax = Some r.
Proof.
  intros Hm H1 H2 Hall.
  destruct (bzip_Some fs xmin xmax H1 H2) as (bl & E).
  destruct (bzip_maps E) as (Ef & Elo & Ehi).
  destruct (chand_lanes_accepts maxiter (map (cinit RA) bl) Hm) as (r & Hr).
  - rewrite Forall_forall. intros s Hs. apply in_map_iff in Hs.
    destruct Hs as (l & <- & Hl). cbn.
    destruct (In_nth_error _ _ Hl) as (i & Hi).
    apply (proj2 (Rsign_prod_le0 _ _)). rewrite Rmult_comm.
    apply (Hall i (bf l) (blo l) (bhi l)).
    + rewrite <- Ef, nth_error_map, Hi. reflexivity.
    + rewrite <- Elo, nth_error_map, Hi. reflexivity.
    + rewrite <- Ehi, nth_error_map, Hi. reflexivity.
  - exists (map (@mxm R) (fst r)). unfold chandrupatla_fun, chandrupatla_full_fun, czip.
    rewrite E, Hr. reflexivity.
Qed.

(* (e) every returned value is in the initial bracket (whatever the order of
   xmin, xmax), is the a or the b of the last iteration, and those still
   bracket a sign change *)
Theorem chandrupatla_correct maxiter fs xmin xmax r i f lo hi :
  chandrupatla_fun RA maxiter fs xmin xmax = Some r ->
  nth_error fs i = Some f -> nth_error xmin i = Some lo -> nth_error xmax i = Some hi ->
  exists x a b, nth_error r i = Some x /\
    Rmin lo hi <= x <= Rmax lo hi /\
    (x = a \/ x = b) /\
    Rmin lo hi <= a <= Rmax lo hi /\ Rmin lo hi <= b <= Rmax lo hi /\
    f a * f b <= 0.
Proof.
  intros H Hf Hlo Hhi. unfold chandrupatla_fun, chandrupatla_full_fun in H.
  destruct (czip RA fs xmin xmax) as [ls|] eqn:E; [|discriminate].
  destruct (chand_lanes RA maxiter ls) as [[ms k]|] eqn:Hr; [|discriminate].
  inversion H; subst r. clear H. simpl fst.
  pose proof (czip_nth E Hf Hlo Hhi) as Hi.
  destruct (chand_lanes_spec Hr) as (Hp & _).
  rewrite Forall_forall in Hp. specialize (Hp _ (nth_error_In _ _ Hi)). cbn in Hp.
  destruct (chandrupatla_invariant _ _ _ _ _ _ Hr Hi (proj1 (cinit_inv2 (mk_blane f lo hi) Hp)))
    as (m & Hm & _ & Ef & Emin & Emax & Hinv & Hxm & _ & Hrange).
  cbn in Ef, Emin, Emax, Hrange.
  destruct Hinv as (Ea & Eb & _ & Ha & Hb & _ & Hs).
  exists (mxm m), (ca (mst m)), (cb (mst m)).
  split; [apply map_nth_error; auto|]. split; [exact Hrange|]. split; [exact Hxm|].
  unfold cL, cH in Ha, Hb. rewrite Emin, Emax in Ha, Hb.
  repeat split; try lra.
  apply (proj1 (Rsign_prod_le0 _ _)). rewrite Ea, Eb, Ef in Hs. exact Hs.
Qed.

(* (f) Remark (scalar input).  A Python scalar call chandrupatla(f, xmin, xmax)
   takes the `if not shape` branch, which evaluates the very same expressions
   (t = eq1 + eq2 with the same association).  It is modelled as the one-element
   batch  chandrupatla_fun A maxiter [f] [xmin] [xmax] : all statements above
   apply with i = 0, and for one lane "np.all(terminate)" is the lane's own
   flag, so chandrupatla_last_terminated_near_root applies whenever the loop
   stops before maxiter. *)
Remark chandrupatla_scalar_is_one_lane maxiter (f : R -> R) lo hi :
  chandrupatla_fun RA maxiter [f] [lo] [hi] =
  match chand_lanes RA maxiter [cinit RA (mk_blane f lo hi)] with
  | Some r => Some (map (@mxm R) (fst r))
  | None => None
  end.
Proof. reflexivity. Qed.

(* ------------------------------------------------------------------------- *)
(* 9. lane (in)dependence on the list / batch level                           *)
(* ------------------------------------------------------------------------- *)
(* (d) on the list interface *)
Theorem bisect_lane_independent_fun maxiter tol fs xmin xmax ls' k i f lo hi :
  bisect_full_fun RA maxiter tol fs xmin xmax = Some (ls', k) ->
  nth_error fs i = Some f -> nth_error xmin i = Some lo -> nth_error xmax i = Some hi ->
  let l := mk_blane f lo hi in
  nth_error ls' i = Some (blane_iter RA k l) /\
  exists k1, bisect_full_fun RA maxiter tol [f] [lo] [hi]
               = Some ([blane_iter RA k1 l], k1) /\ (k1 <= k)%nat.
Proof.
  intros H Hf Hlo Hhi l. unfold bisect_full_fun in H.
  destruct (bzip fs xmin xmax) as [ls|] eqn:E; [|discriminate].
  pose proof (bzip_nth E Hf Hlo Hhi) as Hi.
  destruct (bisect_lane_independent _ _ _ _ _ _ _ H Hi) as (H1 & _ & k1 & H2 & H3).
  split; [exact H1|]. exists k1. split; [exact H2|exact H3].
Qed.

(* chandrupatla: lane i of the batch is a function of lane i's own data and of
   the global number k of executed bodies only; alone, the lane would have
   executed k1 <= k bodies.  Unlike bisect, the extra k - k1 bodies are NOT
   shown to keep the accuracy reached at k1: the lane goes on with
   t = 1 - tlim (cphase2_t_terminated); only chandrupatla_invariant is known
   to survive. *)
Theorem chandrupatla_lane_independent maxiter ls ms k i s :
  chand_lanes RA maxiter ls = Some (ms, k) ->
  nth_error ls i = Some s ->
  nth_error ms i = Some (cphase1 RA (cstate_iter RA (pred k) s)) /\
  exists k1, chand_lanes RA maxiter [s]
               = Some ([cphase1 RA (cstate_iter RA (pred k1) s)], k1) /\
             (k1 <= k)%nat.
Proof.
  intros H Hi.
  destruct (chand_lanes_spec H) as (Hp & j & -> & Hk & -> & Hstop & _).
  split; [apply cmids_nth; auto|].
  assert (Hm : maxiter <> O) by lia.
  rewrite Forall_forall in Hp. pose proof (Hp s (nth_error_In _ _ Hi)) as Hs.
  destruct (chand_lanes_accepts maxiter [s] Hm) as ([ms1 k1] & H1);
    [constructor; auto|].
  exists k1.
  destruct (chand_lanes_spec H1) as (_ & j1 & -> & Hk1 & -> & _ & Hbefore1).
  split; [exact H1|].
  destruct (le_lt_dec (S j1) (S j)) as [|Hlt]; auto. exfalso.
  destruct Hstop as [Hst|Hall]; [lia|].
  apply (Hbefore1 j); [lia|].
  rewrite Forall_forall in Hall. constructor; [|constructor].
  apply Hall. eapply nth_error_In. apply cmids_nth; eauto.
Qed.

(* ------------------------------------------------------------------------- *)
(* 10. continuity of the `fn` lanes over R                                    *)
(* ------------------------------------------------------------------------- *)
Lemma feval_continuous (g : fn R) x : continuity_pt (feval RA g) x.
Proof.
  destruct g as [a b|a r|a r|a r b]; cbn.
  - change (continuity_pt (fct_cte a * id + fct_cte b)%F x). reg.
  - change (continuity_pt (fct_cte a * ((id - fct_cte r) * (id - fct_cte r) * (id - fct_cte r)))%F x).
    reg.
  - change (continuity_pt
      (fct_cte a * ((id - fct_cte r) / (fct_cte 1 + comp Rabs (id - fct_cte r))))%F x).
    apply continuity_pt_mult; [reg|].
    apply continuity_pt_div; [reg| |].
    + apply continuity_pt_plus; [reg|].
      apply continuity_pt_comp; [reg|apply Rcontinuity_abs].
    + unfold plus_fct, fct_cte, comp, minus_fct, id. pose proof (Rabs_pos (x - r)). lra.
  - change (continuity_pt
      (fct_cte a * ((id - fct_cte r) * (id - fct_cte r) * (id - fct_cte r))
       + fct_cte b * (id - fct_cte r))%F x).
    reg.
Qed.

(* (c) for `fn` lanes no continuity hypothesis is left *)
Corollary bisect_fn_root maxiter tol (fs : list (fn R)) xmin xmax r i g lo hi :
  bisect RA maxiter tol fs xmin xmax = Some r ->
  nth_error fs i = Some g -> nth_error xmin i = Some lo -> nth_error xmax i = Some hi ->
  lo <= hi ->
  exists x z, nth_error r i = Some x /\ lo <= x <= hi /\
    lo <= z <= hi /\ feval RA g z = 0 /\
    Rabs (x - z) <= Rmax tol ((hi - lo) / 2 ^ maxiter) / 2.
Proof.
  intros H Hg Hlo Hhi Hle.
  destruct (bisect_fn_correct _ _ _ _ _ _ _ _ _ _ H Hg Hlo Hhi Hle) as (x & Hx & Hr & Hroot).
  destruct Hroot as (z & Hz & Ez & Hb); [intros; apply feval_continuous|].
  exists x, z. auto.
Qed.

(* ------------------------------------------------------------------------- *)
(* 11. Non-vacuity examples                                                   *)
(* ------------------------------------------------------------------------- *)
(* bisect: two lanes  x - 1/4  and  x^3 - 3/10  on [0,1] are accepted ... *)
Example bisect_accepts_ex :
  exists r, bisect_fun RA 50 (/ 10 ^ 8)
              [fun x => x - / 4; fun x => x * x * x - 3 / 10] [0; 0] [1; 1] = Some r
            /\ length r = 2%nat.
Proof.
  apply bisect_accepts; try reflexivity; try discriminate.
  intros [|[|[|i]]] f lo hi Hf Hlo Hhi; simpl in *;
    inversion Hf; inversion Hlo; inversion Hhi; subst; lra.
Qed.

(* ... and the first lane's result is within max(tol, 2^-50)/2 of the root 1/4 *)
Example bisect_correct_ex :
  exists r x, bisect_fun RA 50 (/ 10 ^ 8)
              [fun x => x - / 4; fun x => x * x * x - 3 / 10] [0; 0] [1; 1] = Some r /\
    nth_error r 0 = Some x /\
    Rabs (x - / 4) <= Rmax (/ 10 ^ 8) ((1 - 0) / 2 ^ 50) / 2.
Proof.
  destruct bisect_accepts_ex as (r & Hr & _). exists r.
  destruct (bisect_correct 50 (/ 10 ^ 8) _ _ _ r 0 (fun x => x - / 4) 0 1 Hr)
    as (x & Hx & _ & Hroot); try reflexivity; try lra.
  exists x. split; auto. split; auto.
  destruct Hroot as (z & _ & Ez & Hb); [intros; reg|].
  replace (/ 4) with z by lra. exact Hb.
Qed.

(* ... a lane with f(xmin) > 0 makes the whole batch fail *)
Example bisect_rejects_ex :
  bisect_fun RA 50 (/ 10 ^ 8) [fun x => x - / 4; fun x => x + 1] [0; 0] [1; 1] = None.
Proof.
  apply (bisect_rejects 50 (/ 10 ^ 8) _ _ _ 1 (fun x => x + 1) 0 1); try reflexivity.
  left. lra.
Qed.

(* chandrupatla: rejection *)
Example chandrupatla_rejects_ex :
  chandrupatla_fun RA 50 [fun x => x + 1] [0] [1] = None.
Proof.
  apply (chandrupatla_rejects 50 _ _ _ 0 (fun x => x + 1) 0 1); try reflexivity. lra.
Qed.

(* chandrupatla: the hypotheses of chandrupatla_terminated_near_root hold for the
   initial state of  x - 1/2  on [0,1]  (first disjunct: f xm = 0) *)
Example chandrupatla_terminated_ex :
  let s := cinit RA (mk_blane (fun x => x - / 2) 0 1) in
  cinv2 s /\ cmin s <= cmax s /\
  (forall x, cmin s <= x <= cmax s -> continuity_pt (cf s) x) /\
  cterm s = false /\ cterm (mst (cphase1 RA s)) = true.
Proof.
  intros s.
  assert (Hinv : cinv2 s).
  { apply cinit_inv2. cbn. apply (proj2 (Rsign_prod_le0 _ _)). lra. }
  split; [exact Hinv|]. split; [cbn; lra|]. split; [intros; cbn; reg|].
  split; [reflexivity|].
  apply (proj2 (chandrupatla_terminated s (proj1 Hinv) eq_refl)). left.
  destruct (cphase1_xm_inv s (proj1 Hinv)) as (_ & <- & _).
  destruct (cphase1_abc s) as (_ & _ & _ & _ & Ea & Efa & _).
  assert (Ext : cxt s = / 2) by (unfold cxt; cbn; rminmax; lra).
  assert (Efa' : cfa (mst (cphase1 RA s)) = 0) by (rewrite Efa, Ext; cbn; lra).
  destruct (cphase1_xm s) as ([(_ & _ & ->)|(Hle & _ & ->)] & _).
  - exact Efa'.
  - rewrite Efa', Rabs_R0 in Hle.
    pose proof (Rabs_pos (cfb (mst (cphase1 RA s)))).
    destruct (Req_dec (cfb (mst (cphase1 RA s))) 0) as [E|N]; auto.
    apply Rabs_pos_lt in N. lra.
Qed.

(* the b <> c hypothesis matters only for Coq's x/0 = 0: *)
Example tlim_R_vs_float : mtlim (cphase1 RA (cinit RA (mk_blane (fun x => x) 0 0))) = 0.
Proof.
  destruct (cphase1_xm (cinit RA (mk_blane (fun x : R => x) 0 0))) as (_ & -> & _).
  destruct (cphase1_abc (cinit RA (mk_blane (fun x : R => x) 0 0)))
    as (_ & _ & _ & _ & _ & _ & [(_ & -> & -> & _)|(_ & -> & -> & _)]); cbn;
    replace (0 - 0) with 0 by ring; rewrite Rabs_R0; unfold Rdiv;
    rewrite Rinv_0; ring.
Qed.

(* second disjunct of chandrupatla_terminated (b <> c, |b-c| < 2*tol): a state
   with a = e, b = -3e, t = 1/2, e = 2^-60, f = id  *)
Example chandrupatla_terminated_tlim_ex :
  let e := / 2 ^ 60 in
  let s := mk_cstate (fun x : R => x) (-1) 1 e (-3 * e) e e (-3 * e) e (/ 2) false in
  cinv2 s /\ cterm s = false /\ cterm (mst (cphase1 RA s)) = true /\
  cf s (mxm (cphase1 RA s)) <> 0.
Proof.
  intros e s.
  assert (He : 0 < e) by (apply Rinv_0_lt_compat, pow_lt; lra).
  assert (He1 : e < / 2 ^ 52).
  { unfold e. apply Rinv_lt_contravar; [apply Rmult_lt_0_compat; apply pow_lt; lra|].
    apply Rlt_pow; [lra|lia]. }
  assert (He2 : / 2 ^ 52 < 1).
  { rewrite <- Rinv_1. apply Rinv_lt_contravar; [rewrite Rmult_1_l; apply pow_lt; lra|].
    apply Rlt_pow_R1; [lra|lia]. }
  assert (Hinv : cinv2 s).
  { split; [|intros _; cbn; lra].
    unfold cinv, cL, cH. cbn. rewrite Rmin_left, Rmax_right by lra.
    repeat split; try lra. apply (proj2 (Rsign_prod_le0 _ _)). nra. }
  split; [exact Hinv|]. split; [reflexivity|].
  destruct (cphase1_abc s) as (_ & _ & _ & _ & Ea & Efa & Hcases).
  assert (Ext : cxt s = - e) by (unfold cxt; cbn; rminmax; lra).
  rewrite Ext in Ea, Efa, Hcases. cbn [cf cfa s] in Efa, Hcases.
  destruct Hcases as [(Hsg & _)|(_ & Eb & Ec & Efb & _)].
  { exfalso. cbn in Hsg.
    destruct (Rsign_cases (- e)) as [[? _]|[[_ E1]|[? _]]]; try lra.
    destruct (Rsign_cases e) as [[_ E2]|[[? _]|[? _]]]; try lra.
    all: try (rewrite E1, E2 in Hsg; lra). }
  cbn [ca cb cfa s] in Eb, Ec, Efb.
  pose proof (ctolR_pos (mxm (cphase1 RA s))) as Htol.
  assert (Htol2 : 2 * / 2 ^ 52 <= ctolR (mxm (cphase1 RA s))).
  { unfold ctolR. pose proof (Rabs_pos (mxm (cphase1 RA s))).
    assert (0 < / 2 ^ 52) by lra. nra. }
  split.
  - apply (proj2 (chandrupatla_terminated s (proj1 Hinv) eq_refl)). right.
    rewrite Eb, Ec. split; [lra|].
    replace (e - -3 * e) with (4 * e) by ring. rewrite Rabs_right by lra. lra.
  - destruct (cphase1_xm s) as ([(_ & -> & _)|(_ & -> & _)] & _).
    + rewrite Ea. cbn. lra.
    + rewrite Eb. cbn. lra.
Qed.

(* ------------------------------------------------------------------------- *)
(* 12. Assumptions                                                            *)
(* ------------------------------------------------------------------------- *)
Print Assumptions bisect_rejects.
Print Assumptions bisect_accepts.
Print Assumptions bisect_invariant.
Print Assumptions bisect_step_halves.
Print Assumptions bisect_correct.
Print Assumptions bisect_result_near_any_root.
Print Assumptions bisect_lane_independent.
Print Assumptions chandrupatla_rejects.
Print Assumptions chandrupatla_correct.
Print Assumptions chandrupatla_terminated.
Print Assumptions chandrupatla_last_terminated_near_root.
Print Assumptions chandrupatla_lane_independent.
