(* C13 proofs: the score matrix does not depend on the container or on the column
   order; it is computed row by row; missing columns are silently dropped;
   scores are monotone; log-density = ln o density. *)
From Coq Require Import List Bool Arith Lia Permutation.
From Cop Require Import Model.Scores.
Import ListNotations.

Section ScoresProofs.
  Variables label V S : Type.
  Variable label_eqb : label -> label -> bool.
  Hypothesis label_eqb_spec : forall a b, label_eqb a b = true <-> a = b.

  Notation frame := (frame label V).
  Notation container := (container label V).
  Notation cell := (cell label V label_eqb).
  Notation assoc := (assoc label label_eqb).
  Notation mem := (mem label label_eqb).
  Notation score_row := (score_row label V S label_eqb).
  Notation present := (present label V S label_eqb).
  Notation transform_frame := (transform_frame label V S label_eqb).
  Notation transform_to_normal := (transform_to_normal label V S label_eqb).
  Notation to_frame := (to_frame label V).
  Notation wf_frame := (wf_frame label V).
  Notation reindex := (reindex label V label_eqb).
  Notation reindex_row := (reindex_row label V label_eqb).

  Lemma label_eqb_refl : forall a, label_eqb a a = true.
  Proof. intros. apply label_eqb_spec. reflexivity. Qed.

  Lemma mem_In : forall c l, mem c l = true <-> In c l.
  Proof.
    intros c l. unfold Scores.mem. rewrite existsb_exists. split.
    - intros [x [Hin He]]. apply label_eqb_spec in He. subst. auto.
    - intros H. exists c. split; auto. apply label_eqb_refl.
  Qed.

  Lemma mem_ext : forall l l', (forall c, In c l <-> In c l') -> forall c, mem c l = mem c l'.
  Proof.
    intros l l' H c. destruct (mem c l) eqn:E1, (mem c l') eqn:E2; auto.
    - apply mem_In in E1. apply H in E1. apply mem_In in E1. congruence.
    - apply mem_In in E2. apply H in E2. apply mem_In in E2. congruence.
  Qed.

  (* a label is found in a well-formed row iff it is in the header *)
  Lemma cell_None_iff : forall hdr r c,
      length r = length hdr -> (cell hdr r c = None <-> ~ In c hdr).
  Proof.
    unfold Scores.cell. induction hdr as [|h tl IH]; intros r c Hl; simpl.
    - tauto.
    - destruct r as [|v r]; simpl in Hl; [discriminate|]. simpl.
      destruct (label_eqb c h) eqn:E.
      + apply label_eqb_spec in E. subst. split; [discriminate|]. intros H; exfalso; auto.
      + rewrite IH by lia. split; intros H.
        * intros [Hh|Hin]; auto. subst. rewrite label_eqb_refl in E. discriminate.
        * tauto.
  Qed.

  Lemma cell_Some_mem : forall hdr r c,
      length r = length hdr -> mem c hdr = match cell hdr r c with Some _ => true | None => false end.
  Proof.
    intros hdr r c Hl. destruct (cell hdr r c) eqn:E.
    - apply mem_In. destruct (mem c hdr) eqn:Em; [apply mem_In; auto|].
      exfalso. assert (~ In c hdr) by (intro Hin; apply mem_In in Hin; congruence).
      apply (cell_None_iff hdr r c Hl) in H. congruence.
    - apply (cell_None_iff hdr r c Hl) in E.
      destruct (mem c hdr) eqn:Em; auto. apply mem_In in Em. contradiction.
  Qed.

  (* ---------------------------------------------------------------- *)
  (** ** the score of a row only depends on the label -> cell function *)

  Lemma score_row_ext : forall cu hdr r hdr' r',
      (forall c, cell hdr r c = cell hdr' r' c) ->
      score_row cu hdr r = score_row cu hdr' r'.
  Proof.
    intros cu hdr r hdr' r' H. unfold Scores.score_row.
    induction cu as [|[c u] tl IH]; simpl; auto. rewrite H, IH. reflexivity.
  Qed.

  Lemma present_ext : forall cu hdr hdr',
      (forall c, In c hdr <-> In c hdr') -> present cu hdr = present cu hdr'.
  Proof.
    intros cu hdr hdr' H. unfold Scores.present. apply filter_ext.
    intros [c u]. simpl. apply mem_ext. exact H.
  Qed.

  Definition same_cells (f f' : frame) : Prop :=
    Forall2 (fun r r' => forall c, cell (header f) r c = cell (header f') r' c) (rows f) (rows f').

  Lemma map_Forall2_eq : forall A B (g g' : A -> B) l l' (R : A -> A -> Prop),
      Forall2 R l l' -> (forall a a', R a a' -> g a = g' a') -> map g l = map g' l'.
  Proof. induction 1; intros; simpl; auto. f_equal; auto. Qed.

  (** [scores_label_extensional]: two well-formed frames with the same label set and
      the same cell under every label in every row have the same score matrix. *)
  Theorem scores_label_extensional : forall cu (f f' : frame),
      wf_frame f = true -> wf_frame f' = true ->
      (forall c, In c (header f) <-> In c (header f')) ->
      same_cells f f' ->
      transform_frame cu f = transform_frame cu f'.
  Proof.
    intros cu f f' Hwf Hwf' Hlab Hcells. unfold Scores.transform_frame.
    rewrite Hwf, Hwf'. simpl. rewrite (present_ext cu _ _ Hlab).
    destruct (present cu (header f')); auto. f_equal.
    eapply map_Forall2_eq; eauto. intros r r' H. apply score_row_ext; auto.
  Qed.

  (* ---------------------------------------------------------------- *)
  (** ** re-laying out the columns: pandas X[hdr'] *)

  Section Reindex.
    Variable hdr : list label.
    Variable r : list V.
    Notation get := (cell hdr r).

    Lemma combine_reindex : forall l,
        (forall c, In c l -> get c <> None) ->
        combine l (reindex_row hdr r l) =
        flat_map (fun c => match get c with Some v => [(c, v)] | None => [] end) l.
    Proof.
      unfold Scores.reindex_row. induction l as [|a tl IH]; intros H; simpl; auto.
      destruct (get a) eqn:E.
      - simpl. f_equal. apply IH. intros; apply H; right; auto.
      - exfalso. apply (H a); auto. left; auto.
    Qed.

    Lemma reindex_row_length : forall l,
        (forall c, In c l -> get c <> None) -> length (reindex_row hdr r l) = length l.
    Proof.
      unfold Scores.reindex_row. induction l as [|a tl IH]; intros H; simpl; auto.
      destruct (get a) eqn:E.
      - simpl. f_equal. apply IH. intros; apply H; right; auto.
      - exfalso. apply (H a); auto. left; auto.
    Qed.

    Lemma assoc_flat : forall l c,
        assoc c (flat_map (fun c' => match get c' with Some v => [(c', v)] | None => [] end) l)
        = if mem c l then get c else None.
    Proof.
      induction l as [|a tl IH]; intros c; simpl; auto.
      destruct (get a) eqn:E; simpl.
      - destruct (label_eqb c a) eqn:Ec; simpl.
        + apply label_eqb_spec in Ec. subst. auto.
        + apply IH.
      - rewrite IH. destruct (label_eqb c a) eqn:Ec; simpl; auto.
        apply label_eqb_spec in Ec. subst. rewrite E. destruct (mem a tl); auto.
    Qed.
  End Reindex.

  Lemma reindex_cell : forall hdr r hdr' c,
      length r = length hdr ->
      (forall x, In x hdr <-> In x hdr') ->
      cell hdr' (reindex_row hdr r hdr') c = cell hdr r c.
  Proof.
    intros hdr r hdr' c Hl Hlab.
    assert (Hall : forall x, In x hdr' -> cell hdr r x <> None).
    { intros x Hin Hn. apply (cell_None_iff hdr r x Hl) in Hn. apply Hn. apply Hlab; auto. }
    unfold Scores.cell at 1. rewrite combine_reindex by exact Hall.
    rewrite assoc_flat. destruct (mem c hdr') eqn:E; auto.
    symmetry. apply cell_None_iff; auto. intros Hin. apply Hlab in Hin.
    apply mem_In in Hin. congruence.
  Qed.

  Lemma wf_rows : forall (f : frame),
      wf_frame f = true <-> (forall r, In r (rows f) -> length r = length (header f)).
  Proof.
    intros f. unfold Scores.wf_frame. rewrite forallb_forall.
    split; intros H r Hin; [apply Nat.eqb_eq|apply Nat.eqb_eq]; auto.
  Qed.

  Lemma reindex_wf : forall (f : frame) hdr',
      wf_frame f = true -> (forall x, In x (header f) <-> In x hdr') ->
      wf_frame (reindex f hdr') = true.
  Proof.
    intros f hdr' Hwf Hlab. apply wf_rows. simpl. intros r' Hin.
    apply in_map_iff in Hin. destruct Hin as [r [<- Hin]].
    apply reindex_row_length. intros c Hc Hn.
    rewrite wf_rows in Hwf. apply (cell_None_iff _ r c (Hwf r Hin)) in Hn.
    apply Hn. apply Hlab. auto.
  Qed.

  Lemma reindex_same_cells : forall (f : frame) hdr',
      wf_frame f = true -> (forall x, In x (header f) <-> In x hdr') ->
      same_cells (reindex f hdr') f.
  Proof.
    intros f hdr' Hwf Hlab. unfold same_cells. simpl.
    rewrite wf_rows in Hwf. revert Hwf. generalize (rows f) as rs.
    induction rs as [|r tl IH]; intros Hwf; simpl; constructor.
    - intros c. apply reindex_cell; auto. apply Hwf. left; auto.
    - apply IH. intros; apply Hwf; right; auto.
  Qed.

  (** [scores_permutation_invariant]: a DataFrame holding the same columns in ANY
      order gives the same score matrix (distinct labels). *)
  Theorem scores_permutation_invariant : forall columns univariates (f : frame) hdr',
      wf_frame f = true -> NoDup (header f) -> Permutation (header f) hdr' ->
      transform_to_normal columns univariates (CFrame (reindex f hdr')) =
      transform_to_normal columns univariates (CFrame f).
  Proof.
    intros columns univariates f hdr' Hwf _ Hperm. unfold Scores.transform_to_normal. simpl.
    assert (Hlab : forall x, In x (header f) <-> In x hdr').
    { intros x; split; intros H.
      - eapply Permutation_in; eauto.
      - eapply Permutation_in; [apply Permutation_sym|]; eauto. }
    apply scores_label_extensional.
    - apply reindex_wf; auto.
    - exact Hwf.
    - simpl. intros c. symmetry. apply Hlab.
    - apply reindex_same_cells; auto.
  Qed.

  (* ---------------------------------------------------------------- *)
  (** ** arrays, Series *)

  (** [scores_array_equals_frame]: a 2-d array is read positionally in TRAINING
      order, i.e. as the frame whose header is self.columns; a wrong width raises. *)
  Theorem scores_array_equals_frame : forall columns univariates rws,
      forallb (fun r => length r =? length columns) rws = true ->
      transform_to_normal columns univariates (CArray2 rws) =
      transform_to_normal columns univariates (CFrame (Build_frame columns rws)).
  Proof.
    intros columns univariates rws H. unfold Scores.transform_to_normal. simpl.
    rewrite H. reflexivity.
  Qed.

  Theorem scores_array_wrong_width : forall columns univariates rws,
      forallb (fun r => length r =? length columns) rws = false ->
      transform_to_normal columns univariates (CArray2 rws) = Err ValueError_shape.
  Proof.
    intros columns univariates rws H. unfold Scores.transform_to_normal. simpl.
    rewrite H. reflexivity.
  Qed.

  (* array in training order = frame in any column order *)
  Corollary scores_array_equals_permuted_frame : forall columns univariates rws hdr',
      forallb (fun r => length r =? length columns) rws = true ->
      NoDup columns -> Permutation columns hdr' ->
      transform_to_normal columns univariates (CArray2 rws) =
      transform_to_normal columns univariates
        (CFrame (reindex (Build_frame columns rws) hdr')).
  Proof.
    intros columns univariates rws hdr' H Hnd Hp.
    rewrite scores_array_equals_frame by exact H. symmetry.
    apply scores_permutation_invariant; auto.
  Qed.

  Lemma map_fst_combine : forall A B (l : list A) (l' : list B),
      length l = length l' -> map fst (combine l l') = l.
  Proof.
    induction l; destruct l'; simpl; intros; try discriminate; auto. f_equal; auto.
  Qed.
  Lemma map_snd_combine : forall A B (l : list A) (l' : list B),
      length l = length l' -> map snd (combine l l') = l'.
  Proof.
    induction l; destruct l'; simpl; intros; try discriminate; auto. f_equal; auto.
  Qed.

  (* a Series is the one-row frame whose header is its index *)
  Theorem scores_series_is_one_row_frame : forall columns univariates items,
      transform_to_normal columns univariates (CSeries items) =
      transform_to_normal columns univariates
        (CFrame (Build_frame (map fst items) [map snd items])).
  Proof. reflexivity. Qed.

  (* a 1-d array is the Series labelled with the training columns, and the
     one-row 2-d array *)
  Theorem scores_array1 : forall columns univariates xs,
      length xs = length columns ->
      transform_to_normal columns univariates (CArray1 xs) =
      transform_to_normal columns univariates (CSeries (combine columns xs)) /\
      transform_to_normal columns univariates (CArray1 xs) =
      transform_to_normal columns univariates (CArray2 [xs]).
  Proof.
    intros columns univariates xs H. unfold Scores.transform_to_normal. simpl.
    rewrite map_fst_combine, map_snd_combine by auto.
    apply Nat.eqb_eq in H. rewrite H. simpl. auto.
  Qed.

  Theorem scores_array1_wrong_width : forall columns univariates xs,
      length xs <> length columns ->
      transform_to_normal columns univariates (CArray1 xs) = Err ValueError_shape.
  Proof.
    intros columns univariates xs H. unfold Scores.transform_to_normal. simpl.
    apply Nat.eqb_neq in H. rewrite H. reflexivity.
  Qed.

  (* ---------------------------------------------------------------- *)
  (** ** row-wise *)

  Lemma transform_frame_Ok : forall cu (f : frame) M,
      transform_frame cu f = Ok M ->
      wf_frame f = true /\ present cu (header f) <> [] /\
      M = map (score_row cu (header f)) (rows f).
  Proof.
    intros cu f M. unfold Scores.transform_frame.
    destruct (wf_frame f); simpl; [|discriminate].
    destruct (present cu (header f)) eqn:E; [discriminate|].
    intros H; inversion H; subst. repeat split; auto. discriminate.
  Qed.

  (** [scores_rowwise]: row i of the result is a function of row i of X (and of the
      header) only: it equals the single row obtained from the one-row Series that
      holds row i. *)
  Theorem scores_rowwise : forall cu (f : frame) M i r,
      transform_frame cu f = Ok M -> nth_error (rows f) i = Some r ->
      nth_error M i = Some (score_row cu (header f) r) /\
      transform_frame cu (Build_frame (header f) [r]) = Ok [score_row cu (header f) r].
  Proof.
    intros cu f M i r H Hn. apply transform_frame_Ok in H. destruct H as [Hwf [Hp ->]].
    split.
    - rewrite nth_error_map, Hn. reflexivity.
    - rewrite wf_rows in Hwf. apply nth_error_In in Hn.
      unfold Scores.transform_frame, Scores.wf_frame. simpl.
      rewrite (proj2 (Nat.eqb_eq _ _) (Hwf r Hn)). simpl.
      destruct (present cu (header f)); [contradiction|reflexivity].
  Qed.

  Corollary scores_rowwise_two_frames : forall cu hdr rows1 rows2 M1 M2 i r,
      transform_frame cu (Build_frame hdr rows1) = Ok M1 ->
      transform_frame cu (Build_frame hdr rows2) = Ok M2 ->
      nth_error rows1 i = Some r -> nth_error rows2 i = Some r ->
      nth_error M1 i = nth_error M2 i.
  Proof.
    intros cu hdr rows1 rows2 M1 M2 i r H1 H2 Hn1 Hn2.
    destruct (scores_rowwise _ _ _ _ _ H1 Hn1) as [-> _].
    destruct (scores_rowwise _ _ _ _ _ H2 Hn2) as [-> _]. reflexivity.
  Qed.

  Corollary scores_row_count : forall cu (f : frame) M,
      transform_frame cu f = Ok M -> length M = length (rows f).
  Proof.
    intros cu f M H. apply transform_frame_Ok in H. destruct H as [_ [_ ->]].
    apply map_length.
  Qed.

  (* ---------------------------------------------------------------- *)
  (** ** missing columns *)

  Lemma score_row_present : forall cu hdr r,
      length r = length hdr ->
      score_row cu hdr r = score_row (present cu hdr) hdr r /\
      length (score_row cu hdr r) = length (present cu hdr).
  Proof.
    intros cu hdr r Hl. unfold Scores.score_row, Scores.present.
    induction cu as [|[c u] tl [IH1 IH2]]; simpl; auto.
    rewrite (cell_Some_mem hdr r c Hl). destruct (cell hdr r c) eqn:E; simpl.
    - rewrite E. simpl. split; f_equal; auto.
    - auto.
  Qed.

  (** [scores_missing_column]: training columns absent from X are silently skipped:
      no error as long as one training column is present; every row of the result
      has one entry per PRESENT training column, in training order (so the matrix
      handed to scipy has fewer than d columns). *)
  Theorem scores_missing_column : forall cu (f : frame),
      wf_frame f = true -> present cu (header f) <> [] ->
      exists M, transform_frame cu f = Ok M /\
                transform_frame (present cu (header f)) f = Ok M /\
                Forall (fun row => length row = length (present cu (header f))) M.
  Proof.
    intros cu f Hwf Hp. exists (map (score_row cu (header f)) (rows f)).
    unfold Scores.transform_frame. rewrite Hwf. simpl.
    assert (Hpp : present (present cu (header f)) (header f) = present cu (header f)).
    { clear Hp. unfold Scores.present. induction cu as [|a tl IH]; simpl; auto.
      destruct (mem (fst a) (header f)) eqn:E; simpl.
      - rewrite E. f_equal. apply IH.
      - apply IH. }
    rewrite Hpp. destruct (present cu (header f)) eqn:E; [contradiction|].
    rewrite <- E. rewrite wf_rows in Hwf. repeat split.
    - f_equal. apply map_ext_in. intros r Hin. symmetry. apply score_row_present. auto.
    - apply Forall_forall. intros row Hin. apply in_map_iff in Hin.
      destruct Hin as [r [<- Hin]]. apply score_row_present. auto.
  Qed.

  Theorem scores_no_training_column : forall cu (f : frame),
      wf_frame f = true -> (forall c, In c (map fst cu) -> ~ In c (header f)) ->
      transform_frame cu f = Err ValueError_no_arrays.
  Proof.
    intros cu f Hwf H. unfold Scores.transform_frame. rewrite Hwf. simpl.
    assert (Hp : present cu (header f) = []).
    { unfold Scores.present. induction cu as [|[c u] tl IH]; simpl; auto.
      destruct (mem c (header f)) eqn:E.
      - apply mem_In in E. exfalso. apply (H c); simpl; auto.
      - apply IH. intros; apply H; simpl; auto. }
    rewrite Hp. reflexivity.
  Qed.

  (* extra (non-training) columns are ignored *)
  Theorem scores_all_present_width : forall cu (f : frame) M,
      transform_frame cu f = Ok M ->
      (forall c, In c (map fst cu) -> In c (header f)) ->
      Forall (fun row => length row = length cu) M.
  Proof.
    intros cu f M H Hall.
    assert (Hp : present cu (header f) = cu).
    { unfold Scores.present. clear H. induction cu as [|[c u] tl IH]; simpl; auto.
      assert (E : mem c (header f) = true) by (apply mem_In; apply Hall; simpl; auto).
      rewrite E. f_equal. apply IH. intros; apply Hall; simpl; auto. }
    pose proof (transform_frame_Ok _ _ _ H) as [Hwf [Hne _]].
    destruct (scores_missing_column cu f Hwf Hne) as [M' [H1 [_ H3]]].
    rewrite H in H1. inversion H1; subst. rewrite Hp in H3. exact H3.
  Qed.

  (* ---------------------------------------------------------------- *)
  (** ** density / CDF delegation and log-density *)

  Variables corr P : Type.
  Variable mvn_pdf : list (list S) -> corr -> bool -> result (list P).
  Variable mvn_cdf : list (list S) -> corr -> result (list P).
  Variable np_log : P -> P.
  Notation model := (model label V S corr).
  Notation pdf := (probability_density label V S label_eqb corr P mvn_pdf).
  Notation cdf := (cumulative_distribution label V S label_eqb corr P mvn_cdf).
  Notation logpdf := (log_probability_density label V S label_eqb corr P mvn_pdf np_log).

  Theorem pdf_delegation : forall (m : model) X ps,
      pdf m X = Ok ps ->
      fitted _ _ _ _ m = true /\
      exists scores,
        transform_to_normal (columns _ _ _ _ m) (univariates _ _ _ _ m) X = Ok scores /\
        mvn_pdf scores (correlation _ _ _ _ m) true = Ok ps.
  Proof.
    intros m X ps. unfold Scores.probability_density.
    destruct (fitted _ _ _ _ m); simpl; [|discriminate].
    destruct (transform_to_normal _ _ X) as [sc|e]; [|discriminate].
    intros H. split; auto. exists sc. auto.
  Qed.

  Theorem cdf_delegation : forall (m : model) X ps,
      cdf m X = Ok ps ->
      fitted _ _ _ _ m = true /\
      exists scores,
        transform_to_normal (columns _ _ _ _ m) (univariates _ _ _ _ m) X = Ok scores /\
        mvn_cdf scores (correlation _ _ _ _ m) = Ok ps.
  Proof.
    intros m X ps. unfold Scores.cumulative_distribution.
    destruct (fitted _ _ _ _ m); simpl; [|discriminate].
    destruct (transform_to_normal _ _ X) as [sc|e]; [|discriminate].
    intros H. split; auto. exists sc. auto.
  Qed.

  Theorem not_fitted : forall (m : model) X,
      fitted _ _ _ _ m = false ->
      pdf m X = Err NotFittedError /\ cdf m X = Err NotFittedError /\
      logpdf m X = Err NotFittedError.
  Proof.
    intros m X H. unfold Scores.log_probability_density, Scores.probability_density,
                  Scores.cumulative_distribution. rewrite H. simpl. auto.
  Qed.

  (** [logpdf_is_ln_pdf] *)
  Theorem logpdf_is_ln_pdf : forall (m : model) X,
      logpdf m X = match pdf m X with Ok ps => Ok (map np_log ps) | Err e => Err e end.
  Proof. reflexivity. Qed.

  Corollary logpdf_Ok : forall (m : model) X ls,
      logpdf m X = Ok ls <-> exists ps, pdf m X = Ok ps /\ ls = map np_log ps.
  Proof.
    intros m X ls. rewrite logpdf_is_ln_pdf. destruct (pdf m X) as [ps|e]; split.
    - intros H; inversion H; subst. eauto.
    - intros [ps' [H ->]]. inversion H; subst. reflexivity.
    - discriminate.
    - intros [ps' [H _]]. discriminate.
  Qed.

  (* containers with the same score matrix have the same density, CDF, log-density *)
  Theorem pdf_container_invariant : forall (m : model) X X',
      transform_to_normal (columns _ _ _ _ m) (univariates _ _ _ _ m) X =
      transform_to_normal (columns _ _ _ _ m) (univariates _ _ _ _ m) X' ->
      pdf m X = pdf m X' /\ cdf m X = cdf m X' /\ logpdf m X = logpdf m X'.
  Proof.
    intros m X X' H. unfold Scores.log_probability_density, Scores.probability_density,
                     Scores.cumulative_distribution. rewrite H. auto.
  Qed.
End ScoresProofs.

Print Assumptions scores_label_extensional.
Print Assumptions scores_permutation_invariant.
Print Assumptions scores_array_equals_frame.
Print Assumptions scores_rowwise.
Print Assumptions scores_missing_column.
Print Assumptions logpdf_is_ln_pdf.
Print Assumptions pdf_container_invariant.

(* non-vacuity *)
Lemma nat_eqb_spec : forall a b, Nat.eqb a b = true <-> a = b.
Proof. intros. apply Nat.eqb_eq. Qed.

Example perm_demo :
  transform_to_normal nat nat nat Nat.eqb demo_cols demo_univs
                      (CFrame (reindex nat nat Nat.eqb demo_frame [30; 10; 20])) =
  transform_to_normal nat nat nat Nat.eqb demo_cols demo_univs (CFrame demo_frame).
Proof.
  apply (scores_permutation_invariant nat nat nat Nat.eqb nat_eqb_spec).
  - reflexivity.
  - repeat constructor; simpl; intuition discriminate.
  - simpl. apply Permutation_sym.
    change [30; 10; 20] with ([30] ++ [10; 20]).
    change [10; 20; 30] with ([10; 20] ++ [30]). apply Permutation_app_comm.
Qed.

Example missing_demo :
  transform_to_normal nat nat nat Nat.eqb demo_cols demo_univs
                      (CFrame (Build_frame [30; 10] [[3; 1]; [6; 4]])) =
  Ok [[101; 303]; [104; 306]].
Proof. reflexivity. Qed.

(* ------------------------------------------------------------------ *)
(** * monotonicity of the scores (over R) *)
From Coq Require Import Reals Lra.
Open Scope R_scope.

Section Monotone.
  Variable label : Type.
  Variable label_eqb : label -> label -> bool.

  Definition nondecreasing (g : R -> R) : Prop := forall x y, x <= y -> g x <= g y.

  Notation cellR := (Scores.cell label R label_eqb).
  Notation score_rowR := (Scores.score_row label R R label_eqb).

  Lemma cell_Forall2 : forall r r', Forall2 Rle r r' -> forall hdr c,
      match cellR hdr r c, cellR hdr r' c with
      | Some a, Some b => a <= b
      | None, None => True
      | _, _ => False
      end.
  Proof.
    unfold Scores.cell. induction 1 as [|a b r r' Hab HF IH]; intros hdr c.
    - destruct hdr; simpl; auto.
    - destruct hdr as [|h tl]; simpl; auto.
      destruct (label_eqb c h); auto. apply IH.
  Qed.

  (** [scores_monotone]: if every per-cell score function is non-decreasing then the
      score row is component-wise non-decreasing in the data row. *)
  Theorem scores_monotone : forall (cu : list (label * (R -> R))) hdr r r',
      Forall (fun cu_j => nondecreasing (snd cu_j)) cu ->
      Forall2 Rle r r' ->
      Forall2 Rle (score_rowR cu hdr r) (score_rowR cu hdr r').
  Proof.
    intros cu hdr r r' Hmono Hle. unfold Scores.score_row.
    induction Hmono as [|[c u] tl Hu Htl IH]; simpl; [constructor|].
    pose proof (cell_Forall2 r r' Hle hdr c) as Hc.
    destruct (cellR hdr r c), (cellR hdr r' c); try contradiction; simpl; auto.
  Qed.

  (* the concrete shape of a score function:  Phi^-1 ( clip (cdf_j x) ) *)
  Variable eps : R.
  Definition clip (x : R) : R := Rmax eps (Rmin (1 - eps) x).

  Lemma clip_nondecreasing : nondecreasing clip.
  Proof.
    intros x y H. unfold clip. apply Rle_max_compat_l. apply Rle_min_compat_l. exact H.
  Qed.

  Lemma clip_range : eps <= 1 - eps -> forall x, eps <= clip x <= 1 - eps.
  Proof.
    intros He x. unfold clip. split.
    - apply Rmax_l.
    - apply Rmax_lub; auto. apply Rmin_l.
  Qed.

  Variable norm_ppf : R -> R.
  (* norm.ppf only needs to be monotone where it is used: on [eps, 1-eps] *)
  Hypothesis eps_ok : eps <= 1 - eps.
  Hypothesis norm_ppf_mono : forall p q, eps <= p -> p <= q -> q <= 1 - eps ->
                                         norm_ppf p <= norm_ppf q.

  Definition score_of (cdf : R -> R) (x : R) : R := norm_ppf (clip (cdf x)).

  Lemma score_of_nondecreasing : forall cdf, nondecreasing cdf -> nondecreasing (score_of cdf).
  Proof.
    intros cdf Hc x y H. unfold score_of. apply norm_ppf_mono.
    - apply clip_range; auto.
    - apply clip_nondecreasing. apply Hc. exact H.
    - apply clip_range; auto.
  Qed.

  Theorem scores_monotone_concrete : forall (cols : list label) (cdfs : list (R -> R)) hdr r r',
      Forall nondecreasing cdfs ->
      Forall2 Rle r r' ->
      Forall2 Rle (score_rowR (combine cols (map score_of cdfs)) hdr r)
                  (score_rowR (combine cols (map score_of cdfs)) hdr r').
  Proof.
    intros cols cdfs hdr r r' Hc Hle. apply scores_monotone; auto.
    revert cols. induction Hc as [|cdf tl Hcdf Htl IH]; intros cols.
    - destruct cols; constructor.
    - destruct cols as [|c cols]; simpl; constructor; auto.
      simpl. apply score_of_nondecreasing; auto.
  Qed.

  (* increasing one coordinate (position k) never decreases any score *)
  Corollary scores_monotone_coordinate : forall (cu : list (label * (R -> R))) hdr pre x y post,
      Forall (fun cu_j => nondecreasing (snd cu_j)) cu -> x <= y ->
      Forall2 Rle (score_rowR cu hdr (pre ++ x :: post)) (score_rowR cu hdr (pre ++ y :: post)).
  Proof.
    intros cu hdr pre x y post Hm Hxy. apply scores_monotone; auto.
    induction pre; simpl; constructor; auto; try apply Rle_refl.
    induction post; constructor; auto. apply Rle_refl.
  Qed.
End Monotone.

Print Assumptions scores_monotone.
Print Assumptions scores_monotone_concrete.

(* non-vacuity of the hypotheses of scores_monotone_concrete *)
Example monotone_hyps_inhabited :
  exists eps ppf, eps <= 1 - eps /\
    (forall p q, eps <= p -> p <= q -> q <= 1 - eps -> ppf p <= ppf q) /\ nondecreasing (fun x => x).
Proof.
  exists (1/4), (fun x => x). split; [lra|]. split; [intros; lra|]. intros x y H; exact H.
Qed.
