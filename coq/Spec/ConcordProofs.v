(* C01 proofs: concordance (hence Kendall's tau) is invariant under strictly increasing
   transformations of each column; schema of GaussianMultivariate.sample. *)
From Coq Require Import List Bool Arith ZArith Lia.
From Cop Require Import Model.Concord.
Import ListNotations.

(* ------------------------------------------------------------------ *)
(** * generic invariance *)

Lemma pairs_map : forall T T' (f : T -> T') (l : list T),
    pairs (map f l) = map (fun pq => (f (fst pq), f (snd pq))) (pairs l).
Proof.
  induction l as [|a tl IH]; simpl; auto.
  rewrite map_app, IH, !map_map. reflexivity.
Qed.

Lemma pairs_In : forall T (l : list T) p q, In (p, q) (pairs l) -> In p l /\ In q l.
Proof.
  induction l as [|a tl IH]; simpl; intros p q H; [contradiction|].
  apply in_app_or in H. destruct H as [H|H].
  - apply in_map_iff in H. destruct H as [x [Hx Hin]]. inversion Hx; subst. auto.
  - apply IH in H. tauto.
Qed.

(* pairs enumerates exactly the index pairs i < j *)
Lemma pairs_nth : forall T (l : list T) i j p q,
    (i < j)%nat -> nth_error l i = Some p -> nth_error l j = Some q -> In (p, q) (pairs l).
Proof.
  induction l as [|a tl IH]; intros i j p q Hij Hi Hj.
  - destruct i; discriminate.
  - simpl. apply in_or_app. destruct i as [|i].
    + left. simpl in Hi. inversion Hi; subst. destruct j as [|j]; [lia|]. simpl in Hj.
      apply in_map. eapply nth_error_In; eauto.
    + right. destruct j as [|j]; [lia|]. simpl in *. apply (IH i j p q); auto; lia.
Qed.

Lemma pairs_length : forall T (l : list T),
    (2 * length (pairs l) = length l * (length l - 1))%nat.
Proof.
  induction l as [|a tl IH]; simpl; auto.
  rewrite app_length, map_length. rewrite Nat.sub_0_r.
  destruct tl as [|b tl']; simpl in *; [reflexivity|]. rewrite Nat.sub_0_r in IH. lia.
Qed.

Lemma filter_map_length : forall T T' (F : T -> T') (P : T -> bool) (P' : T' -> bool) l,
    (forall x, In x l -> P' (F x) = P x) ->
    length (filter P' (map F l)) = length (filter P l).
Proof.
  induction l as [|a tl IH]; intros H; simpl; auto.
  rewrite (H a) by (left; auto). destruct (P a); simpl; rewrite IH; auto;
    intros; apply H; right; auto.
Qed.

Section Invariance.
  Variables A B A' B' : Type.
  Variable cmpA : A -> A -> comparison.
  Variable cmpB : B -> B -> comparison.
  Variable cmpA' : A' -> A' -> comparison.
  Variable cmpB' : B' -> B' -> comparison.
  Variable g : A -> A'.
  Variable h : B -> B'.

  Definition tr (p : A * B) : A' * B' := (g (fst p), h (snd p)).

  Variable l : list (A * B).
  (* g and h preserve the comparisons on the values that occur in the data *)
  Hypothesis g_mono : forall p q, In p l -> In q l ->
                                  cmpA' (g (fst p)) (g (fst q)) = cmpA (fst p) (fst q).
  Hypothesis h_mono : forall p q, In p l -> In q l ->
                                  cmpB' (h (snd p)) (h (snd q)) = cmpB (snd p) (snd q).

  Lemma classify_invariant : forall p q, In p l -> In q l ->
      classify A' B' cmpA' cmpB' (tr p) (tr q) = classify A B cmpA cmpB p q.
  Proof.
    intros p q Hp Hq. unfold classify, tr. simpl. rewrite g_mono, h_mono; auto.
  Qed.

  (** every pair of rows (i, j) is concordant / discordant / tied after the
      transformation iff it was before *)
  Theorem pair_class_invariant : forall i j p q,
      nth_error l i = Some p -> nth_error l j = Some q ->
      exists p' q', nth_error (map tr l) i = Some p' /\ nth_error (map tr l) j = Some q' /\
                    classify A' B' cmpA' cmpB' p' q' = classify A B cmpA cmpB p q.
  Proof.
    intros i j p q Hi Hj. exists (tr p), (tr q).
    rewrite !nth_error_map, Hi, Hj. simpl. repeat split.
    apply classify_invariant; eapply nth_error_In; eauto.
  Qed.

  Lemma count_class_invariant : forall c,
      count_class A' B' cmpA' cmpB' c (map tr l) = count_class A B cmpA cmpB c l.
  Proof.
    intros c. unfold count_class. f_equal. rewrite pairs_map.
    apply filter_map_length. intros [p q] Hin. simpl.
    apply pairs_In in Hin. destruct Hin. rewrite classify_invariant; auto.
  Qed.

  (** all five counts, hence every variant of Kendall's tau, are unchanged *)
  Theorem kendall_invariant :
      kendall A' B' cmpA' cmpB' (map tr l) = kendall A B cmpA cmpB l.
  Proof.
    unfold kendall. rewrite !count_class_invariant.
    rewrite pairs_map, map_length. reflexivity.
  Qed.
End Invariance.

Print Assumptions pair_class_invariant.
Print Assumptions kendall_invariant.

(* n0 = n(n-1)/2 *)
Theorem kendall_n0 : forall A B cA cB (l : list (A * B)),
    (2 * n0 (kendall A B cA cB l) = Z.of_nat (length l) * (Z.of_nat (length l) - 1))%Z.
Proof.
  intros. change (n0 (kendall A B cA cB l)) with (Z.of_nat (length (pairs l))).
  pose proof (pairs_length _ l) as H.
  generalize dependent (length (pairs l)). generalize (length l). intros n p H.
  destruct n as [|k].
  - assert (p = 0)%nat by lia. subst. reflexivity.
  - rewrite Nat.sub_succ, Nat.sub_0_r in H. nia.
Qed.

(* ------------------------------------------------------------------ *)
(** * over R: strictly increasing maps *)
From Coq Require Import Reals Lra.
Open Scope R_scope.

Definition Rcmp (x y : R) : comparison :=
  match total_order_T x y with
  | inleft (left _) => Lt
  | inleft (right _) => Eq
  | inright _ => Gt
  end.

Lemma Rcmp_Lt : forall x y, Rcmp x y = Lt <-> x < y.
Proof. intros x y. unfold Rcmp. destruct (total_order_T x y) as [[H|H]|H]; split; intros; try discriminate; auto; lra. Qed.
Lemma Rcmp_Eq : forall x y, Rcmp x y = Eq <-> x = y.
Proof. intros x y. unfold Rcmp. destruct (total_order_T x y) as [[H|H]|H]; split; intros; try discriminate; auto; lra. Qed.
Lemma Rcmp_Gt : forall x y, Rcmp x y = Gt <-> y < x.
Proof. intros x y. unfold Rcmp. destruct (total_order_T x y) as [[H|H]|H]; split; intros; try discriminate; auto; lra. Qed.

(* the classification is the usual sign-of-product definition *)
Theorem classify_concordant_iff : forall x1 y1 x2 y2,
    classify R R Rcmp Rcmp (x1, y1) (x2, y2) = Concordant <-> (x1 - x2) * (y1 - y2) > 0.
Proof.
  intros. unfold classify, Rcmp. simpl.
  destruct (total_order_T x1 x2) as [[H|H]|H], (total_order_T y1 y2) as [[K|K]|K];
    simpl; split; intros E; try discriminate; try reflexivity; try nra.
Qed.

Theorem classify_discordant_iff : forall x1 y1 x2 y2,
    classify R R Rcmp Rcmp (x1, y1) (x2, y2) = Discordant <-> (x1 - x2) * (y1 - y2) < 0.
Proof.
  intros. unfold classify, Rcmp. simpl.
  destruct (total_order_T x1 x2) as [[H|H]|H], (total_order_T y1 y2) as [[K|K]|K];
    simpl; split; intros E; try discriminate; try reflexivity; try nra.
Qed.

Theorem classify_tied_iff : forall x1 y1 x2 y2,
    (classify R R Rcmp Rcmp (x1, y1) (x2, y2) <> Concordant /\
     classify R R Rcmp Rcmp (x1, y1) (x2, y2) <> Discordant) <-> (x1 - x2) * (y1 - y2) = 0.
Proof.
  intros. unfold classify, Rcmp. simpl.
  destruct (total_order_T x1 x2) as [[H|H]|H], (total_order_T y1 y2) as [[K|K]|K];
    simpl; split; try (intros [E1 E2]; try congruence; nra);
    intros E; try nra; split; discriminate.
Qed.

Definition incr_on (D : R -> Prop) (g : R -> R) : Prop :=
  forall a b, D a -> D b -> a < b -> g a < g b.

Lemma Rcmp_incr : forall D g a b, incr_on D g -> D a -> D b -> Rcmp (g a) (g b) = Rcmp a b.
Proof.
  intros D g a b Hg Ha Hb. destruct (Rcmp a b) eqn:E.
  - apply Rcmp_Eq in E. subst. apply Rcmp_Eq. reflexivity.
  - apply Rcmp_Lt in E. apply Rcmp_Lt. apply Hg; auto.
  - apply Rcmp_Gt in E. apply Rcmp_Gt. apply Hg; auto.
Qed.

Definition kendallR (xs ys : list R) := kendall R R Rcmp Rcmp (combine xs ys).

(* scipy.stats.kendalltau variants; x/0 = 0 in Coq where scipy returns nan —
   the invariance below holds for the counts themselves, so for both readings *)
Definition tau_b (k : kendall_counts) : R := IZR (tau_num k) / sqrt (IZR (tau_den2 k)).
Definition tau_a (k : kendall_counts) : R := IZR (tau_num k) / IZR (n0 k).

Lemma combine_map2 : forall A B A' B' (g : A -> A') (h : B -> B') xs ys,
    combine (map g xs) (map h ys) = map (tr A B A' B' g h) (combine xs ys).
Proof.
  induction xs as [|x xs IH]; destruct ys as [|y ys]; simpl; auto.
  unfold tr at 1. simpl. f_equal. apply IH.
Qed.

Lemma in_combine_Forall : forall (D E : R -> Prop) xs ys p,
    Forall D xs -> Forall E ys -> In p (combine xs ys) -> D (fst p) /\ E (snd p).
Proof.
  intros D E xs ys [a b] HD HE Hin. rewrite Forall_forall in HD, HE. split; simpl.
  - apply HD. eapply in_combine_l; eauto.
  - apply HE. eapply in_combine_r; eauto.
Qed.

(** [concord_invariant]: Kendall counts (so tau-a, tau-b, tau-c) of
    (map g xs, map h ys) EQUAL those of (xs, ys) for strictly increasing g, h. *)
Theorem concord_invariant : forall (Dx Dy : R -> Prop) g h xs ys,
    incr_on Dx g -> incr_on Dy h -> Forall Dx xs -> Forall Dy ys ->
    kendallR (map g xs) (map h ys) = kendallR xs ys.
Proof.
  intros Dx Dy g h xs ys Hg Hh Hx Hy. unfold kendallR. rewrite combine_map2.
  apply kendall_invariant.
  - intros p q Hp Hq.
    destruct (in_combine_Forall Dx Dy xs ys p Hx Hy Hp).
    destruct (in_combine_Forall Dx Dy xs ys q Hx Hy Hq).
    eapply Rcmp_incr; eauto.
  - intros p q Hp Hq.
    destruct (in_combine_Forall Dx Dy xs ys p Hx Hy Hp).
    destruct (in_combine_Forall Dx Dy xs ys q Hx Hy Hq).
    eapply Rcmp_incr; eauto.
Qed.

Corollary tau_b_invariant : forall (Dx Dy : R -> Prop) g h xs ys,
    incr_on Dx g -> incr_on Dy h -> Forall Dx xs -> Forall Dy ys ->
    tau_b (kendallR (map g xs) (map h ys)) = tau_b (kendallR xs ys) /\
    tau_a (kendallR (map g xs) (map h ys)) = tau_a (kendallR xs ys).
Proof.
  intros. erewrite concord_invariant; eauto.
Qed.

(* pair-level statement over R *)
Corollary concordant_pair_iff : forall (Dx Dy : R -> Prop) g h x1 y1 x2 y2,
    incr_on Dx g -> incr_on Dy h -> Dx x1 -> Dx x2 -> Dy y1 -> Dy y2 ->
    ((g x1 - g x2) * (h y1 - h y2) > 0 <-> (x1 - x2) * (y1 - y2) > 0) /\
    ((g x1 - g x2) * (h y1 - h y2) < 0 <-> (x1 - x2) * (y1 - y2) < 0) /\
    ((g x1 - g x2) * (h y1 - h y2) = 0 <-> (x1 - x2) * (y1 - y2) = 0).
Proof.
  intros Dx Dy g h x1 y1 x2 y2 Hg Hh Hx1 Hx2 Hy1 Hy2.
  assert (E : classify R R Rcmp Rcmp (g x1, h y1) (g x2, h y2) =
              classify R R Rcmp Rcmp (x1, y1) (x2, y2)).
  { unfold classify. simpl. rewrite (Rcmp_incr Dx g), (Rcmp_incr Dy h); auto. }
  rewrite <- !classify_concordant_iff, <- !classify_discordant_iff, <- !classify_tied_iff.
  rewrite E. tauto.
Qed.

Print Assumptions concord_invariant.
Print Assumptions tau_b_invariant.
Print Assumptions concordant_pair_iff.

(* non-vacuity: exp-like strictly increasing maps exist; here x -> 2x+1 on R, x -> x^3 on x >= 0 *)
Example concord_demo :
  kendallR (map (fun x => 2 * x + 1) [1; 2; 3]) (map (fun y => y * y * y) [1; 3; 2])
  = kendallR [1; 2; 3] [1; 3; 2].
Proof.
  apply (concord_invariant (fun _ => True) (fun y => 0 <= y)).
  - intros a b _ _ H. lra.
  - intros a b Ha Hb H.
    assert (K : 0 < (b - a) * (b * b + a * b + a * a)).
    { apply Rmult_lt_0_compat; [lra|]. assert (0 < b * b) by nra.
      assert (0 <= a * b) by nra. assert (0 <= a * a) by nra. lra. }
    lra.
  - repeat constructor.
  - repeat constructor; lra.
Qed.

Close Scope R_scope.

(* ------------------------------------------------------------------ *)
(** * sample schema *)

Section SampleProofs.
  Variables label Zt U V corr : Type.
  Variable label_eqb : label -> label -> bool.
  Hypothesis label_eqb_spec : forall a b, label_eqb a b = true <-> a = b.
  Variable Phi : Zt -> U.
  Variable mvn_draw : nat -> corr -> nat -> list (list Zt).

  Notation gmodel := (gmodel label U V corr).
  Notation sample := (sample label Zt U V corr label_eqb Phi mvn_draw).
  Notation sample_loop := (sample_loop label Zt U V label_eqb Phi).
  Notation frame_column := (frame_column label Zt label_eqb).
  Notation scell := (scell label Zt label_eqb).
  Notation dict_set := (dict_set label label_eqb).
  Notation pos_column := (pos_column Zt).

  Lemma eqb_refl : forall a, label_eqb a a = true.
  Proof. intros. apply label_eqb_spec. reflexivity. Qed.

  Lemma eqb_neq : forall a b, a <> b -> label_eqb a b = false.
  Proof.
    intros a b H. destruct (label_eqb a b) eqn:E; auto.
    apply label_eqb_spec in E. contradiction.
  Qed.

  Lemma dict_set_fresh : forall T (d : list (label * T)) k v,
      ~ In k (map fst d) -> dict_set k v d = d ++ [(k, v)].
  Proof.
    induction d as [|[k' v'] tl IH]; intros k v H; simpl; auto.
    rewrite eqb_neq by (intro; subst; apply H; simpl; auto).
    rewrite IH; auto. intro; apply H; simpl; auto.
  Qed.

  (* with distinct labels, label lookup = positional lookup *)
  Lemma scell_nth : forall hdr r j c,
      NoDup hdr -> nth_error hdr j = Some c -> scell hdr r c = nth_error r j.
  Proof.
    unfold Concord.scell. induction hdr as [|h tl IH]; intros r j c Hnd Hn.
    - destruct j; discriminate.
    - inversion Hnd; subst. destruct j as [|j]; simpl in Hn.
      + inversion Hn; subst. destruct r; simpl; auto. rewrite eqb_refl. reflexivity.
      + destruct r as [|z r]; simpl.
        * reflexivity.
        * rewrite eqb_neq.
          -- eapply IH; eauto.
          -- intro; subst. apply H1. eapply nth_error_In; eauto.
  Qed.

  Lemma frame_column_pos : forall hdr rws j c,
      NoDup hdr -> nth_error hdr j = Some c ->
      frame_column hdr rws c = Some (pos_column rws j).
  Proof.
    intros hdr rws j c Hnd Hn. unfold Concord.frame_column.
    assert (E : existsb (label_eqb c) hdr = true).
    { apply existsb_exists. exists c. split; [eapply nth_error_In; eauto|apply eqb_refl]. }
    rewrite E. f_equal. unfold Concord.pos_column.
    induction rws as [|r tl IH]; simpl; auto.
    rewrite (scell_nth hdr r j c Hnd Hn), IH. reflexivity.
  Qed.

  Lemma pos_column_length : forall rws j d,
      Forall (fun r => length r = d) rws -> (j < d)%nat ->
      length (pos_column rws j) = length rws.
  Proof.
    intros rws j d H Hj. unfold Concord.pos_column.
    induction H as [|r tl Hr Htl IH]; simpl; auto.
    destruct (nth_error r j) eqn:E.
    - simpl. f_equal. exact IH.
    - apply nth_error_None in E. lia.
  Qed.

  (* the loop appends one output column per (label, univariate) pair, in zip order *)
  Lemma sample_loop_spec : forall hdr rws cu k out,
      NoDup hdr ->
      (forall i c ppf, nth_error cu i = Some (c, ppf) -> nth_error hdr (k + i) = Some c) ->
      (forall c, In c (map fst out) -> exists i, (i < k)%nat /\ nth_error hdr i = Some c) ->
      sample_loop hdr rws cu out =
      SOk (out ++ map (fun icu => (fst (snd icu),
                                   map (fun z => snd (snd icu) (Phi z)) (pos_column rws (fst icu))))
                      (combine (seq k (length cu)) cu)).
  Proof.
    intros hdr rws cu. induction cu as [|[c ppf] tl IH]; intros k out Hnd Hcu Hout; simpl.
    - rewrite app_nil_r. reflexivity.
    - assert (Hc : nth_error hdr k = Some c).
      { rewrite <- (Nat.add_0_r k). apply (Hcu 0%nat c ppf). reflexivity. }
      rewrite (frame_column_pos hdr rws k c Hnd Hc).
      rewrite dict_set_fresh.
      + rewrite (IH (S k)); auto.
        * rewrite <- app_assoc. reflexivity.
        * intros i c' ppf' Hn. replace (S k + i)%nat with (k + S i)%nat by lia.
          apply (Hcu (S i) c' ppf'). exact Hn.
        * intros c' Hin. rewrite map_app in Hin. apply in_app_or in Hin.
          destruct Hin as [Hin|Hin].
          -- destruct (Hout c' Hin) as [i [Hi Hn]]. exists i. split; auto.
          -- simpl in Hin. destruct Hin as [<-|[]]. exists k. split; auto.
      + intros Hin. destruct (Hout c Hin) as [i [Hi Hn]].
        assert (i = k); [|lia].
        eapply (proj1 (NoDup_nth_error hdr) Hnd); [|congruence].
        apply nth_error_Some. congruence.
  Qed.

  Lemma map_fst_combine' : forall A B (l : list A) (l' : list B),
      length l' = length l -> map fst (combine l l') = l.
  Proof.
    induction l; destruct l'; simpl; intros; try discriminate; auto. f_equal; auto.
  Qed.
  Lemma map_snd_combine' : forall A B (l : list A) (l' : list B),
      length l = length l' -> map snd (combine l l') = l'.
  Proof.
    induction l; destruct l'; simpl; intros; try discriminate; auto. f_equal; auto.
  Qed.
  Lemma nth_error_combine : forall A B (l : list A) (l' : list B) j a b,
      nth_error l j = Some a -> nth_error l' j = Some b ->
      nth_error (combine l l') j = Some (a, b).
  Proof.
    induction l as [|x l IH]; intros l' j a b H1 H2.
    - destruct j; discriminate.
    - destruct l' as [|y l']; [destruct j; discriminate|].
      destruct j as [|j]; simpl in *.
      + congruence.
      + apply IH; auto.
  Qed.
  Lemma nth_error_combine_inv : forall A B (l : list A) (l' : list B) j a b,
      nth_error (combine l l') j = Some (a, b) ->
      nth_error l j = Some a /\ nth_error l' j = Some b.
  Proof.
    induction l as [|x l IH]; intros l' j a b H.
    - destruct j; discriminate.
    - destruct l' as [|y l']; [destruct j; discriminate|].
      destruct j as [|j]; simpl in *.
      + inversion H; subst; auto.
      + apply IH; auto.
  Qed.
  Lemma nth_error_combine_seq : forall T (cu : list T) k j,
      nth_error (combine (seq k (length cu)) cu) j =
      match nth_error cu j with Some x => Some ((k + j)%nat, x) | None => None end.
  Proof.
    induction cu as [|a tl IH]; intros k j; simpl.
    - destruct j; reflexivity.
    - destruct j as [|j]; simpl.
      + rewrite Nat.add_0_r. reflexivity.
      + rewrite IH. replace (S k + j)%nat with (k + S j)%nat by lia. reflexivity.
  Qed.

  (** [sample_schema]: n rows; header = training columns in order; column j is
      map (ppf_j o Phi) (column j of Z): the zip pairing is the fit-time pairing. *)
  Theorem sample_schema : forall (m : gmodel) n,
      g_fitted _ _ _ _ m = true ->
      NoDup (g_columns _ _ _ _ m) ->
      length (g_univariates _ _ _ _ m) = length (g_columns _ _ _ _ m) ->
      let d := length (g_columns _ _ _ _ m) in
      let Z := mvn_draw d (g_correlation _ _ _ _ m) n in
      length Z = n -> Forall (fun r => length r = d) Z ->
      exists out,
        sample m n = SOk out /\
        map fst out = g_columns _ _ _ _ m /\
        Forall (fun col => length (snd col) = n) out /\
        forall j c ppf,
          nth_error (g_columns _ _ _ _ m) j = Some c ->
          nth_error (g_univariates _ _ _ _ m) j = Some ppf ->
          nth_error out j = Some (c, map (fun z => ppf (Phi z)) (pos_column Z j)).
  Proof.
    intros m n Hfit Hnd Hlen d Z HZn HZd.
    set (cols := g_columns _ _ _ _ m) in *. set (us := g_univariates _ _ _ _ m) in *.
    set (out := map (fun icu => (fst (snd icu),
                                 map (fun z => snd (snd icu) (Phi z)) (pos_column Z (fst icu))))
                    (combine (seq 0 (length (combine cols us))) (combine cols us))).
    assert (Hcl : length (combine cols us) = d).
    { rewrite combine_length. fold d in Hlen. subst d. lia. }
    assert (Hnth : forall j c ppf, nth_error cols j = Some c -> nth_error us j = Some ppf ->
                                   nth_error (combine cols us) j = Some (c, ppf))
      by (intros; apply nth_error_combine; auto).
    assert (Hnth' : forall j c ppf, nth_error (combine cols us) j = Some (c, ppf) ->
                                    nth_error cols j = Some c /\ nth_error us j = Some ppf)
      by (intros; apply nth_error_combine_inv; auto).
    exists out. split; [|split; [|split]].
    - unfold Concord.sample. rewrite Hfit. simpl. fold cols us d Z.
      assert (Hall : forallb (fun r => length r =? d) Z = true).
      { apply forallb_forall. intros r Hin. rewrite Forall_forall in HZd.
        apply Nat.eqb_eq. auto. }
      rewrite Hall. simpl.
      rewrite (sample_loop_spec cols Z (combine cols us) 0 []); auto.
      + intros i c ppf Hn. simpl. apply (Hnth' i c ppf Hn).
      + intros c [].
    - unfold out. rewrite map_map. simpl.
      rewrite <- (map_map snd fst). rewrite map_snd_combine' by (rewrite seq_length; reflexivity).
      apply map_fst_combine'. fold d in Hlen. auto.
    - apply Forall_forall. intros col Hin. unfold out in Hin.
      apply in_map_iff in Hin. destruct Hin as [[i x] [<- Hin]]. simpl.
      rewrite map_length. apply in_combine_l in Hin. apply in_seq in Hin.
      rewrite (pos_column_length Z i d); auto. lia.
    - intros j c ppf Hc Hu. unfold out. rewrite nth_error_map.
      rewrite nth_error_combine_seq. rewrite (Hnth j c ppf Hc Hu). reflexivity.
  Qed.
End SampleProofs.

Print Assumptions sample_schema.

(* non-vacuity: the demo model satisfies every hypothesis *)
Example sample_schema_demo :
  exists out,
    sample nat nat nat nat nat Nat.eqb (fun z => z)
           (fun d _ n => [[1; 2; 3]; [4; 5; 6]]%nat) demo_model 2 = SOk out /\
    map fst out = [10; 20; 30]%nat.
Proof.
  destruct (sample_schema nat nat nat nat nat Nat.eqb
              (fun a b => Nat.eqb_eq a b) (fun z => z)
              (fun d _ n => [[1; 2; 3]; [4; 5; 6]]%nat) demo_model 2) as [out [H1 [H2 _]]];
    try reflexivity.
  - repeat constructor; simpl; intuition discriminate.
  - repeat constructor.
  - exists out. auto.
Qed.
