(* C20 -- the figure shows exactly the given rows: multiset theorem for
   scatter_2d/3d and compare_2d/3d. *)
From Coq Require Import ZArith List Bool Arith Lia Permutation.
From Cop Require Import Model.Plot.
Import ListNotations.

(* ------------------------------------------------------------------ *)
(* The plotly oracle: grouping by colour is a permutation              *)
(* ------------------------------------------------------------------ *)
Section ScatterFacts.
  Variable A C : Type.
  Variable ceqb : C -> C -> bool.
  Hypothesis ceqb_eq : forall a b, ceqb a b = true <-> a = b.

  Lemma ceqb_refl c : ceqb c c = true.
  Proof. now apply ceqb_eq. Qed.

  Lemma first_appearance_In : forall cs c, In c (first_appearance ceqb cs) <-> In c cs.
  Proof.
    induction cs as [|d cs IH]; intros c; simpl; [tauto|].
    rewrite filter_In, IH. split.
    - intros [H|[H _]]; auto.
    - intros [H|H]; [now left|].
      destruct (ceqb c d) eqn:E; [left; symmetry; now apply ceqb_eq | right; split; [exact H | reflexivity]].
  Qed.

  Lemma first_appearance_NoDup : forall cs, NoDup (first_appearance ceqb cs).
  Proof.
    induction cs as [|d cs IH]; simpl; constructor.
    - rewrite filter_In. intros [_ H]. cbv beta in H. now rewrite ceqb_refl in H.
    - now apply NoDup_filter.
  Qed.

  Lemma filter_disjoint_perm (f g : A * C -> bool) : forall l,
    (forall x, f x = true -> g x = false) ->
    Permutation (filter f l ++ filter g l) (filter (fun x => f x || g x) l).
  Proof.
    intros l H. induction l as [|a l IH]; simpl; [constructor|].
    destruct (f a) eqn:Ef; simpl.
    - rewrite (H a Ef). simpl. now constructor.
    - destruct (g a); simpl; [|exact IH].
      eapply Permutation_trans; [apply Permutation_sym, Permutation_middle|]. now constructor.
  Qed.

  Definition group (pts : list (A * C)) (c : C) : list (A * C) :=
    filter (fun p => ceqb (snd p) c) pts.

  Lemma groups_perm (pts : list (A * C)) : forall cs, NoDup cs ->
    Permutation (flat_map (group pts) cs)
                (filter (fun p => existsb (ceqb (snd p)) cs) pts).
  Proof.
    induction cs as [|c cs IH]; intros Hnd; simpl.
    - induction pts; simpl; auto.
    - inversion Hnd as [|? ? Hnotin Hnd']; subst.
      eapply Permutation_trans; [apply Permutation_app_head, IH, Hnd'|].
      apply (filter_disjoint_perm (fun p => ceqb (snd p) c)
                                  (fun p => existsb (ceqb (snd p)) cs)).
      intros x Hx. apply ceqb_eq in Hx. subst c.
      destruct (existsb (ceqb (snd x)) cs) eqn:E; [|reflexivity].
      apply existsb_exists in E. destruct E as (y & Hy & Hxy).
      apply ceqb_eq in Hxy. subst y. contradiction.
  Qed.

  Lemma trace_points_group pts c :
    trace_points (c, map fst (group pts c)) = group pts c.
  Proof.
    unfold trace_points, group. simpl. rewrite map_map.
    induction pts as [|[a d] pts IH]; simpl; [reflexivity|].
    destruct (ceqb d c) eqn:E; simpl; [|exact IH].
    apply ceqb_eq in E. subst. now rewrite IH.
  Qed.

  Lemma fig_points_groups pts :
    fig_points (px_scatter ceqb pts) =
    flat_map (group pts) (first_appearance ceqb (map snd pts)).
  Proof.
    unfold fig_points, px_scatter.
    induction (first_appearance ceqb (map snd pts)) as [|c cs IH]; simpl; [reflexivity|].
    rewrite IH. f_equal. apply trace_points_group.
  Qed.

  (* the multiset of (point, colour) over all traces is the multiset of input rows *)
  Theorem px_scatter_perm (pts : list (A * C)) :
    Permutation (fig_points (px_scatter ceqb pts)) pts.
  Proof.
    rewrite fig_points_groups.
    eapply Permutation_trans; [apply groups_perm, first_appearance_NoDup|].
    assert (H : forall l, (forall p, In p l -> In p pts) ->
                filter (fun p => existsb (ceqb (snd p)) (first_appearance ceqb (map snd pts))) l = l).
    { induction l as [|p l IH]; intros Hl; simpl; [reflexivity|].
      replace (existsb (ceqb (snd p)) (first_appearance ceqb (map snd pts))) with true.
      - rewrite IH; [reflexivity|]. intros q Hq. apply Hl. now right.
      - symmetry. apply existsb_exists. exists (snd p). split; [|apply ceqb_refl].
        apply first_appearance_In. apply in_map. apply Hl. now left. }
    rewrite H; [apply Permutation_refl | auto].
  Qed.

  (* shape of the figure: distinct trace names; every trace is non-empty and holds
     exactly the rows of its colour, in the original order *)
  Theorem px_scatter_traces (pts : list (A * C)) :
    NoDup (map fst (px_scatter ceqb pts)) /\
    (forall t, In t (px_scatter ceqb pts) ->
       snd t = map fst (filter (fun p => ceqb (snd p) (fst t)) pts) /\ snd t <> []) /\
    (forall c, In c (map fst (px_scatter ceqb pts)) <-> In c (map snd pts)).
  Proof.
    unfold px_scatter. rewrite map_map. simpl. rewrite map_id.
    split; [apply first_appearance_NoDup|]. split.
    - intros t Ht. apply in_map_iff in Ht. destruct Ht as (c & <- & Hc). simpl.
      split; [reflexivity|].
      apply (proj1 (first_appearance_In _ _)) in Hc. apply in_map_iff in Hc. destruct Hc as (p & <- & Hp).
      intros Hnil.
      assert (Hin : In p (filter (fun q => ceqb (snd q) (snd p)) pts)).
      { apply filter_In. split; [exact Hp | apply ceqb_refl]. }
      apply (in_map fst) in Hin. rewrite Hnil in Hin. contradiction.
    - intros c. apply first_appearance_In.
  Qed.

  Corollary px_scatter_empty : px_scatter ceqb (@nil (A * C)) = [].
  Proof. reflexivity. Qed.
End ScatterFacts.

Lemma label_eqb_eq : forall a b, label_eqb a b = true <-> a = b.
Proof. intros [] []; simpl; split; intros; try reflexivity; try discriminate. Qed.

(* ------------------------------------------------------------------ *)
(* copulas.visualization                                               *)
(* ------------------------------------------------------------------ *)

Lemma generate_scatter_ok k data columns cols' fig :
  generate_scatter k data columns = (cols', inr fig) ->
  length (requested_axes k data columns) = k /\
  (columns <> [] -> length columns = k) /\ cols' = columns /\
  (forall c, In c (requested_axes k data columns) -> In c (tcols data)) /\
  fig = px_scatter label_eqb
          (map (fun r => (map (tcell r) (requested_axes k data columns), snd r)) (trows data)).
Proof.
  unfold generate_scatter. intros H.
  set (cols := match columns with [] => tcols data | _ => columns ++ [data_col] end) in *.
  destruct (Nat.eqb (length cols) (S k)) eqn:El; simpl in H; [|discriminate].
  apply Nat.eqb_eq in El.
  destruct (forallb (fun c => mem c (tcols data)) (firstn k cols)) eqn:Ef; [|discriminate].
  inversion H; subst cols' fig; clear H.
  assert (Hax : firstn k cols = requested_axes k data columns).
  { unfold requested_axes, cols in *. destruct columns as [|c0 cs]; [reflexivity|].
    rewrite app_length in El. simpl in El.
    rewrite firstn_app. replace (k - length (c0 :: cs)) with 0 by (simpl; lia).
    simpl firstn at 2. rewrite app_nil_r. apply firstn_all2. simpl. lia. }
  rewrite <- Hax. repeat split.
  - rewrite firstn_length. lia.
  - unfold cols in El. destruct columns; [congruence|].
    rewrite app_length in El. simpl in *. lia.
  - intros c Hc. rewrite forallb_forall in Ef. specialize (Ef c Hc).
    unfold mem in Ef. apply existsb_exists in Ef. destruct Ef as (y & Hy & E).
    apply Nat.eqb_eq in E. now subst.
Qed.

Lemma plot_nd_ok k t data columns cols' fig :
  plot_nd k t data columns = (cols', inr fig) ->
  generate_scatter k data columns = (cols', inr fig).
Proof. unfold plot_nd. destruct (title_ok k t data columns); [auto | discriminate]. Qed.

Definition compare_data (real synth : frame) : tframe :=
  concat (set_label Real real) (set_label Synthetic synth).

Lemma compare_rows axes real synth :
  map (fun r => (map (tcell r) axes, snd r)) (trows (compare_data real synth)) =
  tagged_points axes Real real ++ tagged_points axes Synthetic synth.
Proof.
  unfold compare_data, concat, set_label, tagged_points. simpl.
  rewrite map_app, !map_map. reflexivity.
Qed.

(* THE PLOT THEOREM (k = 2: compare_2d, k = 3: compare_3d).  If the call returns a
   figure, the multiset of (coordinates, label) over its traces is exactly
   real x {Real} (+) synth x {Synthetic}, restricted to the requested columns. *)
Theorem plot_rows_multiset_nd :
  forall k t real synth columns cols' fig,
    compare_nd k t real synth columns = (cols', inr fig) ->
    let axes := requested_axes k (compare_data real synth) columns in
    length axes = k /\
    (columns <> [] -> axes = columns) /\
    Permutation (fig_points fig)
                (tagged_points axes Real real ++ tagged_points axes Synthetic synth).
Proof.
  intros k t real synth columns cols' fig H axes.
  apply plot_nd_ok, generate_scatter_ok in H. destruct H as (H1 & H2 & Hcols & H3 & H4).
  split; [exact H1|]. split.
  - intros Hne. subst axes. unfold requested_axes. destruct columns; [congruence | reflexivity].
  - subst fig. fold (compare_data real synth). fold axes. rewrite compare_rows.
    apply px_scatter_perm. exact label_eqb_eq.
Qed.
Print Assumptions plot_rows_multiset_nd.

Theorem plot_rows_multiset :
  forall t real synth cx cy cols' fig,
    compare_2d t real synth [cx; cy] = (cols', inr fig) ->
    Permutation (fig_points fig)
      (map (fun r => ([tcell (r, Real) cx; tcell (r, Real) cy], Real)) (frows real) ++
       map (fun r => ([tcell (r, Synthetic) cx; tcell (r, Synthetic) cy], Synthetic)) (frows synth)).
Proof.
  intros t real synth cx cy cols' fig H.
  apply plot_rows_multiset_nd in H. destruct H as (_ & _ & H). exact H.
Qed.
Print Assumptions plot_rows_multiset.

Theorem plot_rows_multiset_3d :
  forall t real synth cx cy cz cols' fig,
    compare_3d t real synth [cx; cy; cz] = (cols', inr fig) ->
    Permutation (fig_points fig)
      (map (fun r => ([tcell (r, Real) cx; tcell (r, Real) cy; tcell (r, Real) cz], Real))
           (frows real) ++
       map (fun r => ([tcell (r, Synthetic) cx; tcell (r, Synthetic) cy; tcell (r, Synthetic) cz],
                      Synthetic)) (frows synth)).
Proof.
  intros t real synth cx cy cz cols' fig H.
  apply plot_rows_multiset_nd in H. destruct H as (_ & _ & H). exact H.
Qed.
Print Assumptions plot_rows_multiset_3d.

Lemma only_real (ls : list label) :
  (forall x, In x ls -> x = Real) ->
  filter (fun x => negb (label_eqb x Real)) (first_appearance label_eqb ls) = [].
Proof.
  intros H.
  destruct (filter (fun x => negb (label_eqb x Real)) (first_appearance label_eqb ls))
    as [|x l] eqn:E; [reflexivity|].
  assert (Hx : In x (x :: l)) by now left.
  rewrite <- E in Hx. apply filter_In in Hx. destruct Hx as [Hx1 Hx2].
  apply (proj1 (first_appearance_In label label_eqb label_eqb_eq _ _)) in Hx1.
  rewrite (H x Hx1) in Hx2. discriminate.
Qed.

(* scatter_2d / scatter_3d: Real only -- and here even the ORDER is preserved:
   the figure is a single trace named Real holding the rows in order (or no trace
   at all for an empty frame) *)
Theorem scatter_rows_multiset_nd :
  forall k t data columns cols' fig,
    scatter_nd k t data columns = (cols', inr fig) ->
    let axes := requested_axes k (set_label Real data) columns in
    length axes = k /\
    (columns <> [] -> axes = columns) /\
    Permutation (fig_points fig) (tagged_points axes Real data) /\
    fig = match frows data with
          | [] => []
          | _ => [(Real, map fst (tagged_points axes Real data))]
          end.
Proof.
  intros k t data columns cols' fig H axes.
  apply plot_nd_ok, generate_scatter_ok in H. destruct H as (H1 & H2 & Hcols & H3 & H4).
  fold axes in H4.
  assert (Hrows : map (fun r => (map (tcell r) axes, snd r)) (trows (set_label Real data)) =
                  tagged_points axes Real data).
  { unfold set_label, tagged_points. simpl. now rewrite map_map. }
  rewrite Hrows in H4.
  split; [exact H1|]. split.
  - intros Hne. subst axes. unfold requested_axes. destruct columns; [congruence | reflexivity].
  - split.
    + subst fig. apply px_scatter_perm. exact label_eqb_eq.
    + subst fig. unfold tagged_points. generalize (frows data) as rs.
      intros rs. destruct rs as [|r rs]; [reflexivity|].
      unfold px_scatter. simpl.
      rewrite only_real.
      2:{ intros x Hx. rewrite map_map in Hx. simpl in Hx.
          apply in_map_iff in Hx. now destruct Hx as (? & <- & _). }
      simpl. f_equal. f_equal. f_equal.
      induction rs as [|a rs IH]; simpl; [reflexivity|]. now rewrite IH.
Qed.
Print Assumptions scatter_rows_multiset_nd.

Theorem scatter_rows_multiset :
  forall t data cx cy cols' fig,
    scatter_2d t data [cx; cy] = (cols', inr fig) ->
    Permutation (fig_points fig)
      (map (fun r => ([tcell (r, Real) cx; tcell (r, Real) cy], Real)) (frows data)).
Proof.
  intros t data cx cy cols' fig H.
  apply scatter_rows_multiset_nd in H. destruct H as (_ & _ & H & _). exact H.
Qed.
Print Assumptions scatter_rows_multiset.

Theorem scatter_rows_multiset_3d :
  forall t data cx cy cz cols' fig,
    scatter_3d t data [cx; cy; cz] = (cols', inr fig) ->
    Permutation (fig_points fig)
      (map (fun r => ([tcell (r, Real) cx; tcell (r, Real) cy; tcell (r, Real) cz], Real))
           (frows data)).
Proof.
  intros t data cx cy cz cols' fig H.
  apply scatter_rows_multiset_nd in H. destruct H as (_ & _ & H & _). exact H.
Qed.
Print Assumptions scatter_rows_multiset_3d.

(* ------------------------------------------------------------------ *)
(* count_occ form: every (coordinates, label) pair occurs in the figure *)
(* exactly as often as among the given rows                            *)
(* ------------------------------------------------------------------ *)
Definition tp_eq_dec : forall x y : point * label, {x = y} + {x <> y}.
Proof. repeat decide equality. Defined.

Corollary plot_rows_count_occ :
  forall k t real synth columns cols' fig,
    compare_nd k t real synth columns = (cols', inr fig) ->
    let axes := requested_axes k (compare_data real synth) columns in
    forall pt, count_occ tp_eq_dec (fig_points fig) pt =
               count_occ tp_eq_dec (tagged_points axes Real real) pt +
               count_occ tp_eq_dec (tagged_points axes Synthetic synth) pt.
Proof.
  intros k t real synth columns cols' fig H axes pt.
  apply plot_rows_multiset_nd in H. destruct H as (_ & _ & H).
  rewrite <- count_occ_app. now apply Permutation_count_occ.
Qed.
Print Assumptions plot_rows_count_occ.

(* ------------------------------------------------------------------ *)
(* The caller's `columns` list is NOT touched (ties to the effect analysis). *)
(* History: before the repair of finding F16b the helpers appended 'Data' to *)
(* the caller's list; the theorems here were `columns_mutated` (the list came *)
(* back as columns ++ [data_col]) and `second_call_fails` (ErrColumnCount on a *)
(* second identical call).                                                    *)
(* ------------------------------------------------------------------ *)

(* whatever happens (figure, ValueError, IndexError) the list comes back as it was given *)
Theorem columns_untouched :
  forall k t data columns, fst (plot_nd k t data columns) = columns.
Proof.
  intros k t data columns. unfold plot_nd.
  destruct (title_ok k t data columns); [|reflexivity].
  unfold generate_scatter. destruct (negb _); [reflexivity|]. destruct (forallb _ _); reflexivity.
Qed.
Print Assumptions columns_untouched.

(* ... hence a second, identical call with the same list object gives the same outcome (same figure) *)
Theorem second_call_same :
  forall k t data columns,
    plot_nd k t data (fst (plot_nd k t data columns)) = plot_nd k t data columns.
Proof. intros k t data columns. now rewrite columns_untouched. Qed.
Print Assumptions second_call_same.

Corollary second_call_same_figure :
  forall k t data columns cols' fig,
    plot_nd k t data columns = (cols', inr fig) ->
    cols' = columns /\ plot_nd k t data cols' = (cols', inr fig).
Proof.
  intros k t data columns cols' fig H.
  pose proof (columns_untouched k t data columns) as E. rewrite H in E. simpl in E. subst cols'.
  split; [reflexivity | exact H].
Qed.

Corollary compare_2d_second_call_same :
  forall t real synth columns cols' fig,
    compare_2d t real synth columns = (cols', inr fig) ->
    compare_2d t real synth cols' = (cols', inr fig).
Proof. intros t real synth columns cols' fig H. now apply (second_call_same_figure 2 t _ columns). Qed.

(* with columns=None ([]) nothing of the caller is touched *)
Theorem columns_none_untouched :
  forall k t data, fst (plot_nd k t data []) = [].
Proof.
  intros k t data. unfold plot_nd. destruct (title_ok k t data []); [|reflexivity].
  unfold generate_scatter. destruct (negb _); [reflexivity|]. destruct (forallb _ _); reflexivity.
Qed.

(* ------------------------------------------------------------------ *)
(* Non-vacuity and concrete runs (cross-checked against the library)    *)
(* ------------------------------------------------------------------ *)
Example ex_compare_2d :
  compare_2d false fr_real fr_synth [1; 2] =
  ([1; 2],
   inr [(Real, [[VNum 1; VNum 5]; [VNum 2; VNum 6]]);
        (Synthetic, [[VNaN; VNum 1]; [VNaN; VNum 2]])]).
Proof. vm_compute. reflexivity. Qed.

Example plot_rows_multiset_nonvacuous :
  exists cols' fig, compare_2d false fr_real fr_synth [1; 2] = (cols', inr fig) /\
    Permutation (fig_points fig)
      (tagged_points [1; 2] Real fr_real ++ tagged_points [1; 2] Synthetic fr_synth).
Proof.
  eexists. eexists. split; [vm_compute; reflexivity|].
  pose proof (plot_rows_multiset_nd 2 false fr_real fr_synth [1; 2] _ _ ex_compare_2d) as H.
  destruct H as (_ & _ & H). exact H.
Qed.

(* interleaved colours: order of first appearance, rows regrouped -- a genuine permutation *)
Example ex_px_interleaved :
  px_scatter label_eqb [(1, Synthetic); (2, Real); (3, Synthetic); (4, Real)] =
  [(Synthetic, [1; 3]); (Real, [2; 4])].
Proof. reflexivity. Qed.

Example ex_second_call :
  compare_2d false fr_real fr_synth (fst (compare_2d false fr_real fr_synth [1; 2])) = compare_2d false fr_real fr_synth [1; 2].
Proof. exact (second_call_same 2 false _ [1; 2]). Qed.

Example ex_scatter_3d_nonvacuous :
  exists cols' fig, scatter_3d false fr_real [1; 2; 1] = (cols', inr fig) /\
    fig = [(Real, [[VNum 1; VNum 5; VNum 1]; [VNum 2; VNum 6; VNum 2]])].
Proof. eexists. eexists. split; vm_compute; reflexivity. Qed.

(* quirk: with columns=None and single-column frames, data.columns = [a; Data; b]
   and the y axis silently becomes the LABEL column (observed in the library too) *)
Example ex_label_on_axis :
  snd (compare_2d false (mkFrame [1] [[(1, 1%Z)]; [(1, 2%Z)]]) (mkFrame [2] [[(2, 3%Z)]; [(2, 4%Z)]]) []) =
  inr [(Real, [[VNum 1; VLab Real]; [VNum 2; VLab Real]]);
       (Synthetic, [[VNaN; VLab Synthetic]; [VNaN; VLab Synthetic]])].
Proof. vm_compute. reflexivity. Qed.

(* the error paths *)
Example ex_index_error : scatter_2d false fr_real [1] = ([1], inl ErrIndex).
Proof. reflexivity. Qed.
Example ex_value_error_keeps_columns : scatter_2d true fr_real [1] = ([1], inl ErrColumnCount).
Proof. reflexivity. Qed.
Example ex_no_such_column : compare_2d false fr_real fr_synth [1; 9] = ([1; 9], inl ErrNoSuchColumn).
Proof. reflexivity. Qed.
Example ex_union_too_wide : compare_2d false fr_real fr_synth [] = ([], inl ErrColumnCount).
Proof. reflexivity. Qed.
Example ex_empty_frame_no_trace : snd (scatter_2d false (mkFrame [1; 2] []) []) = inr [].
Proof. reflexivity. Qed.
