#!/venv/bin/python
"""tools/import_seed.py <seed_dir> <property> "<detected by ...>" : store a confirmed seeded change under /verif/seeded/"""
import json, os, shutil, sys
src, prop, det = sys.argv[1], sys.argv[2], sys.argv[3]
name = os.path.basename(src.rstrip('/'))
dst = f'/verif/seeded/{name}'
os.makedirs(dst, exist_ok=True)
for f in ('patch.diff', 'demo.py'):
    shutil.copy(os.path.join(src, f), dst)
m = json.load(open(os.path.join(src, 'meta.json')))
m['property'] = prop
m['confirmed_by_builder'] = ('demo.py exits 0 on the pristine tree and non-zero with the patch (tools/try_seed.sh); '
                             'test-suite outcome unchanged as reported by the seeding agent (same FAILED set)')
m['checks_run'] = f'tools/try_seed.sh {src} {prop}  (scratch copy of /repo with the patch, VERIF_REPO=<copy> ./check {prop})'
m['detected_by'] = det
json.dump(m, open(os.path.join(dst, 'meta.json'), 'w'), indent=1)
print('stored', dst)
