#!/venv/bin/python
"""Mutation self-test of the generated Prim loops of RegularTree (tools/vf/vineregulargen.py + the C16_bridge_regular_* theorems of
coq/Props/C16_regular.v).

For every mutant: a scratch copy of the library under /tmp (removed afterwards) gets ONE small semantic change of
RegularTree._build_first_tree / ._build_kth_tree (copulas/multivariate/tree.py), then `VERIF_REPO=<copy> ./check C16` is run from this
worktree.  Expected: exit code 1, and among the failed obligations a `translate:gen_*` obligation (the translator refused the new shape) or
a `C16_regular.v:C16_bridge_*` obligation (the generated definition is no longer provably the model's).  Many mutants are ALSO caught by
the replay correspondence / the witness search; that is reported in the last column but is not what this self-test is about (two of them -
`unvisited.remove` dropped, `k != x` dropped - change no output at all and are caught by the bridge only).  The harmless edits (local
renames, docstrings, annotations - absorbed by tools/vf/srcnorm.py) must leave the exit code at 0 with no failed obligation.

    tools/aux/vineregular_mutants.py [-j N] [name ...]        # exit code 0 iff every row is as expected
"""
import argparse
import json
import os
import shutil
import subprocess
import sys
import tempfile
from concurrent.futures import ThreadPoolExecutor

HERE = os.path.dirname(os.path.abspath(__file__))
VERIF = os.path.dirname(os.path.dirname(HERE))
REPO = os.environ.get('VINEREGULAR_BASE_REPO', '/repo')
TREE = os.path.join('copulas', 'multivariate', 'tree.py')

FIRST_IF = '                    if k not in X and k != x:\n'
KTH_IF = '                    if k not in visited and k != x and self._check_constraint(edges[x], edges[k]):\n'
NEG_TAU = '        neg_tau = -1.0 * abs(self.tau_matrix)\n        X = {0}\n'
FIRST_SORT = '            edge = sorted(adj_set, key=lambda e: neg_tau[e[0]][e[1]])[0]\n'
KTH_SORT = '            pairs = sorted(adj_set, key=lambda e: neg_tau[e[0]][e[1]])[0]\n'
SORT_EDGE = '            left_parent, right_parent = Edge.sort_edge([edges[pairs[0]], edges[pairs[1]]])\n'
ESCAPE = '                visited.add(list(unvisited)[0])  # noqa: PD005\n                continue\n'

# name, file, [(old text, new text)], what
MUTANTS = [
    ('first_k_ne_x_dropped', TREE, [(FIRST_IF, '                    if k not in X:\n')],
     'first tree: `k != x` dropped from the candidate test'),
    ('first_not_in_X_dropped', TREE, [(FIRST_IF, '                    if k != x:\n')],
     'first tree: `k not in X` dropped from the candidate test'),
    ('neg_tau_without_abs', TREE, [(NEG_TAU, NEG_TAU.replace('abs(self.tau_matrix)', 'self.tau_matrix'))],
     'first tree: neg_tau = -1.0 * self.tau_matrix (signed tau)'),
    ('first_sorted_last', TREE, [(FIRST_SORT, FIRST_SORT.replace('[0]\n', '[-1]\n'))],
     'first tree: sorted(adj_set, ..)[0] -> [-1] (the weakest candidate)'),
    ('first_add_edge0', TREE, [('            X.add(edge[1])  # noqa: PD005\n', '            X.add(edge[0])  # noqa: PD005\n')],
     'first tree: X.add(edge[0]) (the node that is already in X)'),
    ('first_index_len_X', TREE, [('            new_edge = Edge(len(X) - 1, left, right, name, theta)\n', '            new_edge = Edge(len(X), left, right, name, theta)\n')],
     'first tree: edge index len(X) - 1 -> len(X)'),
    ('first_left_right_unsorted', TREE, [('            left, right = sorted([edge[0], edge[1]])\n', '            left, right = edge[0], edge[1]\n')],
     'first tree: L, R not sorted'),
    ('kth_check_constraint_dropped', TREE, [(KTH_IF, '                    if k not in visited and k != x:\n')],
     'k-th tree: _check_constraint dropped from the candidate test'),
    ('kth_unvisited_remove_dropped', TREE, [('            visited.add(pairs[1])  # noqa: PD005\n            unvisited.remove(pairs[1])\n',
                                            '            visited.add(pairs[1])  # noqa: PD005\n')],
     'k-th tree: unvisited.remove(pairs[1]) dropped'),
    ('kth_sort_edge_dropped', TREE, [(SORT_EDGE, SORT_EDGE.replace('Edge.sort_edge([edges[pairs[0]], edges[pairs[1]]])', '[edges[pairs[0]], edges[pairs[1]]]'))],
     'k-th tree: parents not sorted by Edge.sort_edge'),
    ('kth_index_len_visited', TREE, [('            new_edge = Edge.get_child_edge(len(visited) - 1, left_parent, right_parent)\n',
                                     '            new_edge = Edge.get_child_edge(len(visited), left_parent, right_parent)\n')],
     'k-th tree: edge index len(visited) - 1 -> len(visited)'),
    ('kth_escape_without_continue', TREE, [(ESCAPE, ESCAPE.replace('                continue\n', ''))],
     'k-th tree: the `continue` of the empty-candidate branch dropped (sorted(set())[0] raises)'),
    ('kth_while_test', TREE, [('        while len(visited) != self.n_nodes:\n', '        while len(visited) < self.n_nodes:\n')],
     'k-th tree: while len(visited) != n_nodes -> <'),
    ('kth_visited_start', TREE, [('        visited = {0}\n', '        visited = {1}\n')], 'k-th tree: Prim starts from node 1'),
]

HARMLESS = [
    ('h_rename_locals', TREE, [('adj_set', 'frontier'), ('unvisited', 'todo'), ('neg_tau', 'weights'), ('pairs', 'best')],
     'locals of the two Prim loops renamed (every occurrence)'),
    ('h_docstrings', TREE, [('        """Build the first tree with n-1 variable."""', '        """Maximum spanning tree of |tau| (Prim).\n\n        (rewritten)\n        """'),
                            ('        """Build tree for level k."""', '        """Prim on the edges of the previous tree."""')],
     'docstrings of RegularTree._build_first_tree / ._build_kth_tree rewritten'),
    ('h_annotations', TREE, [('        X = {0}\n', '        X: set = {0}\n'), ('        visited = {0}\n', '        visited: set = {0}\n'),
                             ('    def _build_kth_tree(self):\n        """Build tree for level k."""', '    def _build_kth_tree(self) -> None:\n        """Build tree for level k."""')],
     'type annotations added to locals of the Prim loops and to RegularTree._build_kth_tree'),
]


def run_one(root, name, rel, edits, what, harmless):
    copy = os.path.join(root, 'vrm_' + name)
    out = os.path.join('/tmp/vf_out', 'vrm_' + name)
    row = {'name': name, 'what': what, 'harmless': harmless}
    try:
        shutil.copytree(REPO, copy, ignore=shutil.ignore_patterns('.git', '__pycache__', '*.pyc', 'docs', 'tutorials', 'tests'))
        p = os.path.join(copy, rel)
        text = open(p).read()
        for old, new in edits:
            if (text.count(old) != 1 and not harmless) or old not in text:
                row.update(rc=None, verdict='EDIT DOES NOT APPLY', layer='-', failed=[old[:60]], other=0)
                return row
            text = text.replace(old, new)
        compile(text, p, 'exec')
        open(p, 'w').write(text)
        shutil.rmtree(out, ignore_errors=True)
        env = dict(os.environ, VERIF_REPO=copy)
        env.pop('VERIF_OUT', None)
        r = subprocess.run([os.path.join(VERIF, 'check'), 'C16'], cwd=VERIF, env=env, stdout=subprocess.PIPE, stderr=subprocess.STDOUT, text=True,
                           timeout=3000)
        row['rc'] = r.returncode
        try:
            ev = json.load(open(os.path.join(out, 'evidence', 'C16.json')))
            failed = ev['coverage']['failed_obligations']
        except Exception as ex:      # noqa
            failed = [f'(no evidence file: {ex})']
        tr = [f for f in failed if f.startswith('translate:gen_')]
        br = [f for f in failed if '_bridge_' in f]
        other = [f for f in failed if f not in tr and f not in br]
        row['other'] = len(other)
        row['failed'] = tr + br
        row['layer'] = 'translation' if tr else ('bridge theorem' if br else '-')
        if harmless:
            row['verdict'] = 'ok (accepted)' if r.returncode == 0 and not failed else 'FALSE ALARM'
        else:
            row['verdict'] = 'detected' if r.returncode == 1 and (tr or br) else ('MISSED BY THE TRANSLATION/BRIDGE LAYER' if r.returncode == 1 else 'NOT DETECTED')
        if 'ok' not in row['verdict'] and row['verdict'] != 'detected':
            row['tail'] = r.stdout[-1500:]
        return row
    finally:
        shutil.rmtree(copy, ignore_errors=True)
        shutil.rmtree(out, ignore_errors=True)


def main():
    ap = argparse.ArgumentParser()
    ap.add_argument('-j', type=int, default=3)
    ap.add_argument('names', nargs='*')
    a = ap.parse_args()
    jobs = [(m, False) for m in MUTANTS] + [(h, True) for h in HARMLESS]
    if a.names:
        jobs = [j for j in jobs if j[0][0] in a.names]
    root = tempfile.mkdtemp(prefix='vineregular_mutants_')
    try:
        with ThreadPoolExecutor(a.j) as ex:
            rows = list(ex.map(lambda j: run_one(root, *j[0], j[1]), jobs))
    finally:
        shutil.rmtree(root, ignore_errors=True)
    print(f'{"mutant":30} {"exit":4} {"caught by":15} {"verdict":14} {"other":5} failed obligations of the translation/bridge layer')
    bad = 0
    for r in rows:
        print(f'{r["name"]:30} {str(r["rc"]):4} {r["layer"]:15} {r["verdict"]:14} {r.get("other", 0):5} {"; ".join(r["failed"])}')
        print(f'{"":30} ({r["what"]})')
        if r['verdict'] not in ('detected', 'ok (accepted)'):
            bad += 1
            print(r.get('tail', ''))
    print(f'{len(rows) - bad}/{len(rows)} rows as expected')
    return 1 if bad else 0


if __name__ == '__main__':
    sys.exit(main())
