#!/venv/bin/python
"""Mutation self-test of the generated helper functions of copulas/utils.py (tools/vf/utilsgen.py + the C19u_* theorems of
coq/Props/C19_utils.v).

For every mutant: a scratch copy of the library under /tmp (removed afterwards) gets ONE small semantic change of copulas/utils.py (or of
a family class), then `VERIF_REPO=<copy> ./check C19` is run from this directory's checkout.  Expected: exit code 1, and among the failed
obligations a `translate:gen_*` obligation or a `C19u_*` theorem.  The harmless edits (local renames, docstrings, annotations - absorbed by
tools/vf/srcnorm.py) must leave the exit code at 0 with no failed obligation.

    tools/aux/utilsgen_mutants.py [-j N] [name ...]        # exit code 0 iff every row is as expected
"""
import argparse
import json
import os
import shutil
import subprocess
import sys
import tempfile
from concurrent.futures import ThreadPoolExecutor

HERE = os.path.dirname(os.path.abspath(__file__))
VERIF = os.path.dirname(os.path.dirname(HERE))
REPO = os.environ.get('UNICTL_BASE_REPO', '/repo')
BASE = os.path.join('copulas', 'utils.py')

GI_ELSE = ("        if kwargs:\n            instance = obj.__class__(**kwargs)\n        else:\n"
           "            args = getattr(obj, '__args__', ())\n            kwargs = getattr(obj, '__kwargs__', {})\n"
           "            instance = obj.__class__(*args, **kwargs)\n")
STORE = ("        args_copy = deepcopy(args)\n        kwargs_copy = deepcopy(kwargs)\n        __init__(self, *args, **kwargs)\n"
         "        self.__args__ = args_copy\n        self.__kwargs__ = kwargs_copy\n")

# name, [(old text, new text)], what      (an edit may name another file: (old, new, relative path))
MUTANTS = [
    ('gi_kwargs_merge', [(GI_ELSE, "        args = getattr(obj, '__args__', ())\n        stored = getattr(obj, '__kwargs__', {})\n"
                                   "        instance = obj.__class__(*args, **{**stored, **kwargs})\n")],
     'get_instance: keyword arguments merged over the stored ones instead of replacing them'),
    ('gi_no_stored_args', [("            instance = obj.__class__(*args, **kwargs)\n", "            instance = obj.__class__(**kwargs)\n")],
     'get_instance: the stored positional arguments are not replayed'),
    ('gi_type_first', [("    if isinstance(obj, str):", "    if isinstance(obj, type):"), ("    elif isinstance(obj, type):", "    elif isinstance(obj, str):")],
     'get_instance: the str and type tests swapped (a name is called, a class is split)'),
    ('gi_not_kwargs', [("        if kwargs:\n            instance = obj.__class__(**kwargs)", "        if not kwargs:\n            instance = obj.__class__(**kwargs)")],
     'get_instance: `if not kwargs`'),
    ('gi_split_first_dot', [("obj.rsplit('.', 1)", "obj.split('.', 1)")], 'get_instance: split at the FIRST dot'),
    ('gi_returns_obj', [("    return instance\n\n\ndef store_args", "    return obj if instance is None else instance\n\n\ndef store_args")],
     'get_instance: falls back to the prototype itself'),
    ('gi_default_args_none', [("getattr(obj, '__args__', ())", "getattr(obj, '__args__', None) or ()")],
     'get_instance: another default expression for __args__ (same behaviour, outside the fragment)'),
    ('qn_class_module', [("    module = _object.__module__\n", "    module = _object.__class__.__module__\n")],
     'get_qualified_name: module of the METACLASS for a class object'),
    ('qn_no_dot', [("    return module + '.' + _class", "    return module + _class")], 'get_qualified_name: the dot dropped'),
    ('qn_swapped', [("    return module + '.' + _class", "    return _class + '.' + module")], 'get_qualified_name: operands swapped'),
    ('sa_copy_after', [(STORE, "        __init__(self, *args, **kwargs)\n        args_copy = deepcopy(args)\n        kwargs_copy = deepcopy(kwargs)\n"
                               "        self.__args__ = args_copy\n        self.__kwargs__ = kwargs_copy\n")],
     'store_args: the copies are taken after __init__ ran'),
    ('sa_no_copy', [("        self.__kwargs__ = kwargs_copy\n", "        self.__kwargs__ = kwargs\n")], 'store_args: the caller\'s kwargs dict is stored'),
    ('sa_swapped', [("        self.__args__ = args_copy\n        self.__kwargs__ = kwargs_copy\n", "        self.__args__ = kwargs_copy\n        self.__kwargs__ = args_copy\n")],
     'store_args: the two attributes swapped'),
    ('sa_before_init', [(STORE, "        self.__args__ = deepcopy(args)\n        self.__kwargs__ = deepcopy(kwargs)\n        __init__(self, *args, **kwargs)\n")],
     'store_args: attributes assigned before __init__ (an __init__ that resets attributes would lose them)'),
    ('cv_no_integer', [("        if not (np.issubdtype(W.dtype, np.floating) or np.issubdtype(W.dtype, np.integer)):", "        if not np.issubdtype(W.dtype, np.floating):")],
     'check_valid_values: integer tables refused'),
    ('cv_and', [("np.issubdtype(W.dtype, np.floating) or np.issubdtype(W.dtype, np.integer)", "np.issubdtype(W.dtype, np.floating) and np.issubdtype(W.dtype, np.integer)")],
     'check_valid_values: `and` between the dtype tests'),
    ('cv_typeerror', [("            raise ValueError('There are non-numerical values in your data.')", "            raise TypeError('There are non-numerical values in your data.')")],
     'check_valid_values: TypeError for non-numeric data'),
    ('cv_passes_W', [("        return function(self, X, *args, **kwargs)\n\n    return decorated\n", "        return function(self, W, *args, **kwargs)\n\n    return decorated\n")],
     'check_valid_values: the wrapped fit receives the ndarray, not the frame (column names lost)'),
    ('cv_nan_not_checked', [("        if np.isnan(W).any().any():\n            raise ValueError('There are nan values in your data.')\n\n", "")],
     'check_valid_values: the NaN test dropped'),
    ('fam_store_args', [("    @store_args\n    def __init__(self, minimum=None", "    def __init__(self, minimum=None", os.path.join('copulas', 'univariate', 'truncated_gaussian.py'))],
     'TruncatedGaussian.__init__ loses @store_args (get_instance forgets the bounds)'),
]

# a reordering the model cannot observe (all three tests raise ValueError): accepted by THIS layer, reported by the pinned text C19_guard_shapes
EQUIVALENT = [
    ('cv_nan_first', [("        if not len(W):\n            raise ValueError('Your dataset is empty.')\n\n", ""),
                      ("        if np.isnan(W).any().any():\n            raise ValueError('There are nan values in your data.')\n",
                       "        if np.isnan(W).any().any():\n            raise ValueError('There are nan values in your data.')\n\n        if not len(W):\n            raise ValueError('Your dataset is empty.')\n")],
     'check_valid_values: the emptiness test moved last (same verdicts; np.isnan on an object table raises TypeError first)'),
]

HARMLESS = [
    ('h_rename_locals', [("    instance = None\n", "    new_object = None\n"), ("        package, name = obj.rsplit('.', 1)\n        instance = getattr(importlib.import_module(package), name)(**kwargs)",
                                                                          "        package, name = obj.rsplit('.', 1)\n        new_object = getattr(importlib.import_module(package), name)(**kwargs)"),
                         ("        instance = obj(**kwargs)", "        new_object = obj(**kwargs)"), ("            instance = obj.__class__(**kwargs)", "            new_object = obj.__class__(**kwargs)"),
                         ("            instance = obj.__class__(*args, **kwargs)", "            new_object = obj.__class__(*args, **kwargs)"), ("    return instance\n", "    return new_object\n"),
                         ("            W = X.to_numpy()\n        else:\n            W = X\n", "            values = X.to_numpy()\n        else:\n            values = X\n"),
                         ("        if not len(W):", "        if not len(values):"), ("np.issubdtype(W.dtype, np.floating) or np.issubdtype(W.dtype, np.integer)", "np.issubdtype(values.dtype, np.floating) or np.issubdtype(values.dtype, np.integer)"),
                         ("        if np.isnan(W).any().any():", "        if np.isnan(values).any().any():")],
     'locals of get_instance and check_valid_values renamed'),
    ('h_docstrings', [('    """Create new instance of the ``obj`` argument.', '    """Build a NEW object of the class that ``obj`` names, is, or is an instance of.'),
                      ('    """Return the Fully Qualified Name from an instance or class."""', '    """Dotted name ``module.Class`` of a class or of the class of an instance."""')],
     'docstrings of get_instance and get_qualified_name rewritten'),
    ('h_messages_annotations', [("            raise ValueError('Your dataset is empty.')", "            raise ValueError(f'The dataset has no rows: {len(W)}')"),
                                ("def get_qualified_name(_object):", "def get_qualified_name(_object) -> str:"), ("def get_instance(obj, **kwargs):", "def get_instance(obj: object, **kwargs: object):")],
     'a message reworded, annotations added'),
]


def run_one(root, name, edits, what, harmless):
    copy = os.path.join(root, 'utm_' + name)
    out = os.path.join('/tmp/vf_out', 'utm_' + name)
    row = {'name': name, 'what': what, 'harmless': harmless}
    try:
        shutil.copytree(REPO, copy, ignore=shutil.ignore_patterns('.git', '__pycache__', '*.pyc', 'docs', 'tutorials', 'tests'))
        for ed in edits:
            old, new = ed[0], ed[1]
            p = os.path.join(copy, ed[2] if len(ed) > 2 else BASE)
            text = open(p).read()
            if text.count(old) != 1:
                row.update(rc=None, verdict='EDIT DOES NOT APPLY', layer='-', failed=[old[:60]], also='')
                return row
            text = text.replace(old, new)
            compile(text, p, 'exec')
            open(p, 'w').write(text)
        shutil.rmtree(out, ignore_errors=True)
        env = dict(os.environ, VERIF_REPO=copy)
        env.pop('VERIF_OUT', None)
        r = subprocess.run([os.path.join(VERIF, 'check'), 'C19'], cwd=VERIF, env=env, stdout=subprocess.PIPE, stderr=subprocess.STDOUT, text=True,
                           timeout=3000)
        row['rc'] = r.returncode
        try:
            ev = json.load(open(os.path.join(out, 'evidence', 'C19.json')))
            failed = ev['coverage']['failed_obligations']
        except Exception as ex:      # noqa
            failed = [f'(no evidence file: {ex})']
        tr = [f for f in failed if f.startswith('translate:gen_')]
        br = [f for f in failed if 'C19u_' in f or 'C19_utils' in f]
        other = [f for f in failed if f not in tr and f not in br]
        nviol = sum(1 for l in r.stdout.split('\n') if l.startswith('VIOLATION') and 'no-failing-input-found' not in l)
        row['failed'] = tr + br
        row['also'] = (f'{len(other)} other failed obligations' if other else '') + (', ' if other and nviol else '') + \
            (f'{nviol} VIOLATION lines with a failing input' if nviol else '')
        row['layer'] = 'translation' if tr else ('bridge theorem' if br else '-')
        if harmless == 'equivalent':
            row['verdict'] = 'ok (accepted)' if not (tr or br) else 'REFUSED'
        elif harmless:
            row['verdict'] = 'ok (accepted)' if r.returncode == 0 and not failed else 'FALSE ALARM'
        else:
            row['verdict'] = 'detected' if r.returncode == 1 and (tr or br) else ('MISSED BY THE TRANSLATION/BRIDGE LAYER' if r.returncode == 1 else 'NOT DETECTED')
        if 'ok' not in row['verdict'] and row['verdict'] != 'detected':
            row['tail'] = r.stdout[-1500:]
        return row
    finally:
        shutil.rmtree(copy, ignore_errors=True)
        shutil.rmtree(out, ignore_errors=True)


def main():
    ap = argparse.ArgumentParser()
    ap.add_argument('-j', type=int, default=4)
    ap.add_argument('names', nargs='*')
    a = ap.parse_args()
    jobs = [(m, False) for m in MUTANTS] + [(h, True) for h in HARMLESS] + [(e, 'equivalent') for e in EQUIVALENT]
    if a.names:
        jobs = [j for j in jobs if j[0][0] in a.names]
    root = tempfile.mkdtemp(prefix='utilsgen_mutants_')
    try:
        with ThreadPoolExecutor(a.j) as ex:
            rows = list(ex.map(lambda j: run_one(root, *j[0], j[1]), jobs))
    finally:
        shutil.rmtree(root, ignore_errors=True)
    print(f'{"mutant":24} {"exit":4} {"caught by":15} {"verdict":14} failed obligations of the translation/bridge layer | also')
    bad = 0
    for r in rows:
        print(f'{r["name"]:24} {str(r["rc"]):4} {r["layer"]:15} {r["verdict"]:14} {"; ".join(r["failed"])} | {r.get("also", "")}')
        print(f'{"":24} ({r["what"]})')
        if r['verdict'] not in ('detected', 'ok (accepted)'):
            bad += 1
            print(r.get('tail', ''))
    print(f'{len(rows) - bad}/{len(rows)} rows as expected')
    return 1 if bad else 0


if __name__ == '__main__':
    sys.exit(main())
