"""Trace which arrays flow where in VineCopula.fit / get_likelihood on the REAL library.
Arrays are identified by content (every column is unique); terms are nested tuples:
  ('M', i)                      u_matrix[:, i]
  ('H', tree, idx, x, y)        partial_derivative of the copula of edge idx of tree `tree` (0-based) at [x, y]
  ('G',)                        unknown (never registered: np.empty garbage)
"""
import sys, warnings, itertools
import numpy as np, pandas as pd
warnings.filterwarnings('ignore')
from copulas.multivariate.vine import VineCopula
from copulas.multivariate import tree as treemod
from copulas.bivariate.base import Bivariate
import copulas.bivariate as biv

REG = []          # (array object, term)
LOG = []          # events
STALE = []        # unwritten cells that were read: (tree, r, c, term found there, value)
CUR = {'tree': None}

def lookup(a):
    a = np.asarray(a, dtype=float).ravel()
    for arr, term in REG:
        b = np.asarray(arr, dtype=float).ravel()
        if b.shape == a.shape and np.array_equal(a, b):
            return term
    return ('G',)

def edge_of(cop):
    t = CUR['tree']
    if t is None:
        return None
    cands = [e.index for e in t.edges if e.name == cop.copula_type and (e.theta == cop.theta or (e.theta is None and cop.theta is None))]
    return cands

orig_pd = {}
def wrap_pd(cls):
    o = cls.partial_derivative
    def pdv(self, X):
        r = o(self, X)
        if CUR.get('on'):
            x, y = lookup(X[:, 0]), lookup(X[:, 1])
            c = edge_of(self)
            lvl = CUR['tree'].level - 1 if CUR['tree'] is not None else None
            # disambiguate by call order within prepare_next_tree / get_likelihood
            idx = CUR['idx']
            term = ('H', lvl, idx, x, y)
            REG.append((r, term))
            LOG.append(('pd', lvl, idx, c, x, y))
        return r
    cls.partial_derivative = pdv

for c in Bivariate.subclasses():
    if 'partial_derivative' in c.__dict__:
        wrap_pd(c)
wrap_pd(Bivariate)

TAU = []          # (tree, i, j, left term, right term)

def install_tau():
    import scipy.stats
    okt = scipy.stats.kendalltau
    ogt = treemod.Tree.get_tau_matrix
    def gt(self):
        # replay the loop structure to know (i, j) of each call
        calls = []
        def kt(a, b, *aa, **kw):
            calls.append((lookup(a), lookup(b)))
            return okt(a, b, *aa, **kw)
        scipy.stats.kendalltau = kt
        try:
            out = ogt(self)
        finally:
            scipy.stats.kendalltau = okt
        k = 0
        for i in range(len(self.edges)):
            for j in self.edges[i].neighbors:
                TAU.append((self.level - 1, i, j, calls[k][0], calls[k][1])); k += 1
        return out
    treemod.Tree.get_tau_matrix = gt

def install():
    install_tau()
    # select_copula
    osel = biv.select_copula
    def sel(X):
        LOG.append(('select', lookup(X[:, 0]), lookup(X[:, 1])))
        return osel(X)
    biv.select_copula = sel
    # prepare_next_tree: run edge by edge so that idx is known
    oprep = treemod.Tree.prepare_next_tree
    def prep(self):
        edges = self.edges
        CUR['tree'] = self; CUR['on'] = True
        for e in edges:
            self.edges = [e]; CUR['idx'] = e.index
            oprep(self)
        self.edges = edges
        CUR['on'] = False
    treemod.Tree.prepare_next_tree = prep
    # Edge.get_likelihood
    olik = treemod.Edge.get_likelihood
    def lik(self, uni_matrix):
        CUR['on'] = True; CUR['idx'] = self.index; CUR['tree'] = CUR['liktree']
        if self.parents is None:
            l, r = lookup(uni_matrix[:, self.L]), lookup(uni_matrix[:, self.R])
            LOG.append(('read1', self.index, self.L, self.R, l, r))
        else:
            li = list(self.D - self.parents[0].D); ri = list(self.D - self.parents[1].D)
            w = CUR.get('written', set())
            def cell(r, c):
                # a cell the previous tree never wrote holds np.empty garbage (in practice often STALE data of
                # an older matrix whose memory was recycled): reported as ('G',) plus what was found there
                if (int(r), int(c)) not in w:
                    STALE.append((CUR['liktree'].level - 1, int(r), int(c), lookup(uni_matrix[r, c]), float(uni_matrix[r, c])))
                    return ('G',)
                return lookup(uni_matrix[r, c])
            LOG.append(('readk', CUR['liktree'].level - 1, self.index, (self.L, li), (self.R, ri),
                        cell(self.L, li[0]) if li else None, cell(self.R, ri[0]) if ri else None))
        out = olik(self, uni_matrix)
        CUR['on'] = False
        return out
    treemod.Edge.get_likelihood = lik
    otl = treemod.Tree.get_likelihood
    def tl(self, uni_matrix):
        CUR['liktree'] = self
        out = otl(self, uni_matrix)
        CUR['written'] = {(int(e.L), int(e.R)) for e in self.edges} | {(int(e.R), int(e.L)) for e in self.edges}
        return out
    treemod.Tree.get_likelihood = tl

def show(t):
    if t[0] == 'M': return f'u{t[1]}'
    if t[0] == 'G': return 'GARBAGE'
    return f'h[{t[1]}.{t[2]}]({show(t[3])}|{show(t[4])})'

def prov(t):
    """F(i | S) interpretation or None"""
    if t[0] == 'M': return (t[1], frozenset())
    if t[0] == 'G': return None
    a, b = prov(t[3]), prov(t[4])
    if a is None or b is None or a[1] != b[1] or a[0] == b[0]: return None
    return (a[0], a[1] | {b[0]})

def table(d, n=100, seed=0):
    rng = np.random.default_rng(seed)
    a = rng.normal(size=(d, d)); cov = a @ a.T + np.eye(d)
    z = rng.multivariate_normal(np.zeros(d), cov, n)
    return pd.DataFrame(z, columns=[f'c{i}' for i in range(d)])

def fit_trace(vt, X, truncated=3):
    REG.clear(); LOG.clear(); TAU.clear()
    v = VineCopula(vt)
    otv = v.train_vine
    def tv(tt):
        for i in range(v.n_var):
            REG.append((v.u_matrix[:, i], ('M', i)))
        return otv(tt)
    v.train_vine = tv
    v.fit(X, truncated=truncated)
    return v

if __name__ == '__main__':
    install()
    vt, d, seed = sys.argv[1], int(sys.argv[2]), int(sys.argv[3])
    trunc = int(sys.argv[4]) if len(sys.argv) > 4 else 3
    v = fit_trace(vt, table(d, seed=seed), trunc)
    sels = [e for e in LOG if e[0] == 'select']
    k = 0
    for t in v.trees:
        for e in t.edges:
            s = sels[k]; k += 1
            U = (lookup(e.U[0]), lookup(e.U[1]))
            par = None if e.parents is None else tuple((p.L, p.R, sorted(p.D)) for p in e.parents)
            want = ((e.L, frozenset(e.D)), (e.R, frozenset(e.D)))
            got = (prov(s[1]), prov(s[2]))
            print(f'tree{t.level-1} idx{e.index} ({e.L},{e.R}|{sorted(e.D)}) parents={par}\n    inputs=({show(s[1])} , {show(s[2])})  prov={[(g[0], sorted(g[1])) if g else None for g in got]} {"OK" if got == want else "MISMATCH"}')
            print(f'    U=({show(U[0])} , {show(U[1])}) prov={[ (p[0], sorted(p[1])) if p else None for p in map(prov, U)]}')
    # ---- likelihood
    REG.clear(); LOG.clear()
    u = np.array([[0.11 + 0.13 * i for i in range(d)]])
    for i in range(d):
        REG.append((u[:, i], ('M', i)))
    try:
        val = v.get_likelihood(u)
    except Exception as ex:
        val = repr(ex)
    print('likelihood =', val)
    for e in LOG:
        if e[0] == 'read1':
            print(f'  tree0 idx{e[1]} reads cols {e[2]},{e[3]}: {show(e[4])} , {show(e[5])}')
        if e[0] == 'readk':
            print(f'  tree{e[1]} idx{e[2]} reads [L,ing]={e[3]} [R,ing]={e[4]}: {show(e[5]) if e[5] else None} , {show(e[6]) if e[6] else None}')
