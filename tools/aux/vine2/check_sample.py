import warnings, numpy as np, pandas as pd
warnings.filterwarnings('ignore')
from copulas.multivariate.vine import VineCopula
rng = np.random.default_rng(5)
z = rng.multivariate_normal([0, 0], [[1, .7], [.7, 1]], 200)
X = pd.DataFrame(z, columns=['a', 'b'])
# truncated = 0
v = VineCopula('center'); v.fit(X, truncated=0)
try:
    print('truncated=0 sample:', v.sample(1))
except Exception as ex:
    print('truncated=0 sample raises', type(ex).__name__, ex)
# clip at 0.99
v = VineCopula('center', random_state=1); v.fit(X)
S = v.sample(3000)
for j, c in enumerate(X.columns):
    top = v.ppfs[j](np.array([0.99]))[0]
    col = S[c].to_numpy()
    print(c, 'ppf(0.99)=%.6f' % top, 'max sample=%.6f' % col.max(), 'count at max=%d' % np.sum(np.isclose(col, top)),
          'count above=%d' % np.sum(col > top + 1e-9), 'training max=%.4f' % X[c].max())
