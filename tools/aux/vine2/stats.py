import sys, warnings
import numpy as np
warnings.filterwarnings('ignore')
sys.path.insert(0, '/root/scratch/agents/vine2/py')
import trace as T
T.install()
from collections import Counter
C = Counter()
first = {}
for vt in ('center', 'direct', 'regular'):
    for d in (3, 4, 5, 6):
        for seed in range(4):
            X = T.table(d, seed=seed + 10 * d)
            v = T.fit_trace(vt, X, truncated=d - 1)
            sels = [e for e in T.LOG if e[0] == 'select']
            k = 0
            for t in v.trees:
                for e in t.edges:
                    s = sels[k]; k += 1
                    want = ((e.L, frozenset(e.D)), (e.R, frozenset(e.D)))
                    got = (T.prov(s[1]), T.prov(s[2]))
                    kind = 'ok' if got == want else 'swapped' if got == (want[1], want[0]) else 'wrong'
                    C[(vt, t.level - 1, kind)] += 1
                    if kind != 'ok' and t.level > 1 and (vt, kind) not in first:
                        first[(vt, kind)] = (d, seed, t.level - 1, (e.L, e.R, sorted(e.D)), [(p.L, p.R, sorted(p.D)) for p in e.parents], got)
            T.REG.clear(); T.LOG.clear(); T.STALE.clear()
            u = np.array([[0.11 + 0.13 * i for i in range(d)]])
            for i in range(d): T.REG.append((u[:, i], ('M', i)))
            T.CUR['written'] = set()
            val = v.get_likelihood(u)
            for s in T.STALE:
                C[(vt, 'stale-read', 'matches-older-term' if s[3] != ('G',) else 'unknown')] += 1
                if (vt, 'stale') not in first: first[(vt, 'stale')] = (d, seed, s[:3], T.show(s[3]), s[4], val)
for k in sorted(C, key=str): print(k, C[k])
for k in first: print(k, first[k])
