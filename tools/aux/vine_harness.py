"""Drive copulas.multivariate.tree directly with synthetic tau matrices (structure only)."""
import sys, warnings
import numpy as np
warnings.filterwarnings('ignore')
from copulas.multivariate import tree as T
from copulas.bivariate.base import Bivariate

class Stub:
    copula_type = 'stub'; theta = 0.0
Bivariate.select_copula = classmethod(lambda cls, X: Stub())

nan = float('nan')

def mk(ttype, level, n, tau, prev):
    t = T.get_tree(ttype)
    t.level = level; t.n_nodes = n; t.tau_matrix = np.array(tau, dtype=float)
    t.previous_tree = prev; t.edges = []
    if level == 1:
        t.u_matrix = np.zeros((1, n))
        t._build_first_tree()
    else:
        t._build_kth_tree()
    for e in t.edges:
        e.U = np.zeros((2, 1))
    return t

def show(t, prev=None):
    out = []
    for e in t.edges:
        par = None
        if e.parents is not None:
            par = tuple(prev.edges.index(p) for p in e.parents)
        out.append((e.index, (int(e.L), int(e.R)), sorted(int(x) for x in e.D), par))
    return out

def vine(ttype, d, trunc, taus):
    trees = [mk(ttype, 1, d, taus(0), None)]
    res = [show(trees[0])]
    for k in range(1, min(d - 1, trunc)):
        tk = mk(ttype, k + 1, d - k, taus(k), trees[k - 1])
        res.append(show(tk, trees[k - 1]))
        trees.append(tk)
    return res

tauA = [[1, .5, -.7, .2], [.5, 1, .3, -.6], [-.7, .3, 1, .1], [.2, -.6, .1, 1]]
tauB = [[1, .5, .5, -.5, nan], [.5, 1, .25, .25, nan], [.5, .25, 1, .75, nan], [-.5, .25, .75, 1, nan], [nan]*5]

def sub(tau, n):
    return [row[:n] for row in tau[:n]]

if __name__ == '__main__':
    for name, tau, d in [('A', tauA, 4), ('B', tauB, 5)]:
        for ty in ['center', 'direct', 'regular']:
            try:
                print(name, ty, vine(ty, d, 9, lambda k: sub(tau, d - k)))
            except Exception as ex:
                print(name, ty, 'EXC', repr(ex))
