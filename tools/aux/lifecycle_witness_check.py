"""Replay of the Coq witnesses (Spec/LifecycleProofs.v) on the real library.
Run:  cd / && PYTHONPATH=/repo /venv/bin/python /root/scratch/agents/life/witness_check.py
Every line printed should end with OK."""
import warnings, numpy as np
warnings.simplefilter('ignore')
from copulas.univariate import *
from copulas.bivariate import Bivariate, Clayton, Frank
from copulas.multivariate import GaussianMultivariate
from copulas.utils import get_instance
import pandas as pd

def raises(f):
    try:
        f(); return None
    except Exception as e:
        return type(e).__name__
def chk(name, cond): print(f'{name:55s}', 'OK' if cond else 'MISMATCH')

X = np.array([1., 2, 3, 4, 5, 7]); C = np.full(5, 3.0)
np.random.seed(0); X50 = np.random.normal(size=50)
P = np.array([2., 3., 4.])
# fit_pure_scipy_refuted
for cls in [GaussianUnivariate, UniformUnivariate, BetaUnivariate, GammaUnivariate, StudentTUnivariate,
            LogLaplace, TruncatedGaussian, GaussianKDE]:
    m = cls(); m.fit(C); m.fit(X); f = cls(); f.fit(X)
    chk(f'fit_pure_scipy_refuted[{cls.__name__}]', list(m.cdf(P)) == [0., 1., 1.] and list(f.cdf(P)) != [0., 1., 1.]
        and m._constant_value == 3.0)
# fit_pure_tg_refuted
m = TruncatedGaussian(); m.fit(X); m.fit(10 * X); f = TruncatedGaussian(); f.fit(10 * X)
chk('fit_pure_tg_refuted', abs(m.min - 1) < 1e-6 and abs(m.max - 7) < 1e-6 and abs(f.min - 10) < 1e-6 and m.to_dict() != f.to_dict())
# fit_pure_kde_refuted
k = GaussianKDE(); k.fit(X50); st = np.random.get_state()[2]; k.fit(X); f = GaussianKDE(); f.fit(X)
chk('fit_pure_kde_refuted', k._sample_size == 50 and np.array(k._params['dataset']).shape == (1, 50)
    and len(f._params['dataset']) == 6 and np.random.get_state()[2] != st)
k = GaussianKDE(); k.fit(X50); k.fit(C); f = GaussianKDE(); f.fit(C)
chk('fit_pure_kde_const_refuted', len(k.to_dict()['dataset']) == 50 and len(f.to_dict()['dataset']) == 5)
# kde_failed_fit_not_atomic (via round trip of sample_size model)
k = GaussianKDE(sample_size=10); k.fit(X50); r = Univariate.from_dict(k.to_dict())
ok = r._sample_size == 1 and list(r.cdf(P)) == list(k.cdf(P))
old_model = r._model
e = raises(lambda: r.fit(X50))
chk('roundtrip_kde_hidden_state_refuted', ok and e == 'ValueError' and raises(lambda: k.fit(X50)) is None)
chk('kde_failed_fit_not_atomic', r.fitted and r._model is old_model and np.array(r._params['dataset']).size == 1)
# wrapper
np.random.seed(3); a = np.random.get_state()[2]
u = Univariate(selection_sample_size=3, candidates=[GaussianUnivariate, UniformUnivariate]); u.fit(X)
chk('fit_wrapper_reads_global_rng', np.random.get_state()[2] != a)
u = Univariate(candidates=[GaussianUnivariate]); u.fit(X); e = raises(lambda: u.fit(np.array([1., np.nan, 3.])))
chk('fit_failure_not_atomic_wrapper', e == 'AttributeError' and u.fitted and u._instance is None
    and raises(lambda: u.cdf(X)) == 'AttributeError' and raises(lambda: u.to_dict()) == 'AttributeError')
# bivariate
np.random.seed(1); U = np.random.uniform(size=(200, 2)); U[:, 1] = (U[:, 0] + U[:, 1]) / 2
U2 = U.copy(); U2[:, 1] = 1 - U2[:, 1]
c = Clayton(); c.fit(U); Q = np.array([[.3, .4]])
ok = raises(lambda: c.cdf(Q)) is None
e = raises(lambda: c.fit(U2))
chk('fit_failure_not_atomic_biv', ok and e == 'ValueError' and c.theta < 0 and raises(lambda: c.cdf(Q)) == 'ValueError')
c = Clayton(); c.fit(U); th = c.theta; bad = np.column_stack([np.full(5, .5), np.linspace(.1, .9, 5)])
e = raises(lambda: c.fit(bad)); f = Clayton(); raises(lambda: f.fit(bad))
chk('fit_pure_biv_full_refuted', e == 'ValueError' and c.theta == th and np.isnan(c.tau) and raises(lambda: c.cdf(Q)) is None
    and raises(lambda: f.cdf(Q)) == 'NotFittedError')
c = Clayton()
chk('unfitted_biv_sample_refuted', raises(lambda: c.sample(2)) == 'TypeError')
chk('unfitted_biv_to_dict_refuted', c.to_dict() == {'copula_type': 'CLAYTON', 'theta': None, 'tau': None})
c = Clayton(random_state=5); c.theta = 0; c.tau = 0; p0 = c.random_state.get_state()[2]
chk('unfitted_biv_sample_theta0', raises(lambda: c.sample(4)) == 'NotFittedError' and c.random_state.get_state()[2] != p0)
chk('unfitted_raises_biv(theta=0)', all(raises(lambda q=q: getattr(c, q)(Q)) == 'NotFittedError'
                                          for q in ['cdf', 'pdf', 'partial_derivative', 'log_probability_density']))
chk('dispatch_independence_refuted', Bivariate(copula_type='independence') is None
    and raises(lambda: Bivariate.from_dict({'copula_type': 'INDEPENDENCE', 'theta': 1., 'tau': .5})) == 'AttributeError')
# (subclass_from_dict_refuted needs a fresh interpreter: see witness_subclass.py)
# round trips
g = GaussianUnivariate(); g.fit(C); g.fit(X); r = Univariate.from_dict(g.to_dict())
chk('roundtrip_observe_stale_overrides_refuted', list(g.cdf(P)) == [0., 1., 1.] and list(r.cdf(P)) != [0., 1., 1.] and r.to_dict() == g.to_dict())
s = StudentTUnivariate(); s.fit(np.full(5, 1000000.3)); r = Univariate.from_dict(s.to_dict())
chk('roundtrip_studentt_constant_refuted', s._constant_value == 1000000.3 and r._constant_value != s._constant_value)
k = GaussianKDE(bw_method=0.3); k.fit(X); r = Univariate.from_dict(k.to_dict())
chk('roundtrip_kde_options_refuted', r.bw_method is None and abs(k.pdf(np.array([3.]))[0] - r.pdf(np.array([3.]))[0]) > 1e-3 and r.to_dict() == k.to_dict())
k = GaussianKDE(weights=np.array([1, 1, 1, 1, 1, 5.])); k.fit(X); r = Univariate.from_dict(k.to_dict())
chk('roundtrip_kde_weights_refuted', abs(k.pdf(np.array([6.]))[0] - r.pdf(np.array([6.]))[0]) > 1e-3)
g = GaussianUnivariate(random_state=42); g.fit(X); r = Univariate.from_dict(g.to_dict())
chk('roundtrip_drops_random_state', g.random_state is not None and r.random_state is None)
g = GaussianUnivariate(); g.fit(np.array([0., 1e-320])); r = Univariate.from_dict(g.to_dict())
chk('roundtrip_gaussian_underflow_refuted', g._constant_value is None and r._constant_value is not None)
# get_instance
g = GaussianUnivariate(random_state=42)
chk('get_instance_drops_seed', get_instance(g).random_state is None and not hasattr(g, '__args__'))
t = TruncatedGaussian(0, random_state=7); t.fit(X); n = get_instance(t)
chk('get_instance_tg_example', abs(t.max - 7) < 1e-6 and n.min == 0 and n.max is None and n.random_state is not None
    and not n.fitted and get_instance(t, random_state=None).min is None)
chk('get_instance_names', raises(lambda: get_instance('Nope')) == 'ValueError'
    and raises(lambda: get_instance('copulas.nomodule.Nope')) == 'ModuleNotFoundError'
    and raises(lambda: get_instance('copulas.univariate.gaussian.Nope')) == 'AttributeError'
    and raises(lambda: get_instance('copulas.univariate.gaussian.GaussianUnivariate', foo=3)) == 'TypeError'
    and raises(lambda: get_instance(GaussianUnivariate, random_state=1.5)) == 'TypeError'
    and get_instance('copulas.univariate.GaussianKDE', sample_size=5)._sample_size == 5)
# validation
df = pd.DataFrame({'a': X, 'b': X[::-1] ** 2})
m = GaussianMultivariate(distribution=GaussianUnivariate); m.fit(df); d0 = m.to_dict()
ok = True
for bad in [pd.DataFrame(), pd.DataFrame({'a': ['x', 'y']}), pd.DataFrame({'a': [1., np.nan]})]:
    ok = ok and raises(lambda: m.fit(bad)) == 'ValueError' and m.to_dict() == d0
    f = GaussianMultivariate(); ok = ok and raises(lambda: f.fit(bad)) == 'ValueError' and not f.fitted and f.columns is None
chk('validation', ok)
r = GaussianMultivariate.from_dict(d0)
chk('roundtrip_params_gm', r.to_dict() == d0)
