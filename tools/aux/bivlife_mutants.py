#!/venv/bin/python
"""Mutation self-test of the generated life-cycle / serialisation skeleton of the bivariate classes (tools/vf/bivlifegen.py + the
C14_bridge_* theorems of coq/Props/C14_biv.v).

For every mutant: a scratch copy of the library under /tmp (removed afterwards) gets ONE small semantic change of
copulas/bivariate/{base,clayton,independence}.py, then `VERIF_REPO=<copy> ./check C14` is run from this worktree.  Expected: exit code 1,
and among the failed obligations a `translate:gen_*` obligation (the translator refused the new shape) or a `C14_biv.v:*` obligation (a
generated definition is no longer provably the model's).  Some mutants are ALSO caught by the round-trip correspondence; that is reported
in the last column but is not what this self-test is about.  The harmless edits (local renames, docstrings / message texts, annotations -
absorbed by tools/vf/srcnorm.py) must leave the exit code at 0 with no failed obligation.

    tools/aux/bivlife_mutants.py [-j N] [name ...]        # exit code 0 iff every row is as expected
"""
import argparse
import json
import os
import shutil
import subprocess
import sys
import tempfile
from concurrent.futures import ThreadPoolExecutor

HERE = os.path.dirname(os.path.abspath(__file__))
VERIF = os.path.dirname(os.path.dirname(HERE))
REPO = os.environ.get('BIVLIFE_BASE_REPO', '/repo')
BASE = os.path.join('copulas', 'bivariate', 'base.py')
CLAYTON = os.path.join('copulas', 'bivariate', 'clayton.py')
INDEP = os.path.join('copulas', 'bivariate', 'independence.py')

SAMPLE_HEAD = '        self.check_fit()\n        if self.tau > 1 or self.tau < -1:\n'
NEW_LOOP = ('        for subclass in cls.subclasses():\n            if subclass.copula_type is copula_type:\n'
            '                return super(Bivariate, cls).__new__(subclass)\n')
FROM_DICT = ("        instance = Bivariate(copula_type=copula_dict['copula_type'])\n        instance.theta = copula_dict['theta']\n"
             "        instance.tau = copula_dict['tau']\n        return instance\n")
SAMPLE_TAIL = ('        v = np.random.uniform(0, 1, n_samples)\n        c = np.random.uniform(0, 1, n_samples)\n\n'
               '        u = self.percent_point(c, v)\n        return np.column_stack((u, v))\n')

# name, [(file, old text, new text)], what
MUTANTS = [
    ('to_dict_theta_tau', [(BASE, "'theta': self.theta, 'tau': self.tau}", "'theta': self.tau, 'tau': self.theta}")],
     'Bivariate.to_dict: theta and tau swapped in the dict'),
    ('from_dict_via_cls', [(BASE, "instance = Bivariate(copula_type=copula_dict['copula_type'])", "instance = cls(copula_type=copula_dict['copula_type'])")],
     'Bivariate.from_dict: cls(...) instead of the base-class factory (the F24 regression)'),
    ('from_dict_tau_key', [(BASE, "instance.tau = copula_dict['tau']", "instance.tau = copula_dict.get('tau')")],
     "Bivariate.from_dict: copula_dict.get('tau') (a missing key no longer raises)"),
    ('new_no_upper', [(BASE, 'copula_type.upper() in CopulaTypes.__members__', 'copula_type in CopulaTypes.__members__')],
     "Bivariate.__new__: membership test without .upper() ('frank' is refused)"),
    ('new_object_of_cls', [(BASE, '                return super(Bivariate, cls).__new__(subclass)\n', '                return super(Bivariate, cls).__new__(cls)\n')],
     'Bivariate.__new__: object.__new__(cls) instead of object.__new__(subclass)'),
    ('new_type_error', [(BASE, "                raise ValueError(f'Invalid copula type {copula_type}')", "                raise TypeError(f'Invalid copula type {copula_type}')")],
     'Bivariate.__new__: an unknown type raises TypeError'),
    ('subclasses_inverted', [(BASE, '        if not cls._subclasses:\n', '        if cls._subclasses:\n')],
     'Bivariate.subclasses: `if cls._subclasses` (the cache is never filled)'),
    ('enum_alias', [(BASE, '    FRANK = 1\n', '    FRANK = 0\n')],
     'CopulaTypes.FRANK = 0: FRANK becomes an alias of CLAYTON'),
    ('clayton_is_gumbel', [(CLAYTON, '    copula_type = CopulaTypes.CLAYTON\n', '    copula_type = CopulaTypes.GUMBEL\n')],
     'Clayton.copula_type = CopulaTypes.GUMBEL'),
    ('init_no_validate', [(BASE, '        self.random_state = validate_random_state(random_state)\n\n    def check_theta',
                           '        self.random_state = random_state\n\n    def check_theta')],
     'Bivariate.__init__: random_state stored without validate_random_state'),
    ('clayton_pdf_no_check_fit', [(CLAYTON, '        self.check_fit()\n\n        U, V = split_matrix(X)\n\n        a = (self.theta + 1)',
                                   '        U, V = split_matrix(X)\n\n        a = (self.theta + 1)')],
     'Clayton.probability_density: check_fit dropped'),
    ('indep_cdf_check_fit', [(INDEP, '        U, V = split_matrix(X)\n        return U * V\n', '        self.check_fit()\n        U, V = split_matrix(X)\n        return U * V\n')],
     'Independence.cumulative_distribution: check_fit added (always raises)'),
    ('logpdf_of_cdf', [(BASE, '        return np.log(self.probability_density(X))\n', '        return np.log(self.cumulative_distribution(X))\n')],
     'Bivariate.log_probability_density: log of the cumulative distribution'),
    ('pdf_alias_cdf', [(BASE, '        """Shortcut to :meth:`probability_density`."""\n        return self.probability_density(X)\n',
                        '        """Shortcut to :meth:`probability_density`."""\n        return self.cumulative_distribution(X)\n')],
     'Bivariate.pdf delegates to cumulative_distribution'),
    ('sample_no_check_fit', [(BASE, SAMPLE_HEAD, '        if self.tau > 1 or self.tau < -1:\n')],
     'Bivariate.sample: check_fit dropped (the F23 regression)'),
    ('sample_tau_ge', [(BASE, '        if self.tau > 1 or self.tau < -1:\n', '        if self.tau >= 1 or self.tau < -1:\n')],
     'Bivariate.sample: tau >= 1 is refused'),
    ('sample_ppf_args', [(BASE, '        u = self.percent_point(c, v)\n', '        u = self.percent_point(v, c)\n')],
     'Bivariate.sample: percent_point(v, c)'),
    ('sample_no_decorator', [(BASE, '    @random_state\n    def sample(self, n_samples):', '    def sample(self, n_samples):')],
     'Bivariate.sample: @random_state removed'),
    ('save_wrong_dict', [(BASE, '        content = self.to_dict()\n', '        content = self.__dict__\n')],
     'Bivariate.save: the instance __dict__ is written instead of to_dict()'),
]

HARMLESS = [
    ('h_rename_locals', [(BASE, NEW_LOOP, NEW_LOOP.replace('subclass ', 'candidate ').replace('subclass.', 'candidate.').replace('(subclass)', '(candidate)')),
                         (BASE, FROM_DICT, FROM_DICT.replace('instance', 'obj')),
                         (BASE, SAMPLE_TAIL, SAMPLE_TAIL.replace('(c, v)', '(draws, v)').replace('        c = ', '        draws = '))],
     'locals of __new__, from_dict and sample renamed'),
    ('h_docstrings', [(BASE, '        """Return a `dict` with the parameters to replicate this object.\n', '        """Serialise the family name, theta and tau.\n'),
                      (BASE, '        """Return a list of subclasses for the current class object.\n', '        """Cached list of the family classes.\n'),
                      (BASE, "raise ValueError(f'Invalid copula type {copula_type}')", "raise ValueError('Unknown copula family: {}'.format(copula_type))"),
                      (CLAYTON, '        r"""Compute probability density function for given copula family.\n', '        r"""Density of the Clayton copula.\n')],
     'docstrings of to_dict, subclasses, Clayton.probability_density rewritten; the message of the ValueError of __new__ reworded'),
    ('h_annotations', [(BASE, '    def to_dict(self):', '    def to_dict(self) -> dict:'),
                       (BASE, '    def from_dict(cls, copula_dict):', "    def from_dict(cls, copula_dict: dict) -> 'Bivariate':"),
                       (BASE, '    def sample(self, n_samples):', '    def sample(self, n_samples: int) -> np.ndarray:'),
                       (BASE, "        copula_type = kwargs.get('copula_type', None)\n", "        copula_type: object = kwargs.get('copula_type', None)\n"),
                       (BASE, '    def pdf(self, X):', "    def pdf(self, X: 'np.ndarray'):")],
     'type annotations added to to_dict, from_dict, sample, pdf and a local of __new__'),
]


def run_one(root, name, edits, what, harmless):
    copy = os.path.join(root, 'blm_' + name)
    out = os.path.join('/tmp/vf_out', 'blm_' + name)
    row = {'name': name, 'what': what, 'harmless': harmless}
    try:
        shutil.copytree(REPO, copy, ignore=shutil.ignore_patterns('.git', '__pycache__', '*.pyc', 'docs', 'tutorials', 'tests'))
        for rel, old, new in edits:
            p = os.path.join(copy, rel)
            text = open(p).read()
            if text.count(old) != 1:
                row.update(rc=None, verdict='EDIT DOES NOT APPLY', layer='-', failed=[old[:60]], also='')
                return row
            text = text.replace(old, new)
            compile(text, p, 'exec')
            open(p, 'w').write(text)
        shutil.rmtree(out, ignore_errors=True)
        env = dict(os.environ, VERIF_REPO=copy)
        env.pop('VERIF_OUT', None)
        r = subprocess.run([os.path.join(VERIF, 'check'), 'C14'], cwd=VERIF, env=env, stdout=subprocess.PIPE, stderr=subprocess.STDOUT, text=True,
                           timeout=3000)
        row['rc'] = r.returncode
        try:
            ev = json.load(open(os.path.join(out, 'evidence', 'C14.json')))
            failed = ev['coverage']['failed_obligations']
        except Exception as ex:      # noqa
            failed = [f'(no evidence file: {ex})']
        tr = [f for f in failed if f.startswith('translate:gen_')]
        br = [f for f in failed if f.startswith('C14_biv.v:')]
        other = [f for f in failed if f not in tr and f not in br]
        nviol = sum(1 for l in r.stdout.split('\n') if l.startswith('VIOLATION') and 'no-failing-input-found' not in l)
        row['failed'] = tr + br
        row['also'] = (f'{len(other)} other failed obligations' if other else '') + (', ' if other and nviol else '') + \
            (f'{nviol} VIOLATION lines with a failing input' if nviol else '')
        row['layer'] = 'translation' if tr else ('bridge theorem' if br else '-')
        if harmless:
            row['verdict'] = 'ok (accepted)' if r.returncode == 0 and not failed else 'FALSE ALARM'
        else:
            row['verdict'] = 'detected' if r.returncode == 1 and (tr or br) else ('MISSED BY THE TRANSLATION/BRIDGE LAYER' if r.returncode == 1 else 'NOT DETECTED')
        if 'ok' not in row['verdict'] and row['verdict'] != 'detected':
            row['tail'] = r.stdout[-1500:]
        return row
    finally:
        shutil.rmtree(copy, ignore_errors=True)
        shutil.rmtree(out, ignore_errors=True)


def main():
    ap = argparse.ArgumentParser()
    ap.add_argument('-j', type=int, default=3)
    ap.add_argument('names', nargs='*')
    a = ap.parse_args()
    jobs = [(m, False) for m in MUTANTS] + [(h, True) for h in HARMLESS]
    if a.names:
        jobs = [j for j in jobs if j[0][0] in a.names]
    root = tempfile.mkdtemp(prefix='bivlife_mutants_')
    try:
        with ThreadPoolExecutor(a.j) as ex:
            rows = list(ex.map(lambda j: run_one(root, *j[0], j[1]), jobs))
    finally:
        shutil.rmtree(root, ignore_errors=True)
    print(f'{"mutant":26} {"exit":4} {"caught by":15} {"verdict":14} failed obligations of the translation/bridge layer | also')
    bad = 0
    for r in rows:
        print(f'{r["name"]:26} {str(r["rc"]):4} {r["layer"]:15} {r["verdict"]:14} {"; ".join(r["failed"])} | {r.get("also", "")}')
        print(f'{"":26} ({r["what"]})')
        if r['verdict'] not in ('detected', 'ok (accepted)'):
            bad += 1
            print(r.get('tail', ''))
    print(f'{len(rows) - bad}/{len(rows)} rows as expected')
    return 1 if bad else 0


if __name__ == '__main__':
    sys.exit(main())
