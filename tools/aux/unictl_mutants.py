#!/venv/bin/python
"""Mutation self-test of the generated control skeleton of the univariate base classes (tools/vf/unictlgen.py + the C19_bridge_*
theorems of coq/Props/C19.v).

For every mutant: a scratch copy of the library under /tmp (removed afterwards) gets ONE small semantic change of
copulas/univariate/base.py, then `VERIF_REPO=<copy> ./check C19` is run from this worktree.  Expected: exit code 1, and among the failed
obligations a `translate:gen_*` obligation (the translator refused the new shape) or a `C19.v:C19_bridge_*` obligation (the generated
definition is no longer provably the model's).  Some mutants are ALSO caught by the history correspondence / the witness search; that is
reported in the last column but is not what this self-test is about.  The harmless edits (local renames, docstrings, annotations -
absorbed by tools/vf/srcnorm.py) must leave the exit code at 0 with no failed obligation.

    tools/aux/unictl_mutants.py [-j N] [name ...]        # exit code 0 iff every row is as expected
"""
import argparse
import json
import os
import shutil
import subprocess
import sys
import tempfile
from concurrent.futures import ThreadPoolExecutor

HERE = os.path.dirname(os.path.abspath(__file__))
VERIF = os.path.dirname(os.path.dirname(HERE))
REPO = os.environ.get('UNICTL_BASE_REPO', '/repo')
BASE = os.path.join('copulas', 'univariate', 'base.py')

FIT = ('        if self._check_constant_value(X):\n            self._fit_constant(X)\n        else:\n            self._fit(X)\n\n'
       '        self.fitted = True\n')
REPLACE = ('        self.cumulative_distribution = self._constant_cumulative_distribution\n'
           '        self.percent_point = self._constant_percent_point\n')
PPF = ('        self.check_fit()\n        return self.MODEL_CLASS.ppf(U, **self._params)\n')
TO_DICT = ('        self.check_fit()\n\n        params = self._get_params()\n')
FROM_DICT = ('        distribution._set_params(params)\n        distribution.fitted = True\n')
CHECK_CONST = ('        uniques = np.unique(X)\n        if len(uniques) == 1:\n            self._set_constant_value(uniques[0])\n\n'
               '            return True\n\n        self._constant_value = None\n'
               "        for method_name in ('cumulative_distribution', 'percent_point', 'probability_density', 'sample'):\n"
               '            self.__dict__.pop(method_name, None)\n\n        return False\n')

# name, [(old text, new text)], what
MUTANTS = [
    ('len_le_1', [('        if len(uniques) == 1:\n', '        if len(uniques) <= 1:\n')],
     '_check_constant_value: `if len(uniques) <= 1` (differs on empty data only)'),
    ('fitted_before_branch', [(FIT, '        self.fitted = True\n' + FIT.replace('\n        self.fitted = True\n', ''))],
     'ScipyModel.fit: `self.fitted = True` moved before the branch (a raising _fit leaves fitted = True)'),
    ('pop_drops_sample', [("('cumulative_distribution', 'percent_point', 'probability_density', 'sample'):",
                           "('cumulative_distribution', 'percent_point', 'probability_density'):")],
     "_check_constant_value: the pop loop no longer removes 'sample'"),
    ('uniques_last', [('self._set_constant_value(uniques[0])', 'self._set_constant_value(uniques[-1])')],
     '_check_constant_value: _set_constant_value(uniques[-1])'),
    ('ppf_no_check_fit', [(PPF, '        return self.MODEL_CLASS.ppf(U, **self._params)\n')],
     'ScipyModel.percent_point: check_fit dropped'),
    ('set_params_no_copy', [('        self._params = params.copy()\n', '        self._params = params\n')],
     'ScipyModel._set_params: the dict of the caller is stored without a copy'),
    ('not_is_constant', [('        if self._is_constant():\n', '        if not self._is_constant():\n')],
     'ScipyModel._set_params: `if not self._is_constant()`'),
    ('to_dict_no_check_fit', [(TO_DICT, '        params = self._get_params()\n')],
     'Univariate.to_dict: check_fit dropped'),
    ('from_dict_fitted_first', [(FROM_DICT, '        distribution.fitted = True\n        distribution._set_params(params)\n')],
     'Univariate.from_dict: fitted = True before _set_params'),
    ('replace_swapped', [(REPLACE, '        self.cumulative_distribution = self._constant_percent_point\n'
                                   '        self.percent_point = self._constant_cumulative_distribution\n')],
     '_replace_constant_methods: cumulative_distribution <- _constant_percent_point and vice versa'),
    ('check_fit_value_error', [("            raise NotFittedError('This model is not fitted.')\n\n    def _constant_sample",
                                "            raise ValueError('This model is not fitted.')\n\n    def _constant_sample")],
     'Univariate.check_fit raises ValueError'),
    ('sample_no_random_state', [('    @random_state\n    def sample(self, n_samples=1):\n        """Sample values from this model.\n\n'
                                 '        Argument:\n            n_samples (int):\n                Number of values to sample\n\n'
                                 '        Returns:\n            numpy.ndarray:\n                Array of shape (n_samples, 1) with values randomly\n'
                                 '                sampled from this model distribution.\n\n        Raises:\n            NotFittedError:\n'
                                 '                if the model is not fitted.\n        """\n        self.check_fit()\n'
                                 '        return self.MODEL_CLASS.rvs(',
                                 '    def sample(self, n_samples=1):\n        """Sample values from this model."""\n        self.check_fit()\n'
                                 '        return self.MODEL_CLASS.rvs(')],
     'ScipyModel.sample: @random_state removed'),
    ('cdf_calls_pdf', [('        return self.MODEL_CLASS.cdf(X, **self._params)\n', '        return self.MODEL_CLASS.pdf(X, **self._params)\n')],
     'ScipyModel.cumulative_distribution delegates to MODEL_CLASS.pdf'),
    ('const_not_reset', [('            return True\n\n        self._constant_value = None\n', '            return True\n\n')],
     '_check_constant_value: _constant_value no longer reset on non-constant data'),
    ('fit_branches_swapped', [('        if self._check_constant_value(X):\n            self._fit_constant(X)\n',
                               '        if not self._check_constant_value(X):\n            self._fit_constant(X)\n')],
     'ScipyModel.fit: `if not self._check_constant_value(X)`'),
    ('from_dict_no_pop', [("get_instance(params.pop('type'))", "get_instance(params['type'])")],
     "Univariate.from_dict: 'type' is read but stays in the dict handed to _set_params"),
]

HARMLESS = [
    ('h_rename_locals', [(CHECK_CONST, CHECK_CONST.replace('uniques', 'distinct').replace('method_name', 'attr')),
                         ('            constant = self._extract_constant()\n            self._set_constant_value(constant)\n',
                          '            value = self._extract_constant()\n            self._set_constant_value(value)\n'),
                         ("        distribution = get_instance(params.pop('type'))\n        distribution._set_params(params)\n"
                          '        distribution.fitted = True\n\n        return distribution\n',
                          "        obj = get_instance(params.pop('type'))\n        obj._set_params(params)\n"
                          '        obj.fitted = True\n\n        return obj\n')],
     'locals of _check_constant_value, ScipyModel._set_params and from_dict renamed'),
    ('h_docstrings', [('        """Check whether this model has already been fit to a random variable.\n\n        Raise a ``NotFittedError`` if it has not.\n',
                       '        """Raise ``NotFittedError`` unless ``fit`` (or ``from_dict``) has run.\n\n        Nothing is returned.\n'),
                      ('        """Replace conventional distribution methods by its constant counterparts."""',
                       '        """Shadow the four public methods with the degenerate ones (instance attributes)."""'),
                      ('        """Set the distribution up to behave as a degenerate distribution.\n',
                       '        """Make this instance a degenerate (one-point) distribution.\n')],
     'docstrings of check_fit, _replace_constant_methods, _set_constant_value rewritten'),
    ('h_annotations', [('    def check_fit(self):', '    def check_fit(self) -> None:'),
                       ('    def _set_constant_value(self, constant_value):', '    def _set_constant_value(self, constant_value: float) -> None:'),
                       ('    def _check_constant_value(self, X):', "    def _check_constant_value(self, X: 'np.ndarray') -> bool:"),
                       ('        uniques = np.unique(X)\n', '        uniques: np.ndarray = np.unique(X)\n'),
                       ('    def _set_params(self, params):\n        """Set the parameters of this univariate.\n\n        Args:\n            params (dict):',
                        '    def _set_params(self, params: dict) -> None:\n        """Set the parameters of this univariate.\n\n        Args:\n            params (dict):'),
                       ('    def to_dict(self):', '    def to_dict(self) -> dict:')],
     'type annotations added to check_fit, _set_constant_value, _check_constant_value, ScipyModel._set_params, to_dict'),
]


def run_one(root, name, edits, what, harmless):
    copy = os.path.join(root, 'ucm_' + name)
    out = os.path.join('/tmp/vf_out', 'ucm_' + name)
    row = {'name': name, 'what': what, 'harmless': harmless}
    try:
        shutil.copytree(REPO, copy, ignore=shutil.ignore_patterns('.git', '__pycache__', '*.pyc', 'docs', 'tutorials', 'tests'))
        p = os.path.join(copy, BASE)
        text = open(p).read()
        for old, new in edits:
            if text.count(old) != 1:
                row.update(rc=None, verdict='EDIT DOES NOT APPLY', layer='-', failed=[old[:60]], also='')
                return row
            text = text.replace(old, new)
        compile(text, p, 'exec')
        open(p, 'w').write(text)
        shutil.rmtree(out, ignore_errors=True)
        env = dict(os.environ, VERIF_REPO=copy)
        env.pop('VERIF_OUT', None)
        r = subprocess.run([os.path.join(VERIF, 'check'), 'C19'], cwd=VERIF, env=env, stdout=subprocess.PIPE, stderr=subprocess.STDOUT, text=True,
                           timeout=3000)
        row['rc'] = r.returncode
        try:
            ev = json.load(open(os.path.join(out, 'evidence', 'C19.json')))
            failed = ev['coverage']['failed_obligations']
        except Exception as ex:      # noqa
            failed = [f'(no evidence file: {ex})']
        tr = [f for f in failed if f.startswith('translate:gen_')]
        br = [f for f in failed if '_bridge_' in f or 'C19_gen_fit' in f]
        other = [f for f in failed if f not in tr and f not in br]
        nviol = sum(1 for l in r.stdout.split('\n') if l.startswith('VIOLATION') and 'no-failing-input-found' not in l)
        row['failed'] = tr + br
        row['also'] = (f'{len(other)} other failed obligations' if other else '') + (', ' if other and nviol else '') + \
            (f'{nviol} VIOLATION lines with a failing input' if nviol else '')
        row['layer'] = 'translation' if tr else ('bridge theorem' if br else '-')
        if harmless:
            row['verdict'] = 'ok (accepted)' if r.returncode == 0 and not failed else 'FALSE ALARM'
        else:
            row['verdict'] = 'detected' if r.returncode == 1 and (tr or br) else ('MISSED BY THE TRANSLATION/BRIDGE LAYER' if r.returncode == 1 else 'NOT DETECTED')
        if 'ok' not in row['verdict'] and row['verdict'] != 'detected':
            row['tail'] = r.stdout[-1500:]
        return row
    finally:
        shutil.rmtree(copy, ignore_errors=True)
        shutil.rmtree(out, ignore_errors=True)


def main():
    ap = argparse.ArgumentParser()
    ap.add_argument('-j', type=int, default=4)
    ap.add_argument('names', nargs='*')
    a = ap.parse_args()
    jobs = [(m, False) for m in MUTANTS] + [(h, True) for h in HARMLESS]
    if a.names:
        jobs = [j for j in jobs if j[0][0] in a.names]
    root = tempfile.mkdtemp(prefix='unictl_mutants_')
    try:
        with ThreadPoolExecutor(a.j) as ex:
            rows = list(ex.map(lambda j: run_one(root, *j[0], j[1]), jobs))
    finally:
        shutil.rmtree(root, ignore_errors=True)
    print(f'{"mutant":24} {"exit":4} {"caught by":15} {"verdict":14} failed obligations of the translation/bridge layer | also')
    bad = 0
    for r in rows:
        print(f'{r["name"]:24} {str(r["rc"]):4} {r["layer"]:15} {r["verdict"]:14} {"; ".join(r["failed"])} | {r.get("also", "")}')
        print(f'{"":24} ({r["what"]})')
        if r['verdict'] not in ('detected', 'ok (accepted)'):
            bad += 1
            print(r.get('tail', ''))
    print(f'{len(rows) - bad}/{len(rows)} rows as expected')
    return 1 if bad else 0


if __name__ == '__main__':
    sys.exit(main())
