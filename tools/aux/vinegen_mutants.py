#!/venv/bin/python
"""Mutation self-test of the generated edge kernel (tools/vf/vinegen.py + the C16_bridge_* / C17_bridge_* theorems).

For every mutant: a scratch copy of the library under /tmp (removed afterwards) gets ONE small semantic change of
copulas/multivariate/tree.py, then `VERIF_REPO=<copy> ./check C16` (or C17) is run from this worktree.  Expected: exit code 1, and
among the failed obligations a `translate:gen_*` obligation (the translator refused the new shape) or a `<Cxx>.v:Cxx_bridge_*`
obligation (the generated definition is no longer provably the model's).  The three harmless edits (local renames, docstrings,
annotations - absorbed by tools/vf/srcnorm.py) must leave the exit code at 0.

    tools/aux/vinegen_mutants.py [-j N] [name ...]        # exit code 0 iff every row is as expected
"""
import argparse
import json
import os
import shutil
import subprocess
import sys
import tempfile
from concurrent.futures import ThreadPoolExecutor

HERE = os.path.dirname(os.path.abspath(__file__))
VERIF = os.path.dirname(os.path.dirname(HERE))
REPO = os.environ.get('VINEGEN_BASE_REPO', '/repo')
TREE = os.path.join('copulas', 'multivariate', 'tree.py')

# name, property, [(old text, new text)], what
MUTANTS = [
    ('level_plus_2', 'C16', [('return len(full_node) == (self.level + 1)', 'return len(full_node) == (self.level + 2)')],
     '_check_constraint: self.level + 2'),
    ('drop_update_D2', 'C16', [('        full_node.update(edge1.D)\n        full_node.update(edge2.D)\n', '        full_node.update(edge1.D)\n')],
     '_check_constraint: edge2.D no longer added'),
    ('or_for_and', 'C16', [('depend_set = A & B', 'depend_set = A | B')], '_identify_eds_ing: A | B instead of A & B'),
    ('sorted_slice', 'C16', [('left, right = sorted(A ^ B)', 'left, right = sorted(A ^ B)[:2]')],
     '_identify_eds_ing: the ValueError of the unpacking is sliced away'),
    ('drop_disjunct', 'C16', [('            or self.R == another_edge.L\n', '')], 'is_adjacent: third == disjunct dropped'),
    ('key_swapped', 'C16', [('key=lambda x: (x.L, x.R)', 'key=lambda x: (x.R, x.L)')], 'sort_edge: key (x.R, x.L)'),
    ('swap_ed1_ed2', 'C16', [('new_edge = Edge(index, ed1, ed2, name, theta)', 'new_edge = Edge(index, ed2, ed1, name, theta)')],
     'get_child_edge: ed1 / ed2 swapped'),
    ('parents_swapped', 'C16', [('new_edge.parents = [left_parent, right_parent]', 'new_edge.parents = [right_parent, left_parent]')],
     'get_child_edge: parents in the other order'),
    ('init_swaps_LR', 'C16', [('        self.L = left\n        self.R = right\n', '        self.L = right\n        self.R = left\n')],
     'Edge.__init__: L and R exchanged'),
    ('drop_k_ne_i', 'C16', [('if k != i and self.edges[k].is_adjacent(self.edges[i]):', 'if self.edges[k].is_adjacent(self.edges[i]):')],
     '_get_constraints: k != i removed'),
    ('cond_uni_U_swapped', 'C17', [('left_u = left_parent.U[0] if left_parent.L == left else left_parent.U[1]',
                                    'left_u = left_parent.U[1] if left_parent.L == left else left_parent.U[0]')],
     'get_conditional_uni: U[0] / U[1] exchanged for the left parent'),
    ('cond_uni_R_for_L', 'C17', [('right_u = right_parent.U[0] if right_parent.L == right else right_parent.U[1]',
                                  'right_u = right_parent.U[0] if right_parent.R == right else right_parent.U[1]')],
     'get_conditional_uni: right_parent.R == right'),
]

HARMLESS = [
    ('h_rename_locals', 'C16', [('        A = {first.L, first.R}\n        A.update(first.D)\n\n        B = {second.L, second.R}\n        B.update(second.D)\n\n'
                                 '        depend_set = A & B\n        left, right = sorted(A ^ B)\n\n        return left, right, depend_set\n',
                                 '        nodes_a = {first.L, first.R}\n        nodes_a.update(first.D)\n\n        nodes_b = {second.L, second.R}\n'
                                 '        nodes_b.update(second.D)\n\n        common = nodes_a & nodes_b\n        lo, hi = sorted(nodes_a ^ nodes_b)\n\n'
                                 '        return lo, hi, common\n'),
                                ('        for k in range(num_edges):\n            for i in range(num_edges):\n'
                                 '                # add to constraints if i shared an edge with k\n'
                                 '                if k != i and self.edges[k].is_adjacent(self.edges[i]):\n'
                                 '                    self.edges[k].neighbors.append(i)\n',
                                 '        for row in range(num_edges):\n            for other in range(num_edges):\n'
                                 '                if row != other and self.edges[row].is_adjacent(self.edges[other]):\n'
                                 '                    self.edges[row].neighbors.append(other)\n')],
     'locals of _identify_eds_ing and loop variables of _get_constraints renamed'),
    ('h_rename_locals_c17', 'C17', [('        left, right, _ = cls._identify_eds_ing(left_parent, right_parent)\n\n'
                                     '        left_u = left_parent.U[0] if left_parent.L == left else left_parent.U[1]\n'
                                     '        right_u = right_parent.U[0] if right_parent.L == right else right_parent.U[1]\n\n'
                                     '        return left_u, right_u\n',
                                     '        lo, hi, _ = cls._identify_eds_ing(left_parent, right_parent)\n\n'
                                     '        col_lo = left_parent.U[0] if left_parent.L == lo else left_parent.U[1]\n'
                                     '        col_hi = right_parent.U[0] if right_parent.L == hi else right_parent.U[1]\n\n'
                                     '        return col_lo, col_hi\n')],
     'locals of get_conditional_uni renamed'),
    ('h_docstrings', 'C16', [('        """Check if two edges are adjacent.\n', '        """Tell whether this edge and another one share a node.\n\n        (two edges are adjacent when they do)\n'),
                             ('        """Get neighboring edges for each edge in the edges."""', '        """Fill ``neighbors`` of every edge with the indices of the adjacent edges."""'),
                             ('    @staticmethod\n    def sort_edge(edges):\n        """Sort iterable of edges first by left node indices then right.\n',
                              '    @staticmethod\n    def sort_edge(edges):\n        """Sort edges by (L, R).\n')],
     'docstrings of is_adjacent, _get_constraints, sort_edge rewritten'),
    ('h_annotations', 'C16', [('    def _check_constraint(self, edge1, edge2):', "    def _check_constraint(self, edge1: 'Edge', edge2: 'Edge') -> bool:"),
                              ('        full_node = {edge1.L, edge1.R, edge2.L, edge2.R}', '        full_node: set = {edge1.L, edge1.R, edge2.L, edge2.R}'),
                              ('    def is_adjacent(self, another_edge):', "    def is_adjacent(self, another_edge: 'Edge') -> bool:"),
                              ('    def get_child_edge(cls, index, left_parent, right_parent):',
                               "    def get_child_edge(cls, index: int, left_parent: 'Edge', right_parent: 'Edge') -> 'Edge':")],
     'type annotations added to _check_constraint, is_adjacent, get_child_edge'),
]


def run_one(root, name, prop, edits, what, harmless):
    copy = os.path.join(root, 'vgm_' + name)
    out = os.path.join('/tmp/vf_out', 'vgm_' + name)
    row = {'name': name, 'property': prop, 'what': what, 'harmless': harmless}
    try:
        shutil.copytree(REPO, copy, ignore=shutil.ignore_patterns('.git', '__pycache__', '*.pyc', 'docs', 'tutorials', 'tests'))
        p = os.path.join(copy, TREE)
        text = open(p).read()
        for old, new in edits:
            if text.count(old) != 1:
                row.update(rc=None, verdict='EDIT DOES NOT APPLY', layer='-', failed=[old[:60]])
                return row
            text = text.replace(old, new)
        compile(text, p, 'exec')
        open(p, 'w').write(text)
        shutil.rmtree(out, ignore_errors=True)
        env = dict(os.environ, VERIF_REPO=copy)
        env.pop('VERIF_OUT', None)
        r = subprocess.run([os.path.join(VERIF, 'check'), prop], cwd=VERIF, env=env, stdout=subprocess.PIPE, stderr=subprocess.STDOUT, text=True,
                           timeout=3000)
        row['rc'] = r.returncode
        try:
            ev = json.load(open(os.path.join(out, 'evidence', prop + '.json')))
            failed = ev['coverage']['failed_obligations']
        except Exception as ex:      # noqa
            failed = [f'(no evidence file: {ex})']
        tr = [f for f in failed if f.startswith('translate:gen_')]
        br = [f for f in failed if '_bridge_' in f]
        other = [f for f in failed if f not in tr and f not in br]
        row['failed'] = tr + br + [f'+{len(other)} other failed obligations (correspondence / search)'] * bool(other)
        row['layer'] = 'translation' if tr else ('bridge theorem' if br else '-')
        if harmless:
            row['verdict'] = 'ok (accepted)' if r.returncode == 0 and not failed else 'FALSE ALARM'
        else:
            row['verdict'] = 'detected' if r.returncode == 1 and (tr or br) else ('MISSED BY THE TRANSLATION/BRIDGE LAYER' if r.returncode == 1 else 'NOT DETECTED')
        if 'ok' not in row['verdict'] and row['verdict'] != 'detected':
            row['tail'] = r.stdout[-1500:]
        return row
    finally:
        shutil.rmtree(copy, ignore_errors=True)
        shutil.rmtree(out, ignore_errors=True)


def main():
    ap = argparse.ArgumentParser()
    ap.add_argument('-j', type=int, default=4)
    ap.add_argument('names', nargs='*')
    a = ap.parse_args()
    jobs = [(m, False) for m in MUTANTS] + [(h, True) for h in HARMLESS]
    if a.names:
        jobs = [j for j in jobs if j[0][0] in a.names]
    root = tempfile.mkdtemp(prefix='vinegen_mutants_')
    try:
        with ThreadPoolExecutor(a.j) as ex:
            rows = list(ex.map(lambda j: run_one(root, *j[0], j[1]), jobs))
    finally:
        shutil.rmtree(root, ignore_errors=True)
    print(f'{"mutant":22} {"check":5} {"exit":4} {"caught by":15} {"verdict":14} failed obligations of the translation/bridge layer')
    bad = 0
    for r in rows:
        print(f'{r["name"]:22} {r["property"]:5} {str(r["rc"]):4} {r["layer"]:15} {r["verdict"]:14} {"; ".join(r["failed"])}')
        print(f'{"":22} ({r["what"]})')
        if r['verdict'] not in ('detected', 'ok (accepted)'):
            bad += 1
            print(r.get('tail', ''))
    print(f'{len(rows) - bad}/{len(rows)} rows as expected')
    return 1 if bad else 0


if __name__ == '__main__':
    sys.exit(main())
