#!/venv/bin/python
"""Mutation self-test of the generated control skeleton of GaussianMultivariate / Multivariate (tools/vf/gmctlgen.py, coq/Lib/PyGM.v and
the C19_bridge_gm_* theorems of coq/Props/C19_gm.v).

For every mutant: a scratch copy of the library under /tmp (removed afterwards) gets ONE small semantic change of
copulas/multivariate/gaussian.py or base.py, then `VERIF_REPO=<copy> ./check C19` is run from this worktree.  Expected: exit code 1, and
among the failed obligations a `translate:gen_*` obligation (the translator refused the new shape) or a `C19_gm.v:C19_bridge_gm_*`
obligation (the generated definition is no longer provably the model's).  Some mutants are ALSO caught by the history correspondence /
the witness search; that is reported in the last column but is not what this self-test is about.  The harmless edits (local renames,
docstrings, annotations - absorbed by tools/vf/srcnorm.py) must leave the exit code at 0 with no failed obligation.

    tools/aux/gmctl_mutants.py [-j N] [name ...]        # exit code 0 iff every row is as expected
"""
import argparse
import json
import os
import shutil
import subprocess
import sys
import tempfile
from concurrent.futures import ThreadPoolExecutor

HERE = os.path.dirname(os.path.abspath(__file__))
VERIF = os.path.dirname(os.path.dirname(HERE))
REPO = os.environ.get('GMCTL_BASE_REPO', '/repo')
GAUSS = os.path.join('copulas', 'multivariate', 'gaussian.py')
BASE = os.path.join('copulas', 'multivariate', 'base.py')

FIT_TAIL = ("        self.columns = columns\n        self.univariates = univariates\n\n        LOGGER.debug('Computing correlation.')\n"
            '        self.correlation = self._get_correlation(X)\n        self.fitted = True\n')
FIT_COLUMN = ('        univariate = get_instance(distribution)\n        try:\n            univariate.fit(column)\n')
FALLBACK = ('        univariate = GaussianUnivariate()\n        univariate.fit(column)\n')
PDF = ('        self.check_fit()\n        transformed = self._transform_to_normal(X)\n\n'
       '        return stats.multivariate_normal.pdf(')
SAMPLE = ('        self.check_fit()\n\n        samples = self._get_normal_samples(num_rows, conditions)\n')
FROM_DICT = ("        correlation = copula_dict['correlation']\n"
             '        instance.correlation = pd.DataFrame(correlation, index=columns, columns=columns)\n        instance.fitted = True\n')
LOOP = ('        for column_name, column in X.items():\n            distribution = self._get_distribution_for_column(column_name)\n'
        "            LOGGER.debug('Fitting column %s to %s', column_name, distribution)\n\n"
        '            univariate = self._fit_column(column, distribution, column_name)\n            columns.append(column_name)\n'
        '            univariates.append(univariate)\n')

# name, file, [(old text, new text)], what
MUTANTS = [
    ('fitted_before_corr', GAUSS, [(FIT_TAIL, FIT_TAIL.replace('        self.fitted = True\n', '').replace(
        '        self.correlation =', '        self.fitted = True\n        self.correlation ='))],
     'fit: `self.fitted = True` moved before `self.correlation = self._get_correlation(X)` (a raising correlation leaves fitted = True)'),
    ('corr_before_univariates', GAUSS, [(FIT_TAIL, "        self.columns = columns\n\n        LOGGER.debug('Computing correlation.')\n"
                                          '        self.correlation = self._get_correlation(X)\n        self.univariates = univariates\n'
                                          '        self.fitted = True\n')],
     'fit: `self.univariates = univariates` moved after the correlation (computed from the univariates of the previous fit)'),
    ('validate_negated', GAUSS, [('        if not isinstance(X, pd.DataFrame):\n            X = pd.DataFrame(X)\n',
                                  '        if isinstance(X, pd.DataFrame):\n            X = pd.DataFrame(X)\n')],
     '_validate_input: `if isinstance(X, pd.DataFrame)` (an ndarray is no longer converted)'),
    ('default_gaussian', GAUSS, [('DEFAULT_DISTRIBUTION = Univariate\n', 'DEFAULT_DISTRIBUTION = GaussianUnivariate\n')],
     'DEFAULT_DISTRIBUTION = GaussianUnivariate'),
    ('get_instance_in_try', GAUSS, [(FIT_COLUMN, '        try:\n            univariate = get_instance(distribution)\n            univariate.fit(column)\n')],
     '_fit_column: get_instance moved inside the try (a bad distribution name silently becomes a Gaussian)'),
    ('except_value_error', GAUSS, [('        except Exception as error:\n', '        except ValueError as error:\n')],
     '_fit_column: `except ValueError` (other exceptions of a column fit escape)'),
    ('fallback_not_fitted', GAUSS, [(FALLBACK, '        univariate = GaussianUnivariate()\n')],
     '_fit_with_fallback_distribution: the fallback Gaussian is returned unfitted'),
    ('dict_no_default', GAUSS, [('            return self.distribution.get(column_name, DEFAULT_DISTRIBUTION)\n',
                                 '            return self.distribution[column_name]\n')],
     '_get_distribution_for_column: `self.distribution[column_name]` (no DEFAULT fallback)'),
    ('columns_reversed', GAUSS, [('            columns.append(column_name)\n', '            columns.insert(0, column_name)\n')],
     '_fit_columns: `columns.insert(0, column_name)` (labels in reverse order)'),
    ('pdf_no_check_fit', GAUSS, [(PDF, PDF.replace('        self.check_fit()\n', ''))],
     'probability_density: check_fit dropped'),
    ('cdf_calls_pdf', GAUSS, [('        return stats.multivariate_normal.cdf(transformed, cov=self.correlation)\n',
                               '        return stats.multivariate_normal.pdf(transformed, cov=self.correlation)\n')],
     'cumulative_distribution delegates to multivariate_normal.pdf'),
    ('sample_no_random_state', GAUSS, [('    @random_state\n    def sample(self, num_rows=1, conditions=None):\n',
                                        '    def sample(self, num_rows=1, conditions=None):\n')],
     'sample: @random_state removed'),
    ('sample_check_fit_late', GAUSS, [(SAMPLE, '        samples = self._get_normal_samples(num_rows, conditions)\n        self.check_fit()\n')],
     'sample: check_fit after the normal draw'),
    ('sample_ppf_is_cdf', GAUSS, [('                output[column_name] = univariate.percent_point(cdf)\n',
                                   '                output[column_name] = univariate.cumulative_distribution(cdf)\n')],
     'sample: the marginal cdf instead of percent_point'),
    ('to_dict_key', GAUSS, [("            'columns': self.columns,\n", "            'column': self.columns,\n")],
     "to_dict: key 'column' instead of 'columns'"),
    ('from_dict_fitted_early', GAUSS, [(FROM_DICT, '        instance.fitted = True\n' + FROM_DICT.replace('        instance.fitted = True\n', ''))],
     'GaussianMultivariate.from_dict: `fitted = True` before the correlation is read (not the statement before the return)'),
    ('from_dict_columns_key', GAUSS, [("        columns = copula_dict['columns']\n", "        columns = copula_dict['column']\n")],
     "GaussianMultivariate.from_dict reads copula_dict['column']"),
    ('mv_from_dict_rsplit2', BASE, [("params['type'].rsplit('.', 1)", "params['type'].rsplit('.', 2)")],
     "Multivariate.from_dict: rsplit('.', 2)"),
    ('check_fit_value_error', BASE, [("            raise NotFittedError('This model is not fitted.')\n", "            raise ValueError('This model is not fitted.')\n")],
     'Multivariate.check_fit raises ValueError'),
    ('logpdf_is_pdf', BASE, [('        return np.log(self.probability_density(X))\n', '        return self.probability_density(X)\n')],
     'Multivariate.log_probability_density returns the density'),
]

HARMLESS = [
    ('h_rename_locals', GAUSS, [(LOOP, LOOP.replace('column_name', 'label').replace('univariate ', 'marginal ').replace('(univariate)', '(marginal)')
                                 .replace('distribution', 'spec').replace('_get_spec_for_column', '_get_distribution_for_column')),
                                (FROM_DICT, FROM_DICT.replace('        correlation =', '        rows =').replace('(correlation,', '(rows,')),
                                ('        transformed = self._transform_to_normal(X)\n        return stats.multivariate_normal.cdf(transformed,',
                                 '        normal = self._transform_to_normal(X)\n        return stats.multivariate_normal.cdf(normal,')],
     'locals of _fit_columns, from_dict and cumulative_distribution renamed'),
    ('h_docstrings', GAUSS, [('        """Compute the distribution for each variable and then its correlation matrix.\n',
                              '        """Fit one marginal per column, then the correlation of the normal scores.\n'),
                             ('        """Validate the input data."""', '        """Turn whatever was passed into a DataFrame."""'),
                             ('        """Fit each column to its distribution."""', '        """One univariate per column, in column order."""'),
                             ("            LOGGER.debug('Fitting column %s to %s', column_name, distribution)\n",
                              "            LOGGER.debug('column %s: fitting a %s', column_name, distribution)\n")],
     'docstrings of fit, _validate_input, _fit_columns and a log message rewritten'),
    ('h_annotations', GAUSS, [('    def _validate_input(self, X):', "    def _validate_input(self, X) -> 'pd.DataFrame':"),
                              ('    def _fit_columns(self, X):', "    def _fit_columns(self, X: 'pd.DataFrame') -> tuple:"),
                              ('        columns = []\n        univariates = []\n        for column_name', '        columns: list = []\n        univariates: list = []\n        for column_name'),
                              ('    def _get_distribution_for_column(self, column_name):', '    def _get_distribution_for_column(self, column_name: str):'),
                              ('    def to_dict(self):', '    def to_dict(self) -> dict:')],
     'type annotations added to _validate_input, _fit_columns (and its two lists), _get_distribution_for_column, to_dict'),
]


def run_one(root, name, relpath, edits, what, harmless):
    copy = os.path.join(root, 'gmm_' + name)
    out = os.path.join('/tmp/vf_out', 'gmm_' + name)
    row = {'name': name, 'what': what, 'harmless': harmless}
    try:
        shutil.copytree(REPO, copy, ignore=shutil.ignore_patterns('.git', '__pycache__', '*.pyc', 'docs', 'tutorials', 'tests'))
        p = os.path.join(copy, relpath)
        text = open(p).read()
        for old, new in edits:
            if text.count(old) != 1:
                row.update(rc=None, verdict='EDIT DOES NOT APPLY', layer='-', failed=[old[:60]], also='')
                return row
            text = text.replace(old, new)
        compile(text, p, 'exec')
        open(p, 'w').write(text)
        shutil.rmtree(out, ignore_errors=True)
        env = dict(os.environ, VERIF_REPO=copy)
        env.pop('VERIF_OUT', None)
        r = subprocess.run([os.path.join(VERIF, 'check'), 'C19'], cwd=VERIF, env=env, stdout=subprocess.PIPE, stderr=subprocess.STDOUT, text=True,
                           timeout=3000)
        row['rc'] = r.returncode
        try:
            ev = json.load(open(os.path.join(out, 'evidence', 'C19.json')))
            failed = ev['coverage']['failed_obligations']
        except Exception as ex:      # noqa
            failed = [f'(no evidence file: {ex})']
        tr = [f for f in failed if f.startswith('translate:gen_')]
        br = [f for f in failed if '_bridge_gm_' in f or 'C19_gm_' in f]
        other = [f for f in failed if f not in tr and f not in br]
        nviol = sum(1 for l in r.stdout.split('\n') if l.startswith('VIOLATION') and 'no-failing-input-found' not in l)
        row['failed'] = tr + br
        row['also'] = (f'{len(other)} other failed obligations' if other else '') + (', ' if other and nviol else '') + \
            (f'{nviol} VIOLATION lines with a failing input' if nviol else '')
        row['layer'] = 'translation' if tr else ('bridge theorem' if br else '-')
        if harmless:
            row['verdict'] = 'ok (accepted)' if r.returncode == 0 and not failed else 'FALSE ALARM'
        else:
            row['verdict'] = 'detected' if r.returncode == 1 and (tr or br) else ('MISSED BY THE TRANSLATION/BRIDGE LAYER' if r.returncode == 1 else 'NOT DETECTED')
        if 'ok' not in row['verdict'] and row['verdict'] != 'detected':
            row['tail'] = r.stdout[-1500:]
        return row
    finally:
        shutil.rmtree(copy, ignore_errors=True)
        shutil.rmtree(out, ignore_errors=True)


def main():
    ap = argparse.ArgumentParser()
    ap.add_argument('-j', type=int, default=4)
    ap.add_argument('names', nargs='*')
    a = ap.parse_args()
    jobs = [(m, False) for m in MUTANTS] + [(h, True) for h in HARMLESS]
    if a.names:
        jobs = [j for j in jobs if j[0][0] in a.names]
    root = tempfile.mkdtemp(prefix='gmctl_mutants_')
    try:
        with ThreadPoolExecutor(a.j) as ex:
            rows = list(ex.map(lambda j: run_one(root, *j[0], j[1]), jobs))
    finally:
        shutil.rmtree(root, ignore_errors=True)
    print(f'{"mutant":24} {"exit":4} {"caught by":15} {"verdict":14} failed obligations of the translation/bridge layer | also')
    bad = 0
    for r in rows:
        print(f'{r["name"]:24} {str(r["rc"]):4} {r["layer"]:15} {r["verdict"]:14} {"; ".join(r["failed"])} | {r.get("also", "")}')
        print(f'{"":24} ({r["what"]})')
        if r['verdict'] not in ('detected', 'ok (accepted)'):
            bad += 1
            print(r.get('tail', ''))
    print(f'{len(rows) - bad}/{len(rows)} rows as expected')
    return 1 if bad else 0


if __name__ == '__main__':
    sys.exit(main())
