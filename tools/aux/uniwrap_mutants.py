#!/venv/bin/python
"""Mutation self-test of the second generated layer of C19 (tools/vf/uniwrapgen.py + the C19_bridge2_* theorems of
coq/Props/C19_uni2.v): the family hooks of the eight ScipyModel classes, GaussianKDE's own methods, the selecting Univariate wrapper.

For every mutant: a scratch copy of the library under /tmp (removed afterwards) gets ONE small semantic change of one of the translated
functions, then `VERIF_REPO=<copy> ./check C19` is run from this worktree.  Expected: exit code 1, and among the failed obligations a
`translate:<name>` obligation of this layer (the translator refused the new shape) or a `C19_uni2.v:C19_bridge2_*` obligation (the
generated definition is no longer provably the model's).  What the rest of C19 (history correspondence, witness search, pinned facts)
says about the same mutant is reported in the last column.  The harmless edits (local renames, docstrings, annotations - absorbed by
tools/vf/srcnorm.py) must leave the exit code at 0 with no failed obligation.

    tools/aux/uniwrap_mutants.py [-j N] [name ...]        # exit code 0 iff every row is as expected
"""
import argparse
import json
import os
import shutil
import subprocess
import sys
import tempfile
from concurrent.futures import ThreadPoolExecutor

HERE = os.path.dirname(os.path.abspath(__file__))
VERIF = os.path.dirname(os.path.dirname(HERE))
REPO = os.environ.get('UNIWRAP_BASE_REPO', '/repo')
U = os.path.join('copulas', 'univariate')
GAUSS, UNIF, BETA, STUD = (os.path.join(U, f) for f in ('gaussian.py', 'uniform.py', 'beta.py', 'student_t.py'))
TG, KDE, BASE, SEL = (os.path.join(U, f) for f in ('truncated_gaussian.py', 'gaussian_kde.py', 'base.py', 'selection.py'))

TG_FIT_OLD = ('        minimum = X.min() - EPSILON if self.min is None else self.min\n'
              '        maximum = X.max() + EPSILON if self.max is None else self.max\n\n'
              '        def nnlf(params):\n            loc, scale = params\n            a = (minimum - loc) / scale\n'
              '            b = (maximum - loc) / scale\n            return truncnorm.nnlf((a, b, loc, scale), X)\n\n'
              '        initial_params = X.mean(), X.std()\n')
TG_FIT_TAIL_OLD = ('                bounds=[(minimum, maximum), (0.0, (maximum - minimum) ** 2)],\n            )\n\n'
                   '        loc, scale = optimal\n        a = (minimum - loc) / scale\n        b = (maximum - loc) / scale\n')
WFIT_OLD = ('            selection_sample = np.random.choice(X, size=self.selection_sample_size)\n        else:\n'
            '            selection_sample = X\n\n        self._instance = select_univariate(selection_sample, self.candidates)\n')

# name, [(file, old text, new text)], what
MUTANTS = [
    ('gauss_const_scale_1', [(GAUSS, "{'loc': np.unique(X)[0], 'scale': 0}", "{'loc': np.unique(X)[0], 'scale': 1}")],
     "GaussianUnivariate._fit_constant stores 'scale': 1"),
    ('beta_a_b_swapped', [(BETA, "{'loc': loc, 'scale': scale, 'a': a, 'b': b}", "{'loc': loc, 'scale': scale, 'a': b, 'b': a}")],
     "BetaUnivariate._fit: the first two components of beta.fit go under 'b' / 'a'"),
    ('beta_start_swapped', [(BETA, 'beta.fit(X, loc=loc, scale=scale)', 'beta.fit(X, loc=scale, scale=loc)')],
     'BetaUnivariate._fit: start values of beta.fit swapped'),
    ('uniform_scale_is_max', [(UNIF, "    def _fit(self, X):\n        self._params = {'loc': np.min(X), 'scale': np.max(X) - np.min(X)}",
                               "    def _fit(self, X):\n        self._params = {'loc': np.min(X), 'scale': np.max(X)}")],
     "UniformUnivariate._fit: 'scale' is max instead of max - min"),
    ('student_const_sets_loc', [(STUD, "        self._params['scale'] = 0\n", "        self._params['loc'] = 0\n")],
     "StudentTUnivariate._fit_constant overwrites 'loc' instead of 'scale'"),
    ('tg_is_constant_a_loc', [(TG, "return self._params['a'] == self._params['b']", "return self._params['a'] == self._params['loc']")],
     "TruncatedGaussian._is_constant compares 'a' with 'loc'"),
    ('tg_no_epsilon', [(TG, 'minimum = X.min() - EPSILON if self.min is None else self.min', 'minimum = X.min() if self.min is None else self.min')],
     'TruncatedGaussian._fit: the default lower bound is the data minimum itself (EPSILON dropped)'),
    ('tg_bounds_swapped', [(TG, 'bounds=[(minimum, maximum), (0.0, (maximum - minimum) ** 2)]', 'bounds=[(maximum, minimum), (0.0, (maximum - minimum) ** 2)]')],
     'TruncatedGaussian._fit: the bounds handed to fmin_slsqp are (maximum, minimum)'),
    ('kde_sample_size_not_cached', [(KDE, 'self._sample_size = self._sample_size or len(dataset)', 'self._sample_size = len(dataset)')],
     'GaussianKDE._get_model overwrites a given sample_size with len(dataset)'),
    ('kde_extract_last', [(KDE, "return self._params['dataset'][0]", "return self._params['dataset'][-1]")],
     "GaussianKDE._extract_constant returns the last point"),
    ('kde_set_params_no_model', [(KDE, '            self._set_constant_value(constant)\n        else:\n            self._model = self._get_model()\n',
                                  '            self._set_constant_value(constant)\n')],
     'GaussianKDE._set_params no longer builds _model'),
    ('kde_logpdf_bypasses_override', [(KDE, 'return np.log(self.probability_density(X))', 'return np.log(self._model.evaluate(X))')],
     'GaussianKDE.log_probability_density reads _model directly (ignores the instance-level override after a constant fit)'),
    ('wrapper_fits_subsample', [(BASE, '        self._instance.fit(X)\n', '        self._instance.fit(selection_sample)\n')],
     'Univariate.fit fits the selected instance on the selection subsample'),
    ('wrapper_sample_no_random_state', [(BASE, 'self.random_state = validate_random_state(random_state)\n\n    @random_state\n    def sample(',
                                         'self.random_state = validate_random_state(random_state)\n\n    def sample(')],
     'Univariate.sample: @random_state removed'),
    ('wrapper_ppf_delegates_cdf', [(BASE, 'return self._instance.percent_point(U)', 'return self._instance.cumulative_distribution(U)')],
     'Univariate.percent_point delegates to _instance.cumulative_distribution'),
    ('abc_guard_removed', [(BASE, '            if ABC in subclass.__bases__:\n                continue\n', '')],
     'Univariate._select_candidates: the abstract ScipyModel is no longer skipped'),
    ('beta_semi_bounded', [(BETA, '    BOUNDED = BoundedType.BOUNDED\n', '    BOUNDED = BoundedType.SEMI_BOUNDED\n')],
     'BetaUnivariate.BOUNDED = SEMI_BOUNDED (class attribute the candidate filter reads)'),
    ('import_order', [(os.path.join(U, '__init__.py'),
                       'from copulas.univariate.beta import BetaUnivariate\nfrom copulas.univariate.gamma import GammaUnivariate\n',
                       'from copulas.univariate.gamma import GammaUnivariate\nfrom copulas.univariate.beta import BetaUnivariate\n')],
     'copulas/univariate/__init__.py imports gamma before beta (order of __subclasses__(), i.e. of the default candidates)'),
    ('init_sss_from_random_state', [(BASE, '        self.selection_sample_size = selection_sample_size\n', '        self.selection_sample_size = random_state\n')],
     'Univariate.__init__ stores random_state as selection_sample_size'),
    ('select_returns_last', [(SEL, 'return get_instance(best_model)', 'return get_instance(model)')],
     'select_univariate returns an instance of the LAST candidate'),
]

HARMLESS = [
    ('h_rename_locals', [(BETA, "        a, b, loc, scale = beta.fit(X, loc=loc, scale=scale)\n        self._params = {'loc': loc, 'scale': scale, 'a': a, 'b': b}",
                          "        shape_a, shape_b, loc, scale = beta.fit(X, loc=loc, scale=scale)\n"
                          "        self._params = {'loc': loc, 'scale': scale, 'a': shape_a, 'b': shape_b}"),
                         (TG, TG_FIT_OLD, TG_FIT_OLD.replace('minimum', 'lower').replace('maximum', 'upper').replace('def nnlf(', 'def objective(')
                          .replace('initial_params', 'start')),
                         (TG, '                nnlf,\n                initial_params,\n', '                objective,\n                start,\n'),
                         (TG, TG_FIT_TAIL_OLD, TG_FIT_TAIL_OLD.replace('minimum', 'lower').replace('maximum', 'upper')),
                         (BASE, WFIT_OLD, WFIT_OLD.replace('selection_sample = ', 'subsample = ').replace('(selection_sample, ', '(subsample, '))],
     'locals of BetaUnivariate._fit, TruncatedGaussian._fit (incl. the nested objective) and Univariate.fit renamed'),
    ('h_docstrings', [(GAUSS, '    def _fit_constant(self, X):\n', '    def _fit_constant(self, X):\n        """Parameters of the degenerate normal at the only value of X."""\n'),
                      (KDE, '    def _get_model(self):\n', '    def _get_model(self):\n        """Build the scipy object from the stored dataset."""\n'),
                      (BASE, '        """Fit the model to a random variable.\n\n        Arguments:\n            X (numpy.ndarray):\n'
                             '                Values of the random variable. It must have shape (n, 1).\n        """\n'
                             '        if self.selection_sample_size',
                       '        """Select the best candidate on a subsample, then fit it to all of X."""\n        if self.selection_sample_size')],
     'docstrings added to GaussianUnivariate._fit_constant, GaussianKDE._get_model; the one of Univariate.fit rewritten'),
    ('h_annotations', [(UNIF, '    def _fit(self, X):', "    def _fit(self, X: 'np.ndarray') -> None:"),
                       (TG, '    def _is_constant(self):', '    def _is_constant(self) -> bool:'),
                       (KDE, "        dataset = self._params['dataset']\n        self._sample_size", "        dataset: list = self._params['dataset']\n        self._sample_size"),
                       (SEL, 'def select_univariate(X, candidates):', "def select_univariate(X: 'np.ndarray', candidates: list):")],
     'annotations on UniformUnivariate._fit, TruncatedGaussian._is_constant, a local of GaussianKDE._get_model, select_univariate'),
]


def run_one(root, name, edits, what, harmless):
    copy = os.path.join(root, 'uwm_' + name)
    out = os.path.join('/tmp/vf_out', 'uwm_' + name)
    row = {'name': name, 'what': what, 'harmless': harmless}
    try:
        shutil.copytree(REPO, copy, ignore=shutil.ignore_patterns('.git', '__pycache__', '*.pyc', 'docs', 'tutorials', 'tests'))
        for rel, old, new in edits:
            p = os.path.join(copy, rel)
            text = open(p).read()
            if text.count(old) != 1:
                row.update(rc=None, verdict='EDIT DOES NOT APPLY', layer='-', failed=[f'{rel}: {old[:60]!r}'], also='')
                return row
            text = text.replace(old, new)
            compile(text, p, 'exec')
            open(p, 'w').write(text)
        shutil.rmtree(out, ignore_errors=True)
        env = dict(os.environ, VERIF_REPO=copy)
        env.pop('VERIF_OUT', None)
        r = subprocess.run([os.path.join(VERIF, 'check'), 'C19'], cwd=VERIF, env=env, stdout=subprocess.PIPE, stderr=subprocess.STDOUT, text=True,
                           timeout=3000)
        row['rc'] = r.returncode
        try:
            ev = json.load(open(os.path.join(out, 'evidence', 'C19.json')))
            failed = ev['coverage']['failed_obligations']
        except Exception as ex:      # noqa
            failed = [f'(no evidence file: {ex})']
        sys.path.insert(0, os.path.join(VERIF, 'tools'))
        from vf import uniwrapgen
        mine = {f'translate:{p}' for p in uniwrapgen.parts()}
        tr = [f for f in failed if f in mine]
        br = [f for f in failed if f.startswith('C19_uni2.v:')]
        other = [f for f in failed if f not in tr and f not in br]
        nviol = sum(1 for l in r.stdout.split('\n') if l.startswith('VIOLATION') and 'no-failing-input-found' not in l)
        row['failed'] = tr + br
        row['also'] = (f'{len(other)} other failed obligations' if other else '') + (', ' if other and nviol else '') + \
            (f'{nviol} VIOLATION lines with a failing input' if nviol else '')
        row['layer'] = 'translation' if tr else ('bridge theorem' if br else '-')
        if harmless:
            row['verdict'] = 'ok (accepted)' if r.returncode == 0 and not failed else 'FALSE ALARM'
        else:
            row['verdict'] = 'detected' if r.returncode == 1 and (tr or br) else ('MISSED BY THE TRANSLATION/BRIDGE LAYER' if r.returncode == 1 else 'NOT DETECTED')
        if 'ok' not in row['verdict'] and row['verdict'] != 'detected':
            row['tail'] = r.stdout[-1500:]
        return row
    finally:
        shutil.rmtree(copy, ignore_errors=True)
        shutil.rmtree(out, ignore_errors=True)


def main():
    ap = argparse.ArgumentParser()
    ap.add_argument('-j', type=int, default=4)
    ap.add_argument('names', nargs='*')
    a = ap.parse_args()
    jobs = [(m, False) for m in MUTANTS] + [(h, True) for h in HARMLESS]
    if a.names:
        jobs = [j for j in jobs if j[0][0] in a.names]
    root = tempfile.mkdtemp(prefix='uniwrap_mutants_')
    try:
        with ThreadPoolExecutor(a.j) as ex:
            rows = list(ex.map(lambda j: run_one(root, *j[0], j[1]), jobs))
    finally:
        shutil.rmtree(root, ignore_errors=True)
    print(f'{"mutant":30} {"exit":4} {"caught by":15} {"verdict":14} failed obligations of the translation/bridge layer | also')
    bad = 0
    for r in rows:
        print(f'{r["name"]:30} {str(r["rc"]):4} {r["layer"]:15} {r["verdict"]:14} {"; ".join(r["failed"])} | {r.get("also", "")}')
        print(f'{"":30} ({r["what"]})')
        if r['verdict'] not in ('detected', 'ok (accepted)'):
            bad += 1
            print(r.get('tail', ''))
    print(f'{len(rows) - bad}/{len(rows)} rows as expected')
    return 1 if bad else 0


if __name__ == '__main__':
    sys.exit(main())
