#!/venv/bin/python
"""Mutation self-test of the generated OUTER part of the vine row sampler and of the generated vine serialisation
(tools/vf/vinesamplegen.py + the C17_bridge_* theorems of coq/Props/C17_sample.v; tools/vf/vineserialgen.py + the C14_bridge_* theorems of
coq/Props/C14_vine.v).

For every mutant: a scratch copy of the library under /tmp (removed afterwards) gets ONE small semantic change of
copulas/multivariate/vine.py or tree.py, then `VERIF_REPO=<copy> ./check C17` (sampler rows) or `./check C14` (serialisation rows) is run
from this worktree.  Expected: exit code 1, and among the failed obligations a `translate:gen_*` obligation of this layer (the translator
refused the new shape) or a `C17_sample.v:*` / `C14_vine.v:*` obligation (the generated definition is no longer provably the model's).
Some mutants are ALSO caught by the replay correspondence / the oracles of the check; that is reported in the last column but is not what
this self-test is about.  The harmless edits (local renames, docstrings, annotations - absorbed by tools/vf/srcnorm.py) must leave the
exit code at 0 with no failed obligation.

    tools/aux/vinesample_mutants.py [-j N] [name ...]        # exit code 0 iff every row is as expected
"""
import argparse
import json
import os
import shutil
import subprocess
import sys
import tempfile
from concurrent.futures import ThreadPoolExecutor

HERE = os.path.dirname(os.path.abspath(__file__))
VERIF = os.path.dirname(os.path.dirname(HERE))
REPO = os.environ.get('VINESAMPLE_BASE_REPO', '/repo')
TREE = os.path.join('copulas', 'multivariate', 'tree.py')
VINE = os.path.join('copulas', 'multivariate', 'vine.py')
LAYER = ('gen_Tree_get_adjacent_matrix', 'gen_sample_row_step', 'gen_VineCopula__sample_row', 'gen_VineCopula_sample',
         'gen_Edge_to_dict', 'gen_Tree__serialize_previous_tree', 'gen_Tree_to_dict', 'gen_Tree__deserialize_previous_tree',
         'gen_Tree_from_dict', 'gen_VineCopula__deserialize_trees')
PROPS = ('C17_sample.v:', 'C14_vine.v:')

I12, I8 = ' ' * 12, ' ' * 8

# check, name, file, [(old text, new text)], what
MUTANTS = [
    ('C17', 'smp_pop_last', VINE, [('current = explore.pop(0)', 'current = explore.pop()')],
     '_sample_row: current = explore.pop()  (the node pushed FIRST is explored next: breadth-first instead of depth-first order)'),
    ('C17', 'smp_explore_append', VINE, [('explore.insert(0, s)', 'explore.append(s)')],
     '_sample_row: explore.append(s) instead of explore.insert(0, s)'),
    ('C17', 'smp_visited_append', VINE, [('visited.insert(0, current)', 'visited.append(current)')],
     '_sample_row: visited.append(current)  (visited[0] stays the first node: every inverse is conditioned on unis[first_ind])'),
    ('C17', 'smp_itr_dropped', VINE, [(I12 + 'itr += 1\n', '')],
     '_sample_row: `itr += 1` dropped (every node is sampled from its marginal alone)'),
    ('C17', 'smp_adj_column', VINE, [('adj[current, :]', 'adj[:, current]')],
     '_sample_row: adj[:, current] == 1  (the column instead of the row; the matrix is symmetric: SAME behaviour, see the note)'),
    ('C17', 'smp_first_unis_itr', VINE, [('self.ppfs[current](unis[current])', 'self.ppfs[current](unis[itr])')],
     '_sample_row, itr == 0: new_x = self.ppfs[current](unis[itr])  (the first node always gets unis[0])'),
    ('C17', 'smp_in_visited', VINE, [('if s not in visited:', 'if s in visited:')],
     '_sample_row: `if s in visited:` (negation dropped: only visited nodes are pushed)'),
    ('C17', 'smp_sampled_index', VINE, [('sampled[current] = ', 'sampled[itr] = ')],
     '_sample_row: sampled[itr] = ...  (the row is filled in visiting order, not by variable)'),
    ('C17', 'smp_first_ind_const', VINE, [('explore = [first_ind]', 'explore = [0]')],
     '_sample_row: explore = [0]  (the random start is ignored)'),
    ('C17', 'adj_one_direction', TREE, [(I12 + 'adj[edges[k].R, edges[k].L] = 1\n', '')],
     'get_adjacent_matrix: only adj[L, R] is set (the matrix is no longer symmetric)'),
    ('C17', 'adj_bound', TREE, [('for k in range(num_edges - 1):\n            adj', 'for k in range(num_edges - 2):\n            adj')],
     'get_adjacent_matrix: for k in range(num_edges - 2)  (the last edge is left out)'),
    ('C17', 'sample_no_random_state', VINE, [('    @random_state\n    def sample(self, num_rows):', '    def sample(self, num_rows):')],
     'sample: @random_state removed (a seeded vine draws from the global stream)'),
    ('C17', 'sample_columns_reversed', VINE, [('columns=self.columns)', 'columns=self.columns[::-1])')],
     'sample: pd.DataFrame(sampled_values, columns=self.columns[::-1])'),
    ('C17', 'sample_no_check_fit', VINE, [(I8 + 'self.check_fit()\n' + I8 + 'sampled_values = []', I8 + 'sampled_values = []')],
     'sample: self.check_fit() removed'),
    ('C17', 'sample_rows_prepended', VINE, [('sampled_values.append(self._sample_row())', 'sampled_values.insert(0, self._sample_row())')],
     'sample: sampled_values.insert(0, row)  (rows in reverse order of the draws)'),
    ('C14', 'ser_edge_no_parents', TREE, [(I12 + "'parents': parents,\n", '')],
     "Edge.to_dict without the 'parents' entry"),
    ('C14', 'ser_edge_key_swap', TREE, [("'L': self.L,", "'L': self.R,")],
     "Edge.to_dict: 'L': self.R"),
    ('C14', 'ser_edge_parents_guard', TREE, [('if self.parents:\n            parents = [', 'if self.parents is not None:\n            parents = [')],
     'Edge.to_dict: `if self.parents is not None:` (an empty list is serialised as [] instead of None)'),
    ('C14', 'ser_tree_header_order', TREE, [("{'tree_type': self.tree_type, 'type': get_qualified_name(self), 'fitted': fitted}",
                                             "{'tree_type': self.tree_type, 'fitted': fitted, 'type': get_qualified_name(self)}")],
     "Tree.to_dict: 'fitted' placed before 'type' in the header"),
    ('C14', 'ser_tree_no_early_return', TREE, [(I8 + 'if not fitted:\n' + I12 + 'return result\n\n' + I8 + 'result.update', I8 + 'result.update')],
     'Tree.to_dict: the early return of an unfitted tree removed (AttributeError on self.level)'),
    ('C14', 'ser_prev_level', TREE, [('if self.level == 1:\n            return self.previous_tree.tolist()', 'if self.level == 0:\n            return self.previous_tree.tolist()')],
     'Tree._serialize_previous_tree: `if self.level == 0:` (the u-matrix of tree 1 is not written)'),
    ('C14', 'ser_relink_not_advanced', VINE, [(I12 + 'previous = tree\n', '')],
     '_deserialize_trees: `previous = tree` dropped (every tree is linked to the FIRST tree instead of its predecessor)'),
    ('C14', 'ser_relink_first', VINE, [('tree = Tree.from_dict(tree_dict, previous)', 'tree = Tree.from_dict(tree_dict, trees[0])')],
     '_deserialize_trees: Tree.from_dict(tree_dict, trees[0])  (linked by a fixed position)'),
    ('C14', 'ser_from_dict_key', TREE, [("instance.n_nodes = tree_dict['n_nodes']", "instance.n_nodes = tree_dict['level']")],
     "Tree.from_dict: instance.n_nodes = tree_dict['level']"),
    ('C14', 'ser_deser_prev_none', TREE, [("            return np.array(tree_dict['previous_tree'])\n\n        return previous",
                                           "            return np.array(tree_dict['previous_tree'])\n\n        return None")],
     'Tree._deserialize_previous_tree: `return None` (no tree is linked to its predecessor)'),
    ('C14', 'ser_deser_prev_level', TREE, [("if tree_dict['level'] == 1:", "if tree_dict['level'] == 2:")],
     "Tree._deserialize_previous_tree: `if tree_dict['level'] == 2:`"),
    ('C14', 'ser_trees_prepend', VINE, [('trees.append(tree)', 'trees.insert(0, tree)')],
     '_deserialize_trees: trees.insert(0, tree)  (trees in reverse order)'),
]

HARMLESS = [
    ('C17', 'h_rename_locals', VINE, [('neighbors', 'nbrs'), ('explore', 'stack')],
     'locals of _sample_row renamed (neighbors -> nbrs, explore -> stack)'),
    ('C17', 'h_docstring_annotations', VINE, [('def sample(self, num_rows):\n        """Sample new rows.', 'def sample(self, num_rows: int) -> "pd.DataFrame":\n        """Draw new rows from the fitted vine.')],
     'sample: annotations added, docstring rewritten'),
    ('C17', 'h_rename_tree_local', TREE, [('num_edges', 'n_nodes_')],
     'get_adjacent_matrix: the local num_edges renamed'),
    ('C14', 'h_rename_deser_local', VINE, [('tree_dict', 'td')],
     '_deserialize_trees: the loop variable renamed'),
    ('C14', 'h_swap_append', VINE, [(I12 + 'trees.append(tree)\n' + I12 + 'previous = tree\n', I12 + 'previous = tree\n' + I12 + 'trees.append(tree)\n')],
     '_deserialize_trees: `previous = tree` before `trees.append(tree)` (same object, same list: the proof goes through by conversion)'),
    ('C14', 'h_tree_docstrings', TREE, [('"""Return a `dict` with the parameters to replicate this Tree.', '"""Serialise this tree.'), ('"""Return a `dict` with the parameters to replicate this Edge.', '"""Serialise this edge (parents recursively).')],
     'docstrings of Tree.to_dict and Edge.to_dict rewritten'),
]


def run_one(root, check, name, rel, edits, what, harmless):
    copy = os.path.join(root, 'vsm_' + name)
    out = os.path.join('/tmp/vf_out', 'vsm_' + name)
    row = {'name': name, 'what': what, 'harmless': harmless, 'check': check}
    try:
        shutil.copytree(REPO, copy, ignore=shutil.ignore_patterns('.git', '__pycache__', '*.pyc', 'docs', 'tutorials', 'tests'))
        p = os.path.join(copy, rel)
        text = open(p).read()
        for old, new in edits:
            if text.count(old) < 1 or (not harmless and text.count(old) != 1):
                row.update(rc=None, verdict='EDIT DOES NOT APPLY', layer='-', failed=[old[:60]], also='')
                return row
            text = text.replace(old, new)
        compile(text, p, 'exec')
        open(p, 'w').write(text)
        shutil.rmtree(out, ignore_errors=True)
        env = dict(os.environ, VERIF_REPO=copy)
        env.pop('VERIF_OUT', None)
        r = subprocess.run([os.path.join(VERIF, 'check'), check], cwd=VERIF, env=env, stdout=subprocess.PIPE, stderr=subprocess.STDOUT, text=True,
                           timeout=3000)
        row['rc'] = r.returncode
        try:
            ev = json.load(open(os.path.join(out, 'evidence', check + '.json')))
            failed = ev['coverage']['failed_obligations']
        except Exception as ex:      # noqa
            failed = [f'(no evidence file: {ex})']
        tr = [f for f in failed if f.startswith('translate:') and f[len('translate:'):] in LAYER]
        br = [f for f in failed if f.startswith(PROPS)]
        other = [f for f in failed if f not in tr and f not in br]
        nviol = sum(1 for l in r.stdout.split('\n') if l.startswith('VIOLATION') and 'no-failing-input-found' not in l)
        row['failed'] = tr + br
        row['also'] = (f'{len(other)} other failed obligations' if other else '') + (', ' if other and nviol else '') + \
            (f'{nviol} VIOLATION lines with a failing input' if nviol else '')
        row['layer'] = 'translation' if tr else ('bridge theorem' if br else '-')
        if harmless:
            row['verdict'] = 'ok (accepted)' if r.returncode == 0 and not failed else 'FALSE ALARM'
        else:
            row['verdict'] = 'detected' if r.returncode == 1 and (tr or br) else ('MISSED BY THE TRANSLATION/BRIDGE LAYER' if r.returncode == 1 else 'NOT DETECTED')
        if 'ok' not in row['verdict'] and row['verdict'] != 'detected':
            row['tail'] = r.stdout[-1500:]
        return row
    finally:
        shutil.rmtree(copy, ignore_errors=True)
        shutil.rmtree(out, ignore_errors=True)


def main():
    ap = argparse.ArgumentParser()
    ap.add_argument('-j', type=int, default=4)
    ap.add_argument('names', nargs='*')
    a = ap.parse_args()
    jobs = [(m, False) for m in MUTANTS] + [(h, True) for h in HARMLESS]
    if a.names:
        jobs = [j for j in jobs if j[0][1] in a.names]
    root = tempfile.mkdtemp(prefix='vinesample_mutants_')
    try:
        with ThreadPoolExecutor(min(a.j, 5)) as ex:
            rows = list(ex.map(lambda j: run_one(root, *j[0], j[1]), jobs))
    finally:
        shutil.rmtree(root, ignore_errors=True)
    print(f'{"check":5} {"mutant":26} {"exit":4} {"caught by":15} {"verdict":14} failed obligations of the translation/bridge layer | also')
    bad = 0
    for r in rows:
        print(f'{r["check"]:5} {r["name"]:26} {str(r["rc"]):4} {r["layer"]:15} {r["verdict"]:14} {"; ".join(r["failed"])} | {r.get("also", "")}')
        print(f'{"":26} ({r["what"]})')
        if r['verdict'] not in ('detected', 'ok (accepted)'):
            bad += 1
            print(r.get('tail', ''))
    print(f'{len(rows) - bad}/{len(rows)} rows as expected')
    return 1 if bad else 0


if __name__ == '__main__':
    sys.exit(main())
