#!/venv/bin/python
"""Mutation self-test of the generated scatter pipeline (tools/vf/plotgen.py + the C20_bridge_* theorems of coq/Props/C20.v).

For every mutant: a scratch copy of the library under /tmp (removed afterwards) gets ONE small semantic change of
copulas/visualization.py, then `VERIF_REPO=<copy> ./check C20` is run from this worktree.  Expected: exit code 1, and among the failed
obligations a `translate:gen_*` obligation (the translator refused the new shape), `Gen_plot.v:*` (the generated file no longer
type-checks) or a `C20.v:C20_bridge_*` obligation (the generated definition is no longer provably the model's).  The harmless edits
(local renames, docstrings, annotations, message text - absorbed by tools/vf/srcnorm.py) must leave the exit code at 0.

    tools/aux/plotgen_mutants.py [-j N] [name ...]        # exit code 0 iff every row is as expected
"""
import argparse
import json
import os
import re
import shutil
import subprocess
import sys
import tempfile
from concurrent.futures import ThreadPoolExecutor

HERE = os.path.dirname(os.path.abspath(__file__))
VERIF = os.path.dirname(os.path.dirname(HERE))
REPO = os.environ.get('PLOTGEN_BASE_REPO', '/repo')
VIZ = os.path.join('copulas', 'visualization.py')

G2, G3 = '_generate_scatter_2d_plot', '_generate_scatter_3d_plot'
TITLE2 = 'title += f" for columns \'{columns[0]}\' and \'{columns[1]}\'"'

# name, [(function, old text, new text)], what          (the edit is applied inside the named function only)
MUTANTS = [
    ('real_labelled_synthetic', [('compare_2d', "real['Data'] = 'Real'", "real['Data'] = 'Synthetic'")],
     "compare_2d: real['Data'] = 'Synthetic'"),
    ('concat_swapped', [('compare_3d', 'pd.concat([real, synth], axis=0, ignore_index=True)', 'pd.concat([synth, real], axis=0, ignore_index=True)')],
     'compare_3d: pd.concat([synth, real], ...)'),
    ('scatter_copy_dropped', [('scatter_2d', '    data = data.copy()\n', '')], "scatter_2d: data.copy() dropped (the caller's frame gets the label column)"),
    ('compare_copy_dropped', [('compare_3d', 'real, synth = real.copy(), synth.copy()', 'real, synth = real, synth.copy()')],
     'compare_3d: real is no longer copied'),
    ('append_in_place', [(G2, "columns = list(columns) + ['Data']", "columns.append('Data')")], "_generate_scatter_2d_plot: columns.append('Data') in place"),
    ('iadd_in_place', [(G3, "columns = list(columns) + ['Data']", "columns += ['Data']")], "_generate_scatter_3d_plot: columns += ['Data'] in place"),
    ('len_constant', [(G2, 'if len(columns) != 3:', 'if len(columns) != 2:')], '_generate_scatter_2d_plot: != 3 -> != 2'),
    ('xy_swapped', [(G2, 'x=columns[0],\n        y=columns[1],', 'x=columns[1],\n        y=columns[0],')], '_generate_scatter_2d_plot: x / y exchanged'),
    ('y_from_columns_2', [(G3, 'y=columns[1],', 'y=columns[2],')], '_generate_scatter_3d_plot: y=columns[2]'),
    ('is_not_none', [(G2, 'if columns:', 'if columns is not None:')], '_generate_scatter_2d_plot: `if columns is not None:` (columns=[] no longer means "all columns")'),
    ('raise_type_error', [(G3, "raise ValueError('Only 3 columns can be plotted')", "raise TypeError('Only 3 columns can be plotted')")],
     '_generate_scatter_3d_plot: TypeError instead of ValueError'),
    ('title_index', [('scatter_2d', TITLE2, TITLE2.replace('columns[1]', 'columns[2]'))],
     'scatter_2d: the default title formats columns[2] (IndexError for two columns)'),
    ('label_column_renamed', [('scatter_3d', "data['Data'] = 'Real'", "data['Label'] = 'Real'")], "scatter_3d: the label goes to a column 'Label'"),
    ('ignore_index_dropped', [('compare_2d', 'pd.concat([real, synth], axis=0, ignore_index=True)', 'pd.concat([real, synth], axis=0)')],
     'compare_2d: pd.concat without ignore_index=True'),
]

HARMLESS = [
    ('h_rename_locals', [(G2, 'fig', 'figure'), (G3, 'fig', 'chart'),
                         ('compare_2d', 'data', 'combined'), ('compare_3d', 'data', 'both')],
     'locals renamed: fig -> figure / chart in the generators, data -> combined / both in compare_2d/3d'),
    ('h_docstrings_annotations', [('scatter_2d', '"""Plot 2 dimensional data in a scatter plot.', '"""Scatter plot of two columns of a table.'),
                                  (G2, '"""Generate a scatter plot for a pair of columns.', '"""Scatter plot of a column pair (helper).'),
                                  ('scatter_3d', 'def scatter_3d(data, columns=None, title=None):',
                                   "def scatter_3d(data: 'pd.DataFrame', columns: 'list | None' = None, title: 'str | None' = None) -> 'object':"),
                                  ('compare_3d', 'def compare_3d(real, synth, columns=None, title=None):',
                                   "def compare_3d(real: 'pd.DataFrame', synth: 'pd.DataFrame', columns=None, title=None):")],
     'docstrings of scatter_2d and of the 2d generator rewritten, annotations added to scatter_3d and compare_3d'),
    ('h_message_text', [(G2, "raise ValueError('Only 2 columns can be plotted')", "raise ValueError('Only 2 columns can be plotted (x and y), got %d' % (len(columns) - 1))"),
                        (G3, "raise ValueError('Only 3 columns can be plotted')", "raise ValueError(f'Only 3 columns can be plotted: {len(columns) - 1} given')")],
     'the texts of the two ValueErrors reworded / formatted'),
]


def function_span(text, name):
    m = re.search(r'^def %s\(' % re.escape(name), text, re.M)
    if not m:
        return None
    n = re.search(r'^(def|class) ', text[m.end():], re.M)
    return m.start(), (m.end() + n.start()) if n else len(text)


def apply_edit(text, fn, old, new, word=False):
    span = function_span(text, fn)
    if span is None:
        return None
    a, b = span
    seg = text[a:b]
    if word:
        pat = r'\b%s\b(?!=[^=])' % re.escape(old)          # not the NAME of a keyword argument (`data=data`: only the value is the local)
        if not re.search(pat, seg):
            return None
        seg = re.sub(pat, new, seg)
    else:
        if seg.count(old) != 1:
            return None
        seg = seg.replace(old, new)
    return text[:a] + seg + text[b:]


def run_one(root, name, edits, what, harmless):
    copy = os.path.join(root, 'pgm_' + name)
    out = os.path.join('/tmp/vf_out', 'pgm_' + name)
    row = {'name': name, 'what': what, 'harmless': harmless}
    try:
        shutil.copytree(REPO, copy, ignore=shutil.ignore_patterns('.git', '__pycache__', '*.pyc', 'docs', 'tutorials', 'tests'))
        p = os.path.join(copy, VIZ)
        text = open(p).read()
        for fn, old, new in edits:
            # a bare identifier as `old` is a rename of a local (whole words, every occurrence inside the function)
            t2 = apply_edit(text, fn, old, new, word=old.isidentifier())
            if t2 is None:
                row.update(rc=None, verdict='EDIT DOES NOT APPLY', layer='-', failed=[f'{fn}: {old[:60]}'])
                return row
            text = t2
        compile(text, p, 'exec')
        open(p, 'w').write(text)
        shutil.rmtree(out, ignore_errors=True)
        env = dict(os.environ, VERIF_REPO=copy)
        env.pop('VERIF_OUT', None)
        r = subprocess.run([os.path.join(VERIF, 'check'), 'C20'], cwd=VERIF, env=env, stdout=subprocess.PIPE, stderr=subprocess.STDOUT, text=True,
                           timeout=3000)
        row['rc'] = r.returncode
        try:
            ev = json.load(open(os.path.join(out, 'evidence', 'C20.json')))
            failed = ev['coverage']['failed_obligations']
        except Exception as ex:      # noqa
            failed = [f'(no evidence file: {ex})']
        tr = [f for f in failed if f.startswith('translate:gen_') or f.startswith('Gen_plot.v:')]
        br = [f for f in failed if '_bridge_' in f]
        other = [f for f in failed if f not in tr and f not in br]
        row['failed'] = tr + br + [f'+{len(other)} other failed obligations (effect verdicts / correspondence)'] * bool(other)
        row['others'] = len(other)
        row['violations'] = len(re.findall(r'^VIOLATION ', r.stdout, re.M))
        row['layer'] = 'translation' if tr else ('bridge theorem' if br else '-')
        if harmless:
            row['verdict'] = 'ok (accepted)' if r.returncode == 0 and not failed else 'FALSE ALARM'
        else:
            row['verdict'] = 'detected' if r.returncode == 1 and (tr or br) else ('MISSED BY THE TRANSLATION/BRIDGE LAYER' if r.returncode == 1 else 'NOT DETECTED')
        if 'ok' not in row['verdict'] and row['verdict'] != 'detected':
            row['tail'] = r.stdout[-1500:]
        return row
    finally:
        shutil.rmtree(copy, ignore_errors=True)
        shutil.rmtree(out, ignore_errors=True)


def main():
    ap = argparse.ArgumentParser()
    ap.add_argument('-j', type=int, default=4)
    ap.add_argument('names', nargs='*')
    a = ap.parse_args()
    jobs = [(m, False) for m in MUTANTS] + [(h, True) for h in HARMLESS]
    if a.names:
        jobs = [j for j in jobs if j[0][0] in a.names]
    root = tempfile.mkdtemp(prefix='plotgen_mutants_')
    try:
        with ThreadPoolExecutor(a.j) as ex:
            rows = list(ex.map(lambda j: run_one(root, *j[0], j[1]), jobs))
    finally:
        shutil.rmtree(root, ignore_errors=True)
    print(f'{"mutant":26} {"exit":4} {"caught by":15} {"verdict":14} failed obligations of the translation/bridge layer')
    bad = 0
    for r in rows:
        print(f'{r["name"]:26} {str(r["rc"]):4} {r["layer"]:15} {r["verdict"]:14} {"; ".join(r["failed"])}')
        print(f'{"":26} ({r["what"]})')
        if r['verdict'] not in ('detected', 'ok (accepted)'):
            bad += 1
            print(r.get('tail', ''))
    print(f'{len(rows) - bad}/{len(rows)} rows as expected')
    return 1 if bad else 0


if __name__ == '__main__':
    sys.exit(main())
