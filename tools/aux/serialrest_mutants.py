#!/venv/bin/python
"""Mutation self-test of the generated rest of the serialisation code (tools/vf/serialrestgen.py + the C14_bridge_* / C14_gen_*
theorems of coq/Props/C14_rest.v): Edge.__init__ / Edge.from_dict, VineCopula.to_dict / from_dict, Univariate.save / load,
Multivariate.save / load, Multivariate.from_dict on a vine dict.

For every mutant: a scratch copy of the library under /tmp (removed afterwards) gets ONE small semantic change, then
`VERIF_REPO=<copy> ./check C14` is run from this worktree.  Expected: exit code 1, and among the failed obligations a
`translate:gen_*` obligation of serialrestgen (the translator refused the new shape) or a `C14_rest.v:*` obligation (the generated
definition is no longer provably the model's).  Most mutants are ALSO caught by the round-trip correspondence; that is reported in the
last column but is not what this self-test is about.  The harmless edits (local renames, docstrings, annotations - absorbed by
tools/vf/srcnorm.py) must leave the exit code at 0 with no failed obligation.

    tools/aux/serialrest_mutants.py [-j N] [name ...]        # exit code 0 iff every row is as expected
"""
import argparse
import json
import os
import shutil
import subprocess
import sys
import tempfile
from concurrent.futures import ThreadPoolExecutor

HERE = os.path.dirname(os.path.abspath(__file__))
VERIF = os.path.dirname(os.path.dirname(HERE))
REPO = os.environ.get('SERIALREST_BASE_REPO', '/repo')
TREE = os.path.join('copulas', 'multivariate', 'tree.py')
VINE = os.path.join('copulas', 'multivariate', 'vine.py')
UBASE = os.path.join('copulas', 'univariate', 'base.py')
MBASE = os.path.join('copulas', 'multivariate', 'base.py')
OURS = ('gen_Edge___init__', 'gen_Edge_from_dict', 'gen_VineCopula_to_dict', 'gen_VineCopula_from_dict', 'gen_Univariate_save', 'gen_Univariate_load',
        'gen_Multivariate_save', 'gen_Multivariate_load', 'gen_Multivariate_from_dict')

EDGE_FROM_DICT = ("        instance.U = np.array(edge_dict['U'])\n        parents = edge_dict['parents']\n\n        if parents:\n"
                  "            instance.parents = []\n            for parent in parents:\n                edge = Edge.from_dict(parent)\n"
                  "                instance.parents.append(edge)\n\n        regular_attributes = ['D', 'tau', 'likelihood', 'neighbors']\n"
                  "        for key in regular_attributes:\n            setattr(instance, key, edge_dict[key])\n\n        return instance\n")
VINE_FROM_DICT_HEAD = ("        instance = cls(vine_dict['vine_type'])\n        fitted = vine_dict['fitted']\n        if fitted:\n"
                       "            instance.fitted = fitted\n")
UNI_SAVE = "        with open(path, 'wb') as pickle_file:\n            pickle.dump(self, pickle_file)\n\n    @classmethod\n    def load(cls, path):\n"

# name, [(file, old text, new text)], what
MUTANTS = [
    ('edge_R_into_left', [(TREE, "            edge_dict['L'],\n", "            edge_dict['R'],\n")],
     "Edge.from_dict: cls(.., edge_dict['R'], edge_dict['R'], ..) - edge_dict['R'] goes into `left`"),
    ('parents_reversed', [(TREE, '            for parent in parents:\n', '            for parent in reversed(parents):\n')],
     'Edge.from_dict: the parents are rebuilt in reversed order'),
    ('D_as_list', [(TREE, '            setattr(instance, key, edge_dict[key])\n',
                    "            setattr(instance, key, list(edge_dict[key]) if key == 'D' else edge_dict[key])\n")],
     'Edge.from_dict: D is rebuilt as a list'),
    ('parents_is_not_none', [(TREE, "        parents = edge_dict['parents']\n\n        if parents:\n", "        parents = edge_dict['parents']\n\n        if parents is not None:\n")],
     'Edge.from_dict: `if parents is not None` (an empty list becomes [] instead of None)'),
    ('init_left_right_swapped', [(TREE, '        self.L = left\n        self.R = right\n', '        self.L = right\n        self.R = left\n')],
     'Edge.__init__: L <- right, R <- left'),
    ('neighbors_not_restored', [(TREE, "regular_attributes = ['D', 'tau', 'likelihood', 'neighbors']", "regular_attributes = ['D', 'tau', 'likelihood']")],
     "Edge.from_dict: 'neighbors' is no longer restored"),
    ('to_dict_drops_truncated', [(VINE, "            'truncated': self.truncated,\n", '')],
     "VineCopula.to_dict: the key 'truncated' is dropped"),
    ('unis_reversed', [(VINE, 'for distribution in self.unis]', 'for distribution in reversed(self.unis)]')],
     'VineCopula.to_dict: the univariates are serialised in reversed column order'),
    ('from_dict_fitted_true', [(VINE, "        if fitted:\n            instance.fitted = fitted\n", "        instance.fitted = True\n        if fitted:\n")],
     'VineCopula.from_dict: fitted = True also for an unfitted dict'),
    ('tau_mat_from_u_matrix', [(VINE, "instance.tau_mat = np.array(vine_dict['tau_mat'])", "instance.tau_mat = np.array(vine_dict['u_matrix'])")],
     "VineCopula.from_dict: tau_mat is read from 'u_matrix'"),
    ('ppfs_from_cdf', [(VINE, '            instance.ppfs = [uni.percent_point for uni in instance.unis]\n',
                        '            instance.ppfs = [uni.cumulative_distribution for uni in instance.unis]\n')],
     'VineCopula.from_dict: ppfs rebuilt from cumulative_distribution'),
    ('uni_save_to_dict', [(UBASE, '            pickle.dump(self, pickle_file)\n', '            pickle.dump(self.to_dict(), pickle_file)\n')],
     'Univariate.save pickles self.to_dict() instead of self'),
    ('uni_load_text_mode', [(UBASE, "        with open(path, 'rb') as pickle_file:\n", "        with open(path, 'r') as pickle_file:\n")],
     'Univariate.load opens the file in text mode'),
    ('mv_load_returns_cls', [(MBASE, '            return pickle.load(pickle_file)\n', '            return cls()\n')],
     'Multivariate.load returns cls()'),
    ('mv_from_dict_instantiates', [(MBASE, '        return multivariate_class.from_dict(params)\n', '        return multivariate_class().from_dict(params)\n')],
     'Multivariate.from_dict instantiates the recorded class before from_dict (the F38 defect: VineCopula() has a required argument)'),
    ('mv_from_dict_rsplit_2', [(MBASE, "params['type'].rsplit('.', 1)", "params['type'].rsplit('.', 2)")],
     "Multivariate.from_dict: params['type'].rsplit('.', 2)"),
    ('mv_save_touches_self', [(MBASE, '            pickle.dump(self, pickle_file)\n', '            pickle.dump(self, pickle_file)\n            self.fitted = True\n')],
     'Multivariate.save assigns self.fitted inside the with block'),
]

HARMLESS = [
    ('h_rename_locals', [(TREE, EDGE_FROM_DICT, EDGE_FROM_DICT.replace('parents', 'parent_dicts').replace("edge_dict['parent_dicts']", "edge_dict['parents']")
                          .replace('instance.parent_dicts', 'instance.parents').replace('regular_attributes', 'plain').replace('key', 'attr')
                          .replace('for parent in', 'for pdict in').replace('from_dict(parent)', 'from_dict(pdict)')),
                         (UBASE, UNI_SAVE, UNI_SAVE.replace('pickle_file', 'fh')),
                         (VINE, "        result = {\n            'type': get_qualified_name(self),", "        out = {\n            'type': get_qualified_name(self),"),
                         (VINE, "        if not self.fitted:\n            return result\n\n        result.update({", "        if not self.fitted:\n            return out\n\n        out.update({"),
                         (VINE, "            'columns': self.columns,\n        })\n        return result\n", "            'columns': self.columns,\n        })\n        return out\n")],
     'locals of Edge.from_dict, VineCopula.to_dict and Univariate.save renamed'),
    ('h_docstrings', [(TREE, '        """Create a new instance from a parameters dictionary.\n\n        Args:\n            params (dict):\n                Parameters of the Edge,',
                       '        """Rebuild an Edge (and, recursively, its parents) from the dict written by ``to_dict``.\n\n        Args:\n            params (dict):\n                Parameters of the Edge,'),
                      (VINE, '        """Return a `dict` with the parameters to replicate this Vine.\n', '        """Serialise this vine; an unfitted vine gives the three header keys only.\n'),
                      (UBASE, '        """Serialize this univariate instance using pickle.\n', '        """Pickle this instance (class, parameters, instance-level overrides) to ``path``.\n')],
     'docstrings of Edge.from_dict, VineCopula.to_dict and Univariate.save rewritten'),
    ('h_annotations', [(TREE, '    def from_dict(cls, edge_dict):', "    def from_dict(cls, edge_dict: dict) -> 'Edge':"),
                       (TREE, '    def __init__(self, index, left, right, copula_name, copula_theta):',
                        '    def __init__(self, index: int, left: int, right: int, copula_name, copula_theta: float) -> None:'),
                       (VINE, '    def from_dict(cls, vine_dict):', "    def from_dict(cls, vine_dict: dict) -> 'VineCopula':"),
                       (UBASE, '    def save(self, path):', '    def save(self, path: str) -> None:'),
                       (MBASE, '    def load(cls, path):', "    def load(cls, path: str) -> 'Multivariate':")],
     'type annotations added to Edge.__init__ / from_dict, VineCopula.from_dict, Univariate.save, Multivariate.load'),
]


def run_one(root, name, edits, what, harmless):
    copy = os.path.join(root, 'srm_' + name)
    out = os.path.join('/tmp/vf_out', 'srm_' + name)
    row = {'name': name, 'what': what, 'harmless': harmless}
    try:
        shutil.copytree(REPO, copy, ignore=shutil.ignore_patterns('.git', '__pycache__', '*.pyc', 'docs', 'tutorials', 'tests'))
        for rel, old, new in edits:
            p = os.path.join(copy, rel)
            text = open(p).read()
            if text.count(old) != 1:
                row.update(rc=None, verdict='EDIT DOES NOT APPLY', layer='-', failed=[f'{rel}: {old[:60]!r} occurs {text.count(old)} times'], also='')
                return row
            text = text.replace(old, new)
            compile(text, p, 'exec')
            open(p, 'w').write(text)
        shutil.rmtree(out, ignore_errors=True)
        env = dict(os.environ, VERIF_REPO=copy)
        env.pop('VERIF_OUT', None)
        r = subprocess.run([os.path.join(VERIF, 'check'), 'C14'], cwd=VERIF, env=env, stdout=subprocess.PIPE, stderr=subprocess.STDOUT, text=True,
                           timeout=3000)
        row['rc'] = r.returncode
        try:
            ev = json.load(open(os.path.join(out, 'evidence', 'C14.json')))
            failed = ev['coverage']['failed_obligations']
        except Exception as ex:      # noqa
            failed = [f'(no evidence file: {ex})']
        tr = [f for f in failed if f.startswith('translate:') and f[len('translate:'):] in OURS]
        br = [f for f in failed if f.startswith('C14_rest.v:')]
        other = [f for f in failed if f not in tr and f not in br]
        nviol = sum(1 for l in r.stdout.split('\n') if l.startswith('VIOLATION') and 'no-failing-input-found' not in l)
        row['failed'] = tr + br
        row['also'] = (f'{len(other)} other failed obligations' if other else '') + (', ' if other and nviol else '') + \
            (f'{nviol} VIOLATION lines with a failing input' if nviol else '')
        row['layer'] = 'translation' if tr else ('bridge theorem' if br else '-')
        if harmless:
            row['verdict'] = 'ok (accepted)' if r.returncode == 0 and not failed else 'FALSE ALARM'
        else:
            row['verdict'] = 'detected' if r.returncode == 1 and (tr or br) else ('MISSED BY THE TRANSLATION/BRIDGE LAYER' if r.returncode == 1 else 'NOT DETECTED')
        if 'ok' not in row['verdict'] and row['verdict'] != 'detected':
            row['tail'] = r.stdout[-1500:]
        return row
    finally:
        shutil.rmtree(copy, ignore_errors=True)
        shutil.rmtree(out, ignore_errors=True)


def main():
    ap = argparse.ArgumentParser()
    ap.add_argument('-j', type=int, default=4)
    ap.add_argument('names', nargs='*')
    a = ap.parse_args()
    jobs = [(m, False) for m in MUTANTS] + [(h, True) for h in HARMLESS]
    if a.names:
        jobs = [j for j in jobs if j[0][0] in a.names]
    root = tempfile.mkdtemp(prefix='serialrest_mutants_')
    try:
        with ThreadPoolExecutor(a.j) as ex:
            rows = list(ex.map(lambda j: run_one(root, *j[0], j[1]), jobs))
    finally:
        shutil.rmtree(root, ignore_errors=True)
    print(f'{"mutant":26} {"exit":4} {"caught by":15} {"verdict":14} failed obligations of the translation/bridge layer | also')
    bad = 0
    for r in rows:
        print(f'{r["name"]:26} {str(r["rc"]):4} {r["layer"]:15} {r["verdict"]:14} {"; ".join(r["failed"])} | {r.get("also", "")}')
        print(f'{"":26} ({r["what"]})')
        if r['verdict'] not in ('detected', 'ok (accepted)'):
            bad += 1
            print(r.get('tail', ''))
    print(f'{len(rows) - bad}/{len(rows)} rows as expected')
    return 1 if bad else 0


if __name__ == '__main__':
    sys.exit(main())
