"""Cross-check Model/RootFind.v (PrimFloat instance) against copulas.optimize.

Generates a Coq file with random test cases, runs coqc, parses the printed
results and compares them with the real numpy implementation (bit-for-bit,
using the fact that Coq prints floats with 17 significant digits).
Run:  PYTHONPATH=/repo /venv/bin/python crosscheck.py [ncases] [seed]
"""
import re
import subprocess
import sys
import warnings

import numpy as np

from copulas.optimize import bisect, chandrupatla

warnings.filterwarnings('ignore')
ROOT = '/root/scratch/agents/root'


def lit(x):
    x = float(x)
    if x != x:
        return 'nan'
    if x == float('inf'):
        return 'infinity'
    if x == float('-inf'):
        return 'neg_infinity'
    h = x.hex()
    return '(%s)%%float' % h


class Lanes:
    """Vectorised f with the exact operation order of `feval`."""

    def __init__(self, kinds, p1, p2, p3):
        self.kinds = np.array(kinds)
        self.p1, self.p2, self.p3 = map(np.array, (p1, p2, p3))
        self.calls = 0

    def __call__(self, x):
        self.calls += 1
        a, r, b = self.p1, self.p2, self.p3
        lin = a * x + r                      # FLin a b  (b stored in p2)
        d = x - r
        cub = a * ((d * d) * d)
        sat = a * (d / (1.0 + np.abs(d)))
        cublin = a * ((d * d) * d) + b * d
        return np.where(self.kinds == 0, lin,
                        np.where(self.kinds == 1, cub,
                                 np.where(self.kinds == 2, sat, cublin)))

    def coq(self):
        out = []
        for k, a, r, b in zip(self.kinds, self.p1, self.p2, self.p3):
            if k == 0:
                out.append('FLin %s %s' % (lit(a), lit(r)))
            elif k == 1:
                out.append('FCub %s %s' % (lit(a), lit(r)))
            elif k == 2:
                out.append('FSat %s %s' % (lit(a), lit(r)))
            else:
                out.append('FCubLin %s %s %s' % (lit(a), lit(r), lit(b)))
        return '[' + '; '.join(out) + ']'


def coqlist(xs):
    return '[' + '; '.join(lit(x) for x in xs) + ']'


def gen_case(rng):
    n = int(rng.integers(1, 7))
    kinds, p1, p2, p3, lo, hi = [], [], [], [], [], []
    for _ in range(n):
        k = int(rng.integers(0, 4))
        scale = 10.0 ** rng.integers(-3, 4)
        root = float(rng.normal()) * scale
        a = float(rng.uniform(0.1, 5.0)) * (1 if rng.random() < 0.8 else -1)
        w1 = float(rng.uniform(0.01, 3.0)) * scale
        w2 = float(rng.uniform(0.01, 3.0)) * scale
        if rng.random() < 0.1:
            w1 = 0.0          # root exactly at an end point
        if k == 0:
            kinds.append(0); p1.append(a); p2.append(-a * root); p3.append(0.0)
        elif k == 1:
            kinds.append(1); p1.append(a); p2.append(root); p3.append(0.0)
        elif k == 2:
            kinds.append(2); p1.append(a); p2.append(root); p3.append(0.0)
        else:
            kinds.append(3); p1.append(a); p2.append(root)
            p3.append(float(rng.uniform(0.0, 2.0)) * (1 if a > 0 else -1))
        l, h = root - w1, root + w2
        if a < 0:
            l, h = h, l     # keep f(xmin) <= 0 <= f(xmax) for bisect
        if rng.random() < 0.05:
            l, h = h, l     # sometimes violate the precondition
        lo.append(l); hi.append(h)
    return Lanes(kinds, p1, p2, p3), np.array(lo), np.array(hi)


def parse_float(tok):
    tok = tok.replace('%float', '').replace(')', '').strip()
    if tok == 'nan':
        return float('nan')
    if tok == 'infinity':
        return float('inf')
    if tok == 'neg_infinity':
        return float('-inf')
    return float(tok)


def same(x, y):
    x = float(x); y = float(y)
    if x != x and y != y:
        return True
    return x == y and np.signbit(x) == np.signbit(y)


def main():
    ncases = int(sys.argv[1]) if len(sys.argv) > 1 else 40
    seed = int(sys.argv[2]) if len(sys.argv) > 2 else 1
    rng = np.random.default_rng(seed)
    cases = []
    lines = ['From Coq Require Import List ZArith Bool PrimFloat Uint63.',
             'From Cop Require Import Model.RootFind.', 'Import ListNotations.']
    for _ in range(ncases):
        f, lo, hi = gen_case(rng)
        maxiter = int(rng.choice([1, 2, 3, 5, 10, 50]))
        tol = float(rng.choice([1e-8, 1e-3, 1e-12]))
        cases.append((f, lo, hi, maxiter, tol))
        lines.append('Eval vm_compute in bisect_full FA %d %s %s %s %s.' % (
            maxiter, lit(tol), f.coq(), coqlist(lo), coqlist(hi)))
        lines.append('Eval vm_compute in chandrupatla_full FA %d %s %s %s.' % (
            maxiter, f.coq(), coqlist(lo), coqlist(hi)))
    with open(ROOT + '/py/Cross.v', 'w') as fh:
        fh.write('\n'.join(lines) + '\n')
    out = subprocess.run(['timeout', '300', 'coqc', '-Q', ROOT, 'Cop', ROOT + '/py/Cross.v'],
                         capture_output=True, text=True)
    if out.returncode != 0:
        print(out.stderr)
        sys.exit(1)
    blocks = []
    for part in re.split(r'(?m)^\s+= ', out.stdout)[1:]:
        blocks.append(re.split(r'(?m)^\s+: option', part)[0])
    assert len(blocks) == 2 * ncases, (len(blocks), ncases)
    nb = nc = 0
    bad = 0
    for i, (f, lo, hi, maxiter, tol) in enumerate(cases):
        # ---- bisect
        blk = blocks[2 * i]
        f.calls = 0
        xmin, xmax = lo.copy(), hi.copy()
        try:
            res = bisect(f, xmin, xmax, tol=tol, maxiter=maxiter)
            py = (list(res), list(xmin), list(xmax), f.calls - 2)
        except AssertionError:
            py = None
        if 'None' in blk:
            ok = py is None
        else:
            toks = re.findall(r'(-?[0-9][0-9.e+-]*\)?%float|nan|neg_infinity|infinity)', blk)
            n = len(lo)
            vals = [parse_float(t) for t in toks]
            k = int(re.findall(r',\s*(\d+)\)', blk)[-1])
            ok = (py is not None and len(vals) == 3 * n
                  and all(same(u, v) for u, v in zip(vals, py[0] + py[1] + py[2]))
                  and k == py[3])
        nb += ok
        if not ok:
            bad += 1
            print('BISECT MISMATCH case', i, blk, py)
        # ---- chandrupatla
        blk = blocks[2 * i + 1]
        f.calls = 0
        try:
            res = chandrupatla(f, lo.copy(), hi.copy(), maxiter=maxiter)
            py = (list(res), f.calls - 2)
        except AssertionError:
            py = None
        if 'None' in blk:
            ok = py is None
        else:
            head = blk
            toks = re.findall(r'(-?[0-9][0-9.e+-]*\)?%float|nan|neg_infinity|infinity)', head)
            vals = [parse_float(t) for t in toks][:len(lo)]
            k = int(re.findall(r',\s*(\d+)\)', blk)[-1])
            ok = (py is not None and len(vals) == len(lo)
                  and all(same(u, v) for u, v in zip(vals, py[0])) and k == py[1])
        nc += ok
        if not ok:
            bad += 1
            print('CHANDRUPATLA MISMATCH case', i, blk, py)
    print('bisect agree %d/%d, chandrupatla agree %d/%d' % (nb, ncases, nc, ncases))
    sys.exit(1 if bad else 0)


if __name__ == '__main__':
    main()
