#!/venv/bin/python
"""Mutation self-test of the generated 1-d plot functions, PlotConfig colours and colour maps (tools/vf/plot1dgen.py + the C20_bridge_*
theorems of coq/Props/C20_1d.v; the row-index mutant is caught by tools/vf/plotgen.py as well).

For every mutant: a scratch copy of the library under /tmp (removed afterwards) gets ONE small semantic change of
copulas/visualization.py, then `VERIF_REPO=<copy> ./check C20` is run from this worktree.  Expected: exit code 1, and among the failed
obligations a `translate:gen_*` obligation (the translator refused the new shape), `Gen_plot1d.v:*` (the generated file no longer
type-checks) or a `C20_1d.v:C20_bridge_*` obligation (the generated definition is no longer provably the model's).  The harmless edits
(local renames, docstrings, annotations - absorbed by tools/vf/srcnorm.py -, literal texts of the title / hover template - not part
of the model, forgotten by `title_abs`) must leave the exit code at 0.

    tools/aux/plot1d_mutants.py [-j N] [name ...]        # exit code 0 iff every row is as expected
"""
import argparse
import json
import os
import re
import shutil
import subprocess
import sys
import tempfile
from concurrent.futures import ThreadPoolExecutor

HERE = os.path.dirname(os.path.abspath(__file__))
VERIF = os.path.dirname(os.path.dirname(HERE))
REPO = os.environ.get('PLOTGEN_BASE_REPO', '/repo')
VIZ = os.path.join('copulas', 'visualization.py')

G1 = '_generate_1d_plot'
RET_D = "    return _generate_1d_plot(\n        data=[data],"
RET_C = "    return _generate_1d_plot(\n        data=[real, synth],"

# name, [(function, old text, new text)], what          (the edit is applied inside the named function only)
MUTANTS = [
    ('inputs_swapped', [('compare_1d', 'data=[real, synth]', 'data=[synth, real]')], 'compare_1d: data=[synth, real] (labels and colours unchanged)'),
    ('labels_reversed', [('compare_1d', "labels=['Real', 'Synthetic']", "labels=['Synthetic', 'Real']")],
     "compare_1d: labels=['Synthetic', 'Real'] while the data list is [real, synth]"),
    ('group_labels_reversed', [(G1, 'group_labels=labels', 'group_labels=labels[::-1]')], '_generate_1d_plot: group_labels=labels[::-1]'),
    ('frame_first_column', [('dist_1d', RET_D, '    if isinstance(data, pd.DataFrame):\n        data = data.iloc[:, 0]\n' + RET_D)],
     'dist_1d: a DataFrame is silently replaced by its first column data.iloc[:, 0] (refused today)'),
    ('label_text_1d', [('compare_1d', "labels=['Real', 'Synthetic']", "labels=['Real', 'Synth']")], "compare_1d: label text 'Synth' in the labels list only"),
    ('label_text_cdm', [('compare_2d', "'Synthetic': PlotConfig.DATACEBO_GREEN", "'Synth': PlotConfig.DATACEBO_GREEN")],
     "compare_2d: key 'Synth' in color_discrete_map only (the frames are still tagged 'Synthetic')"),
    ('tag_changed', [('compare_3d', "synth['Data'] = 'Synthetic'", "synth['Data'] = 'Real'")], "compare_3d: synth['Data'] = 'Real' (the colour map still has both keys)"),
    ('cdm_colour', [('compare_2d', "'Real': PlotConfig.DATACEBO_DARK", "'Real': PlotConfig.DATACEBO_GREEN")], "compare_2d: 'Real' mapped to DATACEBO_GREEN"),
    ('inplace_series', [('compare_1d', RET_C, '    real -= 1\n' + RET_C)], "compare_1d: `real -= 1` (in place on the caller's Series / array)"),
    ('inplace_sort', [('dist_1d', RET_D, '    data.sort_values(inplace=True)\n' + RET_D)], 'dist_1d: data.sort_values(inplace=True)'),
    ('colours_reversed', [('compare_1d', 'colors=[PlotConfig.DATACEBO_DARK, PlotConfig.DATACEBO_GREEN]', 'colors=[PlotConfig.DATACEBO_GREEN, PlotConfig.DATACEBO_DARK]')],
     'compare_1d: colours exchanged'),
    ('title_from_synth', [('compare_1d', "title += f\" for column '{real.name}'\"", "title += f\" for column '{synth.name}'\"")],
     'compare_1d: the default title formats synth.name'),
    ('legend_index', [(G1, 'showlegend=True if labels[0] else False', 'showlegend=True if labels[1] else False')], '_generate_1d_plot: showlegend from labels[1]'),
    ('show_rug', [(G1, 'show_rug=False', 'show_rug=True')], '_generate_1d_plot: show_rug=True (the rug adds a trace per group)'),
    ('realign_first', [(G1, 'x=fig.data[i].x', 'x=fig.data[0].x')], '_generate_1d_plot: every curve re-drawn over the x grid of the first group'),
    ('user_label_dropped', [('dist_1d', 'labels=[label]', "labels=['Real']")], "dist_1d: labels=['Real'] instead of the caller's label"),
    ('same_colours', [(None, "DATACEBO_GREEN = '#01E0C9'", "DATACEBO_GREEN = '#000036'")], 'PlotConfig: DATACEBO_GREEN = DATACEBO_DARK'),
    ('row_index_assignment', [('compare_2d', "real['Data'] = 'Real'", "real['Data'] = pd.Series(['Real'] * len(real))")],
     "compare_2d: index-aligned assignment real['Data'] = pd.Series([...]) instead of the scalar"),
]

HARMLESS = [
    ('h_rename_locals', [(G1, 'for i, name in enumerate(labels):', 'for idx, trace_name in enumerate(labels):'), (G1, 'x=fig.data[i].x', 'x=fig.data[idx].x'),
                         (G1, "hovertemplate=f'<b>{name}</b>", "hovertemplate=f'<b>{trace_name}</b>"), (G1, "selector={'name': name}", "selector={'name': trace_name}"),
                         (G1, 'fig', 'figure')],
     '_generate_1d_plot: locals renamed (fig -> figure, loop variables i, name -> idx, trace_name)'),
    ('h_docstrings_annotations', [('dist_1d', '"""Plot the 1 dimensional data.', '"""Density plot of one column.'),
                                  ('compare_1d', 'def compare_1d(real, synth, title=None):', "def compare_1d(real: 'pd.Series', synth: 'pd.Series', title: 'str | None' = None) -> 'object':"),
                                  (G1, '"""Generate a density plot of an array-like structure.', '"""Density plot helper.')],
     'docstrings of dist_1d and of the generator rewritten, annotations added to compare_1d'),
    ('h_texts', [('dist_1d', "title = 'Data'", "title = 'Distribution'"), (G1, "hovertemplate=f'<b>{name}</b><br>Frequency: %{{y}}<extra></extra>'",
                                                                            "hovertemplate=f'<b>{name}</b><br>Density: %{{y}}<extra></extra>'"),
                 (G1, "xaxis_title='value'", "xaxis_title='Value'")],
     'literal texts: default title of dist_1d reworded, hover template and axis title changed (not part of the model)'),
]


def function_span(text, name):
    m = re.search(r'^def %s\(' % re.escape(name), text, re.M)
    if not m:
        return None
    n = re.search(r'^(def|class) ', text[m.end():], re.M)
    return m.start(), (m.end() + n.start()) if n else len(text)


def apply_edit(text, fn, old, new, word=False):
    span = function_span(text, fn) if fn else (0, len(text))
    if span is None:
        return None
    a, b = span
    seg = text[a:b]
    if word:
        pat = r'\b%s\b(?!=[^=])' % re.escape(old)          # not the NAME of a keyword argument (`data=data`: only the value is the local)
        if not re.search(pat, seg):
            return None
        seg = re.sub(pat, new, seg)
    else:
        if seg.count(old) != 1:
            return None
        seg = seg.replace(old, new)
    return text[:a] + seg + text[b:]


def run_one(root, name, edits, what, harmless):
    copy = os.path.join(root, 'p1m_' + name)
    out = os.path.join('/tmp/vf_out', 'p1m_' + name)
    row = {'name': name, 'what': what, 'harmless': harmless}
    try:
        shutil.copytree(REPO, copy, ignore=shutil.ignore_patterns('.git', '__pycache__', '*.pyc', 'docs', 'tutorials', 'tests'))
        p = os.path.join(copy, VIZ)
        text = open(p).read()
        for fn, old, new in edits:
            # a bare identifier as `old` is a rename of a local (whole words, every occurrence inside the function)
            t2 = apply_edit(text, fn, old, new, word=old.isidentifier())
            if t2 is None:
                row.update(rc=None, verdict='EDIT DOES NOT APPLY', layer='-', failed=[f'{fn}: {old[:60]}'])
                return row
            text = t2
        compile(text, p, 'exec')
        open(p, 'w').write(text)
        shutil.rmtree(out, ignore_errors=True)
        env = dict(os.environ, VERIF_REPO=copy)
        env.pop('VERIF_OUT', None)
        r = subprocess.run([os.path.join(VERIF, 'check'), 'C20'], cwd=VERIF, env=env, stdout=subprocess.PIPE, stderr=subprocess.STDOUT, text=True,
                           timeout=3000)
        row['rc'] = r.returncode
        try:
            ev = json.load(open(os.path.join(out, 'evidence', 'C20.json')))
            failed = ev['coverage']['failed_obligations']
        except Exception as ex:      # noqa
            failed = [f'(no evidence file: {ex})']
        tr = [f for f in failed if f.startswith('translate:gen_') or f.startswith('Gen_plot.v:') or f.startswith('Gen_plot1d.v:')]
        br = [f for f in failed if '_bridge_' in f]
        other = [f for f in failed if f not in tr and f not in br]
        row['failed'] = tr + br + [f'+{len(other)} other failed obligations (effect verdicts / correspondence)'] * bool(other)
        row['others'] = len(other)
        row['violations'] = len(re.findall(r'^VIOLATION ', r.stdout, re.M))
        row['layer'] = 'translation' if tr else ('bridge theorem' if br else '-')
        if harmless:
            row['verdict'] = 'ok (accepted)' if r.returncode == 0 and not failed else 'FALSE ALARM'
        else:
            row['verdict'] = 'detected' if r.returncode == 1 and (tr or br) else ('MISSED BY THE TRANSLATION/BRIDGE LAYER' if r.returncode == 1 else 'NOT DETECTED')
        if 'ok' not in row['verdict'] and row['verdict'] != 'detected':
            row['tail'] = r.stdout[-1500:]
        return row
    finally:
        shutil.rmtree(copy, ignore_errors=True)
        shutil.rmtree(out, ignore_errors=True)


def main():
    ap = argparse.ArgumentParser()
    ap.add_argument('-j', type=int, default=4)
    ap.add_argument('names', nargs='*')
    a = ap.parse_args()
    jobs = [(m, False) for m in MUTANTS] + [(h, True) for h in HARMLESS]
    if a.names:
        jobs = [j for j in jobs if j[0][0] in a.names]
    root = tempfile.mkdtemp(prefix='plot1d_mutants_')
    try:
        with ThreadPoolExecutor(a.j) as ex:
            rows = list(ex.map(lambda j: run_one(root, *j[0], j[1]), jobs))
    finally:
        shutil.rmtree(root, ignore_errors=True)
    print(f'{"mutant":26} {"exit":4} {"caught by":15} {"verdict":14} failed obligations of the translation/bridge layer')
    bad = 0
    for r in rows:
        print(f'{r["name"]:26} {str(r["rc"]):4} {r["layer"]:15} {r["verdict"]:14} {"; ".join(r["failed"])}')
        print(f'{"":26} ({r["what"]})')
        if r['verdict'] not in ('detected', 'ok (accepted)'):
            bad += 1
            print(r.get('tail', ''))
    print(f'{len(rows) - bad}/{len(rows)} rows as expected')
    return 1 if bad else 0


if __name__ == '__main__':
    sys.exit(main())
