#!/venv/bin/python
"""Mutation self-test of the generated Tree.get_tau_matrix / VineCopula.__init__ / VineCopula.fit (tools/vf/vinefitgen.py + the
C16_bridge_* / C16_F8_* theorems of coq/Props/C16_fit.v).

For every mutant: a scratch copy of the library under /tmp (removed afterwards) gets ONE small semantic change of Tree.get_tau_matrix
(copulas/multivariate/tree.py) or of VineCopula.__init__ / .fit (vine.py), then `VERIF_REPO=<copy> ./check C16` is run from this worktree.
Expected: exit code 1, and among the failed obligations a `translate:gen_*` obligation (the translator refused the new shape) or a
`C16_fit.v:C16_*` obligation (the generated definition is no longer provably the model's; the F8 examples are counted as bridge theorems:
they are statements about the generated functions).  The harmless edits (local renames, docstrings, annotations - absorbed by
tools/vf/srcnorm.py) must leave the exit code at 0 with no failed obligation.

    tools/aux/vinefit_mutants.py [-j N] [name ...]        # exit code 0 iff every row is as expected
"""
import argparse
import json
import os
import shutil
import subprocess
import sys
import tempfile
from concurrent.futures import ThreadPoolExecutor

HERE = os.path.dirname(os.path.abspath(__file__))
VERIF = os.path.dirname(os.path.dirname(HERE))
REPO = os.environ.get('VINEFIT_BASE_REPO', '/repo')
TREE = os.path.join('copulas', 'multivariate', 'tree.py')
VINE = os.path.join('copulas', 'multivariate', 'vine.py')

NB = '            for j in edge.neighbors:\n'
WRITE = '                tau[i, j], _pvalue = scipy.stats.kendalltau(left_u, right_u)\n'
COND = '                    left_u, right_u = Edge.get_conditional_uni(left_parent, right_parent)\n\n                tau[i, j]'
EMPTY = '        tau = np.empty([num_edges, num_edges])\n'
TRUNC = '        self.truncated = truncated\n'
TRAIN = '        self.train_vine(self.vine_type)\n        self.fitted = True\n'
UNIS = '        self.unis, self.ppfs = [], []\n'

# name, file, [(old text, new text)], what
MUTANTS = [
    ('tau_neighbors_off_by_one', TREE, [(NB, '            for j in edge.neighbors[1:]:\n')],
     'get_tau_matrix: the first neighbour of every edge is skipped (the source iterates `for j in edge.neighbors`, there is no range())'),
    ('tau_range_off_by_one', TREE, [('        for i in range(num_edges):\n            edge = self.edges[i]\n            for j in edge.neighbors:\n',
                                     '        for i in range(num_edges - 1):\n            edge = self.edges[i]\n            for j in edge.neighbors:\n')],
     'get_tau_matrix: range(num_edges) -> range(num_edges - 1): the last row is never written'),
    ('tau_symmetric_write', TREE, [(WRITE, WRITE.replace('tau[i, j]', 'tau[j, i]'))],
     'get_tau_matrix: writes tau[j, i] instead of tau[i, j] (the source has NO symmetric write to drop: it writes row i only)'),
    ('tau_wrong_parent_column', TREE, [(COND, COND.replace('(left_parent, right_parent)', '(right_parent, left_parent)'))],
     'get_tau_matrix: kendalltau on the conditional columns of the parents in the wrong order'),
    ('tau_wrong_level1_column', TREE, [('                    left_u = self.u_matrix[:, edge.L]\n                    right_u = self.u_matrix[:, edge.R]\n\n                else:\n                    left_parent, right_parent = edge.parents\n                    left_u, right_u = Edge.get_conditional_uni(left_parent, right_parent)\n\n                tau[i, j]',
                                    '                    left_u = self.u_matrix[:, edge.L]\n                    right_u = self.u_matrix[:, edge.L]\n\n                else:\n                    left_parent, right_parent = edge.parents\n                    left_u, right_u = Edge.get_conditional_uni(left_parent, right_parent)\n\n                tau[i, j]')],
     'get_tau_matrix: level 1 correlates column edge.L with itself'),
    ('tau_level_test', TREE, [('            for j in edge.neighbors:\n                if self.level == 1:\n', '            for j in edge.neighbors:\n                if self.level <= 2:\n')],
     'get_tau_matrix: `self.level == 1` -> `<= 2` (the second tree correlates marginal columns)'),
    ('tau_np_zeros', TREE, [(EMPTY, EMPTY.replace('np.empty', 'np.zeros'))],
     'get_tau_matrix: np.empty -> np.zeros (changes F8: unwritten cells read as 0.0)'),
    ('tau_shape', TREE, [(EMPTY, '        tau = np.empty([num_edges, num_edges + 1])\n')], 'get_tau_matrix: one column too many'),
    ('fit_truncated_after_train', VINE, [(TRUNC, ''), (TRAIN, '        self.train_vine(self.vine_type)\n        self.truncated = truncated\n        self.fitted = True\n')],
     'VineCopula.fit: self.truncated assigned after train_vine'),
    ('fit_fitted_before_loop', VINE, [(UNIS, '        self.fitted = True\n' + UNIS), (TRAIN, '        self.train_vine(self.vine_type)\n')],
     'VineCopula.fit: fitted = True moved before the marginal loop'),
    ('fit_depth', VINE, [('        self.depth = self.n_var - 1\n', '        self.depth = self.n_var\n')], 'VineCopula.fit: depth = n_var'),
    ('fit_shape_swapped', VINE, [('        self.n_sample, self.n_var = X.shape\n', '        self.n_var, self.n_sample = X.shape\n')], 'VineCopula.fit: n_sample / n_var swapped'),
    ('init_random_state_unvalidated', VINE, [('        self.random_state = validate_random_state(random_state)\n', '        self.random_state = random_state\n')],
     'VineCopula.__init__: random_state stored without validate_random_state'),
]

HARMLESS = [
    ('h_rename_locals', TREE, [('num_edges', 'm'), ('left_u', 'lu'), ('right_u', 'ru'), ('_pvalue', '_p')],
     'locals of get_tau_matrix (and of its neighbours in tree.py) renamed (every occurrence)'),
    ('h_docstrings', TREE, [('        """Get tau matrix for adjacent pairs.\n', '        """Kendall tau of every edge, stored in the columns of its neighbours (rewritten).\n')],
     'docstring of Tree.get_tau_matrix rewritten'),
    ('h_annotations', VINE, [('    def fit(self, X, truncated=3):\n', '    def fit(self, X, truncated: int = 3) -> None:\n'),
                             ('        self.trees = []\n', '        self.trees: list = []\n')],
     'type annotations added to VineCopula.fit'),
]


def run_one(root, name, rel, edits, what, harmless):
    copy = os.path.join(root, 'vfm_' + name)
    out = os.path.join('/tmp/vf_out', 'vfm_' + name)
    row = {'name': name, 'what': what, 'harmless': harmless}
    try:
        shutil.copytree(REPO, copy, ignore=shutil.ignore_patterns('.git', '__pycache__', '*.pyc', 'docs', 'tutorials', 'tests'))
        p = os.path.join(copy, rel)
        text = open(p).read()
        for old, new in edits:
            if (text.count(old) != 1 and not harmless) or old not in text:
                row.update(rc=None, verdict='EDIT DOES NOT APPLY', layer='-', failed=[old[:60]], other=0)
                return row
            text = text.replace(old, new)
        compile(text, p, 'exec')
        open(p, 'w').write(text)
        shutil.rmtree(out, ignore_errors=True)
        env = dict(os.environ, VERIF_REPO=copy)
        env.pop('VERIF_OUT', None)
        r = subprocess.run([os.path.join(VERIF, 'check'), 'C16'], cwd=VERIF, env=env, stdout=subprocess.PIPE, stderr=subprocess.STDOUT, text=True,
                           timeout=3000)
        row['rc'] = r.returncode
        try:
            ev = json.load(open(os.path.join(out, 'evidence', 'C16.json')))
            failed = ev['coverage']['failed_obligations']
        except Exception as ex:      # noqa
            failed = [f'(no evidence file: {ex})']
        tr = [f for f in failed if f.startswith('translate:gen_')]
        br = [f for f in failed if '_bridge_' in f or f.startswith('C16_fit.v:')]
        other = [f for f in failed if f not in tr and f not in br]
        row['other'] = len(other)
        row['failed'] = tr + br
        row['layer'] = 'translation' if tr else ('bridge theorem' if br else '-')
        if harmless:
            row['verdict'] = 'ok (accepted)' if r.returncode == 0 and not failed else 'FALSE ALARM'
        else:
            row['verdict'] = 'detected' if r.returncode == 1 and (tr or br) else ('MISSED BY THE TRANSLATION/BRIDGE LAYER' if r.returncode == 1 else 'NOT DETECTED')
        if 'ok' not in row['verdict'] and row['verdict'] != 'detected':
            row['tail'] = r.stdout[-1500:]
        return row
    finally:
        shutil.rmtree(copy, ignore_errors=True)
        shutil.rmtree(out, ignore_errors=True)


def main():
    ap = argparse.ArgumentParser()
    ap.add_argument('-j', type=int, default=3)
    ap.add_argument('names', nargs='*')
    a = ap.parse_args()
    jobs = [(m, False) for m in MUTANTS] + [(h, True) for h in HARMLESS]
    if a.names:
        jobs = [j for j in jobs if j[0][0] in a.names]
    root = tempfile.mkdtemp(prefix='vinefit_mutants_')
    try:
        with ThreadPoolExecutor(a.j) as ex:
            rows = list(ex.map(lambda j: run_one(root, *j[0], j[1]), jobs))
    finally:
        shutil.rmtree(root, ignore_errors=True)
    print(f'{"mutant":30} {"exit":4} {"caught by":15} {"verdict":14} {"other":5} failed obligations of the translation/bridge layer')
    bad = 0
    for r in rows:
        print(f'{r["name"]:30} {str(r["rc"]):4} {r["layer"]:15} {r["verdict"]:14} {r.get("other", 0):5} {"; ".join(r["failed"])}')
        print(f'{"":30} ({r["what"]})')
        if r['verdict'] not in ('detected', 'ok (accepted)'):
            bad += 1
            print(r.get('tail', ''))
    print(f'{len(rows) - bad}/{len(rows)} rows as expected')
    return 1 if bad else 0


if __name__ == '__main__':
    sys.exit(main())
