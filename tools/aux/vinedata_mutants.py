#!/venv/bin/python
"""Mutation self-test of the generated data plane of the vine copula (tools/vf/vinedatagen.py + the C17_bridge_* theorems of
coq/Props/C17_data.v).

For every mutant: a scratch copy of the library under /tmp (removed afterwards) gets ONE small semantic change of
copulas/multivariate/tree.py or vine.py, then `VERIF_REPO=<copy> ./check C17` is run from this worktree.  Expected: exit code 1, and among
the failed obligations a `translate:gen_*` obligation of this layer (the translator refused the new shape) or a `C17_data.v:*` obligation
(the generated definition is no longer provably the model's).  Some mutants are ALSO caught by the replay correspondence / the witness
search of C17; that is reported in the last column but is not what this self-test is about.  The harmless edits (local renames,
docstrings, annotations - absorbed by tools/vf/srcnorm.py) must leave the exit code at 0 with no failed obligation.

    tools/aux/vinedata_mutants.py [-j N] [name ...]        # exit code 0 iff every row is as expected
"""
import argparse
import json
import os
import shutil
import subprocess
import sys
import tempfile
from concurrent.futures import ThreadPoolExecutor

HERE = os.path.dirname(os.path.abspath(__file__))
VERIF = os.path.dirname(os.path.dirname(HERE))
REPO = os.environ.get('VINEDATA_BASE_REPO', '/repo')
TREE = os.path.join('copulas', 'multivariate', 'tree.py')
VINE = os.path.join('copulas', 'multivariate', 'vine.py')
LAYER = ('gen_Tree_prepare_next_tree', 'gen_Edge_get_likelihood', 'gen_Tree_get_likelihood', 'gen_VineCopula_get_likelihood',
         'gen_sample_find_edge', 'gen_sample_level_step')

I12, I8 = ' ' * 12, ' ' * 8

# name, file, [(old text, new text)], what
MUTANTS = [
    ('pnt_deriv_arg', TREE, [('\n' + I12 + 'left_given_right = copula.partial_derivative(X_left_right)\n',
                              '\n' + I12 + 'left_given_right = copula.partial_derivative(X_right_left)\n')],
     'prepare_next_tree: left_given_right = partial_derivative(X_right_left)  (derivative arguments swapped)'),
    ('pnt_U_rows_swapped', TREE, [('edge.U = np.array([left_given_right, right_given_left])', 'edge.U = np.array([right_given_left, left_given_right])')],
     'prepare_next_tree: edge.U = np.array([right_given_left, left_given_right])  (U[0] / U[1] swapped)'),
    ('pnt_clip_wrong_array', TREE, [(I12 + 'right_given_left[right_given_left == 0] = EPSILON\n', I12 + 'left_given_right[left_given_right == 0] = EPSILON\n')],
     'prepare_next_tree: the `== 0` correction is applied to left_given_right twice, never to right_given_left'),
    ('pnt_clip_foreign_mask', TREE, [(I12 + 'right_given_left[right_given_left == 1] = 1 - EPSILON\n', I12 + 'right_given_left[left_given_right == 1] = 1 - EPSILON\n')],
     'prepare_next_tree: right_given_left[left_given_right == 1] = 1 - EPSILON  (mask taken from the other array)'),
    ('pnt_clip_constant', TREE, [(I12 + 'left_given_right[left_given_right == 1] = 1 - EPSILON\n', I12 + 'left_given_right[left_given_right == 1] = 1 + EPSILON\n')],
     'prepare_next_tree: left_given_right[left_given_right == 1] = 1 + EPSILON'),
    ('pnt_level1_column', TREE, [('\n' + I12 + '    right_u = self.u_matrix[:, edge.R]\n', '\n' + I12 + '    right_u = self.u_matrix[:, edge.L]\n')],
     'prepare_next_tree, level 1: right_u = self.u_matrix[:, edge.L]'),
    ('pnt_parents_swapped', TREE, [('left_u, right_u = Edge.get_conditional_uni(left_parent, right_parent)\n\n            # compute',
                                    'left_u, right_u = Edge.get_conditional_uni(right_parent, left_parent)\n\n            # compute')],
     'prepare_next_tree, level > 1: Edge.get_conditional_uni(right_parent, left_parent)'),
    ('pnt_zip_order', TREE, [('X_right_left = np.array([[x, y] for x, y in zip(right_u, left_u)])', 'X_right_left = np.array([[y, x] for x, y in zip(right_u, left_u)])')],
     'prepare_next_tree: X_right_left = np.array([[y, x] for x, y in zip(right_u, left_u)])'),
    ('elik_other_parent', TREE, [('left_ing = list(self.D - self.parents[0].D)[0]', 'left_ing = list(self.D - self.parents[1].D)[0]')],
     'Edge.get_likelihood: left_ing taken from parents[1] (conditioning index from the other parent)'),
    ('elik_row', TREE, [('left_u = uni_matrix[self.L, left_ing]', 'left_u = uni_matrix[self.R, left_ing]')],
     'Edge.get_likelihood: left_u = uni_matrix[self.R, left_ing]'),
    ('elik_density_args', TREE, [('value = np.sum(copula.probability_density(X_left_right))', 'value = np.sum(copula.probability_density(X_right_left))')],
     'Edge.get_likelihood: the density is evaluated at (right_u, left_u)'),
    ('elik_deriv_arg', TREE, [('\n' + I8 + 'right_given_left = copula.partial_derivative(X_right_left)\n', '\n' + I8 + 'right_given_left = copula.partial_derivative(X_left_right)\n')],
     'Edge.get_likelihood: right_given_left = partial_derivative(X_left_right)'),
    ('tlik_bound', TREE, [('        for i in range(num_edge):\n', '        for i in range(num_edge - 1):\n')],
     'Tree.get_likelihood: for i in range(num_edge - 1)  (loop bound off by one)'),
    ('tlik_write_swapped', TREE, [('new_uni_matrix[edge.L, edge.R] = np.ravel(left_u)[0]', 'new_uni_matrix[edge.L, edge.R] = np.ravel(right_u)[0]')],
     'Tree.get_likelihood: new_uni_matrix[edge.L, edge.R] = np.ravel(right_u)[0]'),
    ('tlik_sum_axis', TREE, [('        return np.sum(values), new_uni_matrix\n', '        return np.sum(values, axis=0), new_uni_matrix\n')],
     'Tree.get_likelihood: np.sum(values, axis=0)  (sum over the wrong axis: an array, not a number)'),
    ('vlik_sum_slice', VINE, [('        return np.sum(values)\n', '        return np.sum(values[0, 1:])\n')],
     'VineCopula.get_likelihood: np.sum(values[0, 1:])  (the first tree is dropped from the sum)'),
    ('vlik_bound', VINE, [('        for i in range(num_tree):\n            value, new_uni_matrix', '        for i in range(num_tree - 1):\n            value, new_uni_matrix')],
     'VineCopula.get_likelihood: for i in range(num_tree - 1)  (the last np.empty cell of `values` is summed unwritten)'),
    ('vlik_matrix_not_threaded', VINE, [('            uni_matrix = new_uni_matrix\n', '            new_uni_matrix = uni_matrix\n')],
     'VineCopula.get_likelihood: uni_matrix is never replaced (every tree reads the caller\'s row)'),
    ('smp_tree1_wrong_end', VINE, [('edge.R == current and edge.L == visited[0]', 'edge.R == current and edge.R == visited[0]')],
     '_sample_row, tree 1 search: `edge.R == current and edge.R == visited[0]`'),
    ('smp_break_inside', VINE, [('                                    current_ind = edge.index\n                                break\n',
                                 '                                    current_ind = edge.index\n                                    break\n')],
     '_sample_row, trees >= 2: the `break` moved inside the subset test (the search goes on after a failed test)'),
    ('smp_truncated_gt', VINE, [('                    if i >= self.truncated:\n', '                    if i > self.truncated:\n')],
     '_sample_row: `if i > self.truncated: continue`'),
    ('smp_first_level', VINE, [('                        if i == itr - 1:\n', '                        if i == itr:\n')],
     '_sample_row: `if i == itr:` (the chain never starts from unis[current])'),
    ('smp_cond_on_current', VINE, [('U = np.array([unis[visited[0]]])', 'U = np.array([unis[current]])')],
     '_sample_row: the inverse is conditioned on unis[current]'),
    ('smp_subset_direction', VINE, [('if condition.issubset(visit_set):', 'if visit_set.issubset(condition):')],
     '_sample_row: `visit_set.issubset(condition)`'),
    ('smp_clip_const', VINE, [('tmp = min(max(tmp, EPSILON), 0.99)', 'tmp = min(max(tmp, EPSILON), 0.999)')],
     '_sample_row: the clip is min(max(tmp, EPSILON), 0.999)'),
    ('smp_level_range', VINE, [('for i in range(itr - 1, -1, -1):', 'for i in range(itr - 1, 0, -1):')],
     '_sample_row: for i in range(itr - 1, 0, -1)  (tree 1 is never inverted)'),
]

PNT_BODY_OLD = ('            copula_theta = edge.theta\n', '            copula.theta = copula_theta\n')
HARMLESS = [
    ('h_rename_locals', TREE, [('            copula_theta = edge.theta\n', '            theta_of_edge = edge.theta\n'),
                               ('            copula.theta = copula_theta\n', '            copula.theta = theta_of_edge\n'),
                               ('        uni_dim = uni_matrix.shape[1]\n', '        width = uni_matrix.shape[1]\n'),
                               ('        new_uni_matrix = np.empty([uni_dim, uni_dim])\n', '        new_uni_matrix = np.empty([width, width])\n')],
     'locals of prepare_next_tree (copula_theta) and Tree.get_likelihood (uni_dim) renamed'),
    ('h_docstrings', TREE, [('        """Prepare conditional U matrix for next tree."""', '        """Compute the two h-function rows ``edge.U`` of every edge of this tree."""'),
                            ('        """Compute likelihood of the tree given an U matrix.\n', '        """Log-likelihood contribution of this tree and the matrix the next tree reads.\n')],
     'docstrings of prepare_next_tree and Tree.get_likelihood rewritten'),
    ('h_annotations', VINE, [('    def get_likelihood(self, uni_matrix):\n        """Compute likelihood of the vine."""',
                              "    def get_likelihood(self, uni_matrix: 'np.ndarray') -> float:\n        \"\"\"Compute likelihood of the vine.\"\"\""),
                             ('        num_tree = len(self.trees)\n', '        num_tree: int = len(self.trees)\n')],
     'type annotations added to VineCopula.get_likelihood'),
    ('h_sampler_locals', VINE, [('                                condition = set(edge.D)\n', '                                needed = set(edge.D)\n'),
                                ('                                condition.add(edge.L)  # noqa: PD005\n', '                                needed.add(edge.L)\n'),
                                ('                                condition.add(edge.R)  # noqa: PD005\n', '                                needed.add(edge.R)\n'),
                                ('                                if condition.issubset(visit_set):\n', '                                if needed.issubset(visit_set):\n')],
     '_sample_row: the local `condition` renamed'),
]


def run_one(root, name, rel, edits, what, harmless):
    copy = os.path.join(root, 'vdm_' + name)
    out = os.path.join('/tmp/vf_out', 'vdm_' + name)
    row = {'name': name, 'what': what, 'harmless': harmless}
    try:
        shutil.copytree(REPO, copy, ignore=shutil.ignore_patterns('.git', '__pycache__', '*.pyc', 'docs', 'tutorials', 'tests'))
        p = os.path.join(copy, rel)
        text = open(p).read()
        for old, new in edits:
            if text.count(old) != 1:
                row.update(rc=None, verdict='EDIT DOES NOT APPLY', layer='-', failed=[old[:60]], also='')
                return row
            text = text.replace(old, new)
        compile(text, p, 'exec')
        open(p, 'w').write(text)
        shutil.rmtree(out, ignore_errors=True)
        env = dict(os.environ, VERIF_REPO=copy)
        env.pop('VERIF_OUT', None)
        r = subprocess.run([os.path.join(VERIF, 'check'), 'C17'], cwd=VERIF, env=env, stdout=subprocess.PIPE, stderr=subprocess.STDOUT, text=True,
                           timeout=3000)
        row['rc'] = r.returncode
        try:
            ev = json.load(open(os.path.join(out, 'evidence', 'C17.json')))
            failed = ev['coverage']['failed_obligations']
        except Exception as ex:      # noqa
            failed = [f'(no evidence file: {ex})']
        tr = [f for f in failed if f.startswith('translate:') and f[len('translate:'):] in LAYER]
        br = [f for f in failed if f.startswith('C17_data.v:')]
        other = [f for f in failed if f not in tr and f not in br]
        nviol = sum(1 for l in r.stdout.split('\n') if l.startswith('VIOLATION') and 'no-failing-input-found' not in l)
        row['failed'] = tr + br
        row['also'] = (f'{len(other)} other failed obligations' if other else '') + (', ' if other and nviol else '') + \
            (f'{nviol} VIOLATION lines with a failing input' if nviol else '')
        row['layer'] = 'translation' if tr else ('bridge theorem' if br else '-')
        if harmless:
            row['verdict'] = 'ok (accepted)' if r.returncode == 0 and not failed else 'FALSE ALARM'
        else:
            row['verdict'] = 'detected' if r.returncode == 1 and (tr or br) else ('MISSED BY THE TRANSLATION/BRIDGE LAYER' if r.returncode == 1 else 'NOT DETECTED')
        if 'ok' not in row['verdict'] and row['verdict'] != 'detected':
            row['tail'] = r.stdout[-1500:]
        return row
    finally:
        shutil.rmtree(copy, ignore_errors=True)
        shutil.rmtree(out, ignore_errors=True)


def main():
    ap = argparse.ArgumentParser()
    ap.add_argument('-j', type=int, default=4)
    ap.add_argument('names', nargs='*')
    a = ap.parse_args()
    jobs = [(m, False) for m in MUTANTS] + [(h, True) for h in HARMLESS]
    if a.names:
        jobs = [j for j in jobs if j[0][0] in a.names]
    root = tempfile.mkdtemp(prefix='vinedata_mutants_')
    try:
        with ThreadPoolExecutor(min(a.j, 5)) as ex:
            rows = list(ex.map(lambda j: run_one(root, *j[0], j[1]), jobs))
    finally:
        shutil.rmtree(root, ignore_errors=True)
    print(f'{"mutant":26} {"exit":4} {"caught by":15} {"verdict":14} failed obligations of the translation/bridge layer | also')
    bad = 0
    for r in rows:
        print(f'{r["name"]:26} {str(r["rc"]):4} {r["layer"]:15} {r["verdict"]:14} {"; ".join(r["failed"])} | {r.get("also", "")}')
        print(f'{"":26} ({r["what"]})')
        if r['verdict'] not in ('detected', 'ok (accepted)'):
            bad += 1
            print(r.get('tail', ''))
    print(f'{len(rows) - bad}/{len(rows)} rows as expected')
    return 1 if bad else 0


if __name__ == '__main__':
    sys.exit(main())
