#!/venv/bin/python
"""Mutation self-test of the generated tree construction (tools/vf/vinebuildgen.py + the C16_bridge_* theorems of coq/Props/C16_build.v).

For every mutant: a scratch copy of the library under /tmp (removed afterwards) gets ONE small semantic change of
copulas/multivariate/tree.py or vine.py, then `VERIF_REPO=<copy> ./check C16` is run from this worktree.  Expected: exit code 1, and among
the failed obligations a `translate:gen_*` obligation (the translator refused the new shape) or a `C16_build.v:C16_bridge_*` obligation (the
generated definition is no longer provably the model's).  Many mutants are ALSO caught by the replay correspondence / the witness search;
that is reported in the last column but is not what this self-test is about.  The harmless edits (local renames, docstrings, annotations -
absorbed by tools/vf/srcnorm.py) must leave the exit code at 0 with no failed obligation.

    tools/aux/vinebuild_mutants.py [-j N] [name ...]        # exit code 0 iff every row is as expected
"""
import argparse
import json
import os
import shutil
import subprocess
import sys
import tempfile
from concurrent.futures import ThreadPoolExecutor

HERE = os.path.dirname(os.path.abspath(__file__))
VERIF = os.path.dirname(os.path.dirname(HERE))
REPO = os.environ.get('VINEBUILD_BASE_REPO', '/repo')
TREE = os.path.join('copulas', 'multivariate', 'tree.py')
VINE = os.path.join('copulas', 'multivariate', 'vine.py')

CENTER_FIRST_HEAD = '        tau_sorted = self._sort_tau_by_y(0)\n        for itr in range(self.n_nodes - 1):\n'
CENTER_KTH_SORT = '            left_parent, right_parent = Edge.sort_edge([edges[anchor], edges[right]])\n'
DIRECT_KTH_SORT = '            left_parent, right_parent = Edge.sort_edge([edges[k], edges[k + 1]])\n'
FIT_LEVEL = '            if self.level == 1:\n                self.u_matrix = previous_tree\n'

# name, file, [(old text, new text)], what
MUTANTS = [
    ('range_n_nodes', TREE, [(CENTER_FIRST_HEAD, CENTER_FIRST_HEAD.replace('range(self.n_nodes - 1)', 'range(self.n_nodes)'))],
     'CenterTree._build_first_tree: range(self.n_nodes - 1) -> range(self.n_nodes)'),
    ('valL_ge_valR', TREE, [('            if valL > valR:\n', '            if valL >= valR:\n')], 'DirectTree._build_first_tree: valL > valR -> >='),
    ('append_swapped', TREE, [('                T1 = np.append(int(left), T1)\n', '                T1 = np.append(T1, int(left))\n')],
     'DirectTree._build_first_tree: the left candidate is appended on the right'),
    ('edges_k_twice', TREE, [(DIRECT_KTH_SORT, DIRECT_KTH_SORT.replace('edges[k + 1]', 'edges[k]'))],
     'DirectTree._build_kth_tree: edges[k + 1] -> edges[k]'),
    ('anchor_index', TREE, [('        anchor = int(temp[0, 0])\n', '        anchor = int(temp[1, 0])\n')], 'CenterTree.get_anchor: temp[0, 0] -> temp[1, 0]'),
    ('level_le_1', TREE, [(FIT_LEVEL, FIT_LEVEL.replace('self.level == 1', 'self.level <= 1'))], 'Tree.fit: self.level == 1 -> <= 1'),
    ('sort_edge_dropped', TREE, [(CENTER_KTH_SORT, CENTER_KTH_SORT.replace('Edge.sort_edge([edges[anchor], edges[right]])', '[edges[anchor], edges[right]]'))],
     'CenterTree._build_kth_tree: the Edge.sort_edge call dropped'),
    ('sort_by_signed_tau', TREE, [('        sort_temp = temp[:, 2].argsort()[::-1]\n', '        sort_temp = temp[:, 1].argsort()[::-1]\n')],
     '_sort_tau_by_y: argsort of column 1 (signed tau) instead of column 2 (|tau|)'),
    ('argsort_not_reversed', TREE, [('        sort_temp = temp[:, 2].argsort()[::-1]\n', '        sort_temp = temp[:, 2].argsort()\n')],
     '_sort_tau_by_y: [::-1] dropped (ascending |tau|)'),
    ('nan_to_plus_10', TREE, [('        temp[np.isnan(temp)] = -10\n', '        temp[np.isnan(temp)] = 10\n')], '_sort_tau_by_y: NaN replaced by +10'),
    ('view_copied', TREE, [('        tau_y = self.tau_matrix[:, y]\n', '        tau_y = self.tau_matrix[:, y].copy()\n')],
     '_sort_tau_by_y: the column view becomes a copy (tau_matrix[y, y] is no longer overwritten)'),
    ('kill_other_column', TREE, [('                tau_matrix[:, left] = -10\n', '                tau_matrix[:, right] = -10\n')],
     'DirectTree._build_first_tree: the wrong column is masked after a left append'),
    ('train_range', VINE, [('range(1, min(self.n_var - 1, self.truncated))', 'range(1, min(self.n_var, self.truncated))')],
     'train_vine: min(self.n_var - 1, ..) -> min(self.n_var, ..)'),
    ('fit_n_nodes', VINE, [('tree_k.fit(k, self.n_var - k, tau, self.trees[k - 1])', 'tree_k.fit(k, self.n_var - k - 1, tau, self.trees[k - 1])')],
     'train_vine: n_nodes of tree k is n_var - k - 1'),
    ('get_tree_swapped', TREE, [('    if tree_type == TreeTypes.CENTER:\n        return CenterTree()\n', '    if tree_type == TreeTypes.CENTER:\n        return DirectTree()\n')],
     'get_tree: TreeTypes.CENTER builds a DirectTree'),
    ('level_index_plus_2', TREE, [('        self.level = index + 1\n', '        self.level = index + 2\n')], 'Tree.fit: self.level = index + 2'),
]

HARMLESS = [
    ('h_rename_locals', TREE, [('valL', 'best_left'), ('valR', 'best_right'), ('tau_sorted', 'table'), ('aux_sorted', 'ordered'), ('sort_temp', 'perm')],
     'locals of the builders and of _sort_tau_by_y renamed (every occurrence)'),
    ('h_docstrings', TREE, [('        """Sort tau matrix by dependece with variable y.\n', '        """Order the rows by decreasing |tau| with variable y.\n\n        (rewritten)\n'),
                            ('        """Find anchor variable with highest sum of dependence with the rest.\n', '        """Return the anchor variable.\n'),
                            ('        """Build k-th level tree."""', '        """Build the tree of level k from the previous one."""')],
     'docstrings of _sort_tau_by_y, get_anchor, CenterTree._build_kth_tree rewritten'),
    ('h_annotations', TREE, [('    def _sort_tau_by_y(self, y):', '    def _sort_tau_by_y(self, y: int) -> np.ndarray:'),
                             ('    def fit(self, index, n_nodes, tau_matrix, previous_tree, edges=None):',
                              '    def fit(self, index: int, n_nodes: int, tau_matrix, previous_tree, edges=None) -> None:'),
                             ('        anchor = int(temp[0, 0])\n', '        anchor: int = int(temp[0, 0])\n')],
     'type annotations added to _sort_tau_by_y, Tree.fit and a local of get_anchor'),
]


def run_one(root, name, rel, edits, what, harmless):
    copy = os.path.join(root, 'vbm_' + name)
    out = os.path.join('/tmp/vf_out', 'vbm_' + name)
    row = {'name': name, 'what': what, 'harmless': harmless}
    try:
        shutil.copytree(REPO, copy, ignore=shutil.ignore_patterns('.git', '__pycache__', '*.pyc', 'docs', 'tutorials', 'tests'))
        p = os.path.join(copy, rel)
        text = open(p).read()
        for old, new in edits:
            if (text.count(old) != 1 and not harmless) or old not in text:
                row.update(rc=None, verdict='EDIT DOES NOT APPLY', layer='-', failed=[old[:60]])
                return row
            text = text.replace(old, new)
        compile(text, p, 'exec')
        open(p, 'w').write(text)
        shutil.rmtree(out, ignore_errors=True)
        env = dict(os.environ, VERIF_REPO=copy)
        env.pop('VERIF_OUT', None)
        r = subprocess.run([os.path.join(VERIF, 'check'), 'C16'], cwd=VERIF, env=env, stdout=subprocess.PIPE, stderr=subprocess.STDOUT, text=True,
                           timeout=3000)
        row['rc'] = r.returncode
        try:
            ev = json.load(open(os.path.join(out, 'evidence', 'C16.json')))
            failed = ev['coverage']['failed_obligations']
        except Exception as ex:      # noqa
            failed = [f'(no evidence file: {ex})']
        tr = [f for f in failed if f.startswith('translate:gen_')]
        br = [f for f in failed if '_bridge_' in f]
        other = [f for f in failed if f not in tr and f not in br]
        row['failed'] = tr + br + [f'+{len(other)} other failed obligations (correspondence / search)'] * bool(other)
        row['layer'] = 'translation' if tr else ('bridge theorem' if br else '-')
        if harmless:
            row['verdict'] = 'ok (accepted)' if r.returncode == 0 and not failed else 'FALSE ALARM'
        else:
            row['verdict'] = 'detected' if r.returncode == 1 and (tr or br) else ('MISSED BY THE TRANSLATION/BRIDGE LAYER' if r.returncode == 1 else 'NOT DETECTED')
        if 'ok' not in row['verdict'] and row['verdict'] != 'detected':
            row['tail'] = r.stdout[-1500:]
        return row
    finally:
        shutil.rmtree(copy, ignore_errors=True)
        shutil.rmtree(out, ignore_errors=True)


def main():
    ap = argparse.ArgumentParser()
    ap.add_argument('-j', type=int, default=4)
    ap.add_argument('names', nargs='*')
    a = ap.parse_args()
    jobs = [(m, False) for m in MUTANTS] + [(h, True) for h in HARMLESS]
    if a.names:
        jobs = [j for j in jobs if j[0][0] in a.names]
    root = tempfile.mkdtemp(prefix='vinebuild_mutants_')
    try:
        with ThreadPoolExecutor(a.j) as ex:
            rows = list(ex.map(lambda j: run_one(root, *j[0], j[1]), jobs))
    finally:
        shutil.rmtree(root, ignore_errors=True)
    print(f'{"mutant":22} {"exit":4} {"caught by":15} {"verdict":14} failed obligations of the translation/bridge layer')
    bad = 0
    for r in rows:
        print(f'{r["name"]:22} {str(r["rc"]):4} {r["layer"]:15} {r["verdict"]:14} {"; ".join(r["failed"])}')
        print(f'{"":22} ({r["what"]})')
        if r['verdict'] not in ('detected', 'ok (accepted)'):
            bad += 1
            print(r.get('tail', ''))
    print(f'{len(rows) - bad}/{len(rows)} rows as expected')
    return 1 if bad else 0


if __name__ == '__main__':
    sys.exit(main())
