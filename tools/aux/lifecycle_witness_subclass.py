"""subclass_from_dict_refuted: must run in a FRESH interpreter."""
from copulas.bivariate import Frank, Bivariate, Clayton
d = {'copula_type': 'FRANK', 'theta': 2.0, 'tau': .5}
def raises(f):
    try: f(); return None
    except Exception as e: return type(e).__name__
a = raises(lambda: Frank.from_dict(d))                       # fresh: AttributeError (constructor returned None)
b = type(Bivariate.from_dict(d)).__name__                    # Frank ; fills Bivariate._subclasses
c = raises(lambda: Frank.from_dict(d))                       # still AttributeError (Frank owns an empty cache)
e = type(Clayton.from_dict(d)).__name__                      # Frank (inherits the base cache), __init__ skipped
f = not hasattr(Clayton.from_dict(d), 'random_state')
print('subclass_from_dict_refuted / history_dependent', 'OK' if (a, b, c, e, f) == ('AttributeError', 'Frank', 'AttributeError', 'Frank', True) else ('MISMATCH', a, b, c, e, f))
