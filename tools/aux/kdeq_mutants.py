#!/venv/bin/python
"""Mutation self-test of the third generated layer of C19 (tools/vf/kdeqgen.py + the C19_bridge3_* theorems of coq/Props/C19_kde.v and
coq/Props/C19_kde_init.v): GaussianKDE._get_bounds / cumulative_distribution / percent_point, the four Univariate._constant_*
methods, the constructors of the ScipyModel classes.

For every mutant: a scratch copy of the library under /tmp (removed afterwards) gets ONE small semantic change of one of the translated
functions, then `VERIF_REPO=<copy> ./check C19` is run from this worktree.  Expected: exit code 1, and among the failed obligations a
`translate:<name>` obligation of this layer (the translator refused the new shape) or a `C19_kde.v:*` / `C19_kde_init.v:*` obligation
(the generated definition is no longer provably the model's).  What the rest of C19 says about the same mutant is reported in the
last column.  The harmless edits (local renames, docstrings / message texts, annotations - absorbed by tools/vf/srcnorm.py) must
leave the exit code at 0 with no failed obligation.

    tools/aux/kdeq_mutants.py [-j N] [--fast] [name ...]        # exit code 0 iff every row is as expected

--fast: only this layer (generate Gen_kdeq.v / Gen_uinit.v from the copy and compile them with the two Props files against the
        build directory of the last `./check C19` run on /repo); for developing the table, not for the record.
"""
import argparse
import json
import os
import shutil
import subprocess
import sys
import tempfile
from concurrent.futures import ThreadPoolExecutor

HERE = os.path.dirname(os.path.abspath(__file__))
VERIF = os.path.dirname(os.path.dirname(HERE))
REPO = os.environ.get('KDEQ_BASE_REPO', '/repo')
U = os.path.join('copulas', 'univariate')
TG, KDE, BASE = (os.path.join(U, f) for f in ('truncated_gaussian.py', 'gaussian_kde.py', 'base.py'))

RANGE_CHECK = ("        if np.any(U > 1.0) or np.any(U < 0.0):\n            raise ValueError('Expected values in range [0.0, 1.0].')\n\n")
PPF_OLD = ("        is_one = U >= 1.0 - EPSILON\n        is_zero = U <= EPSILON\n        is_valid = ~(is_zero | is_one)\n\n"
           "        lower, upper = self._get_bounds()\n\n        def _f(X):\n            return self.cumulative_distribution(X) - U[is_valid]\n\n"
           "        X = np.zeros(U.shape)\n        X[is_one] = float('inf')\n        X[is_zero] = float('-inf')\n        if is_valid.any():\n"
           "            lower = np.full(U[is_valid].shape, lower)\n            upper = np.full(U[is_valid].shape, upper)\n"
           "            if method == 'bisect':\n                X[is_valid] = bisect(_f, lower, upper)\n            else:\n"
           "                X[is_valid] = chandrupatla(_f, lower, upper)\n\n        return X\n")
PPF_RENAMED = (PPF_OLD.replace('is_one', 'at_one').replace('is_zero', 'at_zero').replace('is_valid', 'inside').replace('_f', 'objective')
               .replace('lower', 'lo').replace('upper', 'hi').replace('(X)', '(points)').replace('X', 'out'))
BOUNDS_OLD = ("        X = self._params['dataset']\n        lower = np.min(X) - (5 * np.std(X))\n        upper = np.max(X) + (5 * np.std(X))\n\n"
              "        return lower, upper\n")
CCDF_OLD = ("        result = np.ones(X.shape)\n        result[np.nonzero(X < self._constant_value)] = 0\n\n        return result\n")

# name, [(file, old text, new text)], what
MUTANTS = [
    ('const_cdf_strict', [(BASE, 'result[np.nonzero(X < self._constant_value)] = 0', 'result[np.nonzero(X <= self._constant_value)] = 0')],
     'Univariate._constant_cumulative_distribution: the step is 1 for X > c only (>= became >)'),
    ('bounds_3_sigma', [(KDE, 'lower = np.min(X) - (5 * np.std(X))', 'lower = np.min(X) - (3 * np.std(X))')],
     'GaussianKDE._get_bounds: the lower bound is min - 3 std'),
    ('ppf_no_range_check', [(KDE, RANGE_CHECK, '')],
     'GaussianKDE.percent_point: the validity test on U (values outside [0, 1] raise ValueError) dropped'),
    ('ppf_zero_gives_plus_inf', [(KDE, "X[is_zero] = float('-inf')", "X[is_zero] = float('inf')")],
     'GaussianKDE.percent_point: the U == 0 shortcut returns +inf'),
    ('ppf_wrong_lanes', [(KDE, 'X[is_valid] = chandrupatla(_f, lower, upper)', 'X[~is_one] = chandrupatla(_f, lower, upper)')],
     'GaussianKDE.percent_point: the results of chandrupatla are written to X[~is_one]'),
    ('ppf_default_bisect', [(KDE, "def percent_point(self, U, method='chandrupatla'):", "def percent_point(self, U, method='bisect'):")],
     "GaussianKDE.percent_point: the default of `method` is 'bisect'"),
    ('ppf_no_check_fit', [(KDE, "        self.check_fit()\n\n        if len(U.shape) > 1:", "        if len(U.shape) > 1:")],
     'GaussianKDE.percent_point: check_fit dropped'),
    ('kde_init_reordered', [(KDE, 'def __init__(self, sample_size=None, random_state=None, bw_method=None, weights=None):',
                             'def __init__(self, sample_size=None, bw_method=None, random_state=None, weights=None):')],
     'GaussianKDE.__init__: bw_method before random_state'),
    ('tg_init_max_as_min', [(TG, '        self.min = minimum\n', '        self.min = maximum\n')],
     'TruncatedGaussian.__init__ stores maximum as self.min'),
    ('cdf_upper_bound', [(KDE, 'lower = ndtr((self._get_bounds()[0] - self._model.dataset) / stdev)[0]',
                          'lower = ndtr((self._get_bounds()[1] - self._model.dataset) / stdev)[0]')],
     'GaussianKDE.cumulative_distribution subtracts the mass below the UPPER bound'),
    ('ppf_closure_targets', [(KDE, 'return self.cumulative_distribution(X) - U[is_valid]', 'return self.cumulative_distribution(X) - U[~is_zero]')],
     'GaussianKDE.percent_point: the closure handed to the solver subtracts U[~is_zero]'),
    ('ppf_zero_strict', [(KDE, 'is_zero = U <= EPSILON', 'is_zero = U < EPSILON')],
     'GaussianKDE.percent_point: U == EPSILON goes to the solver (<= became <)'),
    ('ppf_solvers_swapped', [(KDE, 'X[is_valid] = bisect(_f, lower, upper)', 'X[is_valid] = chandrupatla(_f, upper, lower)')],
     "GaussianKDE.percent_point: method='bisect' runs chandrupatla on the bracket (upper, lower)"),
    ('const_pdf_ge', [(BASE, 'result[np.nonzero(X == self._constant_value)] = 1', 'result[np.nonzero(X >= self._constant_value)] = 1')],
     'Univariate._constant_probability_density: 1 for every X >= c'),
    ('const_ppf_zeros', [(BASE, 'return np.full(X.shape, self._constant_value)', 'return np.zeros(X.shape)')],
     'Univariate._constant_percent_point returns zeros'),
    ('scipy_init_no_validation', [(BASE, '        self.random_state = validate_random_state(random_state)\n\n    def probability_density(self, X):',
                                   '        self.random_state = random_state\n\n    def probability_density(self, X):')],
     'ScipyModel.__init__ stores the seed without validate_random_state'),
    ('kde_init_no_store_args', [(KDE, '    @store_args\n    def __init__(self, sample_size=None', '    def __init__(self, sample_size=None')],
     'GaussianKDE.__init__: @store_args removed'),
]

HARMLESS = [
    ('h_rename_locals', [(KDE, PPF_OLD, PPF_RENAMED),
                         (KDE, BOUNDS_OLD, BOUNDS_OLD.replace('X', 'data').replace('lower', 'lo').replace('upper', 'hi')),
                         (BASE, CCDF_OLD, CCDF_OLD.replace('result', 'out'))],
     'locals of GaussianKDE.percent_point (masks, bounds, the closure and its parameter, the result), of _get_bounds and of '
     '_constant_cumulative_distribution renamed'),
    ('h_docstrings', [(KDE, '    def _get_bounds(self):\n', '    def _get_bounds(self):\n        """Five standard deviations beyond the extreme points."""\n'),
                      (TG, '    def __init__(self, minimum=None, maximum=None, random_state=None):\n',
                       '    def __init__(self, minimum=None, maximum=None, random_state=None):\n        """Keep the user-given truncation points."""\n'),
                      (KDE, "raise ValueError('Expected values in range [0.0, 1.0].')", "raise ValueError('probabilities have to lie in the unit interval')"),
                      (BASE, '        """Percent point for the degenerate case of constant distribution.\n', '        """Quantile of the point mass.\n')],
     'docstrings added to GaussianKDE._get_bounds and TruncatedGaussian.__init__, the one of _constant_percent_point and the message of '
     'the range ValueError rewritten'),
    ('h_annotations', [(KDE, "def percent_point(self, U, method='chandrupatla'):", "def percent_point(self, U: 'np.ndarray', method: str = 'chandrupatla') -> 'np.ndarray':"),
                       (KDE, '        lower = np.min(X) - (5 * np.std(X))\n', '        lower: float = np.min(X) - (5 * np.std(X))\n'),
                       (TG, 'def __init__(self, minimum=None, maximum=None, random_state=None):',
                        "def __init__(self, minimum: float = None, maximum: float = None, random_state: 'int | None' = None) -> None:"),
                       (BASE, '    def _constant_sample(self, num_samples):', "    def _constant_sample(self, num_samples: int) -> 'np.ndarray':")],
     'annotations on GaussianKDE.percent_point, a local of _get_bounds, TruncatedGaussian.__init__, Univariate._constant_sample'),
]


def apply_edits(copy, edits, row):
    for rel, old, new in edits:
        p = os.path.join(copy, rel)
        text = open(p).read()
        if text.count(old) != 1:
            row.update(rc=None, verdict='EDIT DOES NOT APPLY', layer='-', failed=[f'{rel}: {old[:60]!r}'], also='')
            return False
        text = text.replace(old, new)
        compile(text, p, 'exec')
        open(p, 'w').write(text)
    return True


def mine(failed):
    sys.path.insert(0, os.path.join(VERIF, 'tools'))
    from vf import kdeqgen
    names = {f'translate:{p}' for p in kdeqgen.parts()}
    tr = [f for f in failed if f in names]
    br = [f for f in failed if f.startswith(('C19_kde.v:', 'C19_kde_init.v:', 'Gen_kdeq.v:', 'Gen_uinit.v:'))]
    return tr, br


def fast_one(copy):
    """this layer only: generate from the copy, compile against a copy of the last build directory"""
    src = os.path.join(VERIF, 'build', 'C19')
    bd = tempfile.mkdtemp(prefix='kdeq_fast_')
    try:
        for f in os.listdir(src):
            if f.split('.')[0] in ('Gen_unictl', 'Gen_uniwrap', 'Gen_utils', 'Gen_c19facts', 'C19_bridges') and f.endswith('.vo'):
                shutil.copy(os.path.join(src, f), bd)
        code = ("import sys, os, json\nsys.path.insert(0, %r)\nfrom vf import kdeqgen\n"
                "class C:\n    @staticmethod\n    def write(rel, text):\n        open(os.path.join(%r, rel), 'w').write(text)\n"
                "print(json.dumps(kdeqgen.generate(C)))\n") % (os.path.join(VERIF, 'tools'), bd)
        r = subprocess.run(['/venv/bin/python', '-c', code], env=dict(os.environ, VERIF_REPO=copy), stdout=subprocess.PIPE, stderr=subprocess.PIPE, text=True)
        status = json.loads(r.stdout.strip().split('\n')[-1])
        failed = [f'translate:{k}' for k, v in status.items() if v]
        for gen, props in (('Gen_kdeq.v', 'C19_kde.v'), ('Gen_uinit.v', 'C19_kde_init.v')):
            shutil.copy(os.path.join(VERIF, 'coq', 'Props', props), bd)
            for f in (gen, props):
                c = subprocess.run(['timeout', '300', 'coqc', '-q', '-w', '-all', '-Q', os.path.join(VERIF, 'coq'), 'Cop', '-Q', bd, 'CopRun', f],
                                   cwd=bd, stdout=subprocess.PIPE, stderr=subprocess.PIPE, text=True)
                if c.returncode != 0:
                    sys.path.insert(0, os.path.join(VERIF, 'tools'))
                    from vf.core import Ctx
                    failed.append(f'{f}:{Ctx.failing_statement(os.path.join(bd, f), c.stderr or c.stdout)}')
                    break
        return (1 if failed else 0), failed, ''
    finally:
        shutil.rmtree(bd, ignore_errors=True)


def run_one(root, name, edits, what, harmless, fast):
    copy = os.path.join(root, 'kqm_' + name)
    out = os.path.join('/tmp/vf_out', 'kqm_' + name)
    row = {'name': name, 'what': what, 'harmless': harmless}
    try:
        shutil.copytree(REPO, copy, ignore=shutil.ignore_patterns('.git', '__pycache__', '*.pyc', 'docs', 'tutorials', 'tests'))
        if not apply_edits(copy, edits, row):
            return row
        if fast:
            rc, failed, stdout = fast_one(copy)
        else:
            shutil.rmtree(out, ignore_errors=True)
            env = dict(os.environ, VERIF_REPO=copy)
            env.pop('VERIF_OUT', None)
            r = subprocess.run([os.path.join(VERIF, 'check'), 'C19'], cwd=VERIF, env=env, stdout=subprocess.PIPE, stderr=subprocess.STDOUT, text=True,
                               timeout=3000)
            rc, stdout = r.returncode, r.stdout
            try:
                ev = json.load(open(os.path.join(out, 'evidence', 'C19.json')))
                failed = ev['coverage']['failed_obligations']
            except Exception as ex:      # noqa
                failed = [f'(no evidence file: {ex})']
        row['rc'] = rc
        tr, br = mine(failed)
        other = [f for f in failed if f not in tr and f not in br]
        nviol = sum(1 for l in stdout.split('\n') if l.startswith('VIOLATION') and 'no-failing-input-found' not in l)
        row['failed'] = tr + br
        row['also'] = (f'{len(other)} other failed obligations' if other else '') + (', ' if other and nviol else '') + \
            (f'{nviol} VIOLATION lines with a failing input' if nviol else '')
        row['layer'] = 'translation' if tr else ('bridge theorem' if br else '-')
        if harmless:
            row['verdict'] = 'ok (accepted)' if rc == 0 and not failed else 'FALSE ALARM'
        else:
            row['verdict'] = 'detected' if rc == 1 and (tr or br) else ('MISSED BY THE TRANSLATION/BRIDGE LAYER' if rc == 1 else 'NOT DETECTED')
        if 'ok' not in row['verdict'] and row['verdict'] != 'detected':
            row['tail'] = stdout[-1500:] + ' '.join(failed)
        return row
    finally:
        shutil.rmtree(copy, ignore_errors=True)
        shutil.rmtree(out, ignore_errors=True)


def main():
    ap = argparse.ArgumentParser()
    ap.add_argument('-j', type=int, default=4)
    ap.add_argument('--fast', action='store_true')
    ap.add_argument('names', nargs='*')
    a = ap.parse_args()
    jobs = [(m, False) for m in MUTANTS] + [(h, True) for h in HARMLESS]
    if a.names:
        jobs = [j for j in jobs if j[0][0] in a.names]
    root = tempfile.mkdtemp(prefix='kdeq_mutants_')
    try:
        with ThreadPoolExecutor(a.j) as ex:
            rows = list(ex.map(lambda j: run_one(root, *j[0], j[1], a.fast), jobs))
    finally:
        shutil.rmtree(root, ignore_errors=True)
    print(f'{"mutant":30} {"exit":4} {"caught by":15} {"verdict":14} failed obligations of the translation/bridge layer | also')
    bad = 0
    for r in rows:
        print(f'{r["name"]:30} {str(r["rc"]):4} {r["layer"]:15} {r["verdict"]:14} {"; ".join(r["failed"])} | {r.get("also", "")}')
        print(f'{"":30} ({r["what"]})')
        if r['verdict'] not in ('detected', 'ok (accepted)'):
            bad += 1
            print(r.get('tail', ''))
    print(f'{len(rows) - bad}/{len(rows)} rows as expected')
    return 1 if bad else 0


if __name__ == '__main__':
    sys.exit(main())
