#!/bin/bash
# tools/ingest_seed8.sh <ID> : round 8 (session 5). Takes /tmp/wt8_<ID>/{patch.diff,demo.py} written by a seeding sub-agent,
# confirms on a scratch worktree: (a) demo exits 0 on /repo and non-zero with the patch, (b) the full pinned test suite has the
# same outcome with the patch, then runs the check of <ID> against a scratch copy (tools/try_seed.sh) and stores the seed.
id=$1; W=/tmp/wt8_$id; D=/verif/seeded/${id}_r8
[ -s $W/patch.diff ] && [ -s $W/demo.py ] || { echo "$id: no patch/demo"; exit 2; }
mkdir -p $D; cp $W/patch.diff $W/demo.py $D/
git -C $W checkout -q -- . ; git -C $W apply $D/patch.diff || { echo "$id: patch does not apply"; exit 2; }
( cd $W && /venv/bin/python -m pytest -q -p no:cacheprovider --timeout=900 tests 2>&1 | tail -1 ) > $D/tests_after.txt
cat $D/tests_after.txt
/verif/tools/try_seed.sh $D $id 2>&1 | tee $D/check_run.txt
