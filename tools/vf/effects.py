"""C20 -- effect extractor: Python `ast` of /repo/copulas  ->  programs of the effect language coq/Model/Alias.v.

Fail-closed: every construct / call / method that is not in one of the explicit tables below raises
Unsupported (reported by the check as a failed 'translation' obligation).

Conventions (the "alias table", trusted, validated by the dynamic correspondence of C20):
  * every Python assignment creates a new Coq variable (SSA); a Python name whose value depends on the path
    (if/else, loops) maps to a SET of Coq variables, writes/calls are emitted for each member;
  * loops are unrolled until the may-alias map of the names is stable (at most 4 times);
  * `x[..] = v`, `x.attr[..] = v`, `x op= v` (x not known immutable), `del x[k]`, mutator methods => IWrite x;
  * `x[:, i]` / `x.T` / `y = x` => IView;  fancy indexing, element loads, `np.asarray`, `.to_numpy()`,
    `pd.DataFrame(x)` => IMayView;  `.copy()`, `np.array(x)`, `list(x)` => ICopy;  arithmetic, numpy/scipy/pandas
    value functions => IFresh (materialised lazily: only when the variable is later written, viewed or passed);
  * the content of an object includes the objects it holds: loading an element / attribute of x gives a may-view of x;
    a container built here ([a, b], list(x), Edge(...)) is fresh but remembers the variables whose objects it holds;
  * `self.<attr>` read before being assigned in a method is an IMPLICIT PARAMETER of the method, for the attributes
    listed in TRACKED_ATTRS (the attributes that can hold a caller-owned object); storing an alias of an input in any
    other attribute is a translation failure;
  * calls to library functions => ICall (the callee is translated too; dynamic dispatch => one ICall per override),
    followed by IMayView result <- actual for every parameter the callee may return;
    calls none of whose arguments (incl. receiver) can reach a parameter are not translated;
  * callables received as parameters / local closures are assumed not to write their arguments.
"""
import ast
from . import srcnorm as _srcnorm
import os
import re
from .core import REPO

PKG = 'copulas'


class Unsupported(Exception):
    pass


MODULES = [
    'copulas.optimize', 'copulas.visualization', 'copulas.utils', 'copulas.datasets', 'copulas.errors',
    'copulas.bivariate', 'copulas.bivariate.base', 'copulas.bivariate.utils', 'copulas.bivariate.clayton',
    'copulas.bivariate.frank', 'copulas.bivariate.gumbel', 'copulas.bivariate.independence',
    'copulas.multivariate.base', 'copulas.multivariate.gaussian', 'copulas.multivariate.tree', 'copulas.multivariate.vine',
    'copulas.univariate.base', 'copulas.univariate.selection', 'copulas.univariate.gaussian_kde',
    'copulas.univariate.gaussian', 'copulas.univariate.beta', 'copulas.univariate.gamma', 'copulas.univariate.log_laplace',
    'copulas.univariate.student_t', 'copulas.univariate.truncated_gaussian', 'copulas.univariate.uniform',
]

# attributes of `self` that may hold (an alias of) a caller-owned object, per class family (root class)
TRACKED_ATTRS = {
    'Tree': ['tau_matrix', 'u_matrix', 'previous_tree', 'edges'],
    'Edge': ['index', 'L', 'R', 'D', 'parents', 'neighbors', 'name', 'theta', 'tau', 'U', 'likelihood'],
    'VineCopula': ['tau_mat', 'u_matrix', 'columns', 'trees', 'unis', 'ppfs'],
    'GaussianMultivariate': ['columns', 'univariates', 'correlation', 'distribution'],
    'Univariate': ['_params', '_model', '_constant_value'],
    'Bivariate': [],
    'Multivariate': [],
}

# parameters assumed to be immutable scalars / strings (typing assumption, listed in the evidence);
# in addition every parameter whose default is a numeric / string / bool constant is immutable
IMMUT_PARAMS = {'n_samples', 'num_rows', 'num_samples', 'size', 'seed', 'index', 'n_nodes', 'y', 'truncated', 'method',
                'title', 'label', 'random_state', 'tree_type', 'vine_type', 'copula_type', 'filename', 'path',
                'copula_path', 'column_name', 'maxiter', 'tol', 'itr', 'k'}

# receiver typing hints: (function qualname or '*', source text of the receiver) -> library class
RECEIVER_HINTS = {
    ('*', 'self._instance'): 'ScipyModel',
    ('*', 'self.MODEL_CLASS'): 'EXT',
    ('*', 'self._model'): 'EXT',
    ('*', 'uni'): 'GaussianKDE',
    ('*', 'univariate'): 'Univariate',
    ('*', 'copula'): 'Bivariate',
    ('*', 'instance'): 'ScipyModel',
    ('*', 'edge'): 'Edge',
    ('*', 'new_edge'): 'Edge',
    ('*', 'left_parent'): 'Edge',
    ('*', 'right_parent'): 'Edge',
    ('*', 'tree_1'): 'Tree',
    ('*', 'tree_k'): 'Tree',
    ('*', 'self.trees[k - 1]'): 'Tree',
    ('*', 'self.trees[i]'): 'Tree',
    ('*', 'self.previous_tree'): 'Tree',
    ('*', 'multivariate_class'): 'Multivariate',
    ('*', 'distribution'): 'Univariate',
}

# ---------------------------------------------------------------------------------------------------------
# external (numpy / scipy / pandas / plotly / stdlib) call table, by dotted name
# ---------------------------------------------------------------------------------------------------------
NP_FRESH = set('''abs absolute add all any append arange argmax argmin argsort array_equal ceil choose clip column_stack concatenate
cos cumsum diag divide dot dtype empty exp eye finfo float64 floor fromiter full full_like hstack identity isfinite isinf isnan
issubdtype linspace log log10 log1p logical_and logical_not logical_or max maximum mean median min minimum multiply nan_to_num
nonzero ones ones_like outer percentile power prod quantile repeat round shape sign sin size sort sqrt stack std subtract sum
tile trace tril triu unique var vstack where zeros zeros_like isclose allclose count_nonzero searchsorted interp cov corrcoef
floating integer int64 bool_ errstate'''.split())
NP_MAYVIEW = set('asarray asanyarray ascontiguousarray atleast_1d atleast_2d ravel reshape squeeze transpose broadcast_to real'.split())
NP_WRITE0 = set('put fill_diagonal copyto place putmask'.split())
NP_SUB_FRESH = {'linalg': None, 'random': None}          # every member is value-returning (shuffle handled below)
NP_RANDOM_WRITE0 = {'shuffle'}

BUILTIN_IMMUT = set('len int float str bool isinstance issubclass hasattr callable id hash round repr type ord chr format divmod pow'.split())
BUILTIN_FRESH = set('abs min max sum any all range print open'.split())           # value results, arguments only read
BUILTIN_SHALLOW = set('list tuple set dict sorted reversed enumerate zip iter frozenset map filter'.split())  # fresh container holding the elements
BUILTIN_LOAD = set('getattr next'.split())                                        # returns something held by the argument

# methods of numpy / pandas / builtin containers / plotly / scipy objects (receiver not a library class)
M_VIEW = set('reshape view transpose squeeze swapaxes diagonal'.split())
M_MAYVIEW = set('ravel to_numpy to_frame astype get items values keys iterrows itertuples head tail flat __getitem__ '
                'get_state conj'.split())
M_FRESH = set('''copy tolist sum mean std var min max argmax argmin argsort any all dot clip round cumsum nonzero corr cov rank
difference union intersection symmetric_difference isin isna isnull notna dropna unique nunique format upper lower split rsplit
join startswith endswith strip issubset issuperset count index item flatten multiply add sub div mul rvs pdf logpdf cdf ppf fit nnlf
evaluate resample integrate_box_1d random_sample normal uniform randint choice multivariate_normal exponential random
to_dict to_list equals nlargest nsmallest idxmax idxmin abs prod median quantile describe value_counts groupby apply map
isoformat encode decode replace title read readline readlines write close rsplit lstrip rstrip zfill find
fillna drop rename reset_index sort_values sort_index set_index sample drop_duplicates duplicated T_ sf logcdf isf stats entropy interval expect
catch_warnings simplefilter warn info debug warning error dump dumps load loads tobytes'''.split())
M_MUTATOR = set('''append extend insert remove pop clear sort reverse update setdefault add discard fill put itemset resize
setflags partition popitem update_layout update_traces add_trace update_xaxes update_yaxes set_state seed shuffle'''.split())
A_VIEW = set('T values real imag flat loc iloc at iat columns index data layout x y z base'.split())    # attributes that are (views of) the object's content
A_IMMUT = set('shape dtype ndim size name names empty flags nbytes itemsize'.split())

EXT_FRESH_PREFIXES = ('scipy.', 'plotly.', 'warnings.', 'logging.', 'json.', 'pickle.', 'sys.', 'importlib.', 'copy.deepcopy',
                      'contextlib.', 'functools.', 'os.', 'math.')
PD_FRESH = set('concat isna isnull notna unique to_numeric get_dummies merge date_range'.split())
PD_MAYVIEW = set('DataFrame Series Index'.split())


def sanitize(s):
    s = ' '.join(s.split())
    return s.replace('(*', '( *').replace('*)', '* )').replace('"', "'")[:160]


# ---------------------------------------------------------------------------------------------------------
# source index
# ---------------------------------------------------------------------------------------------------------
class ClassInfo:
    def __init__(self, module, node):
        self.module, self.node, self.name = module, node, node.name
        self.bases = [ast.unparse(b).split('.')[-1] for b in node.bases]
        self.methods = {m.name: m for m in node.body if isinstance(m, ast.FunctionDef)}


class Source:
    def __init__(self, repo=None):
        self.repo = repo or REPO
        self.funcs = {}      # (module, name) -> FunctionDef
        self.classes = {}    # name -> ClassInfo
        self.imports = {}    # module -> {local name: ('func', module, name) | ('class', name) | ('ext', dotted)}
        self.consts = {}     # module -> set of module-level assigned names
        for mod in MODULES:
            rel = mod.replace('.', '/')
            path = os.path.join(self.repo, rel + '.py')
            if not os.path.exists(path):
                path = os.path.join(self.repo, rel, '__init__.py')
            if not os.path.exists(path):
                raise Unsupported(f'module {mod} not found in {self.repo}')
            tree = _srcnorm.parse_file(path)
            self.imports[mod] = {}
            self.consts[mod] = set()
            for top in tree.body:
                if isinstance(top, ast.FunctionDef):
                    self.funcs[(mod, top.name)] = top
                elif isinstance(top, ast.ClassDef):
                    if top.name in self.classes:
                        raise Unsupported(f'duplicate class name {top.name}')
                    self.classes[top.name] = ClassInfo(mod, top)
                elif isinstance(top, ast.Assign):
                    for t in top.targets:
                        if isinstance(t, ast.Name):
                            self.consts[mod].add(t.id)
            self._imports(mod, tree)
        # second pass: resolve 'from copulas.x import name'
        for mod, tab in self.imports.items():
            for k, v in list(tab.items()):
                if v[0] == 'lib':
                    tab[k] = self._resolve_lib(v[1], v[2])

    def _imports(self, mod, tree):
        tab = self.imports[mod]
        for n in ast.walk(tree):
            if isinstance(n, ast.Import):
                for a in n.names:
                    tab[a.asname or a.name.split('.')[0]] = ('ext', a.name if a.asname else a.name.split('.')[0])
            elif isinstance(n, ast.ImportFrom):
                base = n.module or ''
                for a in n.names:
                    nm = a.asname or a.name
                    if base.startswith(PKG):
                        tab[nm] = ('lib', base, a.name)
                    else:
                        tab[nm] = ('ext', base + '.' + a.name)

    def _resolve_lib(self, base, name, depth=0):
        if name in self.classes:
            return ('class', name)
        if (base, name) in self.funcs:
            return ('func', base, name)
        if base in self.imports and name in self.imports[base] and depth < 4:
            v = self.imports[base][name]
            if v[0] == 'lib':
                return self._resolve_lib(v[1], v[2], depth + 1)
            return v
        if base in self.consts and name in self.consts[base]:
            return ('const', base, name)
        return ('unknown', base, name)

    # ---- classes ----
    def mro(self, cname):
        out, todo = [], [cname]
        while todo:
            c = todo.pop(0)
            if c in out or c not in self.classes:
                continue
            out.append(c)
            todo = self.classes[c].bases + todo
        return out

    def subclasses(self, cname):
        out = []
        for c, ci in self.classes.items():
            if c != cname and cname in self.mro(c):
                out.append(c)
        return out

    def family(self, cname):
        root = None
        for c in self.mro(cname):
            if c in TRACKED_ATTRS:
                root = c
        return root

    def tracked(self, cname):
        fam = self.family(cname)
        if fam is None:
            return None
        out = []
        for c in self.mro(cname):
            out += TRACKED_ATTRS.get(c, [])
        return out

    def resolve_method(self, cname, meth, include_subclasses=True, after=None):
        """classes whose definition of `meth` may run for a receiver of static class cname"""
        out = []
        mro = self.mro(cname)
        if after is not None:
            mro = mro[mro.index(after) + 1:]
        for c in mro:
            if meth in self.classes[c].methods:
                out.append(c)
                break
        if include_subclasses and after is None:
            for c in self.subclasses(cname):
                if meth in self.classes[c].methods and c not in out:
                    out.append(c)
        return out

    def is_library_method(self, meth):
        return [c for c, ci in self.classes.items() if meth in ci.methods]


# ---------------------------------------------------------------------------------------------------------
# translation of one function
# ---------------------------------------------------------------------------------------------------------
class Var:
    _n = 0

    def __init__(self, origins=frozenset(), immut=False, cls=None, inner=frozenset(), opaque=True, hint=''):
        Var._n += 1
        self.uid = Var._n
        self.origins = frozenset(origins)     # parameter keys this variable may alias (python-side mirror of the Coq analysis)
        self.immut = immut
        self.cls = cls
        self.inner = frozenset(inner)         # variables whose objects this (fresh) container holds
        self.opaque = opaque                  # element loads may return part of the object itself
        self.hint = hint
        self.mat = False                      # has a defining instruction been emitted?
        self.is_callable_param = False

    def reach(self, seen=None):
        """parameter keys reachable from this variable (itself or through held objects)"""
        seen = seen if seen is not None else set()
        if self.uid in seen or self.immut:
            return frozenset()
        seen.add(self.uid)
        r = set(self.origins)
        for m in self.inner:
            r |= m.reach(seen)
        return frozenset(r)


class Val:
    """abstract value of an expression"""

    def __init__(self, refs=(), immut=False, cls=None, copy_of=None, inner=frozenset(), opaque=True, elems=None, closure=False):
        self.refs = tuple(refs)               # (Var, kind) with kind in 'view' | 'may'
        self.immut = immut and not self.refs
        self.cls = cls
        self.copy_of = copy_of
        self.inner = frozenset(inner)
        self.opaque = opaque
        self.elems = elems                    # list of Val for tuple / list displays
        self.closure = closure
        self.sym = None

    def reach(self):
        r = set()
        for v, _ in self.refs:
            r |= v.reach()
        for m in self.inner:
            r |= m.reach()
        return frozenset(r)

    def vars(self):
        return [v for v, _ in self.refs]


def join_vals(vals):
    refs, inner, seen = [], set(), set()
    for a in vals:
        for v, k in a.refs:
            if (v.uid, k) not in seen:
                seen.add((v.uid, k))
                refs.append((v, k))
        inner |= a.inner
    return Val(refs, immut=all(a.immut for a in vals) if vals else True, inner=inner,
               opaque=any(a.opaque for a in vals) if vals else False,
               cls=vals[0].cls if vals and all(a.cls == vals[0].cls for a in vals) else None)


FRESH = lambda **kw: Val((), **kw)    # noqa: E731


class FuncResult:
    def __init__(self, key):
        self.key = key
        self.params = []          # explicit parameter names
        self.implicit = []        # implicit attribute parameter names
        self.instrs = []          # (op, a, b, comment) with Var operands
        self.ret = frozenset()    # parameter keys the result may alias (be a view of)
        self.ret_hold = frozenset()   # parameter keys the result may hold (as element / attribute)
        self.index = None
        self.assumptions = set()
        self.source = ''


class Translator:
    def __init__(self, src=None):
        self.src = src or Source()
        self.done = {}
        self.active = []
        self.order = []

    # ---- naming ----
    @staticmethod
    def qual(key):
        mod, cls, name = key
        m = mod[len(PKG) + 1:]
        return '.'.join([m] + ([cls] if cls else []) + [name])

    @staticmethod
    def coq_name(key):
        return 'eff_' + re.sub(r'[^A-Za-z0-9_]', '_', Translator.qual(key))

    def find(self, qualname):
        """'optimize.bisect' / 'multivariate.tree.Tree.fit' -> key"""
        parts = qualname.split('.')
        for i in range(len(parts), 0, -1):
            mod = PKG + '.' + '.'.join(parts[:i])
            if mod in self.src.imports:
                rest = parts[i:]
                if len(rest) == 1 and (mod, rest[0]) in self.src.funcs:
                    return (mod, None, rest[0])
                if len(rest) == 2 and rest[0] in self.src.classes and self.src.classes[rest[0]].module == mod \
                        and rest[1] in self.src.classes[rest[0]].methods:
                    return (mod, rest[0], rest[1])
        raise Unsupported(f'entry point {qualname} not found in the source')

    def node_of(self, key):
        mod, cls, name = key
        if cls is None:
            return self.src.funcs[(mod, name)]
        return self.src.classes[cls].methods[name]

    def translate(self, key):
        if key in self.done:
            return self.done[key]
        if key in self.active:
            raise Unsupported('recursive call cycle: ' + ' -> '.join(self.qual(k) for k in self.active + [key]))
        self.active.append(key)
        try:
            ft = FuncTr(self, key)
            res = ft.run()
        finally:
            self.active.pop()
        res.index = len(self.order)
        self.order.append(key)
        self.done[key] = res
        return res


NO_EFFECT_DECORATORS = {'random_state', 'store_args', 'classmethod', 'staticmethod', 'wraps', 'property', 'contextmanager'}
WRAPPER_DECORATORS = {'check_valid_values': ('copulas.utils', 'check_valid_values', 'decorated')}
PYBUILTIN_NAMES = {'Exception', 'ValueError', 'TypeError', 'IndexError', 'KeyError', 'NotImplementedError', 'RuntimeWarning',
                   'DeprecationWarning', 'AssertionError', 'object', 'True', 'False', 'None', 'NotImplemented', 'RuntimeError',
                   'UserWarning', 'FutureWarning', 'StopIteration', 'AttributeError', '__name__'}


def simple_index(ix):
    """index made only of slices / integer constants / None / Ellipsis => basic indexing => a view"""
    parts = ix.elts if isinstance(ix, ast.Tuple) else [ix]
    has_slice = False
    for p in parts:
        if isinstance(p, ast.Slice):
            has_slice = True
        elif isinstance(p, ast.Constant) and (isinstance(p.value, int) or p.value is None or p.value is Ellipsis):
            pass
        elif isinstance(p, ast.UnaryOp) and isinstance(p.operand, ast.Constant):
            pass
        else:
            return False
    return has_slice


class Terminated(Exception):
    pass


class FuncTr:
    def __init__(self, tr, key):
        self.tr, self.src, self.key = tr, tr.src, key
        self.mod, self.cls, self.name = key
        self.qual = tr.qual(key)
        self.res = FuncResult(key)
        self.local_syms = {}
        self.loop_stack = []
        node = tr.node_of(key)
        self.wrapper_of = None
        if (self.mod, self.name) == WRAPPER_DECORATORS['check_valid_values'][:2] and self.cls is None:
            inner = [n for n in node.body if isinstance(n, ast.FunctionDef) and n.name == 'decorated']
            if not inner:
                raise Unsupported('check_valid_values: nested `decorated` not found')
            node = inner[0]
            self.wrapper_of = 'function'
        self.node = node
        decs = [ast.unparse(d).split('(')[0].split('.')[-1] for d in node.decorator_list]
        self.decs = decs
        for d in decs:
            if d not in NO_EFFECT_DECORATORS and d not in WRAPPER_DECORATORS:
                raise Unsupported(f'{self.qual}: unknown decorator @{d}')
        a = node.args
        if a.posonlyargs or a.kwonlyargs:
            raise Unsupported(f'{self.qual}: positional-only / keyword-only parameters')
        names = [x.arg for x in a.args]
        defaults = [None] * (len(names) - len(a.defaults)) + list(a.defaults)
        self.has_self = False
        if self.cls is not None and 'staticmethod' not in decs and names:
            self.has_self = names[0] == 'self'
            self.self_name = names[0]
            names, defaults = names[1:], defaults[1:]
        elif self.wrapper_of:
            self.has_self = False
            self.self_name = None
            names, defaults = names[1:], defaults[1:]      # decorated(self, X, *args, **kwargs): self is the model
        else:
            self.self_name = None
        self.is_classmethod = 'classmethod' in decs
        self.res.params = names
        self.env = {}
        self.pvars = []
        for i, (n, d) in enumerate(zip(names, defaults)):
            immut = n in IMMUT_PARAMS or (isinstance(d, ast.Constant) and d.value is not None)
            v = Var(origins=[('p', i)], immut=immut, hint=n)
            v.mat = True
            self.pvars.append(v)
            self.env[n] = frozenset([v])
        self.vararg = a.vararg.arg if a.vararg else None
        self.kwarg = a.kwarg.arg if a.kwarg else None
        for extra in (self.vararg, self.kwarg):
            if extra:
                self.env[extra] = frozenset([Var(opaque=False, hint=extra)])     # holds only what callers pass beyond the named parameters
        self.implicit = []        # (attr, Var)
        self.assigned_names = {x.id for x in ast.walk(node) if isinstance(x, ast.Name) and isinstance(x.ctx, ast.Store)}
        self.ret = set()
        self.attr_out = {}        # attr -> parameter keys self.<attr> may alias/hold after the call (attributes assigned by this method)
        self.ret_hold = set()
        self.cur_stmt = ''

    # ------------------------------------------------------------------ helpers
    def emit(self, op, a, b=None):
        self.res.instrs.append((op, a, b, self.cur_stmt))

    def mat(self, v):
        if not v.mat:
            v.mat = True
            self.emit('IFresh', v)
        return v

    def new_from(self, v, kind):
        n = Var(origins=v.origins, immut=v.immut, cls=v.cls, inner=v.inner, opaque=v.opaque, hint=v.hint)
        n.is_callable_param = v.is_callable_param
        n.mat = True
        self.mat(v)
        self.emit('IView' if kind == 'view' else 'IMayView', n, v)
        return n

    def bind_val(self, val, hint='', cls=None):
        out = []
        for v, k in val.refs:
            n = self.new_from(v, k)
            if cls and not n.cls:
                n.cls = cls
            out.append(n)
        if val.inner and val.refs:
            for n in out:
                n.inner = n.inner | val.inner
        if not val.refs:
            n = Var(immut=val.immut, cls=val.cls or cls, inner=val.inner, opaque=val.opaque, hint=hint)
            if val.closure:
                n.is_callable_param = True
            if val.copy_of is not None:
                self.mat(val.copy_of)
                n.mat = True
                self.emit('ICopy', n, val.copy_of)
            out.append(n)
        return frozenset(out)

    def val_of_vars(self, vs):
        vs = list(vs)
        cls = vs[0].cls if vs and all(v.cls == vs[0].cls for v in vs) else None
        return Val([(v, 'view') for v in vs], cls=cls, immut=False)

    def load_var(self, v):
        out = []
        if v.immut:
            return out
        if v.opaque:
            out.append((v, 'may'))
        for m in v.inner:
            if not m.immut:
                out.append((m, 'may'))
        return out

    def load_from(self, val):
        if val.elems is not None and not val.refs:
            return join_vals([x for x in val.elems]) if val.elems else FRESH(immut=True)
        refs, seen = [], set()
        for v, _ in val.refs:
            for r in self.load_var(v):
                if r[0].uid not in seen:
                    seen.add(r[0].uid)
                    refs.append(r)
        for m in val.inner:
            if not m.immut and m.uid not in seen:
                seen.add(m.uid)
                refs.append((m, 'may'))
        return Val(refs, immut=val.immut or all(v.immut for v, _ in val.refs) and bool(val.refs) and not val.inner)

    def actual_vars(self, val, hint='arg'):
        """Coq variables standing for an actual argument (the object itself and the objects it holds)"""
        out, seen = [], set()

        def add(v):
            if v.uid not in seen:
                seen.add(v.uid)
                out.append(v)
                for m in v.inner:
                    add(m)
        if val.refs:
            for v in val.vars():
                add(v)
            for m in val.inner:
                add(m)
        else:
            for n in self.bind_val(val, hint):
                add(n)
        return out

    def write_to(self, val):
        for v in val.vars():
            if not v.immut or v.origins:
                self.mat(v)
                self.emit('IWrite', v)

    def absorb(self, base_val, val):
        add = set(v for v in val.vars() if not v.immut) | set(val.inner)
        if add:
            for c in base_val.vars():
                c.inner = c.inner | frozenset(a for a in add if a is not c)

    def hint_cls(self, expr):
        text = ast.unparse(expr)
        return RECEIVER_HINTS.get((self.qual, text)) or RECEIVER_HINTS.get(('*', text))

    def tracked_attrs(self):
        return self.src.tracked(self.cls) if self.cls else None

    def self_attr(self, attr, load=True):
        key = 'self.' + attr
        if key in self.env:
            return self.val_of_vars(self.env[key])
        tr = self.tracked_attrs() or []
        for a, v in self.implicit:
            if a == attr:
                self.env[key] = frozenset([v])
                return self.val_of_vars([v])
        if attr in tr:
            v = Var(origins=[('a', attr)], hint=key)
            v.mat = True
            self.implicit.append((attr, v))
            self.env[key] = frozenset([v])
            c = self.hint_cls(ast.parse(key, mode='eval').body)
            if c:
                v.cls = c
            return self.val_of_vars([v])
        return FRESH(cls=self.hint_cls(ast.parse(key, mode='eval').body))

    def sym(self, name):
        if name in self.local_syms:
            return self.local_syms[name]
        tab = self.src.imports[self.mod]
        if name in tab:
            return tab[name]
        if (self.mod, name) in self.src.funcs:
            return ('func', self.mod, name)
        if name in self.src.classes and self.src.classes[name].module == self.mod:
            return ('class', name)
        if name in self.src.consts[self.mod]:
            return ('const', self.mod, name)
        import builtins
        if hasattr(builtins, name):
            return ('builtin', name)
        return None

    # ------------------------------------------------------------------ expressions
    def symval(self, s):
        v = FRESH(immut=True)
        v.sym = s
        return v

    def ev(self, e):
        m = getattr(self, 'ev_' + type(e).__name__, None)
        if m is None:
            raise Unsupported(f'{self.qual}: expression {type(e).__name__}: {sanitize(ast.unparse(e))}')
        return m(e)

    def ev_Constant(self, e):
        return FRESH(immut=True)

    def ev_JoinedStr(self, e):
        for x in e.values:
            if isinstance(x, ast.FormattedValue):
                self.ev(x.value)
        return FRESH(immut=True)

    def ev_Name(self, e):
        n = e.id
        if n in self.env:
            return self.val_of_vars(self.env[n])
        if self.has_self and n == self.self_name:
            return self.symval(('self',))
        if self.is_classmethod and n == 'cls':
            return self.symval(('class', self.cls))
        if self.wrapper_of and n in (self.wrapper_of, 'self'):
            v = FRESH(immut=True, closure=True)
            return v
        if n in self.assigned_names:
            return FRESH()                # a local that is not bound on this path (bound on another path / a later iteration)
        s = self.sym(n)
        if s is None:
            raise Unsupported(f'{self.qual}: unresolved name {n}')
        if s[0] == 'unknown':
            raise Unsupported(f'{self.qual}: unresolved import {s}')
        return self.symval(s)

    def ev_Attribute(self, e):
        if isinstance(e.value, ast.Name) and e.value.id in self.env and f'{e.value.id}.{e.attr}' in self.env:
            return self.val_of_vars(self.env[f'{e.value.id}.{e.attr}'])      # attribute of a local object assigned in this function
        return self.attr_of(self.ev(e.value), e)

    def attr_of(self, base, e):
        s = getattr(base, 'sym', None)
        if s:
            if s[0] == 'self':
                if self.cls and self.src.resolve_method(self.cls, e.attr):
                    return self.symval(('selfmethod', e.attr))
                return self.self_attr(e.attr)
            if s[0] == 'ext':
                return self.symval(('ext', s[1] + '.' + e.attr))
            if s[0] == 'class':
                if e.attr in ('__name__', '__members__', '__module__', '__bases__'):
                    return FRESH(immut=True)
                if self.src.resolve_method(s[1], e.attr, include_subclasses=False):
                    return self.symval(('classmethod', s[1], e.attr))
                return FRESH(immut=True)                    # class constant (enum member, PARAMETRIC, ...)
            if s[0] in ('const', 'builtin'):
                v = self.symval(('constattr', s, e.attr))
                return v
            if s[0] == 'super':
                return self.symval(('supermethod', e.attr))
            if s[0] in ('constattr', 'func', 'selfmethod', 'classmethod', 'supermethod'):
                return self.symval(('constattr', s, e.attr))
        if e.attr in A_IMMUT:
            return FRESH(immut=True)
        if e.attr in A_VIEW:
            refs = [(v, 'view') for v in base.vars() if not v.immut] + [(m, 'may') for m in base.inner if not m.immut]
            return Val(refs)
        r = self.load_from(base)
        r.cls = self.hint_cls(e)
        return r

    def ev_Subscript(self, e):
        base = self.ev(e.value)
        self.ev_index(e.slice)
        if getattr(base, 'sym', None):
            return FRESH(immut=True)
        if base.elems is not None and not base.refs and isinstance(e.slice, ast.Constant) and isinstance(e.slice.value, int) \
                and -len(base.elems) <= e.slice.value < len(base.elems):
            return base.elems[e.slice.value]
        kind = 'view' if simple_index(e.slice) else 'may'
        refs, seen = [], set()
        for v, _ in base.refs:
            if v.immut:
                continue
            if v.opaque:
                refs.append((v, kind))
                seen.add(v.uid)
            for m in v.inner:
                if not m.immut and m.uid not in seen:
                    seen.add(m.uid)
                    refs.append((m, 'may'))
        for m in base.inner:
            if not m.immut and m.uid not in seen:
                seen.add(m.uid)
                refs.append((m, 'may'))
        r = Val(refs)
        r.cls = self.hint_cls(e)
        return r

    def ev_index(self, ix):
        if isinstance(ix, ast.Slice):
            for p in (ix.lower, ix.upper, ix.step):
                if p is not None:
                    self.ev(p)
        elif isinstance(ix, ast.Tuple):
            for p in ix.elts:
                self.ev_index(p)
        else:
            self.ev(ix)

    def ev_Slice(self, e):
        self.ev_index(e)
        return FRESH(immut=True)

    def _display(self, elts, immut_ok):
        vals = [self.ev(x.value if isinstance(x, ast.Starred) else x) for x in elts]
        inner = set()
        for a in vals:
            inner |= set(v for v in a.vars() if not v.immut)
            inner |= a.inner
        return Val((), immut=immut_ok and all(a.immut for a in vals), inner=inner, opaque=False, elems=vals)

    def ev_Tuple(self, e):
        return self._display(e.elts, True)

    def ev_List(self, e):
        return self._display(e.elts, False)

    def ev_Set(self, e):
        return self._display(e.elts, False)

    def ev_Dict(self, e):
        for k in e.keys:
            if k is not None:
                self.ev(k)
        r = self._display(e.values, False)
        r.elems = None
        return r

    def ev_BinOp(self, e):
        a, b = self.ev(e.left), self.ev(e.right)
        return FRESH(immut=a.immut and b.immut)

    def ev_UnaryOp(self, e):
        a = self.ev(e.operand)
        return FRESH(immut=a.immut or isinstance(e.op, ast.Not))

    def ev_Compare(self, e):
        vals = [self.ev(e.left)] + [self.ev(c) for c in e.comparators]
        return FRESH(immut=all(a.immut for a in vals) or any(isinstance(o, (ast.Is, ast.IsNot, ast.In, ast.NotIn)) for o in e.ops))

    def ev_BoolOp(self, e):
        return join_vals([self.ev(x) for x in e.values])

    def ev_IfExp(self, e):
        self.ev(e.test)
        return join_vals([self.ev(e.body), self.ev(e.orelse)])

    def ev_Starred(self, e):
        return self.ev(e.value)

    def ev_Lambda(self, e):
        self.check_closure_pure(e.body, 'lambda')
        return FRESH(immut=True, closure=True)

    def check_closure_pure(self, node, what):
        for n in ast.walk(node):
            if isinstance(n, (ast.AugAssign, ast.Delete, ast.Global, ast.Nonlocal)):
                raise Unsupported(f'{self.qual}: {what} contains {type(n).__name__}')
            if isinstance(n, ast.Assign):
                for t in n.targets:
                    for tt in ast.walk(t):
                        if isinstance(tt, (ast.Subscript, ast.Attribute)) and isinstance(tt.ctx, ast.Store):
                            raise Unsupported(f'{self.qual}: {what} stores into {sanitize(ast.unparse(tt))}')
            if isinstance(n, ast.Call) and isinstance(n.func, ast.Attribute) and n.func.attr in M_MUTATOR:
                raise Unsupported(f'{self.qual}: {what} calls mutator .{n.func.attr}()')
            if isinstance(n, ast.keyword) and n.arg in ('out', 'inplace'):
                raise Unsupported(f'{self.qual}: {what} uses {n.arg}=')
        self.res.assumptions.add(f'{self.qual}: local closure / {what} only reads the objects it captures (checked syntactically: no store, no mutator call)')

    def comp_scope(self, gens):
        for g in gens:
            it = self.ev_iter(g.iter)
            self.assign_target(g.target, it)
            for c in g.ifs:
                self.ev(c)

    def _comp(self, e, elts):
        saved = dict(self.env)
        self.comp_scope(e.generators)
        vals = [self.ev(x) for x in elts]
        self.env = saved
        inner = set()
        for a in vals:
            inner |= set(v for v in a.vars() if not v.immut)
            inner |= a.inner
        return Val((), inner=inner, opaque=False)

    def ev_ListComp(self, e):
        return self._comp(e, [e.elt])

    ev_SetComp = ev_ListComp
    ev_GeneratorExp = ev_ListComp

    def ev_DictComp(self, e):
        return self._comp(e, [e.key, e.value])

    def ev_iter(self, it):
        """abstract value of ONE element produced by iterating over expression `it`"""
        if isinstance(it, ast.Call) and isinstance(it.func, ast.Name) and it.func.id not in self.env:
            f = it.func.id
            if f == 'range':
                for a in it.args:
                    self.ev(a)
                return FRESH(immut=True)
            if f == 'enumerate':
                x = self.ev_iter(it.args[0])
                return Val((), opaque=False, inner=set(x.vars()) | x.inner, elems=[FRESH(immut=True), x])
            if f == 'zip':
                xs = [self.ev_iter(a) for a in it.args]
                inner = set()
                for x in xs:
                    inner |= set(x.vars()) | x.inner
                return Val((), opaque=False, inner=inner, elems=xs)
            if f in ('sorted', 'list', 'reversed', 'tuple', 'set'):
                return self.ev_iter(it.args[0])
        if isinstance(it, ast.Call) and isinstance(it.func, ast.Attribute) and it.func.attr in ('items', 'iterrows') and not it.args:
            base = self.ev(it.func.value)
            if not getattr(base, 'sym', None):
                x = self.load_from(base)
                return Val((), opaque=False, inner=set(x.vars()) | x.inner, elems=[FRESH(immut=True), x])
        if isinstance(it, ast.Call) and isinstance(it.func, ast.Attribute) and it.func.attr in ('keys',) and not it.args:
            self.ev(it.func.value)
            return FRESH(immut=True)
        v = self.ev(it)
        if getattr(v, 'sym', None):
            return FRESH(immut=True)
        if v.elems is not None and not v.refs:
            return join_vals(v.elems) if v.elems else FRESH(immut=True)
        return self.load_from(v)

    # ------------------------------------------------------------------ calls
    def eval_args(self, e):
        pos, kw = [], {}
        for a in e.args:
            pos.append(self.ev(a))
        for k in e.keywords:
            v = self.ev(k.value)
            if k.arg is None:
                pos.append(v)            # **expr : treated as one more (positional) argument
            else:
                kw[k.arg] = v
        return pos, kw

    def ev_Call(self, e):
        f = e.func
        # super()
        if isinstance(f, ast.Name) and f.id == 'super' and f.id not in self.env:
            return self.symval(('super',))
        base = None
        if isinstance(f, ast.Attribute):
            base = self.ev(f.value)
            if base.sym is not None:
                fv = self.attr_of(base, f)
            else:
                fv = Val(())                   # a method of a value: resolved in method_call
        else:
            fv = self.ev(f)
        s = fv.sym
        pos, kw = self.eval_args(e)
        allargs = pos + list(kw.values())
        if s is None:
            if isinstance(f, ast.Attribute):
                if base.sym is not None:       # attribute of self / a class / a module holding a callable
                    return self.callback(fv, allargs, ast.unparse(f))
                return self.method_call(e, f, base, pos, kw)
            return self.callback(fv, allargs, ast.unparse(f))
        k = s[0]
        if k == 'builtin':
            return self.builtin_call(s[1], pos, kw, e)
        if k == 'ext':
            return self.ext_call(s[1], pos, kw, e)
        if k == 'func':
            return self.lib_call([(s[1], None, s[2])], None, pos, kw, e)
        if k == 'class':
            return self.construct(s[1], pos, kw, e)
        if k == 'selfmethod':
            keys = [(self.src.classes[c].module, c, s[1]) for c in self.src.resolve_method(self.cls, s[1])]
            return self.lib_call(keys, 'self', pos, kw, e)
        if k == 'supermethod':
            cs = self.src.resolve_method(self.cls, s[1], after=self.cls)
            if not cs:
                raise Unsupported(f'{self.qual}: super().{s[1]} not found')
            return self.lib_call([(self.src.classes[c].module, c, s[1]) for c in cs], 'self', pos, kw, e)
        if k == 'classmethod':
            cs = self.src.resolve_method(s[1], s[2], include_subclasses=(s[1] == self.cls and self.is_classmethod))
            return self.lib_call([(self.src.classes[c].module, c, s[2]) for c in cs], None, pos, kw, e)
        if k == 'constattr':
            # method of a module constant / exception class / logger ...: value function
            if any(a.reach() for a in allargs) and s[2] not in M_FRESH:
                raise Unsupported(f'{self.qual}: call {sanitize(ast.unparse(f))} with input-derived arguments')
            return FRESH()
        if k == 'const':
            return self.callback(fv, allargs, ast.unparse(f))
        raise Unsupported(f'{self.qual}: call of {s}: {sanitize(ast.unparse(e))}')

    def callback(self, fv, args, text):
        self.res.assumptions.add(f'{self.qual}: the callable `{text}` does not write to its arguments')
        r = join_vals([Val([(v, 'may') for v in a.vars() if not v.immut] + [(m, 'may') for m in a.inner if not m.immut]) for a in args]) \
            if args else FRESH()
        r.immut = False
        r.cls = None
        return r

    def builtin_call(self, name, pos, kw, e):
        allargs = pos + list(kw.values())
        if name in BUILTIN_IMMUT:
            return FRESH(immut=True)
        if name in BUILTIN_FRESH:
            return FRESH(immut=all(a.immut for a in allargs))
        if name in BUILTIN_SHALLOW:
            inner, src = set(), None
            for a in pos:
                ld = self.load_from(a)
                inner |= set(ld.vars()) | ld.inner
            if name in ('list', 'dict', 'set', 'tuple') and len(pos) == 1 and len(pos[0].vars()) == 1:
                src = pos[0].vars()[0]
            return Val((), inner=inner, opaque=False, copy_of=src)
        if name in BUILTIN_LOAD:
            return self.load_from(pos[0]) if pos else FRESH()
        if name == 'setattr':
            self.write_to(pos[0])
            self.absorb(pos[0], pos[2])
            return FRESH(immut=True)
        if name in PYBUILTIN_NAMES or name.endswith('Error') or name.endswith('Warning') or name == 'Exception':
            return FRESH(immut=True)
        raise Unsupported(f'{self.qual}: builtin {name}')

    def ext_call(self, dotted, pos, kw, e):
        allargs = pos + list(kw.values())
        if 'out' in kw and not kw['out'].immut:
            self.write_to(kw['out'])
            return Val([(v, 'view') for v in kw['out'].vars()])
        if kw.get('inplace') is not None and isinstance(e, ast.Call) and any(
                k.arg == 'inplace' and not (isinstance(k.value, ast.Constant) and k.value.value is False) for k in e.keywords):
            if pos:
                self.write_to(pos[0])
            return FRESH()
        parts = dotted.split('.')
        first = pos[0] if pos else (kw.get('data') or kw.get('a') or kw.get('object'))
        if parts[0] == 'numpy':
            if len(parts) == 2:
                fn = parts[1]
                if fn == 'array':
                    cp = any(k.arg == 'copy' for k in e.keywords)
                    if cp and first is not None:
                        return Val([(v, 'may') for v in first.vars() if not v.immut])
                    vs = first.vars() if first is not None else []
                    return Val((), copy_of=vs[0] if len(vs) == 1 and not first.inner else None)
                copy_false = isinstance(e, ast.Call) and any(
                    k.arg == 'copy' and not (isinstance(k.value, ast.Constant) and k.value.value is True) for k in e.keywords)
                if copy_false and first is not None:          # copy=False (or non-constant): in place / a view of the argument
                    if fn == 'nan_to_num':
                        self.write_to(first)
                    return Val([(v, 'may') for v in first.vars() if not v.immut])
                if fn in NP_FRESH:
                    return FRESH()
                if fn in NP_MAYVIEW:
                    return Val([(v, 'may') for v in first.vars() if not v.immut] + [(m, 'may') for m in first.inner if not m.immut]) \
                        if first is not None else FRESH()
                if fn in NP_WRITE0:
                    self.write_to(first)
                    return FRESH(immut=True)
                if fn in ('inf', 'nan', 'pi', 'newaxis'):
                    return FRESH(immut=True)
            elif len(parts) == 3 and parts[1] in NP_SUB_FRESH:
                if parts[1] == 'random' and parts[2] in NP_RANDOM_WRITE0:
                    self.write_to(first)
                    return FRESH(immut=True)
                return FRESH()
            raise Unsupported(f'{self.qual}: numpy function {dotted} is not in the alias table')
        if parts[0] == 'pandas':
            fn = parts[-1]
            if fn in PD_MAYVIEW:
                if first is None:
                    return FRESH()
                ld = self.load_from(first)
                refs = [(v, 'may') for v in first.vars() if not v.immut] + [(v, 'may') for v in ld.vars()]
                seen, out = set(), []
                for v, k in refs:
                    if v.uid not in seen:
                        seen.add(v.uid)
                        out.append((v, k))
                return Val(out)
            if fn in PD_FRESH:
                return FRESH()
            raise Unsupported(f'{self.qual}: pandas function {dotted} is not in the alias table')
        if dotted.startswith('plotly.') or dotted in ('scipy.stats.gaussian_kde',):
            inner = set()
            for a in allargs:
                inner |= set(v for v in a.vars() if not v.immut) | a.inner
            return Val((), inner=inner, opaque=True)
        if any(dotted.startswith(p) or dotted == p.rstrip('.') for p in EXT_FRESH_PREFIXES):
            return FRESH()
        raise Unsupported(f'{self.qual}: external function {dotted} is not in the alias table')

    def data_method(self, base, meth, pos, kw, e):
        allargs = pos + list(kw.values())
        if any(k.arg == 'inplace' and not (isinstance(k.value, ast.Constant) and k.value.value is False) for k in e.keywords):
            self.write_to(base)
            return FRESH(immut=True)
        if 'out' in kw and not kw['out'].immut:
            self.write_to(kw['out'])
            return Val([(v, 'view') for v in kw['out'].vars()])
        if meth == 'copy':
            vs = [v for v in base.vars()]
            ld = self.load_from(base)
            return Val((), copy_of=vs[0] if len(vs) == 1 else None, inner=set(ld.vars()) | ld.inner, opaque=False)
        if meth == 'astype' and any(k.arg == 'copy' for k in e.keywords):
            return Val([(v, 'may') for v in base.vars() if not v.immut])
        if meth == 'astype':
            return FRESH()
        if meth in M_MUTATOR:
            self.write_to(base)
            for a in allargs:
                self.absorb(base, a)
            if meth in ('pop', 'setdefault', 'popitem'):
                return self.load_from(base)
            return FRESH(immut=True)
        if meth in M_VIEW:
            return Val([(v, 'view') for v in base.vars() if not v.immut] + [(m, 'may') for m in base.inner if not m.immut])
        if meth in M_MAYVIEW:
            if meth in ('get', 'items', 'values', 'keys', 'iterrows', 'itertuples', '__getitem__'):
                r = self.load_from(base)
                if meth == 'get' and len(pos) > 1:
                    r = join_vals([r, pos[1]])
                return r
            return Val([(v, 'may') for v in base.vars() if not v.immut] + [(m, 'may') for m in base.inner if not m.immut])
        if meth in M_FRESH:
            return FRESH()
        raise Unsupported(f'{self.qual}: method .{meth}() is not in the alias table: {sanitize(ast.unparse(e))}')

    def method_call(self, e, f, base, pos, kw):
        meth = f.attr
        if meth == '__class__':                       # obj.__class__(...): a new instance holding its arguments
            inner = set()
            for a in pos + list(kw.values()):
                inner |= set(v for v in a.vars() if not v.immut) | a.inner
            return Val((), inner=inner, opaque=True)
        cls = base.cls or self.hint_cls(f.value)
        libdefs = self.src.is_library_method(meth)
        in_data = meth in M_VIEW or meth in M_MAYVIEW or meth in M_FRESH or meth in M_MUTATOR or meth == 'copy'
        if cls == 'EXT':
            return self.data_method(base, meth, pos, kw, e)
        if cls in self.src.classes:
            cs = self.src.resolve_method(cls, meth)
            if cs:
                return self.lib_call([(self.src.classes[c].module, c, meth) for c in cs], base, pos, kw, e)
            if in_data:
                return self.data_method(base, meth, pos, kw, e)
            raise Unsupported(f'{self.qual}: class {cls} has no method {meth}')
        if base.closure or all(v.is_callable_param for v in base.vars()) and base.vars():
            return self.callback(base, pos + list(kw.values()), ast.unparse(f))
        if libdefs and in_data:
            allargs = pos + list(kw.values())
            if not base.reach() and not any(a.reach() for a in allargs):
                return FRESH()
            raise Unsupported(f'{self.qual}: receiver of .{meth}() in `{sanitize(ast.unparse(e))}` has no known type '
                              f'(library method or container method?) -- add a RECEIVER_HINTS entry')
        if libdefs:
            return self.lib_call([(self.src.classes[c].module, c, meth) for c in libdefs], base, pos, kw, e)
        return self.data_method(base, meth, pos, kw, e)

    def construct(self, cname, pos, kw, e):
        allargs = pos + list(kw.values())
        inner = set()
        for a in allargs:
            inner |= set(v for v in a.vars() if not v.immut) | a.inner
        if any(a.reach() for a in allargs):
            cs = self.src.resolve_method(cname, '__init__', include_subclasses=False)
            if cs:
                self.lib_call([(self.src.classes[cs[0]].module, cs[0], '__init__')], None, pos, kw, e, ctor=True)
        return Val((), inner=inner, opaque=True, cls=cname)

    def lib_call(self, keys, recv, pos, kw, e, ctor=False):
        """recv: None (plain function / class-level call), 'self', or a Val (method of another object)"""
        allargs = pos + list(kw.values())
        recv_val = recv if isinstance(recv, Val) else None
        reach = any(a.reach() for a in allargs) or (recv_val is not None and bool(recv_val.reach()))
        fam_tracked = recv == 'self' and bool(self.tracked_attrs())
        if not reach and not fam_tracked:
            return FRESH(cls=self.hint_cls(e))
        results = []
        for key in keys:
            res = self.tr.translate(key)
            self.res.assumptions |= res.assumptions
            names = res.params
            slots = [None] * len(names)
            if len(pos) > len(names):
                if any(a.reach() for a in pos[len(names):]) or not self.tr.node_of(key).args.vararg and \
                        not any(isinstance(x, ast.keyword) and x.arg is None for x in getattr(e, 'keywords', [])):
                    raise Unsupported(f'{self.qual}: too many arguments in {sanitize(ast.unparse(e))}')
            for i, a in enumerate(pos[:len(names)]):
                slots[i] = a
            for k, a in kw.items():
                if k not in names:
                    if a.reach() or not self.tr.node_of(key).args.kwarg:
                        raise Unsupported(f'{self.qual}: unknown keyword {k} in {sanitize(ast.unparse(e))}')
                    continue
                slots[names.index(k)] = a
            S = []
            for i, a in enumerate(slots):
                S.append(self.actual_vars(a if a is not None else FRESH(immut=True), hint=f'arg_{names[i]}'))
            for attr in res.implicit:
                if recv == 'self' or ctor:
                    S.append(self.self_attr(attr).vars() or list(self.bind_val(FRESH(), 'state')))
                elif recv_val is not None:
                    S.append(self.actual_vars(recv_val, hint='recv'))
                else:
                    S.append(list(self.bind_val(FRESH(), 'state')))
            S = [[v for v in s if not v.immut or v.origins] or s[:1] for s in S]
            n = max([len(s) for s in S] + [1])
            for s in S:
                for v in s:
                    self.mat(v)
            for j in range(n):
                self.emit('ICall', res, [s[j % len(s)] for s in S])
            refs, held = [], set()
            allkeys = [('p', i) for i in range(len(names))] + [('a', a) for a in res.implicit]
            for kx, s in zip(allkeys, S):
                if kx in res.ret:
                    refs += [(v, 'may') for v in s if not v.immut]
                if kx in res.ret_hold:
                    held |= set(v for v in s if not v.immut)
            results.append(Val(refs, inner=held))
            allact = {kx: s for kx, s in zip(allkeys, S)}
            if recv == 'self':
                for attr, keys2 in sorted(getattr(res, 'attr_out', {}).items()):
                    if attr not in (self.tracked_attrs() or []):
                        continue
                    rr = [(v, 'may') for kx in sorted(keys2) for v in allact.get(kx, []) if not v.immut]
                    cur = self.env.get('self.' + attr, frozenset())
                    self.env['self.' + attr] = cur | self.bind_val(Val(rr), 'self.' + attr)
                    self.attr_out[attr] = self.attr_out.get(attr, frozenset()) | Val(rr).reach()
            elif recv_val is not None:
                kept = set()
                for ks in getattr(res, 'attr_out', {}).values():
                    kept |= set(ks)
                for kx, s in zip(allkeys, S):          # the receiver keeps what the callee stores in its attributes
                    if kx in kept:
                        self.absorb(recv_val, Val([(v, 'view') for v in s if not v.immut]))
        r = join_vals(results) if results else FRESH()
        r.immut = False
        r.cls = self.hint_cls(e)
        return r

    # ------------------------------------------------------------------ statements
    def assign_target(self, t, val):
        if isinstance(t, ast.Name):
            for k in [k for k in self.env if k.startswith(t.id + '.')]:
                del self.env[k]
            self.env[t.id] = self.bind_val(val, t.id, cls=RECEIVER_HINTS.get((self.qual, t.id)) or RECEIVER_HINTS.get(('*', t.id)))
        elif isinstance(t, (ast.Tuple, ast.List)):
            if val.elems is not None and not val.refs and len(val.elems) == len(t.elts) and \
                    not any(isinstance(x, ast.Starred) for x in t.elts):
                for x, v in zip(t.elts, val.elems):
                    self.assign_target(x, v)
            else:
                ld = self.load_from(val)
                for x in t.elts:
                    self.assign_target(x.value if isinstance(x, ast.Starred) else x, ld)
        elif isinstance(t, ast.Subscript):
            base = self.ev(t.value)
            self.ev_index(t.slice)
            if base.sym is not None:
                raise Unsupported(f'{self.qual}: store into {sanitize(ast.unparse(t))}')
            self.write_to(base)
            self.absorb(base, val)
        elif isinstance(t, ast.Attribute):
            base = self.ev(t.value)
            if base.sym is not None and base.sym[0] == 'self':
                tracked = self.tracked_attrs()
                if val.reach() and (tracked is None or t.attr not in tracked):
                    raise Unsupported(f'{self.qual}: self.{t.attr} retains an alias of an input ({sorted(val.reach())}) '
                                      f'but is not in TRACKED_ATTRS of {self.cls}')
                self.env['self.' + t.attr] = self.bind_val(val, 'self.' + t.attr)
                if tracked and t.attr in tracked:
                    al = frozenset().union(*[v.origins for v in val.vars() if not v.immut]) if val.vars() else frozenset()
                    self.attr_out[t.attr] = self.attr_out.get(t.attr, frozenset()) | al
            elif base.sym is not None and base.sym[0] == 'class':
                if val.reach():
                    raise Unsupported(f'{self.qual}: class attribute {sanitize(ast.unparse(t))} retains an alias of an input')
            elif base.sym is not None:
                raise Unsupported(f'{self.qual}: store into {sanitize(ast.unparse(t))}')
            else:
                self.write_to(base)
                self.absorb(base, val)
                if isinstance(t.value, ast.Name) and t.value.id in self.env:
                    self.env[f'{t.value.id}.{t.attr}'] = self.bind_val(val, f'{t.value.id}.{t.attr}')
        else:
            raise Unsupported(f'{self.qual}: assignment target {type(t).__name__}')

    def st_Assign(self, s):
        val = self.ev(s.value)
        for t in s.targets:
            self.assign_target(t, val)

    def st_AnnAssign(self, s):
        if s.value is not None:
            self.assign_target(s.target, self.ev(s.value))

    def st_AugAssign(self, s):
        val = self.ev(s.value)
        t = s.target
        if isinstance(t, ast.Name):
            if t.id not in self.env:
                raise Unsupported(f'{self.qual}: augmented assignment to unknown name {t.id}')
            vs = self.env[t.id]
            mut = [v for v in vs if not v.immut]
            for v in mut:
                self.mat(v)
                self.emit('IWrite', v)
            new = set(mut)
            if len(mut) < len(vs):
                new |= self.bind_val(FRESH(immut=val.immut), t.id)
            self.env[t.id] = frozenset(new)
        elif isinstance(t, ast.Subscript):
            base = self.ev(t.value)
            self.ev_index(t.slice)
            self.write_to(base)
        elif isinstance(t, ast.Attribute):
            base = self.ev(t.value)
            if base.sym is not None and base.sym[0] == 'self':
                key = 'self.' + t.attr
                cur = self.self_attr(t.attr)
                for v in cur.vars():
                    if not v.immut:
                        self.mat(v)
                        self.emit('IWrite', v)
            elif base.sym is None:
                self.write_to(base)
            else:
                raise Unsupported(f'{self.qual}: augmented store into {sanitize(ast.unparse(t))}')
        else:
            raise Unsupported(f'{self.qual}: augmented assignment target')

    def st_Expr(self, s):
        if isinstance(s.value, ast.Constant):
            return
        self.ev(s.value)

    def st_Return(self, s):
        if s.value is not None:
            v = self.ev(s.value)
            for x in v.vars():
                if not x.immut:
                    self.ret |= x.origins
                    for m in x.inner:
                        self.ret_hold |= m.reach()
            for m in v.inner:
                self.ret_hold |= m.reach()
        self.collect_attr_out()
        raise Terminated()

    def collect_attr_out(self):
        for a in (self.tracked_attrs() or []):
            for v in self.env.get('self.' + a, ()):
                if v.immut:
                    continue
                r = v.origins - {('a', a)}        # aliases only: objects held inside containers are not followed across attribute updates
                if r:
                    self.attr_out[a] = self.attr_out.get(a, frozenset()) | r

    def st_Raise(self, s):
        if s.exc is not None:
            self.ev(s.exc)
        raise Terminated()

    def st_Assert(self, s):
        self.ev(s.test)

    def st_Pass(self, s):
        pass

    def st_Import(self, s):
        for a in s.names:
            self.local_syms[a.asname or a.name.split('.')[0]] = ('ext', a.name if a.asname else a.name.split('.')[0])

    def st_ImportFrom(self, s):
        for a in s.names:
            nm = a.asname or a.name
            if (s.module or '').startswith(PKG):
                self.local_syms[nm] = self.src._resolve_lib(s.module, a.name)
            else:
                self.local_syms[nm] = ('ext', (s.module or '') + '.' + a.name)

    def st_Delete(self, s):
        for t in s.targets:
            if isinstance(t, ast.Name):
                self.env.pop(t.id, None)
            elif isinstance(t, ast.Subscript):
                self.write_to(self.ev(t.value))
            elif isinstance(t, ast.Attribute):
                b = self.ev(t.value)
                if b.sym is None:
                    self.write_to(b)
            else:
                raise Unsupported(f'{self.qual}: del target')

    def st_FunctionDef(self, s):
        self.check_closure_pure(s, f'nested function {s.name}')
        v = Var(immut=True, hint=s.name)
        v.is_callable_param = True
        self.env[s.name] = frozenset([v])

    def st_Break(self, s):
        if not self.loop_stack:
            raise Unsupported('break outside loop')
        self.loop_stack[-1]['breaks'].append(dict(self.env))
        raise Terminated()

    def st_Continue(self, s):
        self.loop_stack[-1]['continues'].append(dict(self.env))
        raise Terminated()

    @staticmethod
    def join_env(envs):
        out = {}
        for e in envs:
            for k, v in e.items():
                out[k] = out.get(k, frozenset()) | v
        return out

    def block(self, stmts, env):
        """returns (env_after, terminated)"""
        self.env = dict(env)
        try:
            for s in stmts:
                self.cur_stmt = sanitize(ast.unparse(s).split('\n')[0])
                m = getattr(self, 'st_' + type(s).__name__, None)
                if m is None:
                    raise Unsupported(f'{self.qual}: statement {type(s).__name__}')
                m(s)
        except Terminated:
            return self.env, True
        return self.env, False

    def st_If(self, s):
        self.ev(s.test)
        e0 = dict(self.env)
        ea, ta = self.block(s.body, e0)
        eb, tb = self.block(s.orelse, e0)
        live = [e for e, t in ((ea, ta), (eb, tb)) if not t]
        if not live:
            self.env = ea
            raise Terminated()
        self.env = self.join_env(live)

    @staticmethod
    def alias_map(env):
        out = {}
        for k, vs in env.items():
            r, im = set(), True
            for v in vs:
                r |= v.reach()
                im = im and v.immut
            out[k] = (frozenset(r), im)
        return out

    def loop(self, head, body, orelse):
        """head(): evaluates the loop header in self.env (binds the target)"""
        e_in = dict(self.env)
        frame = {'breaks': [], 'continues': []}
        self.loop_stack.append(frame)
        exits = []
        try:
            for it in range(5):
                self.env = dict(e_in)
                head()
                e_head = dict(self.env)
                e_out, term = self.block(body, e_head)
                backs = ([] if term else [e_out]) + frame['continues']
                frame['continues'] = []
                exits = [e_head] + frame['breaks']
                new_in = self.join_env([e_in] + backs)
                a, b = self.alias_map(e_in), self.alias_map(new_in)
                stable = all(k in a and b[k][0] <= a[k][0] and (a[k][1] <= b[k][1]) for k in b)
                e_in = new_in
                if stable or not backs:
                    break
            else:
                raise Unsupported(f'{self.qual}: loop alias map does not stabilise')
        finally:
            self.loop_stack.pop()
        self.env = self.join_env([e_in] + exits)
        if orelse:
            e, t = self.block(orelse, self.env)
            self.env = e

    def st_For(self, s):
        def head():
            self.assign_target(s.target, self.ev_iter(s.iter))
        self.loop(head, s.body, s.orelse)

    def st_While(self, s):
        def head():
            self.ev(s.test)
        self.loop(head, s.body, s.orelse)

    def st_With(self, s):
        for it in s.items:
            v = self.ev(it.context_expr)
            if it.optional_vars is not None:
                self.assign_target(it.optional_vars, v if v.sym is None else FRESH())
        e, t = self.block(s.body, self.env)
        self.env = e
        if t:
            raise Terminated()

    def st_Try(self, s):
        e0 = dict(self.env)
        eb, tb = self.block(s.body, e0)
        outs = []
        if not tb:
            ee, te = self.block(s.orelse, eb)
            if not te:
                outs.append(ee)
        start = self.join_env([e0, eb])
        for h in s.handlers:
            if h.type is not None:
                self.env = dict(start)
                self.ev(h.type)
            hs = dict(start)
            if h.name:
                hs[h.name] = frozenset([Var(immut=True, hint=h.name)])
            eh, th = self.block(h.body, hs)
            if not th:
                outs.append(eh)
        if not outs:
            self.env = start
            if s.finalbody:
                self.block(s.finalbody, start)
            raise Terminated()
        self.env = self.join_env(outs)
        if s.finalbody:
            e, t = self.block(s.finalbody, self.env)
            self.env = e
            if t:
                raise Terminated()

    # ------------------------------------------------------------------ driver
    def run(self):
        self.res.source = sanitize(f'{self.qual}({", ".join(self.res.params)})')
        env0 = dict(self.env)
        self.cur_stmt = 'decorators'
        for d in self.decs:
            if d in WRAPPER_DECORATORS and self.pvars:
                m, f, _ = WRAPPER_DECORATORS[d]
                self.env = env0
                self.lib_call([(m, None, f)], None, [self.val_of_vars([self.pvars[0]])], {}, self.node)
                env0 = dict(self.env)
        env_end, _ = self.block(self.node.body, env0)
        self.env = env_end
        self.collect_attr_out()
        self.res.implicit = [a for a, _ in self.implicit]
        self.res.ret = frozenset(self.ret)
        self.res.attr_out = dict(self.attr_out)
        self.res.ret_hold = frozenset(self.ret_hold) - self.res.ret
        # renumber: explicit parameters, implicit parameters, then locals in order of appearance
        num = {}
        for v in self.pvars + [v for _, v in self.implicit]:
            num[v.uid] = len(num)

        def n(v):
            if v.uid not in num:
                num[v.uid] = len(num)
            return num[v.uid]
        out = []
        for op, a, b, c in self.res.instrs:
            if op == 'ICall':
                out.append((op, a, [n(x) for x in b], c))
            elif b is None:
                out.append((op, n(a), None, c))
            else:
                nb = n(b)
                out.append((op, n(a), nb, c))
        self.res.code = out
        self.res.nparams = len(self.pvars) + len(self.implicit)
        return self.res


# ---------------------------------------------------------------------------------------------------------
# Coq output, python mirror of the analysis (diagnostics only; the verdicts used by the check come from Coq)
# ---------------------------------------------------------------------------------------------------------
def coq_instr(op, a, b, tr):
    if op == 'ICall':
        return f'ICall {a.index} [{"; ".join(str(x) for x in b)}]'
    if b is None:
        return f'{op} {a}'
    return f'{op} {a} {b}'


def generate(entry_quals, repo=None):
    """entry_quals: list of qualified names ('optimize.bisect', 'multivariate.tree.Tree.fit', ...).
    Returns (coq_text, info) where info[qual] = dict(coq=..., params=[...], implicit=[...], index=int, n=int);
    failures are in info['__errors__'] = {qual: message}."""
    Var._n = 0
    tr = Translator(Source(repo))
    info, errors = {}, {}
    for q in entry_quals:
        try:
            key = tr.find(q)
            tr.translate(key)
        except Unsupported as ex:
            errors[q] = str(ex)
        except RecursionError:
            errors[q] = 'recursion limit'
    lines = ['(* GENERATED by tools/vf/effects.py from the AST of the source tree -- regenerated on every run *)',
             'From Coq Require Import List Bool Arith String.', 'From Cop Require Import Model.Alias.', 'Import ListNotations.', '']
    for key in tr.order:
        res = tr.done[key]
        nm = tr.coq_name(key)
        lines.append(f'(* {res.source}   implicit parameters (self attributes): {", ".join(res.implicit) or "none"};'
                     f' result may alias: {sorted(res.ret) or "nothing"}, may hold: {sorted(res.ret_hold) or "nothing"} *)')
        body = []
        last = None
        for op, a, b, c in res.code:
            cm = f'   (* {c} *)' if c != last else ''
            last = c
            body.append((coq_instr(op, a, b, tr), cm))
        lines.append(f'Definition {nm} : func := ({res.nparams}, [')
        for i, (t, cm) in enumerate(body):
            lines.append(f'  {t}{";" if i + 1 < len(body) else ""}{cm}')
        lines.append(']).')
        lines.append(f'Definition idx_{nm[4:]} : nat := {res.index}.')
        lines.append(f'Definition arity_{nm[4:]} : nat := {len(res.params)}.')
        lines.append('')
    lines.append('Definition gen_table : funtable := [')
    lines.append(';\n'.join('  ' + tr.coq_name(k) for k in tr.order))
    lines.append('].')
    lines.append('Open Scope string_scope.')
    lines.append('Definition gen_entries : list (string * nat * nat) := [')
    lines.append(';\n'.join(f'  ("{tr.qual(k)}", {tr.done[k].index}, {len(tr.done[k].params)})' for k in tr.order))
    lines.append('].')
    assumptions = set()
    for key in tr.order:
        res = tr.done[key]
        assumptions |= res.assumptions
        info[tr.qual(key)] = {'coq': tr.coq_name(key), 'params': list(res.params), 'implicit': list(res.implicit),
                              'index': res.index, 'n': res.nparams, 'ninstr': len(res.code),
                              'returns': sorted(map(str, res.ret))}
    info['__errors__'] = errors
    info['__assumptions__'] = sorted(assumptions)
    info['__depth__'] = call_depth(tr)
    info['__pyverdict__'] = {tr.qual(k): py_verdict(tr, k) for k in tr.order}
    return '\n'.join(lines) + '\n', info


def call_depth(tr):
    memo = {}

    def d(key):
        if key in memo:
            return memo[key]
        memo[key] = 0
        m = 0
        for op, a, b, c in tr.done[key].code:
            if op == 'ICall':
                m = max(m, 1 + d(a.key))
        memo[key] = m
        return m
    return max([d(k) for k in tr.order] + [0])


def py_verdict(tr, key, memo=None):
    """mirror of Alias.writes_fun (unbounded fuel) -- for diagnostics"""
    memo = memo if memo is not None else {}
    if key in memo:
        return memo[key]
    res = tr.done[key]
    al = {i: {i} for i in range(res.nparams)}
    W = set()
    for op, a, b, c in res.code:
        if op in ('ICopy', 'IFresh'):
            al[a] = set()
        elif op in ('IView', 'IMayView'):
            al[a] = set(al.get(b, set()))
        elif op == 'IWrite':
            W |= al.get(a, set())
        elif op == 'ICall':
            sm = py_verdict(tr, a.key, memo)
            for flag, x in zip(sm, b):
                if flag:
                    W |= al.get(x, set())
    memo[key] = [i in W for i in range(res.nparams)]
    return memo[key]


# ---------------------------------------------------------------------------------------------------------
# the entry points of C20 handled statically (everything else is "dynamic only", see props/C20.py)
# ---------------------------------------------------------------------------------------------------------
_BIV = ['probability_density', 'cumulative_distribution', 'partial_derivative', 'percent_point']
ENTRY_POINTS = (
    ['optimize.bisect', 'optimize.chandrupatla']
    + ['visualization.' + n for n in ('_generate_1d_plot', 'dist_1d', 'compare_1d', '_generate_scatter_2d_plot', 'scatter_2d',
                                      'compare_2d', '_generate_scatter_3d_plot', 'scatter_3d', 'compare_3d')]
    + ['multivariate.tree.' + n for n in ('Tree.fit', 'Tree._sort_tau_by_y', 'DirectTree._build_first_tree',
                                          'CenterTree._build_first_tree', 'RegularTree._build_first_tree', 'Tree.get_likelihood')]
    + ['multivariate.vine.VineCopula.' + n for n in ('fit', 'train_vine', 'sample', 'get_likelihood')]
    + ['multivariate.gaussian.GaussianMultivariate.' + n for n in ('fit', '_transform_to_normal', 'probability_density',
                                                                   'cumulative_distribution', 'sample', 'from_dict')]
    + ['bivariate.select_copula']
    + ['bivariate.base.Bivariate.' + n for n in ['select_copula', 'fit', 'sample', 'from_dict', 'log_probability_density',
                                                 'partial_derivative_scalar', 'partial_derivative', 'percent_point']]
    + [f'bivariate.{m}.{c}.{n}' for m, c in (('clayton', 'Clayton'), ('frank', 'Frank'), ('gumbel', 'Gumbel'),
                                             ('independence', 'Independence')) for n in _BIV]
    + ['univariate.base.Univariate.' + n for n in ('fit', 'probability_density', 'cumulative_distribution', 'percent_point',
                                                   'log_probability_density', 'sample', 'from_dict')]
    + ['univariate.base.ScipyModel.' + n for n in ('fit', 'probability_density', 'cumulative_distribution', 'percent_point',
                                                   'log_probability_density', '_set_params')]
    + ['univariate.gaussian_kde.GaussianKDE.' + n for n in ('percent_point', 'cumulative_distribution', 'probability_density',
                                                            '_fit', '_set_params')]
    + [f'univariate.{m}.{c}._fit' for m, c in (('gaussian', 'GaussianUnivariate'), ('beta', 'BetaUnivariate'),
                                               ('gamma', 'GammaUnivariate'), ('log_laplace', 'LogLaplace'),
                                               ('student_t', 'StudentTUnivariate'), ('truncated_gaussian', 'TruncatedGaussian'),
                                               ('uniform', 'UniformUnivariate'))]
    + ['univariate.selection.select_univariate', 'utils.check_valid_values', 'utils.get_instance']
    + ['datasets.' + n for n in ('sample_bivariate_age_income', 'sample_trivariate_xyz', 'sample_univariate_bernoulli',
                                 'sample_univariate_bimodal', 'sample_univariate_uniform', 'sample_univariate_normal',
                                 'sample_univariate_degenerate', 'sample_univariate_exponential', 'sample_univariate_beta',
                                 'sample_univariates')]
)
