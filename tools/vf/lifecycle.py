"""Harness side of the life-cycle model (coq/Model/Lifecycle.v + coq/Model/LifecycleTab.v); used by C19 (and
usable by C14).

What is here (all functions are pure helpers; nothing is executed at import time):

  Datasets and their abstraction to the model's records
    Uni(values, label)            a univariate dataset with a process-unique id;  .coq() -> `mkData id const min max n`
    Biv(array, label)             an (n,2) dataset;                               .coq() -> `mkData2 id empty in_unit tau`
    Table(frame_or_array, label)  a training table;                               .coq() -> `mkT id empty numeric has_nan cols`
  Object specifications (constructor calls) shared by the real library and the model
    spec_scipy(fam, *args, **kw) / spec_wrapper(**kw) / spec_gm(**kw) / spec_biv(ctype, **kw)
    build(spec) -> real object;   coq_obj(spec) -> Coq term of type `result obj`
  Events
    ('fit', dataset) | ('query', kind, n) | ('to_dict',) | ('get_instance',) | ('roundtrip',)
    coq_event(ev) -> Coq term
  Running a history on the real library
    Runner().run(spec, events) -> (trace, table)   trace = [(canonical observation, global_rng_consumed?, own_rng_consumed?)]
                                                  table = oracle values captured at the scipy / numpy boundary (-> coq_tab(table))
  Running it in Coq
    trace_expr(spec, events, table) -> Coq expression (evaluate with cases.run_vm_cases, imports IMPORTS)
    parse_term(text) -> generic parser of Coq's printed constructor terms;  canon_trace(parsed) -> same canonical form
  Comparing
    same(a, b) -> bool   structural equality, numbers within 1e-9 relative

Canonical observations (what behaviour the caller gets):
  ('err', name) | ('none',) | ('const', kind, c) | ('scipy', kind, family, {param: number}) |
  ('kde', kind, (nested, [points]), bw, weights, bounds_points_or_None) | ('draw', what, n, 'global'|'own') |
  ('biv', kind, TYPE, theta) | ('gm', kind, [cols], [subs], [[corr]]) | ('dict', json) | ('new', class, fitted) | ('noneobj',)
"""
import itertools
import math
import re
import warnings
from fractions import Fraction

import numpy as np

IMPORTS = 'From Cop Require Import Model.Lifecycle Model.LifecycleTab.'

FAMILIES = {
    'FGaussian': ('copulas.univariate.gaussian', 'GaussianUnivariate', 'norm'),
    'FUniform': ('copulas.univariate.uniform', 'UniformUnivariate', 'uniform'),
    'FBeta': ('copulas.univariate.beta', 'BetaUnivariate', 'beta'),
    'FGamma': ('copulas.univariate.gamma', 'GammaUnivariate', 'gamma'),
    'FStudentT': ('copulas.univariate.student_t', 'StudentTUnivariate', 't'),
    'FLogLaplace': ('copulas.univariate.log_laplace', 'LogLaplace', 'loglaplace'),
    'FTrunc': ('copulas.univariate.truncated_gaussian', 'TruncatedGaussian', 'truncnorm'),
    'FKDE': ('copulas.univariate.gaussian_kde', 'GaussianKDE', None),
}
FAM_BY_CLASS = {v[1]: k for k, v in FAMILIES.items()}
FAM_BY_DIST = {v[2]: k for k, v in FAMILIES.items() if v[2]}
# order of Lifecycle.all_families (= ScipyModel.__subclasses__() on the real package)
ALL_FAMILIES = ['FBeta', 'FGamma', 'FGaussian', 'FKDE', 'FLogLaplace', 'FStudentT', 'FTrunc', 'FUniform']
ERRS = {'NotFittedError': 'NotFitted', 'ValueError': 'ValueErr', 'TypeError': 'TypeErr', 'AttributeError': 'AttributeErr',
        'NotImplementedError': 'NotImplementedErr', 'KeyError': 'KeyErr', 'ModuleNotFoundError': 'ImportErr',
        'ImportError': 'ImportErr', 'LinAlgError': 'LinAlgErr'}
QK = {'cdf': 'QCdf', 'pdf': 'QPdf', 'ppf': 'QPpf', 'logpdf': 'QLogPdf', 'sample': 'QSample'}
BK = {'cdf': 'BCdf', 'pdf': 'BPdf', 'partial': 'BPartial', 'ppf': 'BPpf', 'logpdf': 'BLogPdf', 'sample': 'BSample'}
GK = {'cdf': 'GCdf', 'pdf': 'GPdf', 'logpdf': 'GLogPdf', 'sample': 'GSample'}
KIND_OF = {v: k for d in (QK, BK, GK) for k, v in d.items()}
METHOD = {'cdf': 'cumulative_distribution', 'pdf': 'probability_density', 'ppf': 'percent_point',
          'logpdf': 'log_probability_density', 'sample': 'sample', 'partial': 'partial_derivative'}

_ids = itertools.count(1)


def family_class(fam):
    import importlib
    mod, name, _ = FAMILIES[fam]
    return getattr(importlib.import_module(mod), name)


# ------------------------------------------------------------------------------------------------
# Coq literals
# ------------------------------------------------------------------------------------------------
def coq_str(s):
    return '"' + str(s).replace('"', '""') + '"'


def coq_q(x):
    """exact Q literal of a finite float / int"""
    f = Fraction(x) if not isinstance(x, Fraction) else x
    n, d = f.numerator, f.denominator
    return f'({n} # {d})' if n >= 0 else f'(({n}) # {d})'


def coq_jv(v):
    if v is None:
        return 'JNone'
    if isinstance(v, (bool, np.bool_)):
        return f'(JBool {"true" if v else "false"})'
    if isinstance(v, (int, np.integer)):
        return f'(JNum {coq_q(int(v))})'
    if isinstance(v, (float, np.floating)):
        v = float(v)
        if math.isnan(v):
            return 'JNaN'
        if math.isinf(v):
            return f'(JInf {"true" if v > 0 else "false"})'
        return f'(JNum {coq_q(v)})'
    if isinstance(v, str):
        return f'(JStr {coq_str(v)})'
    if isinstance(v, (list, tuple, np.ndarray)):
        return '(JList [' + '; '.join(coq_jv(x) for x in v) + '])'
    if isinstance(v, dict):
        return '(JDict [' + '; '.join(f'({coq_str(k)}, {coq_jv(x)})' for k, x in v.items()) + '])'
    raise ValueError(f'no jv for {v!r}')


def coq_list(items):
    return '[' + '; '.join(items) + ']'


def coq_qlist(xs):
    return coq_list([coq_q(float(x)) for x in xs])


# ------------------------------------------------------------------------------------------------
# Datasets
# ------------------------------------------------------------------------------------------------
class Uni:
    """univariate training data -> Lifecycle.data"""

    def __init__(self, values, label=''):
        self.id = next(_ids)
        self.x = np.asarray(values, dtype=float)
        self.label = label

    @property
    def has_nan(self):
        return bool(np.isnan(self.x).any())

    @property
    def const(self):
        u = np.unique(self.x)
        return float(u[0]) if len(u) == 1 and not self.has_nan else None

    def coq(self):
        c = self.const
        lo, hi = (float(np.nanmin(self.x)), float(np.nanmax(self.x))) if len(self.x) else (0.0, 0.0)
        return (f'(mkData {self.id} {"None" if c is None else "(Some " + coq_q(c) + ")"} {coq_q(lo)} {coq_q(hi)} '
                f'{len(self.x)})')

    def describe(self):
        c = self.const
        return {'label': self.label, 'n': int(len(self.x)), 'constant': c,
                'range': [float(np.nanmin(self.x)), float(np.nanmax(self.x))] if len(self.x) else None}

    def __repr__(self):
        return f'Uni#{self.id}({self.label}, n={len(self.x)})'


class Biv:
    """(n,2) pseudo-observations -> Lifecycle.data2"""

    def __init__(self, array, label=''):
        self.id = next(_ids)
        self.x = np.asarray(array, dtype=float).reshape(-1, 2) if len(array) else np.zeros((0, 2))
        self.label = label

    @property
    def tau(self):
        from scipy import stats
        if not len(self.x):
            return float('nan')
        with warnings.catch_warnings():
            warnings.simplefilter('ignore')
            return float(stats.kendalltau(self.x[:, 0], self.x[:, 1])[0])

    @property
    def in_unit(self):
        return bool(len(self.x) == 0 or (self.x.min() >= 0.0 and self.x.max() <= 1.0))

    def coq(self):
        return (f'(mkData2 {self.id} {"true" if len(self.x) == 0 else "false"} {"true" if self.in_unit else "false"} '
                f'{coq_jv(self.tau)})')

    def describe(self):
        return {'label': self.label, 'n': int(len(self.x)), 'tau': self.tau, 'in_unit': self.in_unit}

    def __repr__(self):
        return f'Biv#{self.id}({self.label}, n={len(self.x)})'


class Table:
    """training table of a multivariate model -> Lifecycle.table.  `frame` is what is passed to fit."""

    def __init__(self, frame, label=''):
        import pandas as pd
        self.id = next(_ids)
        self.frame = frame
        self.label = label
        W = frame.to_numpy() if isinstance(frame, pd.DataFrame) else frame
        self.empty = not len(W)
        self.numeric = bool(np.issubdtype(W.dtype, np.floating) or np.issubdtype(W.dtype, np.integer))
        self.has_nan = bool(self.numeric and np.isnan(W.astype(float)).any())
        self.cols = []
        if not self.empty and self.numeric and not self.has_nan:
            df = frame if isinstance(frame, pd.DataFrame) else pd.DataFrame(frame)
            for name, col in df.items():
                self.cols.append((name, Uni(col.to_numpy(), f'{label}.{name}')))

    def coq(self):
        def nm(n):
            return coq_jv(n if isinstance(n, str) else int(n))
        b = lambda x: 'true' if x else 'false'   # noqa: E731
        return (f'(mkT {self.id} {b(self.empty)} {b(self.numeric)} {b(self.has_nan)} '
                + coq_list([f'({nm(n)}, {u.coq()})' for n, u in self.cols]) + ')')

    def describe(self):
        return {'label': self.label, 'empty': self.empty, 'numeric': self.numeric, 'has_nan': self.has_nan,
                'columns': [str(n) for n, _ in self.cols]}

    def __repr__(self):
        return f'Table#{self.id}({self.label})'


# ------------------------------------------------------------------------------------------------
# Object specifications
# ------------------------------------------------------------------------------------------------
def spec_scipy(fam, *args, **kw):
    return {'kind': 'scipy', 'family': fam, 'args': list(args), 'kw': dict(kw)}


def spec_wrapper(**kw):
    """kw: candidates=[('class', fam) | ('name', fqn) | ('inst', scipy spec)], parametric='PARAMETRIC'|'NON_PARAMETRIC',
    bounded='UNBOUNDED'|'SEMI_BOUNDED'|'BOUNDED', random_state, selection_sample_size"""
    return {'kind': 'wrapper', 'kw': dict(kw)}


def spec_gm(**kw):
    """kw: distribution = proto | {'col': proto},  proto = ('class', fam) | ('name', fqn) | ('wrappercls',) |
    ('inst', scipy spec) | ('winst', wrapper spec);  random_state"""
    return {'kind': 'gm', 'kw': dict(kw)}


def spec_biv(ctype, **kw):
    return {'kind': 'biv', 'ctype': ctype, 'kw': dict(kw)}


def _real_value(v):
    return np.array(v, dtype=float) if isinstance(v, list) else v


def _real_proto(p):
    from copulas.univariate import Univariate
    if p[0] == 'class':
        return family_class(p[1])
    if p[0] == 'name':
        return p[1]
    if p[0] == 'wrappercls':
        return Univariate
    if p[0] in ('inst', 'winst'):
        return build(p[1])
    raise ValueError(p)


def build(spec):
    """the real object"""
    k = spec['kind']
    if k == 'scipy':
        return family_class(spec['family'])(*[_real_value(a) for a in spec['args']],
                                             **{n: _real_value(v) for n, v in spec['kw'].items()})
    if k == 'wrapper':
        from copulas.univariate import Univariate, ParametricType, BoundedType
        kw = {}
        for n, v in spec['kw'].items():
            if n == 'candidates':
                kw[n] = [_real_proto(c) for c in v]
            elif n == 'parametric':
                kw[n] = ParametricType[v]
            elif n == 'bounded':
                kw[n] = BoundedType[v]
            else:
                kw[n] = v
        return Univariate(**kw)
    if k == 'gm':
        from copulas.multivariate import GaussianMultivariate
        kw = {}
        for n, v in spec['kw'].items():
            if n == 'distribution':
                kw[n] = {c: _real_proto(p) for c, p in v.items()} if isinstance(v, dict) else _real_proto(v)
            else:
                kw[n] = v
        return GaussianMultivariate(**kw)
    if k == 'biv':
        from copulas import bivariate
        return getattr(bivariate, spec['ctype'])(**spec['kw'])
    raise ValueError(spec)


def _coq_sinst(spec):
    return (f'(new_scipy {spec["family"]} {coq_list([coq_jv(a) for a in spec["args"]])} '
            + coq_list([f'({coq_str(n)}, {coq_jv(v)})' for n, v in spec['kw'].items()]) + ')')


def _coq_cand(c):
    if c[0] == 'class':
        return f'(CClass {c[1]})'
    if c[0] == 'name':
        return f'(CName {coq_str(c[1])})'
    if c[0] == 'inst':
        return f'(match {_coq_sinst(c[1])} with Ok s => CInst s | Err _ => CName "" end)'
    raise ValueError(c)


def _coq_wrapper_kw(spec):
    out = []
    for n, v in spec['kw'].items():
        if n == 'candidates':
            t = f'UCands {coq_list([_coq_cand(c) for c in v])}'
        elif n == 'parametric':
            t = 'UPar ' + {'PARAMETRIC': 'Parametric', 'NON_PARAMETRIC': 'NonParametric'}[v]
        elif n == 'bounded':
            t = 'UBnd ' + {'UNBOUNDED': 'Unbounded', 'SEMI_BOUNDED': 'SemiBounded', 'BOUNDED': 'Bounded'}[v]
        else:
            t = f'UJ {coq_jv(v)}'
        out.append(f'({coq_str(n)}, {t})')
    return coq_list(out)


def _coq_uproto(p):
    if p[0] == 'class':
        return f'(PFamCls {p[1]})'
    if p[0] == 'name':
        return f'(PName {coq_str(p[1])})'
    if p[0] == 'wrappercls':
        return 'PWrapperCls'
    if p[0] == 'inst':
        return f'(match {_coq_sinst(p[1])} with Ok s => PInstS s | Err _ => PName "" end)'
    if p[0] == 'winst':
        return f'(match new_wrapper [] {_coq_wrapper_kw(p[1])} with Ok u => PInstU u | Err _ => PName "" end)'
    raise ValueError(p)


def coq_obj(spec):
    """Coq term of type `result obj`"""
    k = spec['kind']
    if k == 'scipy':
        return (f'(mk_scipy {spec["family"]} {coq_list([coq_jv(a) for a in spec["args"]])} '
                + coq_list([f'({coq_str(n)}, {coq_jv(v)})' for n, v in spec['kw'].items()]) + ')')
    if k == 'wrapper':
        return f'(mk_wrapper [] {_coq_wrapper_kw(spec)})'
    if k == 'gm':
        out = []
        for n, v in spec['kw'].items():
            if n == 'distribution':
                if isinstance(v, dict):
                    m = coq_list([f'({coq_jv(c)}, {_coq_uproto(p)})' for c, p in v.items()])
                    out.append(f'({coq_str(n)}, GDist (DMap {m}))')
                elif v[0] == 'name':
                    out.append(f'({coq_str(n)}, GJ (JStr {coq_str(v[1])}))')
                else:
                    out.append(f'({coq_str(n)}, GDist (DOne {_coq_uproto(v)}))')
            else:
                out.append(f'({coq_str(n)}, GJ {coq_jv(v)})')
        return f'(mk_gm [] {coq_list(out)})'
    if k == 'biv':
        return (f'(mk_biv Lifecycle.{spec["ctype"]} '
                + coq_list([f'({coq_str(n)}, {coq_jv(v)})' for n, v in spec['kw'].items()]) + ')')
    raise ValueError(spec)


def describe_spec(spec):
    def d(v):
        if isinstance(v, dict) and 'kind' in v:
            return describe_spec(v)
        if isinstance(v, dict):
            return {str(k): d(x) for k, x in v.items()}
        if isinstance(v, (list, tuple)):
            return [d(x) for x in v]
        return v
    name = {'scipy': lambda: FAMILIES[spec['family']][1], 'wrapper': lambda: 'Univariate',
            'gm': lambda: 'GaussianMultivariate', 'biv': lambda: spec['ctype']}[spec['kind']]()
    args = ', '.join([repr(a) for a in spec.get('args', [])] + [f'{k}={d(v)!r}' for k, v in spec['kw'].items()])
    return f'{name}({args})'


# ------------------------------------------------------------------------------------------------
# Events
# ------------------------------------------------------------------------------------------------
def coq_event(ev, kind):
    if ev[0] == 'fit':
        d = ev[1]
        tag = 'DUni' if isinstance(d, Uni) else 'DBiv' if isinstance(d, Biv) else 'DTab'
        return f'Fit ({tag} {d.coq()})'
    if ev[0] == 'query':
        q = {'scipy': ('QU', QK), 'wrapper': ('QU', QK), 'biv': ('QB', BK), 'gm': ('QG', GK)}[kind]
        return f'Query ({q[0]} {q[1][ev[1]]}) {ev[2]}'
    return {'to_dict': 'ToDict', 'get_instance': 'GetInstance', 'roundtrip': 'RoundTrip'}[ev[0]]


def describe_event(ev):
    if ev[0] == 'fit':
        return f'fit({ev[1].label})'
    if ev[0] == 'query':
        return f'{ev[1]}({ev[2]})' if ev[1] == 'sample' else ev[1]
    return ev[0]


# ------------------------------------------------------------------------------------------------
# Oracle tables
# ------------------------------------------------------------------------------------------------
def new_table():
    return {'sfit': {}, 'tg': [], 'tolist': {}, 'resample': [], 'select': {}, 'choice': [], 'corr': [], 'frank': {}}


def finite(xs):
    return all(math.isfinite(float(x)) for x in xs)


def sfit_oracle(fam, uni, _cache={}):
    """what scipy / numpy return for the family's fit on the dataset (None: raises or not finite)"""
    key = (fam, uni.id)
    if key in _cache:
        return _cache[key]
    from scipy import stats
    X = uni.x
    try:
        with warnings.catch_warnings():
            warnings.simplefilter('ignore')
            if fam == 'FGaussian':
                r = [np.mean(X), np.std(X)]
            elif fam == 'FBeta':
                lo = np.min(X)
                r = list(stats.beta.fit(X, loc=lo, scale=np.max(X) - lo))
            elif fam == 'FGamma':
                r = list(stats.gamma.fit(X))
            elif fam == 'FStudentT':
                r = list(stats.t.fit(X))
            elif fam == 'FLogLaplace':
                r = list(stats.loglaplace.fit(X))
            else:
                r = []
        r = [float(v) for v in r]
        if not finite(r):
            r = None
    except Exception:
        r = None
    _cache[key] = r
    return r


def obs_fingerprint(canon):
    """LifecycleTab.obs_fp on a canonical observation"""
    if canon[0] == 'const':
        return float(canon[2]) if canon[2] is not None else 0.0
    if canon[0] == 'scipy':
        return float(canon[3].get('loc', 0.0))
    if canon[0] == 'kde':
        return float(canon[2][1][0]) if canon[2][1] else 0.0
    return 0.0


def coq_tab(tab):
    b = lambda e: 'None' if e is None else f'(Some {e}%nat)'   # noqa: E731
    # entries with NaN / inf cannot be stated over Q: they are left out (the model then evaluates to a default that
    # cannot agree with the library: fail closed)
    sfit = [f'({f}, {i}%nat, {coq_qlist(v)})' for (f, i), v in tab['sfit'].items() if finite(v)]
    tg = [f'({i}%nat, {coq_q(lo)}, {coq_q(hi)}, ({coq_q(a)}, {coq_q(s)}))' for i, lo, hi, a, s in tab['tg'] if finite([lo, hi, a, s])]
    tol = [f'({i}%nat, {coq_qlist(v)})' for i, v in tab['tolist'].items() if finite(v)]
    res = [f'({i}%nat, {n}%nat, {g}%nat, {coq_qlist(v)})' for i, n, g, v in tab['resample'] if finite(v)]
    sel = [f'({i}%nat, {n}%nat, {b(k)})' for (i, n), k in tab['select'].items()]
    cho = [f'({i}%nat, {k}%nat, {g}%nat, {u.coq()})' for i, k, g, u in tab['choice'] if not u.has_nan]
    cor = [f'({i}%nat, {coq_qlist(fp)}, {coq_list([coq_qlist(r) for r in m])})' for i, fp, m in tab['corr']
           if finite(fp) and all(finite(r) for r in m)]
    fr = [f'({coq_q(t)}, {("Ok " + coq_jv(v)) if not isinstance(v, str) else ("Err " + v)})' for t, v in tab['frank'].items()
          if math.isfinite(t)]
    return '(mkOT ' + ' '.join(coq_list(x) for x in (sfit, tg, tol, res, sel, cho, cor, fr)) + ')'


def trace_expr(spec, events, tab):
    return (f'trace_of {coq_tab(tab)} {coq_obj(spec)} '
            + coq_list([coq_event(e, spec['kind']) for e in events]))


# ------------------------------------------------------------------------------------------------
# Parser of Coq's printed terms
# ------------------------------------------------------------------------------------------------
_TOK = re.compile(r'\s*(?:(?P<str>"(?:[^"]|"")*")|(?P<num>-?(?:0x[0-9a-fA-F]*\.?[0-9a-fA-F]*(?:[pP][+-]?\d+)?|\d+\.?\d*(?:[eE][+-]?\d+)?))'
                  r'|(?P<scope>%\w+)|(?P<id>[A-Za-z_][\w\'.]*)|(?P<p>[()\[\];,#]))')


def _num(tok):
    neg = tok.startswith('-')
    if neg:
        tok = tok[1:]
    if tok.lower().startswith('0x'):
        body = tok[2:]
        exp = 0
        m = re.search(r'[pP]([+-]?\d+)$', body)
        if m:
            exp = int(m.group(1))
            body = body[:m.start()]
        ip, _, fp = body.partition('.')
        v = Fraction(int((ip or '0') + fp, 16), 16 ** len(fp)) * Fraction(2) ** exp
    else:
        v = Fraction(tok)
    return -v if neg else v


class _P:
    def __init__(self, text):
        self.toks = []
        pos = 0
        text = text.strip()
        while pos < len(text):
            m = _TOK.match(text, pos)
            if not m or m.end() == pos:
                raise ValueError(f'cannot tokenise at {text[pos:pos + 40]!r}')
            pos = m.end()
            if m.group('scope') is not None:
                continue
            if m.group('str') is not None:
                self.toks.append(('str', m.group('str')[1:-1].replace('""', '"')))
            elif m.group('num') is not None:
                self.toks.append(('num', _num(m.group('num'))))
            elif m.group('id') is not None:
                self.toks.append(('id', m.group('id')))
            else:
                self.toks.append(('p', m.group('p')))
        self.i = 0

    def peek(self):
        return self.toks[self.i] if self.i < len(self.toks) else ('eof', None)

    def take(self):
        t = self.peek()
        self.i += 1
        return t

    def atom(self):
        k, v = self.take()
        if k in ('str', 'num'):
            return v
        if k == 'id':
            return (v,)
        if (k, v) == ('p', '['):
            items = []
            if self.peek() == ('p', ']'):
                self.take()
                return items
            while True:
                items.append(self.term())
                k2, v2 = self.take()
                if (k2, v2) == ('p', ']'):
                    return items
                if (k2, v2) != ('p', ';'):
                    raise ValueError(f'expected ; or ] got {v2!r}')
        if (k, v) == ('p', '('):
            first = self.term()
            k2, v2 = self.take()
            if (k2, v2) == ('p', '#'):
                den = self.term()
                if self.take() != ('p', ')'):
                    raise ValueError('expected ) after fraction')
                return Fraction(first) / Fraction(den)
            if (k2, v2) == ('p', ')'):
                return first
            parts = [first]
            while (k2, v2) == ('p', ','):
                parts.append(self.term())
                k2, v2 = self.take()
            if (k2, v2) != ('p', ')'):
                raise ValueError(f'expected ) got {v2!r}')
            return ('tuple',) + tuple(parts)
        raise ValueError(f'unexpected token {v!r}')

    def term(self):
        k, v = self.peek()
        if k == 'id':
            self.take()
            args = []
            while self.peek()[0] in ('str', 'num', 'id') or self.peek() in (('p', '('), ('p', '[')):
                args.append(self.atom())
            return (v,) + tuple(args)
        return self.atom()


def parse_term(text):
    """Coq constructor application -> (name, arg, ...), list -> list, tuple -> ('tuple', ...), numbers -> Fraction,
    strings -> str"""
    p = _P(text)
    t = p.term()
    if p.peek()[0] != 'eof':
        raise ValueError(f'trailing tokens: {p.toks[p.i:p.i + 5]}')
    return t


# ------------------------------------------------------------------------------------------------
# Canonical form of the model's observations
# ------------------------------------------------------------------------------------------------
def _flt(fr):
    return float(fr)


def canon_jv(j):
    """parsed jv -> python (numbers as float, JNone -> None)"""
    h = j[0]
    if h == 'JNum':
        return _flt(j[1])
    if h == 'JInf':
        return float('inf') if j[1] == ('true',) else float('-inf')
    if h == 'JNaN':
        return float('nan')
    if h == 'JStr':
        return j[1]
    if h == 'JList':
        return [canon_jv(x) for x in j[1]]
    if h == 'JDict':
        return {x[1]: canon_jv(x[2]) for x in j[1]}
    if h == 'JNone':
        return None
    if h == 'JBool':
        return j[1] == ('true',)
    if h == 'JSet':
        return {'__set__': [int(x) for x in j[1]]}
    raise ValueError(f'jv? {j!r}')


def _params(p):
    return {x[1]: canon_jv(x[2]) for x in p}


def _points(ds):
    """dataset jv (canonical python) -> (nested?, flat list)"""
    if isinstance(ds, list) and len(ds) == 1 and isinstance(ds[0], list):
        return (True, [float(v) for v in ds[0]])
    if isinstance(ds, list):
        return (False, [float(v) for v in ds])
    return ('?', ds)


def canon_obs(o):
    h = o[0]
    if h == 'ObsErr':
        return ('err', o[1][0])
    if h == 'ObsNone':
        return ('none',)
    if h == 'ObsNoneObj':
        return ('noneobj',)
    if h == 'ObsConst':
        c = o[2]
        return ('const', KIND_OF[o[1][0]], None if c == ('None',) else canon_jv(c[1]))
    if h == 'ObsScipy':
        return ('scipy', KIND_OF[o[1][0]], o[2][0], _params(o[3]))
    if h == 'ObsKde':
        m = o[2]    # {| km_dataset := ..; km_bw := ..; km_w := .. |}  is printed as a record: handled by run_trace printing mkKm
        b = o[3]
        return ('kde', KIND_OF[o[1][0]], _points(canon_jv(m[1])), canon_jv(m[2]), canon_jv(m[3]),
                None if b == ('None',) else _points(_params(b[1]).get('dataset')))
    if h == 'ObsDraw':
        src = o[3]
        return ('draw', canon_obs(o[1]), int(o[2]), 'global' if src[0] == 'RsGlobal' else 'own')
    if h == 'ObsBiv':
        return ('biv', KIND_OF[o[1][0]], o[2][0].upper(), canon_jv(o[3]))
    if h == 'ObsGM':
        return ('gm', KIND_OF[o[1][0]], [canon_jv(c) for c in o[2]], [canon_obs(s) for s in o[3]],
                [[canon_jv(v) for v in r] for r in o[4]])
    if h == 'ObsDict':
        return ('dict', canon_jv(o[1]))
    if h == 'ObsNew':
        return ('new', o[1], o[2] == ('true',))
    raise ValueError(f'obs? {o!r}')


def canon_trace(text):
    """printed `list (obs * nat * option nat)` -> [(canonical obs, global draws so far, own draws so far | None)]"""
    t = parse_term(text)
    out = []
    for e in t:
        assert e[0] == 'tuple', e
        own = e[3]
        out.append((canon_obs(e[1]), int(e[2]), None if own == ('None',) else int(own[1])))
    return out


# ------------------------------------------------------------------------------------------------
# Comparison
# ------------------------------------------------------------------------------------------------
def same(a, b, rel=1e-9):
    if isinstance(a, bool) or isinstance(b, bool):
        return a is b or (isinstance(a, (bool, np.bool_)) and isinstance(b, (bool, np.bool_)) and bool(a) == bool(b))
    if isinstance(a, (int, float, np.floating, np.integer)) and isinstance(b, (int, float, np.floating, np.integer)):
        a, b = float(a), float(b)
        if math.isnan(a) or math.isnan(b):
            return math.isnan(a) and math.isnan(b)
        if math.isinf(a) or math.isinf(b):
            return a == b
        return abs(a - b) <= rel * (1.0 + max(abs(a), abs(b)))
    if isinstance(a, (list, tuple)) and isinstance(b, (list, tuple)):
        return len(a) == len(b) and all(same(x, y, rel) for x, y in zip(a, b))
    if isinstance(a, dict) and isinstance(b, dict):
        return set(a.keys()) == set(b.keys()) and all(same(a[k], b[k], rel) for k in a)
    return type(a) is type(b) and a == b or (a is None and b is None)


def explain_diff(a, b, path='', rel=1e-9):
    """path and values of the first difference between two canonical forms (None if same)"""
    if same(a, b, rel):
        return None
    if isinstance(a, (list, tuple)) and isinstance(b, (list, tuple)):
        if len(a) != len(b):
            return f'{path}: lengths {len(a)} vs {len(b)}: {str(a)[:160]} vs {str(b)[:160]}'
        for i, (x, y) in enumerate(zip(a, b)):
            d = explain_diff(x, y, f'{path}[{i}]', rel)
            if d:
                return d
    if isinstance(a, dict) and isinstance(b, dict):
        if set(a) != set(b):
            return f'{path}: keys {sorted(a)} vs {sorted(b)}'
        for k in a:
            d = explain_diff(a[k], b[k], f'{path}.{k}', rel)
            if d:
                return d
    return f'{path}: {str(a)[:200]} vs {str(b)[:200]}'


# ------------------------------------------------------------------------------------------------
# Running a history on the real library
# ------------------------------------------------------------------------------------------------
def err_name(ex):
    return ERRS.get(type(ex).__name__, 'Other:' + type(ex).__name__)


def rng_key(state):
    return (state[0], state[1].tobytes(), state[2], state[3], state[4])


def jsonable(v):
    if isinstance(v, dict):
        return {str(k): jsonable(x) for k, x in v.items()}
    if isinstance(v, (list, tuple)):
        return [jsonable(x) for x in v]
    if isinstance(v, np.ndarray):
        return jsonable(v.tolist())
    if isinstance(v, (np.floating,)):
        return float(v)
    if isinstance(v, (np.integer,)):
        return int(v)
    if isinstance(v, (np.bool_,)):
        return bool(v)
    if isinstance(v, (set, frozenset)):
        return {'__set__': sorted(jsonable(x) for x in v)}
    if hasattr(v, 'tolist') and not isinstance(v, (str, bytes)):
        return jsonable(v.tolist())
    if hasattr(v, 'name') and hasattr(v, 'value') and type(v).__module__.startswith('copulas'):
        return v.name          # enum members (CopulaTypes)
    return v


UNI_PROBES_U = np.array([0.1, 0.5, 0.9])
BIV_PROBES = np.array([[0.3, 0.4], [0.6, 0.2], [0.85, 0.9]])


class Runner:
    """Runs one history on the real library with recorders at the scipy / numpy boundary.

    The recorders (all removed again in `finally`):
      scipy.stats.{norm,uniform,beta,gamma,t,loglaplace,truncnorm}.{cdf,pdf,logpdf,ppf,rvs}  which frozen-less call served a query
      copulas.univariate.gaussian_kde.gaussian_kde -> recording subclass                      which KDE object, built from what
      copulas.univariate.truncated_gaussian.fmin_slsqp                                        (bounds) -> optimum
      np.random.choice                                                                        selection subsample
      copulas.univariate.selection.get_instance / copulas.univariate.base.select_univariate   which candidate won
      copulas.bivariate.frank.least_squares                                                   Frank theta
      GaussianMultivariate._get_correlation                                                   correlation matrix
    """

    def __init__(self):
        self.events = []          # scipy-level calls seen during the current step
        self.tab = None
        self.cur = []             # Uni datasets of the current step (for resolving array -> id)
        self.gcount = 0
        self.last_gi = None
        self.extra_unis = {}      # id -> Uni created by np.random.choice

    # ---- dataset resolution ----
    def _resolve(self, arr):
        a = np.asarray(arr, dtype=float).ravel()
        for u in self.cur:
            if len(u.x) == len(a) and np.array_equal(u.x, a, equal_nan=True):
                return u
        return None

    # ---- patches ----
    def _install(self):
        from scipy import stats
        import copulas.univariate.gaussian_kde as gk
        import copulas.univariate.truncated_gaussian as tg
        import copulas.univariate.selection as sel
        import copulas.univariate.base as ub
        import copulas.bivariate.frank as fr
        from copulas.multivariate.gaussian import GaussianMultivariate
        R = self
        undo = []

        for dname in FAM_BY_DIST:
            dist = getattr(stats, dname)
            for meth in ('cdf', 'pdf', 'logpdf', 'ppf', 'rvs'):
                orig = getattr(dist, meth)

                def wrap(*a, _o=orig, _d=dname, _m=meth, **k):
                    R.events.append(('scipy', _d, _m, {n: v for n, v in k.items() if n != 'size'}))
                    return _o(*a, **k)
                setattr(dist, meth, wrap)
                undo.append(lambda d=dist, m=meth: delattr(d, m))

        base_kde = stats.gaussian_kde

        class RecKDE(base_kde):
            def __init__(self, dataset, bw_method=None, weights=None):
                self._vf_args = (jsonable(dataset), bw_method, None if weights is None else jsonable(weights))
                self._vf_src = R._resolve(dataset) if np.ndim(dataset) == 1 or isinstance(dataset, np.ndarray) else None
                super().__init__(dataset, bw_method=bw_method, weights=weights)

            def resample(self, size=None, seed=None):
                before = rng_key(np.random.get_state())
                out = super().resample(size, seed)
                R.events.append(('kde.resample', self, size))
                if self._vf_src is not None and R.in_fit:
                    R.tab['resample'].append((self._vf_src.id, int(size), R.gcount, [float(v) for v in np.ravel(out)]))
                    if rng_key(np.random.get_state()) != before:
                        R.gcount += 1
                        R.sub_counted = True
                return out

            def evaluate(self, points):
                R.events.append(('kde.evaluate', self))
                return super().evaluate(points)
        orig_gk = gk.gaussian_kde
        gk.gaussian_kde = RecKDE
        undo.append(lambda: setattr(gk, 'gaussian_kde', orig_gk))

        orig_slsqp = tg.fmin_slsqp

        def slsqp(func, x0, *a, **k):
            out = orig_slsqp(func, x0, *a, **k)
            lo, hi = k['bounds'][0]
            src = None
            for cell in (getattr(func, '__closure__', None) or ()):
                try:
                    v = cell.cell_contents
                except ValueError:
                    continue
                if hasattr(v, 'shape') and np.ndim(v) == 1:
                    src = R._resolve(v)
                    if src is not None:
                        break
            if src is not None:
                R.tab['tg'].append((src.id, float(lo), float(hi), float(out[0]), float(out[1])))
            return out
        tg.fmin_slsqp = slsqp
        undo.append(lambda: setattr(tg, 'fmin_slsqp', orig_slsqp))

        orig_choice = np.random.choice

        def choice(a, size=None, *aa, **k):
            before = rng_key(np.random.get_state())
            out = orig_choice(a, size, *aa, **k)
            src = R._resolve(a)
            if src is not None and R.in_fit:
                u = Uni(out, f'choice({src.label},{size})')
                R.extra_unis[u.id] = u
                R.cur.append(u)
                R.tab['choice'].append((src.id, int(size), R.gcount, u))
                if rng_key(np.random.get_state()) != before:
                    R.gcount += 1
                    R.sub_counted = True
            return out
        np.random.choice = choice
        undo.append(lambda: setattr(np.random, 'choice', orig_choice))

        orig_gi = sel.get_instance

        def gi(obj, **kw):
            R.last_gi = obj
            return orig_gi(obj, **kw)
        sel.get_instance = gi
        undo.append(lambda: setattr(sel, 'get_instance', orig_gi))

        orig_su = ub.select_univariate

        def su(X, candidates):
            R.last_gi = None
            try:
                return orig_su(X, candidates)
            finally:
                src = R._resolve(X)
                idx = next((i for i, c in enumerate(candidates) if c is R.last_gi), None)
                if src is not None:
                    R.tab['select'][(src.id, len(candidates))] = idx
                    R.selected.append((src, idx, candidates))
        ub.select_univariate = su
        undo.append(lambda: setattr(ub, 'select_univariate', orig_su))

        orig_ls = fr.least_squares

        def ls(fun, x0, *a, **k):
            tau = getattr(getattr(fun, '__self__', None), 'tau', None)
            try:
                out = orig_ls(fun, x0, *a, **k)
            except Exception as ex:
                if tau is not None:
                    R.tab['frank'][float(tau)] = err_name(ex)
                raise
            if tau is not None:
                R.tab['frank'][float(tau)] = float(out.x[0])
            return out
        fr.least_squares = ls
        undo.append(lambda: setattr(fr, 'least_squares', orig_ls))

        orig_gc = GaussianMultivariate._get_correlation

        def gc(self_, X):
            out = orig_gc(self_, X)
            if R.cur_table is not None:
                R.tab['corr'].append((R.cur_table.id, [obs_fingerprint(R._uni_behaviour(u, 'cdf')) for u in self_.univariates],
                                      out.to_numpy().tolist()))
            return out
        GaussianMultivariate._get_correlation = gc
        undo.append(lambda: setattr(GaussianMultivariate, '_get_correlation', orig_gc))
        return undo

    # ---- behaviour of a univariate object for one kind (used for GM sub-observations) ----
    def _uni_behaviour(self, m, kind):
        saved, self.events = self.events, []
        try:
            return self._uni_query(m, kind, 1, probe_for=None)[0]
        finally:
            self.events = saved

    def _inner(self, m):
        from copulas.univariate.base import ScipyModel
        return m if isinstance(m, ScipyModel) else getattr(m, '_instance', None)

    def _uni_query(self, m, kind, n, probe_for):
        """-> (canonical observation, value check ok / None)"""
        inner = self._inner(m)
        c = getattr(inner, '_constant_value', None) if inner is not None else None
        lo, hi = (-1.0, 1.0)
        p = getattr(inner, '_params', None) or {}
        if 'dataset' in p:
            flat = np.ravel(np.asarray(p['dataset'], dtype=float))
            lo, hi = float(flat.min()), float(flat.max())
        elif 'loc' in p and math.isfinite(float(p['loc'])):
            lo = float(p['loc'])
            hi = lo + (float(p.get('scale', 1.0)) if math.isfinite(float(p.get('scale', 1.0))) else 1.0)
        scalar_c = c is not None and np.ndim(c) == 0
        X = np.array([lo - 0.5, lo + 0.25 * (hi - lo), 0.5 * (lo + hi), hi + 0.5] + ([float(c)] if scalar_c else []))
        arg = {'cdf': X, 'pdf': X, 'logpdf': X, 'ppf': UNI_PROBES_U, 'sample': n}[kind]
        self.events.clear()
        with warnings.catch_warnings():
            warnings.simplefilter('ignore')
            try:
                out = getattr(m, METHOD[kind])(arg)
            except Exception as ex:
                return ('err', err_name(ex)), None
        ev = self.events[0] if self.events else None
        if ev is not None and ev[0] == 'scipy':
            want = {'cdf': 'cdf', 'pdf': 'pdf', 'logpdf': 'logpdf', 'ppf': 'ppf', 'sample': 'rvs'}[kind]
            canon = ('scipy', kind, FAM_BY_DIST[ev[1]], {k: float(v) for k, v in ev[3].items()})
            if ev[2] != want:
                canon = ('scipy', f'{kind}-served-by-{ev[2]}', FAM_BY_DIST[ev[1]], canon[3])
            ok = None
            if kind != 'sample':
                from scipy import stats
                with warnings.catch_warnings():
                    warnings.simplefilter('ignore')
                    exp = getattr(type(getattr(stats, ev[1])), want)(getattr(stats, ev[1]), arg, **ev[3])
                ok = bool(np.allclose(np.asarray(out, dtype=float), exp, rtol=1e-9, atol=0, equal_nan=True))
            return canon, ok
        kde = getattr(inner, '_model', None) if inner is not None else None
        # GaussianKDE.log_probability_density (since the F12 fix) is the log of self.probability_density, which an
        # instance-level override may shadow
        is_kde_inner = inner is not None and type(inner).__name__ == 'GaussianKDE'
        overridden = inner is not None and (METHOD['pdf' if (kind == 'logpdf' and is_kde_inner) else kind] in vars(inner))
        if kde is not None and hasattr(kde, '_vf_args') and not overridden:
            ds, bw, w = kde._vf_args
            bounds = _points(jsonable(inner._params['dataset'])) if kind in ('cdf', 'ppf') else None
            canon = ('kde', kind, _points(ds), bw, w, bounds)
            ok = None
            if kind in ('pdf', 'cdf', 'logpdf'):
                from scipy import stats
                from scipy.special import ndtr
                ref = stats.gaussian_kde(np.asarray(ds, dtype=float), bw_method=bw, weights=None if w is None else np.asarray(w))
                if kind == 'pdf':
                    exp = ref.evaluate(X)
                elif kind == 'logpdf':
                    exp = np.log(ref.evaluate(X))
                else:
                    D = np.asarray(inner._params['dataset'], dtype=float)
                    sd = np.sqrt(ref.covariance[0, 0])
                    lower = ndtr((np.min(D) - 5 * np.std(D) - ref.dataset) / sd)[0]
                    exp = (ndtr((X[:, None] - ref.dataset) / sd) - lower).dot(ref.weights)
                ok = bool(np.allclose(np.asarray(out, dtype=float), exp, rtol=1e-9, atol=1e-12, equal_nan=True))
            return canon, ok
        # degenerate behaviour: decided by VALUE
        if c is not None and not scalar_c:
            # GaussianKDE rebuilt from a nested constant dataset: _extract_constant returns dataset[0], a LIST
            return ('const', kind, jsonable(c)), None
        out = np.asarray(out, dtype=float)
        if kind == 'cdf':
            ok = c is not None and np.array_equal(out, (X >= c).astype(float))
        elif kind == 'pdf':
            ok = c is not None and np.array_equal(out, (X == c).astype(float))
        elif kind == 'ppf':
            ok = c is not None and out.shape == UNI_PROBES_U.shape and np.all(out == c)
        elif kind == 'sample':
            ok = c is not None and out.shape == (n,) and np.all(out == c)
        elif kind == 'logpdf' and is_kde_inner:
            with np.errstate(divide='ignore'):
                ok = c is not None and np.array_equal(out, np.log((X == c).astype(float)))
        else:
            ok = False
        return ('const', kind, None if c is None else float(c)), bool(ok)

    def _biv_query(self, m, kind, n):
        X = BIV_PROBES
        with warnings.catch_warnings():
            warnings.simplefilter('ignore')
            try:
                if kind == 'ppf':
                    out = m.percent_point(np.array([0.3, 0.7]), np.array([0.4, 0.6]))
                elif kind == 'sample':
                    out = m.sample(n)
                else:
                    out = getattr(m, METHOD[kind])(X)
            except Exception as ex:
                return ('err', err_name(ex)), None
        canon = ('biv', kind, type(m).copula_type.name, None if m.theta is None else float(m.theta))
        ok = None
        if kind != 'sample':
            ref = type(m)()
            ref.theta = m.theta
            with warnings.catch_warnings():
                warnings.simplefilter('ignore')
                exp = ref.percent_point(np.array([0.3, 0.7]), np.array([0.4, 0.6])) if kind == 'ppf' else getattr(ref, METHOD[kind])(X)
            ok = bool(np.allclose(out, exp, rtol=1e-9, equal_nan=True))
        return canon, ok

    def _gm_query(self, m, kind, n):
        import pandas as pd
        cols = list(m.columns) if m.columns is not None else ['a', 'b']
        with warnings.catch_warnings():
            warnings.simplefilter('ignore')
            try:
                if kind == 'sample':
                    m.sample(n)
                else:
                    rows = []
                    for u in (m.univariates or [None] * len(cols)):
                        inner = self._inner(u) if u is not None else None
                        p = getattr(inner, '_params', None) or {}
                        if 'dataset' in p:
                            c = float(np.mean(np.ravel(np.asarray(p['dataset'], dtype=float))))
                        else:
                            c = float(p.get('loc', 0.0)) if math.isfinite(float(p.get('loc', 0.0))) else 0.0
                        rows.append([c, c + 0.1])
                    # scipy's multivariate_normal.cdf integrates by randomised quasi-Monte-Carlo and draws from numpy's
                    # global generator; that is scipy's business (C13), not part of this model: undone here
                    st = np.random.get_state()
                    try:
                        getattr(m, METHOD[kind])(pd.DataFrame(np.array(rows).T, columns=cols))
                    finally:
                        if kind == 'cdf':
                            np.random.set_state(st)
            except Exception as ex:
                return ('err', err_name(ex)), None
        sub = 'ppf' if kind == 'sample' else 'cdf'
        subs = [self._uni_behaviour(u, sub) for u in m.univariates]
        return ('gm', kind, jsonable(cols), subs, m.correlation.to_numpy().tolist()), None

    # ---- one history ----
    def run(self, spec, events):
        """-> dict(trace=[(canon, gcount, own_changed_count | None)], tab=..., value_checks=[(step, ok)], note=...)"""
        self.tab = new_table()
        self.gcount = 0
        self.selected = []
        self.cur_table = None
        self.in_fit = False
        kind = spec['kind']
        trace, checks = [], []
        saved_global = np.random.get_state()
        np.random.seed(20190 + sum(len(str(e)) for e in events) % 7)
        undo = self._install()
        try:
            with warnings.catch_warnings():
                warnings.simplefilter('ignore')
                m = build(spec)
            own = 0 if getattr(m, 'random_state', None) is not None else None
            for step, ev in enumerate(events):
                g0 = rng_key(np.random.get_state())
                rs0 = None if getattr(m, 'random_state', None) is None else rng_key(m.random_state.get_state())
                self.sub_counted = False
                self.events.clear()
                ok = None
                if ev[0] == 'fit':
                    d = ev[1]
                    self.in_fit = True
                    if isinstance(d, Uni):
                        self.cur = [d]
                        arg = d.x.copy()
                    elif isinstance(d, Biv):
                        self.cur = []
                        arg = d.x.copy()
                    else:
                        self.cur = [u for _, u in d.cols]
                        self.cur_table = d
                        arg = d.frame.copy()
                    for u in self.cur:
                        self.tab['tolist'][u.id] = [float(v) for v in u.x]
                    with warnings.catch_warnings():
                        warnings.simplefilter('ignore')
                        try:
                            m.fit(arg)
                            canon = ('none',)
                        except Exception as ex:
                            canon = ('err', err_name(ex))
                    self.in_fit = False
                    self.cur_table = None
                    self._after_fit(spec, m, d)
                elif ev[0] == 'query':
                    q = {'scipy': self._uni_query, 'wrapper': self._uni_query}.get(kind)
                    if q is not None:
                        canon, ok = q(m, ev[1], ev[2], None)
                    elif kind == 'biv':
                        canon, ok = self._biv_query(m, ev[1], ev[2])
                    else:
                        canon, ok = self._gm_query(m, ev[1], ev[2])
                elif ev[0] == 'to_dict':
                    try:
                        canon = ('dict', jsonable(m.to_dict()))
                    except Exception as ex:
                        canon = ('err', err_name(ex))
                elif ev[0] == 'get_instance':
                    from copulas.utils import get_instance
                    try:
                        with warnings.catch_warnings():
                            warnings.simplefilter('ignore')
                            new = get_instance(m)
                        if new is None:
                            canon = ('noneobj',)
                        else:
                            fitted = bool(new.theta) if kind == 'biv' else bool(new.fitted)
                            canon = ('new', type(new).__name__, fitted)
                            if new is m:
                                canon = ('new', type(new).__name__ + ':SAME-OBJECT', fitted)
                            m = new
                            own = 0 if getattr(m, 'random_state', None) is not None else None
                            rs0 = None if own is None else rng_key(m.random_state.get_state())
                    except Exception as ex:
                        canon = ('err', err_name(ex))
                elif ev[0] == 'roundtrip':
                    # self := <entry-point class>.from_dict(self.to_dict())   (Univariate / Multivariate / Bivariate)
                    from copulas.univariate import Univariate
                    from copulas.multivariate.base import Multivariate
                    from copulas.bivariate import Bivariate
                    entry = {'scipy': Univariate, 'wrapper': Univariate, 'gm': Multivariate, 'biv': Bivariate}[kind]
                    try:
                        with warnings.catch_warnings():
                            warnings.simplefilter('ignore')
                            new = entry.from_dict(m.to_dict())
                            canon = ('dict', jsonable(new.to_dict()))
                        m = new
                        own = 0 if getattr(m, 'random_state', None) is not None else None
                        rs0 = None if own is None else rng_key(m.random_state.get_state())
                    except Exception as ex:
                        canon = ('err', err_name(ex))
                else:
                    raise ValueError(ev)
                g1 = rng_key(np.random.get_state())
                if g1 != g0 and not self.sub_counted:
                    self.gcount += 1
                rs1 = None if getattr(m, 'random_state', None) is None else rng_key(m.random_state.get_state())
                if rs0 is not None and rs1 is not None and rs1 != rs0:
                    own += 1
                if canon[0] in ('scipy', 'kde', 'biv', 'gm') and canon[1] == 'sample':
                    src = 'own' if (rs0 is not None and rs1 != rs0) else 'global' if g1 != g0 else 'none'
                    canon = ('draw', canon, ev[2], src)
                trace.append((canon, self.gcount, own))
                if ok is not None:
                    checks.append((step, ok))
            return {'trace': trace, 'tab': self.tab, 'value_checks': checks}
        finally:
            for u in reversed(undo):
                u()
            np.random.set_state(saved_global)

    def _after_fit(self, spec, m, d):
        """scipy fit oracles for the (family, dataset) pairs the model may consult"""
        fams = set()
        if spec['kind'] == 'scipy':
            fams.add(spec['family'])
        for src, idx, cands in self.selected:
            if idx is not None:
                c = cands[idx]
                name = c if isinstance(c, str) else (c.__name__ if isinstance(c, type) else type(c).__name__)
                fams.add(FAM_BY_CLASS.get(name.rsplit('.', 1)[-1]))
        if spec['kind'] == 'gm':
            fams.add('FGaussian')      # fallback distribution
            dist = spec['kw'].get('distribution')
            protos = list(dist.values()) if isinstance(dist, dict) else [dist] if dist else []
            for p in protos:
                if p[0] == 'class':
                    fams.add(p[1])
                elif p[0] == 'name':
                    fams.add(FAM_BY_CLASS.get(p[1].rsplit('.', 1)[-1]))
                elif p[0] == 'inst':
                    fams.add(p[1]['family'])
        for f in fams:
            if f in ('FGaussian', 'FBeta', 'FGamma', 'FStudentT', 'FLogLaplace'):
                for u in self.cur:
                    if u.has_nan or not len(u.x):
                        continue
                    r = sfit_oracle(f, u)
                    if r is not None:
                        self.tab['sfit'][(f, u.id)] = r
