"""C19 -- part of Gen_uniwrap.v (called by uniwrapgen.py): the constructor of the selecting wrapper and the class tree it selects from.

  copulas/univariate/__init__.py     the import order of the family modules (= order of ScipyModel.__subclasses__())
  copulas/univariate/<family>.py     bases, PARAMETRIC, BOUNDED of the eight classes;  base.py: the same for Univariate / ScipyModel
                                      -> gen_subclasses, gen_has_ABC_base, gen_PARAMETRIC, gen_BOUNDED
  Univariate._select_candidates      -> gen_Univariate__select_candidates_at (the loop with its three `continue` guards, the recursive call)
  Univariate.__init__ (@store_args)  -> gen_Univariate___init__

Fail-closed like the rest: any other shape raises Unsupported (a failed `translate:<name>` obligation).
"""
import ast
import os

from . import srcnorm as _srcnorm
from . import unictlgen as U
from .core import REPO

Unsupported = U.Unsupported
UNI = os.path.join(REPO, 'copulas', 'univariate')
_v, _cs, _cmt = U._v, U._cs, U._cmt

FAM_CTOR = {'GaussianUnivariate': 'FGaussian', 'UniformUnivariate': 'FUniform', 'BetaUnivariate': 'FBeta', 'GammaUnivariate': 'FGamma',
            'StudentTUnivariate': 'FStudentT', 'LogLaplace': 'FLogLaplace', 'TruncatedGaussian': 'FTrunc', 'GaussianKDE': 'FKDE'}
PTYPE = {'ParametricType.NON_PARAMETRIC': 'NonParametric', 'ParametricType.PARAMETRIC': 'Parametric'}
BTYPE = {'BoundedType.UNBOUNDED': 'Unbounded', 'BoundedType.SEMI_BOUNDED': 'SemiBounded', 'BoundedType.BOUNDED': 'Bounded'}

HEADER3 = r'''
(* ---------- vocabulary, part 2b: the constructor of the wrapper and the class tree ---------- *)
Inductive pycls := PyUnivariate | PyScipyModel | PyFam (f : family).
(* arguments of Univariate(..): enum members and candidate lists are typed values (Lifecycle.uarg); which ones the model covers *)
Definition py_None : uarg := UJ JNone.
Definition py_bind_args (names : list string) (args : list uarg) (kw : list (string * uarg)) : result (list (string * uarg)) :=
  bind_args names args kw.
Definition py_arg (b : list (string * uarg)) (k : string) (dflt : uarg) : uarg := getd k b dflt.
Definition py_arg_ptype (a : uarg) : result (option ptype) :=
  match a with UJ JNone => Ok None | UPar p => Ok (Some p) | _ => Err Unmodelled end.
Definition py_arg_btype (a : uarg) : result (option btype) :=
  match a with UJ JNone => Ok None | UBnd x => Ok (Some x) | _ => Err Unmodelled end.
Definition py_arg_cands (a : uarg) : result (option (list cand)) :=
  match a with UJ JNone => Ok None | UCands l => Ok (Some l) | _ => Err Unmodelled end.
(* `candidates or <alternative>`: None and the empty list are falsy *)
Definition py_cands_or (c : option (list cand)) (alt : list cand) : list cand :=
  match c with None | Some [] => alt | Some l => l end.
(* the object __init__ receives: class-level defaults fitted = False, _instance = None; @store_args keeps the call's arguments *)
Definition py_new_wrapper_object (args : list uarg) (kw : list (string * uarg)) : uinst := mkU [] None JNone false None (args, kw).
Definition py_uset_candidates (l : list cand) (u : uinst) : uinst := mkU l (u_rs u) (u_sel_ss u) (u_fitted u) (u_instance u) (u_stored u).
Definition py_uset_random_state (r : option rstate) (u : uinst) : uinst := setu_rs r u.
Definition py_validate_random_state (a : uarg) : result (option rstate) :=
  match a with UJ j => validate_rs j | _ => Err TypeErr end.
Definition py_uset_selection_sample_size (a : uarg) (u : uinst) : result uinst :=
  match a with UJ j => Ok (mkU (u_cands u) (u_rs u) j (u_fitted u) (u_instance u) (u_stored u)) | _ => Err Unmodelled end.
(* the loop of _select_candidates *)
Fixpoint py_for_acc {A B} (l : list A) (acc : B) (body : A -> B -> B) : B :=
  match l with [] => acc | x :: r => py_for_acc r (body x acc) body end.
Definition py_ne_ptype (a : ptype) (b : option ptype) : bool := match b with Some x => negb (ptype_eqb a x) | None => true end.
Definition py_ne_btype (a : btype) (b : option btype) : bool := match b with Some x => negb (btype_eqb a x) | None => true end.
Definition py_is_not_none {A} (a : option A) : bool := match a with Some _ => true | None => false end.
(* a class as a candidate of the wrapper: the family classes; the two base classes only by name (Lifecycle.cand has no
   constructor for them, and resolve_name refuses ScipyModel) *)
Definition py_as_cands (l : list pycls) : list cand :=
  map (fun c => match c with
                | PyFam f => CClass f
                | PyScipyModel => CName "copulas.univariate.base.ScipyModel"
                | PyUnivariate => CName "copulas.univariate.base.Univariate"
                end) l.
'''


def _class_attr(cls, name):
    hits = [s for s in cls.body if isinstance(s, ast.Assign) and len(s.targets) == 1 and isinstance(s.targets[0], ast.Name) and s.targets[0].id == name]
    if len(hits) > 1:
        raise Unsupported(f'{cls.name}: {name} assigned twice')
    return ast.unparse(hits[0].value) if hits else None


def class_tree():
    """-> text of gen_subclasses / gen_has_ABC_base / gen_PARAMETRIC / gen_BOUNDED"""
    init = _srcnorm.parse_file(os.path.join(UNI, '__init__.py'))
    order = []
    for s in init.body:
        if isinstance(s, ast.ImportFrom) and s.module and s.module.startswith('copulas.univariate.') and s.level == 0:
            for al in s.names:
                if al.name in FAM_CTOR:
                    order.append((al.name, s.module.split('.')[-1] + '.py'))
        elif isinstance(s, (ast.Import, ast.ImportFrom)):
            raise Unsupported(f'copulas/univariate/__init__.py: import outside the vocabulary: {ast.unparse(s)}')
    if sorted(n for n, _ in order) != sorted(FAM_CTOR) or dict(order) != dict(U.FAMILIES):
        raise Unsupported(f'copulas/univariate/__init__.py imports the classes {[n for n, _ in order]}')
    if not (isinstance(init.body[1] if isinstance(init.body[0], ast.Expr) else init.body[0], ast.ImportFrom)
            and (init.body[1] if isinstance(init.body[0], ast.Expr) else init.body[0]).module == 'copulas.univariate.base'):
        raise Unsupported('copulas/univariate/__init__.py: base is not imported first')
    base = _srcnorm.parse_file(os.path.join(UNI, 'base.py'))
    uni, scipy = U._find_class(base, 'Univariate'), U._find_class(base, 'ScipyModel')
    if [ast.unparse(b) for b in scipy.bases] != ['Univariate', 'ABC'] or U._imports(base).get('ABC') != 'abc.ABC':
        raise Unsupported('ScipyModel(Univariate, ABC) expected')
    others = [s.name for s in base.body if isinstance(s, ast.ClassDef) and s.name not in ('Univariate', 'ScipyModel')
              and any(ast.unparse(b) in ('Univariate', 'ScipyModel') for b in s.bases)]
    if others:
        raise Unsupported(f'base.py defines further subclasses {others}')
    par = {'PyUnivariate': _class_attr(uni, 'PARAMETRIC'), 'PyScipyModel': _class_attr(scipy, 'PARAMETRIC') or _class_attr(uni, 'PARAMETRIC')}
    bnd = {'PyUnivariate': _class_attr(uni, 'BOUNDED'), 'PyScipyModel': _class_attr(scipy, 'BOUNDED') or _class_attr(uni, 'BOUNDED')}
    for cname, fn in order:
        tree = _srcnorm.parse_file(os.path.join(UNI, fn))
        c = U._find_class(tree, cname)
        if [ast.unparse(b) for b in c.bases] != ['ScipyModel']:
            raise Unsupported(f'{cname}: bases')
        imp = U._imports(tree)
        if imp.get('ParametricType') != 'copulas.univariate.base.ParametricType' or imp.get('BoundedType') != 'copulas.univariate.base.BoundedType':
            raise Unsupported(f'{cname}: ParametricType / BoundedType are not those of base.py')
        for other in tree.body:
            if isinstance(other, ast.ClassDef) and other is not c:
                raise Unsupported(f'{fn} defines a second class {other.name}')
        key = f'PyFam {FAM_CTOR[cname]}'
        par[key] = _class_attr(c, 'PARAMETRIC') or par['PyScipyModel']
        bnd[key] = _class_attr(c, 'BOUNDED') or bnd['PyScipyModel']
    for k, v in list(par.items()):
        if v not in PTYPE:
            raise Unsupported(f'PARAMETRIC of {k} is {v}')
    for k, v in list(bnd.items()):
        if v not in BTYPE:
            raise Unsupported(f'BOUNDED of {k} is {v}')
    fams = '; '.join(f'PyFam {FAM_CTOR[n]}' for n, _ in order)
    out = ('(* cls.__subclasses__(): creation order = import order of copulas/univariate/__init__.py *)\n'
           'Definition gen_subclasses (c : pycls) : list pycls :=\n'
           f'  match c with PyUnivariate => [PyScipyModel] | PyScipyModel => [{fams}] | PyFam _ => [] end.\n'
           '(* ABC in cls.__bases__ *)\n'
           'Definition gen_has_ABC_base (c : pycls) : bool := match c with PyScipyModel => true | _ => false end.\n')
    for nm, tab, conv, ty in (('PARAMETRIC', par, PTYPE, 'ptype'), ('BOUNDED', bnd, BTYPE, 'btype')):
        rows = ' '.join(f'| {k if " " not in k else k} => {conv[v]}' for k, v in tab.items())
        out += f'Definition gen_{nm} (c : pycls) : {ty} :=\n  match c with {rows} end.\n'
    return out + '\n'


def select_candidates():
    base = _srcnorm.parse_file(os.path.join(UNI, 'base.py'))
    uni = U._find_class(base, 'Univariate')
    hits = [s for s in uni.body if isinstance(s, ast.FunctionDef) and s.name == '_select_candidates']
    if len(hits) != 1:
        raise Unsupported('_select_candidates: expected one definition')
    f = hits[0]
    where = 'Univariate._select_candidates'

    def bad(msg, node=None):
        raise Unsupported(f'{where}: {msg}' + (': ' + ast.unparse(node)[:90] if node is not None else ''))
    if [ast.unparse(d) for d in f.decorator_list] != ['classmethod']:
        bad('not a classmethod')
    a = f.args
    if [x.arg for x in a.args][1:] != ['parametric', 'bounded'] or len(a.defaults) != 2 or any(ast.unparse(d) != 'None' for d in a.defaults) \
            or a.vararg or a.kwarg or a.kwonlyargs:
        bad('signature')
    cls_ = a.args[0].arg
    b = U._body(f)
    if len(b) != 3 or not (isinstance(b[0], ast.Assign) and ast.unparse(b[0].value) == '[]' and isinstance(b[0].targets[0], ast.Name)):
        bad('expected `<acc> = []; for ..; return <acc>`')
    acc = b[0].targets[0].id
    loop, ret = b[1], b[2]
    if not (isinstance(ret, ast.Return) and isinstance(ret.value, ast.Name) and ret.value.id == acc):
        bad('the last statement does not return the accumulator', ret)
    if not (isinstance(loop, ast.For) and not loop.orelse and isinstance(loop.target, ast.Name)
            and ast.unparse(loop.iter) == f'{cls_}.__subclasses__()'):
        bad('the loop is not `for <name> in cls.__subclasses__()`', loop)
    sub = loop.target.id
    lines = []
    env_types = {'parametric': ('ptype', 'gen_PARAMETRIC', 'PARAMETRIC'), 'bounded': ('btype', 'gen_BOUNDED', 'BOUNDED')}
    closed = 0
    for st in loop.body:
        cm = f'    (* {_cmt(st)} *)'
        src = ast.unparse(st)
        if src == f'{acc}.extend({sub}._select_candidates(parametric, bounded))':
            lines.append(f'    let {_v(acc)} := {_v(acc)} ++ gen_Univariate__select_candidates_at fuel {_v(sub)} v_parametric v_bounded in{cm}')
            continue
        if src == f'{acc}.append({sub})':
            lines.append(f'    let {_v(acc)} := {_v(acc)} ++ [{_v(sub)}] in{cm}')
            continue
        if isinstance(st, ast.If) and not st.orelse and len(st.body) == 1 and isinstance(st.body[0], ast.Continue):
            t = st.test
            if ast.unparse(t) == f'ABC in {sub}.__bases__':
                c = f'gen_has_ABC_base {_v(sub)}'
            elif isinstance(t, ast.BoolOp) and isinstance(t.op, ast.And) and len(t.values) == 2:
                l, r = t.values
                ok = False
                for p, (ty, tab, attr) in env_types.items():
                    if ast.unparse(l) == f'{p} is not None' and ast.unparse(r) == f'{sub}.{attr} != {p}':
                        c = f'andb (py_is_not_none {_v(p)}) (py_ne_{ty} ({tab} {_v(sub)}) {_v(p)})'
                        ok = True
                if not ok:
                    bad('guard outside the vocabulary', st)
            else:
                bad('guard outside the vocabulary', st)
            lines.append(f'    if {c} then {_v(acc)} else{cm}')
            continue
        bad('statement outside the vocabulary', st)
    if not lines or not lines[-1].lstrip().startswith('let'):
        bad('the loop body does not end with an update of the accumulator')
    body = '\n'.join(lines)
    return ('(* Univariate._select_candidates (classmethod, recursive over the class tree: fuel = depth) *)\n'
            'Fixpoint gen_Univariate__select_candidates_at (fuel : nat) (v_cls : pycls) (v_parametric : option ptype) (v_bounded : option btype)\n'
            '  : list pycls :=\n  match fuel with O => [] | S fuel =>\n'
            f'  let {_v(acc)} := [] in    (* {_cmt(b[0])} *)\n'
            f'  py_for_acc (gen_subclasses v_cls) {_v(acc)} (fun {_v(sub)} {_v(acc)} =>    (* for {sub} in cls.__subclasses__(): *)\n'
            f'{body}\n    {_v(acc)})    (* {_cmt(ret)} *)\n  end.\n'
            '(* self._select_candidates(..) on a wrapper: cls = Univariate; the tree has depth 2 *)\n'
            'Definition gen_Univariate__select_candidates (v_parametric : option ptype) (v_bounded : option btype) : list cand :=\n'
            '  py_as_cands (gen_Univariate__select_candidates_at 3 PyUnivariate v_parametric v_bounded).\n\n')


TYPED = {'candidates': 'py_arg_cands', 'parametric': 'py_arg_ptype', 'bounded': 'py_arg_btype'}


def init():
    base = _srcnorm.parse_file(os.path.join(UNI, 'base.py'))
    uni = U._find_class(base, 'Univariate')
    imports = U._imports(base)
    hits = [s for s in uni.body if isinstance(s, ast.FunctionDef) and s.name == '__init__']
    if len(hits) != 1:
        raise Unsupported('Univariate.__init__: expected one definition')
    f = hits[0]
    where = 'Univariate.__init__'

    def bad(msg, node=None):
        raise Unsupported(f'{where}: {msg}' + (': ' + ast.unparse(node)[:90] if node is not None else ''))
    if [ast.unparse(d) for d in f.decorator_list] != ['store_args'] or imports.get('store_args') != 'copulas.utils.store_args':
        bad('not under exactly @store_args of copulas.utils')
    if imports.get('validate_random_state') != 'copulas.utils.validate_random_state':
        bad('validate_random_state is not the one of copulas.utils')
    a = f.args
    names = [x.arg for x in a.args]
    self_, params = names[0], names[1:]
    if a.vararg or a.kwarg or a.kwonlyargs or a.posonlyargs or len(a.defaults) != len(params) or any(ast.unparse(d) != 'None' for d in a.defaults):
        bad('signature (every parameter has to default to None)')
    lines = [f'  r_bind (py_bind_args [{"; ".join(_cs(p) for p in params)}] args kw) (fun b =>']
    close = 1
    ty = {}
    for p in params:
        if p in TYPED:
            lines.append(f'  r_bind ({TYPED[p]} (py_arg b {_cs(p)} py_None)) (fun {_v(p)} =>    (* typed view of the argument {p} *)')
            close += 1
            ty[p] = TYPED[p]
        else:
            lines.append(f'  let {_v(p)} := py_arg b {_cs(p)} py_None in')
            ty[p] = 'uarg'
    lines.append(f'  let {_v(self_)} := py_new_wrapper_object args kw in')
    seen = []
    for st in U._body(f):
        cm = f'    (* {_cmt(st)} *)'
        if not (isinstance(st, ast.Assign) and len(st.targets) == 1 and U._is_self_attr(st.targets[0], self_)):
            bad('statement outside the vocabulary (only self.<attr> = ..)', st)
        attr, v = st.targets[0].attr, st.value
        if attr in seen:
            bad('attribute assigned twice', st)
        seen.append(attr)
        if attr == 'candidates':
            if not (isinstance(v, ast.BoolOp) and isinstance(v.op, ast.Or) and len(v.values) == 2 and isinstance(v.values[0], ast.Name)
                    and ty.get(v.values[0].id) == 'py_arg_cands'):
                bad('candidates: expected `<candidates> or self._select_candidates(..)`', st)
            c = v.values[1]
            if not (isinstance(c, ast.Call) and ast.unparse(c.func) == f'{self_}._select_candidates' and not c.keywords and len(c.args) == 2
                    and all(isinstance(x, ast.Name) for x in c.args) and ty.get(c.args[0].id) == 'py_arg_ptype'
                    and ty.get(c.args[1].id) == 'py_arg_btype'):
                bad('candidates: the alternative is not self._select_candidates(<parametric>, <bounded>)', st)
            lines.append(f'  let {_v(self_)} := py_uset_candidates (py_cands_or {_v(v.values[0].id)} '
                         f'(gen_Univariate__select_candidates {_v(c.args[0].id)} {_v(c.args[1].id)})) {_v(self_)} in{cm}')
        elif attr == 'random_state':
            if not (isinstance(v, ast.Call) and ast.unparse(v.func) == 'validate_random_state' and not v.keywords and len(v.args) == 1
                    and isinstance(v.args[0], ast.Name) and ty.get(v.args[0].id) == 'uarg'):
                bad('random_state: expected validate_random_state(<argument>)', st)
            lines.append(f'  r_bind (py_validate_random_state {_v(v.args[0].id)}) (fun a =>{cm}')
            lines.append(f'  let {_v(self_)} := py_uset_random_state a {_v(self_)} in')
            close += 1
        elif attr == 'selection_sample_size':
            if not (isinstance(v, ast.Name) and ty.get(v.id) == 'uarg'):
                bad('selection_sample_size: expected the argument itself', st)
            lines.append(f'  r_bind (py_uset_selection_sample_size {_v(v.id)} {_v(self_)}) (fun {_v(self_)} =>{cm}')
            close += 1
        else:
            bad('attribute outside the vocabulary', st)
    if sorted(seen) != ['candidates', 'random_state', 'selection_sample_size']:
        bad(f'assigns {seen}')
    lines.append(f'  Ok {_v(self_)}' + ')' * close + '.')
    return ('(* Univariate.__init__ under @store_args: the call Univariate(args.., kw..) *)\n'
            'Definition gen_Univariate___init__ (args : list uarg) (kw : list (string * uarg)) : result uinst :=\n' + '\n'.join(lines) + '\n\n')


PARTS = ['gen_class_tree', 'gen_Univariate__select_candidates', 'gen_Univariate___init__']


def generate(status):
    out = HEADER3
    for name, fn, needs in (('gen_class_tree', class_tree, []), ('gen_Univariate__select_candidates', select_candidates, ['gen_class_tree']),
                            ('gen_Univariate___init__', init, ['gen_Univariate__select_candidates'])):
        try:
            bad = [n for n in needs if status.get(n) is not None]
            if bad:
                raise Unsupported(f'depends on {bad}')
            out += fn()
            status[name] = None
        except Exception as e:
            status[name] = f'{type(e).__name__}: {e}'
            out += f'(* {name}: UNSUPPORTED {U._P2C.comment_safe(status[name])} *)\n\n'
    return out


if __name__ == '__main__':
    st = {}
    print(generate(st)[len(HEADER3):])
    print(st)
