"""Correspondence for the 1-d plots of copulas/visualization.py (dist_1d, compare_1d): the real figure vs vm_compute of Model.Plot.

Cases: numpy arrays / lists / Series (named or not, default or labelled row index) / one- and two-column DataFrames / empty arrays of
NaN-free numbers, title given or not, label None / '' / a text.  Compared: exception kind (IndexError of the default-title code, an
exception raised inside create_distplot), or the figure - trace names in order, trace colours, the legend flag, the title (the
caller's text, or which name was formatted into the default text), and for every curve that it IS the density of the values the
model puts into that group: x grid = 500 steps over the range of the group the model names (t_xsrc), y = gaussian_kde(values)(x);
the objects handed to create_distplot are the caller's own objects (aliases, no copies), and they are bit-wise unchanged afterwards.

`plotly.figure_factory.create_distplot` is intercepted.  When the installed plotly still has it, the interceptor records the arguments
and calls it.  The plotly installed here (7.x) no longer has it - every call of dist_1d / compare_1d raises AttributeError (reported as a
finding in docs/plot1d_section.md; it is not a statement about the data shown) - and the interceptor then calls `reference_distplot`,
a transcription of plotly 5's create_distplot for show_hist=False, show_rug=False (validate_distplot, validate_equal_length, one
scatter trace per group over [min, max] in 500 steps, gaussian_kde), so that the rest of the library code (the re-alignment loop, the
layout) runs on a real plotly Figure.
"""
import re
import warnings

import numpy as np

from . import cases

NAMES = ['Data', 'a', 'b', 'c', 'd', 'e']          # column / Series name <-> nat of the model
VIEW = ('Definition view1d (r : perr1d + plot1d title1d) := match r with inl e => inl e | inr p => inr (p_title p, p_legend p, '
        'map (fun t => (t_label t, t_colour t, t_xsrc t, t_values t)) (p_traces p)) end.\n')


class PlotlyRefusal(Exception):
    """stands for plotly.exceptions.PlotlyError in the reference implementation"""


def reference_distplot(hist_data, group_labels, bin_size=1.0, curve_type='kde', colors=None, rug_text=None, histnorm='probability density',
                       show_hist=True, show_curve=True, show_rug=True):
    import pandas as pd
    import plotly.graph_objects as go
    from scipy import stats
    if show_hist or show_rug or not show_curve or curve_type != 'kde':
        raise NotImplementedError('reference_distplot: only show_hist=False, show_rug=False, curve_type="kde"')
    if not isinstance(hist_data[0], (list, np.ndarray, pd.Series)):                 # validate_distplot
        raise PlotlyRefusal('Oops, this function was written to handle multiple datasets, if you want to plot just one, make sure your '
                            'hist_data variable is still a list of lists')
    if len(hist_data) != len(group_labels):                                          # utils.validate_equal_length
        raise PlotlyRefusal('Oops! Your data lists or ndarrays should be the same length.')
    colors = colors or ['rgb(31, 119, 180)', 'rgb(255, 127, 14)', 'rgb(44, 160, 44)', 'rgb(214, 39, 40)', 'rgb(148, 103, 189)',
                        'rgb(140, 86, 75)', 'rgb(227, 119, 194)', 'rgb(127, 127, 127)', 'rgb(188, 189, 34)', 'rgb(23, 190, 207)']
    start = [min(tr) * 1.0 for tr in hist_data]
    end = [max(tr) * 1.0 for tr in hist_data]
    curves = []
    for i, tr in enumerate(hist_data):
        x = [start[i] + k * (end[i] - start[i]) / 500 for k in range(500)]
        y = stats.gaussian_kde(tr)(x)
        curves.append(dict(type='scatter', x=x, y=y, xaxis='x1', yaxis='y1', mode='lines', name=group_labels[i], legendgroup=group_labels[i],
                           showlegend=True, marker=dict(color=colors[i % len(colors)])))
    layout = go.Layout(barmode='overlay', hovermode='closest', legend=dict(traceorder='reversed'),
                       xaxis1=dict(domain=[0.0, 1.0], anchor='y2', zeroline=False), yaxis1=dict(domain=[0.0, 1], anchor='free', position=0.0))
    return go.Figure(data=curves, layout=layout)


class Intercept:
    """context manager: viz.ff.create_distplot records its arguments; .real tells whether plotly's own function ran"""

    def __enter__(self):
        import plotly.figure_factory as ff
        self.ff = ff
        self.orig = getattr(ff, 'create_distplot', None)
        self.real = self.orig is not None
        self.calls = []
        self.inside_error = None
        inner = self.orig or reference_distplot

        def create_distplot(*a, **kw):
            self.calls.append((a, kw))
            try:
                return inner(*a, **kw)
            except Exception as ex:      # noqa
                self.inside_error = ex
                raise
        ff.create_distplot = create_distplot
        return self

    def __exit__(self, *exc):
        if self.orig is None:
            del self.ff.create_distplot
        else:
            self.ff.create_distplot = self.orig
        return False


# ---------------------------------------------------------------------------------------------------------
# cases
# ---------------------------------------------------------------------------------------------------------
def gen_data(rng, kinds):
    kind = str(rng.choice(kinds))
    n = int(rng.integers(3, 9))
    while True:
        vals = [int(v) for v in rng.integers(-9, 10, size=n)]
        if len(set(vals)) >= 2:
            break
    d = {'kind': kind, 'values': vals}
    if kind.startswith('series'):
        d['name'] = None if rng.random() < 0.35 else str(rng.choice(NAMES[1:]))
    if kind in ('df1', 'df2'):
        cols = [str(c) for c in rng.permutation(NAMES[1:])[:1 if kind == 'df1' else 2]]
        d['columns'] = cols
        d['rows'] = [[v] + [int(rng.integers(-9, 10)) for _ in cols[1:]] for v in vals]
    if kind == 'df0':
        d['columns'], d['rows'], d['values'] = [], [], []
    if kind == 'empty':
        d['values'] = []
    return d


def gen_case(rng):
    fn = str(rng.choice(['dist', 'compare']))
    main = ['nd', 'list', 'series', 'series_idx', 'nd', 'series', 'series', 'list', 'series_idx', 'nd', 'df1', 'df2', 'empty', 'df0']
    c = {'fn': fn, 'title': None if rng.random() < 0.6 else ('' if rng.random() < 0.2 else 'T')}
    c['real'] = gen_data(rng, main)
    if fn == 'compare':
        c['synth'] = gen_data(rng, ['nd', 'list', 'series', 'series_idx', 'nd', 'series', 'list', 'series', 'nd', 'df1', 'empty'])
    else:
        c['label'] = [None, '', 'L', 'Real'][int(rng.integers(0, 4))]
    return c


def coq_str(s):
    return 'None' if s is None else '(Some [' + '; '.join(str(ord(ch)) for ch in s) + '])'


def coq_data(d):
    vs = '[' + '; '.join(f'({v})' for v in d['values']) + ']%Z'
    if d['kind'] in ('nd', 'list', 'empty'):
        return f'(D1Array {vs})'
    if d['kind'].startswith('series'):
        nm = 'None' if d['name'] is None else f'(Some {NAMES.index(d["name"])})'
        return f'(D1Series {nm} {vs})'
    ids = [NAMES.index(c) for c in d['columns']]
    rows = '; '.join('[' + '; '.join(f'({i}, ({v})%Z)' for i, v in zip(ids, r)) + ']' for r in d['rows'])
    return f'(D1Frame (mkFrame [{"; ".join(map(str, ids))}] [{rows}]))'


def coq_expr(c):
    if c['fn'] == 'dist':
        return f'view1d (dist_1d {coq_str(c["title"])} {coq_str(c["label"])} {coq_data(c["real"])})'
    return f'view1d (compare_1d {coq_str(c["title"])} {coq_data(c["real"])} {coq_data(c["synth"])})'


def parse_model(s):
    """inr (TDefault [1], true, [(GFixed Real, CDark, 0, [3; 1]%Z); ...])  /  inl Err1Plotly"""
    if s is None:
        return None
    m = re.match(r'inl (Err1\w+)', s)
    if m:
        return ('err', m.group(1))
    t = s.replace('%Z', '').replace('%nat', '')
    t = re.sub(r'\b(TGiven|GUser) \(Some (\[[^\]]*\])\)', r'("\1", ("some", \2))', t)
    t = re.sub(r'\b(TGiven|GUser) None', r'("\1", "None")', t)
    t = re.sub(r'\bTDefault (\[[^\]]*\])', r'("TDefault", \1)', t)
    t = re.sub(r'\bGFixed (Real|Synthetic)', r'("GFixed", "\1")', t)
    t = re.sub(r'\bCDefault (\d+)', r'("CDefault", \1)', t)
    t = re.sub(r'(?<!")\b(CDark|CGreen|true|false)\b(?!")', r'"\1"', t)
    t = re.sub(r'^inr ', '', t).replace(';', ',')
    try:
        import ast as _ast
        v = _ast.literal_eval(t)
    except Exception:      # noqa
        return ('unparsed', s[:300])

    def text(x):          # ("some", [codes]) | "None"
        return None if x == 'None' else ''.join(chr(i) for i in x[1])
    title, legend, traces = v
    if title[0] == 'TGiven':
        mt = ('given', text(title[1]))
    else:
        mt = ('default', [NAMES[i] for i in title[1]])
    out = []
    for lab, col, xsrc, vals in traces:
        name = lab[1] if lab[0] == 'GFixed' else text(lab[1])
        colour = col if isinstance(col, str) else f'CDefault{col[1]}'
        out.append((name, colour, xsrc, [int(z) for z in vals]))
    return ('ok', mt, legend == 'true', out)


def make_obj(d):
    import pandas as pd
    k = d['kind']
    if k in ('nd', 'empty'):
        return np.array(d['values'], dtype=float)
    if k == 'list':
        return [float(v) for v in d['values']]
    if k == 'series':
        return pd.Series(np.array(d['values'], dtype=float), name=d['name'])
    if k == 'series_idx':
        return pd.Series(np.array(d['values'], dtype=float), index=[f'r{i}' for i in range(len(d['values']))][::-1], name=d['name'])
    return pd.DataFrame(np.array(d['rows'], dtype=float).reshape(len(d['rows']), len(d['columns'])), columns=d['columns'])


def run_impl(c, model):
    """-> (outcome comparable with the model, list of problems, backend)"""
    from scipy import stats
    from copulas import visualization as viz
    from .props.C20 import snap
    objs = [make_obj(c['real'])] + ([make_obj(c['synth'])] if c['fn'] == 'compare' else [])
    before = [snap(o) for o in objs]
    kw = {} if c['title'] is None else {'title': c['title']}
    problems = []
    with Intercept() as ic:
        try:
            with warnings.catch_warnings():
                warnings.simplefilter('ignore')
                fig = viz.dist_1d(objs[0], label=c['label'], **kw) if c['fn'] == 'dist' else viz.compare_1d(objs[0], objs[1], **kw)
            out = None
        except IndexError as ex:
            fig, out = None, ('err', 'Err1Index' if ic.inside_error is None else 'Err1Plotly')
        except Exception as ex:      # noqa
            fig, out = None, ('err', 'Err1Plotly' if ic.inside_error is ex else f'Other:{type(ex).__name__}:{str(ex)[:80]}')
    if [snap(o) for o in objs] != before:
        problems.append("a caller's data object was modified")
    if ic.calls:
        a, k = ic.calls[0]
        hd = k.get('hist_data', a[0] if a else None)
        if not (isinstance(hd, list) and len(hd) == len(objs) and all(x is o for x, o in zip(hd, objs))):
            problems.append('hist_data is not the list of the caller\'s own objects, in order')
    if fig is None:
        return out, problems, ic.real
    dark, green = viz.PlotConfig.DATACEBO_DARK, viz.PlotConfig.DATACEBO_GREEN
    traces = []
    for t in fig.data:
        col = {dark: 'CDark', green: 'CGreen'}.get(t.marker.color, f'other:{t.marker.color}')
        traces.append((t.name, col))
    text = fig.layout.title.text
    if c['title']:
        mt = ('given', text)
    else:
        m = re.search(r" for column '(.*)'$", text or '')
        mt = ('default', [m.group(1)] if m else [])
    out = ('ok', mt, bool(fig.layout.showlegend), traces)
    # every curve IS the density of the values the model puts into that group, over the range of the group the model names
    if model and model[0] == 'ok' and len(model[3]) == len(fig.data):
        for t, (name, colour, xsrc, vals) in zip(fig.data, model[3]):
            src_vals = model[3][xsrc][3] if xsrc < len(model[3]) else []
            if not vals or not src_vals:
                problems.append('model group without values')
                continue
            lo, hi = float(min(src_vals)), float(max(src_vals))
            grid = np.array([lo + k * (hi - lo) / 500 for k in range(500)])
            x = np.asarray(t.x, dtype=float)
            if x.shape != grid.shape or not np.allclose(x, grid, rtol=0, atol=1e-9):
                problems.append(f'curve {t.name!r}: x grid is not the range of group {xsrc}')
                continue
            y = stats.gaussian_kde(np.array(vals, dtype=float))(x)
            if not np.allclose(np.asarray(t.y, dtype=float), y, rtol=1e-9, atol=1e-12):
                problems.append(f'curve {t.name!r}: y is not the density estimate of the values {vals}')
    return out, problems, ic.real


def comparable(model):
    if model is None or model[0] in ('err', 'unparsed'):
        return model
    return ('ok', model[1], model[2], [(n, col) for n, col, _, _ in model[3]])


def repro(c):
    return ('from vf.plot1dcorr import replay\n' f'replay({c!r})\n')


def replay(c):
    """used by the replay files: exit status 1 iff model and implementation disagree on the case (needs a compiled coq tree: the model's
    answer is not recomputed here; the implementation's figure is printed)"""
    import sys
    out, problems, real = run_impl(c, None)
    print('implementation:', out, '| problems:', problems, "| plotly's own create_distplot" if real else '| reference create_distplot')
    sys.exit(1 if problems else 0)


def run(ctx, seed, quick):
    prng = np.random.default_rng(seed + 2121)
    pcs = [gen_case(prng) for _ in range(40 if quick else 400)]
    # fixed cases: the smoke tests of the model and the shapes the random generator reaches rarely
    pcs += [{'fn': 'compare', 'title': None, 'real': {'kind': 'series', 'values': [3, 1, 4], 'name': 'a'}, 'synth': {'kind': 'nd', 'values': [2, 7]}},
            {'fn': 'compare', 'title': 'T', 'real': {'kind': 'nd', 'values': [2, 7]}, 'synth': {'kind': 'series', 'values': [3, 1, 4], 'name': 'a'}},
            {'fn': 'dist', 'title': None, 'label': None, 'real': {'kind': 'df1', 'values': [1, 2, 5], 'columns': ['b'], 'rows': [[1], [2], [5]]}},
            {'fn': 'dist', 'title': None, 'label': 'L', 'real': {'kind': 'df0', 'values': [], 'columns': [], 'rows': []}},
            {'fn': 'compare', 'title': None, 'real': {'kind': 'series_idx', 'values': [1, 2, 5], 'name': None},
             'synth': {'kind': 'df1', 'values': [1, 2, 5], 'columns': ['b'], 'rows': [[1], [2], [5]]}}]
    outs = cases.run_vm_cases(ctx, 'Cases_C20_plot1d', 'From Cop Require Import Model.Plot.', [coq_expr(c) for c in pcs], per_file=50,
                              hdr='From Coq Require Import List ZArith Bool Arith.\n{imports}\nImport ListNotations.\n', scope_open=VIEW)
    kinds, backend = {}, None
    for i, (c, o) in enumerate(zip(pcs, outs)):
        model = parse_model(o)
        try:
            out, problems, real = run_impl(c, model)
        except Exception as ex:      # noqa
            ctx.obligation(f'corr:plot1d{i}', False, 'harness', f'case={c}\n{type(ex).__name__}: {ex}')
            continue
        backend = real
        ok = model is not None and model[0] != 'unparsed' and comparable(model) == out and not problems
        key = out[1] if out[0] == 'err' else 'figure'
        kinds[key] = kinds.get(key, 0) + 1
        ctx.obligation(f'corr:plot1d{i}', ok, 'correspondence', f'case={c}\nmodel={model}\nimpl ={out}\nproblems={problems}')
        ctx.case(('plot1d', i), {'plot1d_case': c, 'outcome': out[1] if out[0] == 'err' else f'{len(out[3])} curves'}, nontrivial=out[0] == 'ok')
        if not ok:
            fn = 'dist_1d' if c['fn'] == 'dist' else 'compare_1d'
            if "a caller's data object was modified" in problems:
                ctx.violation(f'mutation:visualization.{fn}:data', f'{fn} modified the data object it was given', {'case': c, 'repro': repro(c)})
            ctx.violation(f'corr:plot-model:{fn}', f'Model.Plot and copulas.visualization disagree on {c}',
                          {'case': c, 'model': str(model)[:1500], 'impl': str(out)[:1500], 'problems': problems, 'repro': repro(c)})
    ctx.extra['plot1d_outcomes'] = kinds
    import plotly
    ctx.extra['plot1d_backend'] = "plotly's own create_distplot" if backend else \
        f'reference_distplot (plotly {plotly.__version__} has no figure_factory.create_distplot: dist_1d / compare_1d raise AttributeError as installed)'
    ctx.rule('1-d plots: random arrays / lists / Series (named or not, labelled row index) / one- and two-column DataFrames / empty arrays of 3-8 '
             'NaN-free integers-as-floats, title None / \'\' / given, label None / \'\' / text; dist_1d, compare_1d; exception kind, or trace names in order, '
             'colours, legend flag, title (given text / name formatted into the default), every curve = gaussian_kde of the model\'s group over the range of '
             'the group the model names, hist_data = the caller\'s own objects, objects bit-wise unchanged; compared with vm_compute of Model.Plot')
    if not backend:
        ctx.assumptions.append(f'1-d plots: plotly {plotly.__version__} has no plotly.figure_factory.create_distplot; the correspondence runs '
                               'copulas.visualization against tools/vf/plot1dcorr.py::reference_distplot (a transcription of plotly 5: list / ndarray / '
                               'Series only in first position, equal lengths, one gaussian_kde curve per group over [min, max] in 500 steps)')
