"""Correspondence cases evaluated inside Coq.

interval-certified goals:  |model(x) - impl_value| <= tol  proved by Interval (kernel-checked at Qed).
vm_compute cases:          Eval vm_compute of executable models, one printed line per case.
"""
import os
import re
from .core import frac

CASE_HDR = '''From Coq Require Import Reals List Bool Lra.
From Interval Require Import Tactic.
From Cop Require Import Lib.NumpyR Lib.CorrTac.
{imports}
Import ListNotations.
Open Scope R_scope.
'''


NOT_LOADABLE = re.compile(r'Cannot find a physical path|Cannot load|Unable to locate library|Compiled library .* makes inconsistent assumptions|'
                          r'The reference [\w\.]+ was not found in the current environment|Cannot find library|Syntax error')


def tol_for(y, rel=1e-7):
    return rel * (1.0 + abs(y))


def interval_goal(name, term, y, tol, unfolds, tactic='corr'):
    return (f'Lemma {name} : Rabs ({term} - {frac(y)}) <= {frac(tol)}.\n'
            f'Proof. unfold {", ".join(unfolds)}. {tactic}. Qed.\n')


def run_interval_cases(ctx, prefix, imports, goals, per_file=20, timeout=900):
    """goals: list of dicts {term, y, tol, unfolds, meta}.  Returns list of (goal, error) that failed."""
    if not goals:
        return []
    files = []
    for k in range(0, len(goals), per_file):
        chunk = goals[k:k + per_file]
        txt = CASE_HDR.format(imports=imports)
        for j, g in enumerate(chunk):
            txt += interval_goal(f'case_{k + j}', g['term'], g['y'], g['tol'], g['unfolds'], g.get('tactic', 'corr'))
        rel = f'{prefix}_{k // per_file}.v'
        ctx.write(rel, txt)
        files.append((rel, chunk, k))
    res = ctx.compile_parallel([f[0] for f in files], timeout=timeout)
    failed = []
    retry = []
    for (rel, chunk, k), r in zip(files, res):
        if r['ok']:
            for j, g in enumerate(chunk):
                ctx.obligations.append({'name': f'{rel}:case_{k + j}', 'ok': True, 'kind': 'correspondence'})
        else:
            retry.append((rel, chunk, k))
    # isolate failing goals: one file per goal
    single = []
    for rel, chunk, k in retry:
        for j, g in enumerate(chunk):
            r1 = f'{prefix}_single_{k + j}.v'
            ctx.write(r1, CASE_HDR.format(imports=imports) +
                      interval_goal(f'case_{k + j}', g['term'], g['y'], g['tol'], g['unfolds'], g.get('tactic', 'corr')))
            single.append((r1, g, k + j))
    unloadable = []
    if single:
        res = ctx.compile_parallel([s[0] for s in single], timeout=timeout)
        for (r1, g, idx), r in zip(single, res):
            if r['ok']:
                ctx.obligations.append({'name': f'{prefix}:case_{idx}', 'ok': True, 'kind': 'correspondence'})
            else:
                err = '\n'.join(l for l in (r['err'] or r['out']).split('\n') if 'Warning' not in l)[-600:]
                if r['rc'] == 124:
                    err = 'TIMEOUT ' + err
                if NOT_LOADABLE.search(err):
                    # the generated model itself could not be loaded (a broken translation upstream): that is already a failed
                    # obligation of its own; a goal that cannot even be stated is not a disagreement between model and implementation
                    if not unloadable:
                        ctx.obligations.append({'name': f'{prefix}:model-not-loadable', 'ok': False, 'kind': 'correspondence', 'detail': err})
                    unloadable.append(idx)
                    continue
                ctx.obligations.append({'name': f'{prefix}:case_{idx}', 'ok': False, 'kind': 'correspondence',
                                        'detail': f"{g.get('meta')}: {err}"})
                failed.append((g, err))
    return failed


VM_HDR = '''From Coq Require Import List ZArith QArith Bool String.
{imports}
Import ListNotations.
'''


def run_vm_cases(ctx, prefix, imports, exprs, per_file=200, timeout=900, hdr=VM_HDR, scope_open=''):
    """exprs: list of Coq expressions; each is evaluated with vm_compute and printed on one line.
    Returns list of result strings (None where evaluation failed)."""
    files = []
    for k in range(0, len(exprs), per_file):
        chunk = exprs[k:k + per_file]
        txt = hdr.format(imports=imports) + scope_open + '\nSet Printing Width 1000000.\nSet Printing Depth 1000000.\n'
        for j, e in enumerate(chunk):
            txt += f'Definition vfcase_{k + j} := Eval vm_compute in ({e}).\nPrint vfcase_{k + j}.\n'
        rel = f'{prefix}_{k // per_file}.v'
        ctx.write(rel, txt)
        files.append((rel, k, len(chunk)))
    res = ctx.compile_parallel([f[0] for f in files], timeout=timeout)
    out = [None] * len(exprs)
    for (rel, k, n), r in zip(files, res):
        if not r['ok']:
            err = '\n'.join(l for l in (r['err'] or r['out']).split('\n') if 'Warning' not in l)[-800:]
            ctx.obligation(f'{rel}:vm_compute', False, 'correspondence', err)
            continue
        for m in re.finditer(r'vfcase_(\d+) =\s*(.*?)\n\s*:\s', r['out'] + '\n : ', re.S):
            out[int(m.group(1))] = ' '.join(m.group(2).split())
    return out
