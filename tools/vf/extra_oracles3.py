"""Round-6 oracles (witness search on the real library; every oracle has a replay entry point that returns None or a description).

Mechanisms asked for in round 6 of the seeded changes:
  * ownership of returned / stored objects: an array a query returned earlier must not change when later queries run; a model
    must not move when the caller edits a constructor argument or the dict given to from_dict AFTER the call that consumed it;
    editing an attribute a model hands out (the candidate list of a default `Univariate`) must not reach OTHER models;
  * failure paths: a query or a fit that raises must not change what later valid calls on the same or another object return;
  * ambient conditions: `np.errstate(all='raise')` and `warnings.simplefilter('error')` active in the caller - a call that returns
    a value under numpy's default settings returns the same value (calls that legitimately trap there are listed, with the reason);
  * unusual but legal containers: pandas objects with a non-default / permuted / duplicated index, 0-d arrays and numpy scalars
    as constructor options.
"""
import contextlib
import warnings

import numpy as np


# ----------------------------------------------------------------------------------------------------------------------
# ambient conditions
# ----------------------------------------------------------------------------------------------------------------------
@contextlib.contextmanager
def _warnings_as_errors():
    with warnings.catch_warnings():
        warnings.simplefilter('error')
        yield


@contextlib.contextmanager
def _errstate_raise():
    with np.errstate(all='raise'):
        yield


@contextlib.contextmanager
def _default_ambient():
    with warnings.catch_warnings():
        warnings.simplefilter('ignore')
        with np.errstate(divide='warn', over='warn', under='ignore', invalid='warn'):
            yield


AMBIENTS = {'errstate-raise': _errstate_raise, 'warnings-error': _warnings_as_errors}


def _canon(v):
    if isinstance(v, dict):
        return ('dict', tuple((k, _canon(x)) for k, x in sorted(v.items(), key=lambda kv: str(kv[0]))))
    if isinstance(v, (list, tuple)):
        return ('seq', tuple(_canon(x) for x in v))
    try:
        a = np.asarray(v, dtype=float)
        return ('num', a.shape, tuple(np.round(a.ravel(), 12).tolist()) if a.size < 4000 else float(np.nansum(a)))
    except Exception:
        return ('repr', repr(v)[:200])


def _outcome(thunk, ambient):
    try:
        with ambient():
            return ('ok', thunk())
    except Exception as ex:
        return ('err', type(ex).__name__, str(ex)[:100])


def _close(a, b, rtol=1e-10):
    if type(a) is not type(b):
        return False
    if isinstance(a, dict):
        return a.keys() == b.keys() and all(_close(a[k], b[k], rtol) for k in a)
    if isinstance(a, (list, tuple)):
        return len(a) == len(b) and all(_close(x, y, rtol) for x, y in zip(a, b))
    try:
        x, y = np.asarray(a, dtype=float), np.asarray(b, dtype=float)
        return x.shape == y.shape and bool(np.allclose(x, y, rtol=rtol, atol=1e-300, equal_nan=True))
    except Exception:
        return repr(a) == repr(b)


def ambient_compare(thunk, traps=()):
    """thunk builds everything it needs (fresh objects) and returns plain numbers / arrays / dicts.  `traps` lists the ambients under
    which the PRISTINE library is known to trap on this call (a floating-point event that is part of the computation as written);
    there the ambient run may raise FloatingPointError / a Warning instead, but may not return another value."""
    ref = _outcome(thunk, _default_ambient)
    for name, amb in AMBIENTS.items():
        got = _outcome(thunk, amb)
        if ref[0] == 'err':
            if got[0] != 'err':
                return (f'under {name} the call returns {str(got[1])[:120]} although it is refused ({ref[1]}: {ref[2]}) under numpy\'s default '
                        'settings')
            continue
        if got[0] == 'err':
            if name in traps and got[1] in ('FloatingPointError', 'RuntimeWarning', 'UserWarning', 'DeprecationWarning', 'FutureWarning', 'IntegrationWarning', 'OptimizeWarning'):
                continue
            return f'under {name} the call raises {got[1]}: {got[2]}; under numpy\'s default settings it returns {str(ref[1])[:120]}'
        if not _close(ref[1], got[1]):
            return f'under {name} the call returns {str(got[1])[:160]}; under numpy\'s default settings it returns {str(ref[1])[:160]}'
    return None


def _run_oracles(ctx, prefix, key_prefix, cases, module='extra_oracles3'):
    """cases: list of (case id tuple, replay function name, args tuple)"""
    for cid, fname, args in cases:
        ctx.case((prefix,) + tuple(cid), {'oracle': prefix, 'case': list(map(str, cid))})
        try:
            why = globals()[fname](*args)
        except Exception as ex:
            why = f'oracle raised {type(ex).__name__}: {str(ex)[:160]}'
        name = ':'.join(map(str, cid))
        ctx.obligation(f'oracle:{prefix}:{name}', why is None, 'correspondence', why or '')
        if why:
            ctx.violation(f'{key_prefix}:{name}', why,
                          {'case': list(map(str, cid)),
                           'repro': (f'from vf.{module} import {fname}\nwhy = {fname}(*{args!r})\nprint(why)\nassert why is None\n')})


# ----------------------------------------------------------------------------------------------------------------------
# bivariate copulas (C06 - C10)
# ----------------------------------------------------------------------------------------------------------------------
_BIV_THETAS = {'clayton': [2.0], 'frank': [-4.0, 0.6, 6.0], 'gumbel': [1.3, 3.0]}


def _biv_batch(meth):
    if meth == 'cumulative_distribution':      # C06's domain includes the boundary
        return np.array([[0.2, 0.7], [0.0, 0.4], [0.6, 0.0], [1.0, 0.3], [0.8, 1.0], [0.5, 0.5], [0.0, 0.0], [1.0, 1.0], [0.31, 0.92]])
    return np.array([[0.2, 0.7], [0.01, 0.4], [0.6, 0.02], [0.97, 0.3], [0.8, 0.99], [0.5, 0.5], [0.31, 0.92], [0.66, 0.13]])


def _biv_call(o, meth, X):
    if meth == 'percent_point':
        return np.asarray(o.percent_point(X[:, 0].copy(), X[:, 1].copy()), dtype=float)
    if meth == 'sample':
        o.set_random_state(23)
        return np.asarray(o.sample(7), dtype=float)
    return np.asarray(getattr(o, meth)(X.copy()), dtype=float)


def biv_ambient_replay(fam, th, meth):
    from .extra_oracles import _biv_new
    X = _biv_batch(meth)
    # Gumbel's CDF takes log(u) of the boundary rows as written (log 0 = -inf, exp(-inf) = 0): with all='raise' that traps
    traps = ('errstate-raise', 'warnings-error') if (fam, meth) == ('gumbel', 'cumulative_distribution') else ()
    return ambient_compare(lambda: _biv_call(_biv_new(fam, th), meth, X).tolist(), traps)


def biv_ambient(ctx, methods):
    cases = [((fam, th, meth), 'biv_ambient_replay', (fam, th, meth)) for fam, ths in _BIV_THETAS.items() for th in ths for meth in methods]
    _run_oracles(ctx, 'ambient', 'search:ambient-condition-changes-result', cases)


def biv_failed_query_replay(fam, th, meth):
    """malformed arguments to `meth` (they must raise or be ignored), then every method and to_dict answer as before"""
    from .extra_oracles import _biv_new
    import pandas as pd
    o = _biv_new(fam, th)
    X = _biv_batch('probability_density')
    meths = ['cumulative_distribution', 'probability_density', 'log_probability_density', 'partial_derivative', 'percent_point']

    def snap(obj):
        with _default_ambient():
            return {m: _biv_call(obj, m, X) for m in meths} | {'to_dict': obj.to_dict()}
    before = snap(o)
    bad = [np.array([0.3, 0.4, 0.5]), np.array([[0.3], [0.4]]), np.array([[0.1, 0.2, 0.3]]), [[0.2, 0.3], [0.4]], pd.DataFrame({'a': [0.2, 0.4], 'b': [0.3, 0.9]}),
           None, 'abc', np.array([['a', 'b']]), np.zeros((0, 2)), np.array([[0.2, 0.3]], dtype=object)]
    for b in bad:
        try:
            with _default_ambient():
                if meth == 'percent_point':
                    o.percent_point(b, b)
                else:
                    getattr(o, meth)(b)
        except BaseException:
            pass
    after = snap(o)
    for m in before:
        if not _close(before[m], after[m], rtol=1e-12):
            return (f'{fam} theta={th}: after {meth} was called with malformed arguments (1-d, one column, three columns, ragged, frame, None, str, '
                    f'empty, object dtype), {m} answers {str(after[m])[:120]} instead of {str(before[m])[:120]}')
    return None


def biv_failed_query(ctx, methods):
    cases = [((fam, th, meth), 'biv_failed_query_replay', (fam, th, meth)) for fam, ths in _BIV_THETAS.items() for th in (ths[0], ths[-1])[:len(set(ths))]
             for meth in methods if meth != 'sample']
    _run_oracles(ctx, 'failed-query', 'search:failed-query-changes-model', cases)


def biv_results_owned_replay(fam, th, meth):
    """a returned array belongs to the caller: later calls (same length, other arguments; same or another instance) do not change it,
    and writing into it does not change what the model answers"""
    from .extra_oracles import _biv_new
    X1 = _biv_batch(meth)
    X2 = X1[::-1].copy() * 0.9 + 0.03
    with _default_ambient():
        o = _biv_new(fam, th)
        r1 = _biv_call(o, meth, X1) if meth != 'sample' else None
        if meth == 'percent_point':
            raw1 = o.percent_point(X1[:, 0].copy(), X1[:, 1].copy())
        elif meth == 'sample':
            o.set_random_state(23)
            raw1 = o.sample(8)
            r1 = np.array(raw1, dtype=float)
        else:
            raw1 = getattr(o, meth)(X1.copy())
        keep = np.array(raw1, dtype=float)
        other = _biv_new(fam, th)
        for obj in (o, other):
            if meth == 'percent_point':
                raw2 = obj.percent_point(X2[:, 0].copy(), X2[:, 1].copy())
            elif meth == 'sample':
                raw2 = obj.sample(8)
            else:
                raw2 = getattr(obj, meth)(X2.copy())
            if raw2 is raw1:
                return f'{fam} theta={th}: two {meth} calls returned ONE array object'
            if not np.array_equal(np.asarray(raw1, dtype=float), keep, equal_nan=True):
                return (f'{fam} theta={th}: the array returned by {meth} changed when {meth} was called again (on '
                        f'{"the same" if obj is o else "another"} instance): {keep.tolist()[:4]} -> {np.asarray(raw1, dtype=float).tolist()[:4]}')
        if meth != 'sample' and isinstance(raw1, np.ndarray) and raw1.flags.writeable:
            raw1[...] = -7.0
            again = _biv_call(o, meth, X1)
            if not np.array_equal(again, r1, equal_nan=True):
                return f'{fam} theta={th}: writing into the array {meth} returned changes what {meth} answers for the same points'
    return None


def biv_results_owned(ctx, methods):
    cases = [((fam, ths[-1], meth), 'biv_results_owned_replay', (fam, ths[-1], meth)) for fam, ths in _BIV_THETAS.items() for meth in methods]
    _run_oracles(ctx, 'results-owned', 'search:returned-array-not-owned-by-caller', cases)


def biv_refused_refit_replay(fam, kind):
    """fit good data; a re-fit that is REFUSED (kind) must leave an object that either declares itself unusable or still pairs theta
    with its own tau; a second attempt with the same table is refused again"""
    from copulas.bivariate import Bivariate
    from scipy.stats import norm
    from .props.C10 import consistent_pair
    rs = np.random.RandomState(31)
    good = norm.cdf(rs.multivariate_normal([0, 0], [[1, .6], [.6, 1]], 80))
    neg = np.column_stack([good[:, 0], 1.0 - good[:, 1]])
    bad = {'above-one': np.vstack([neg[:40], [[0.5, 1.7]], neg[40:]]),
           'below-zero': np.vstack([neg[:40], [[-0.3, 0.5]], neg[40:]]),
           'negative-dependence': neg,
           'nan': np.vstack([neg[:10], [[np.nan, 0.5]], neg[10:]])}[kind]
    c = Bivariate(copula_type=fam)
    with _default_ambient():
        c.fit(good)
        outs = []
        for _ in range(2):
            try:
                c.fit(bad.copy())
                outs.append('accepted')
            except ValueError:
                outs.append('refused')
            except Exception as ex:
                outs.append(type(ex).__name__)
            why = consistent_pair(c)
            if why:
                return f'{fam}: fit(good data); fit({kind} table) -> {outs[-1]}; now {why}'
    if outs[0] == 'refused' and outs[1] != 'refused':
        return f'{fam}: fit({kind} table) is refused the first time and {outs[1]} when the same table is given again'
    if kind in ('above-one', 'below-zero') and outs[0] != 'refused':
        return f'{fam}: fit accepted a table with a value outside [0, 1] ({outs[0]})'
    return None


def biv_refused_refit(ctx):
    cases = [((fam, kind), 'biv_refused_refit_replay', (fam, kind)) for fam in ('clayton', 'frank', 'gumbel')
             for kind in ('above-one', 'below-zero', 'negative-dependence', 'nan')]
    _run_oracles(ctx, 'refused-refit', 'search:refused-refit-leaves-inconsistent-model', cases)


def biv_fit_ambient_replay(fam, kind):
    """fit outcome (tau, theta | refusal) under the ambient conditions.  `nonuniform-then-outside`: first column inside [0, 1] but visibly
    non-uniform (the library warns), second column with a value outside [0, 1] (the library must refuse whatever the warning filter)"""
    from copulas.bivariate import Bivariate
    from scipy.stats import norm
    rs = np.random.RandomState(37)
    good = norm.cdf(rs.multivariate_normal([0, 0], [[1, .5], [.5, 1]], 90))
    X = {'good': good,
         'nonuniform-then-outside': np.column_stack([good[:, 0] ** 4, np.r_[good[:-1, 1], 1.7]]),
         'nonuniform-then-below': np.column_stack([good[:, 0] ** 4, np.r_[good[:-1, 1], -0.3]]),
         'nonuniform': np.column_stack([good[:, 0] ** 4, good[:, 1] ** 3])}[kind]

    def thunk():
        c = Bivariate(copula_type=fam)
        c.fit(X.copy())
        return [float(c.tau), float(c.theta)]
    # a visibly non-uniform margin makes check_marginal WARN: with warnings as errors that warning legitimately stops the fit
    return ambient_compare(thunk, traps=('warnings-error',) if kind == 'nonuniform' else ())


def biv_fit_ambient(ctx):
    cases = [((fam, kind), 'biv_fit_ambient_replay', (fam, kind)) for fam in ('clayton', 'frank', 'gumbel')
             for kind in ('good', 'nonuniform-then-outside', 'nonuniform-then-below', 'nonuniform')]
    _run_oracles(ctx, 'fit-ambient', 'search:ambient-condition-changes-fit', cases)


# ----------------------------------------------------------------------------------------------------------------------
# univariates (C03, C04) and the Gaussian copula (C01, C02, C05)
# ----------------------------------------------------------------------------------------------------------------------
def _uni_data():
    rs = np.random.RandomState(43)
    return np.abs(rs.normal(3.0, 1.0, 70)) + 0.3


def _uni_classes():
    from copulas import univariate as U
    return {'GaussianUnivariate': lambda: U.GaussianUnivariate(), 'UniformUnivariate': lambda: U.UniformUnivariate(), 'GammaUnivariate': lambda: U.GammaUnivariate(),
            'BetaUnivariate': lambda: U.BetaUnivariate(), 'StudentTUnivariate': lambda: U.StudentTUnivariate(), 'TruncatedGaussian': lambda: U.TruncatedGaussian(),
            'GaussianKDE': lambda: U.GaussianKDE(), 'LogLaplace': lambda: U.LogLaplace(),
            'Univariate': lambda: U.Univariate(candidates=[U.GaussianKDE, U.GaussianUnivariate]),
            'from_dict(GaussianKDE)': lambda: None}


def _uni_fitted(cname):
    from copulas import univariate as U
    if cname == 'from_dict(GaussianKDE)':
        m = U.GaussianKDE()
        m.fit(_uni_data())
        return U.Univariate.from_dict(m.to_dict())
    m = _uni_classes()[cname]()
    m.fit(_uni_data())
    return m


def uni_results_owned_replay(cname, meth):
    xs1 = np.linspace(0.8, 6.0, 9)
    xs2 = np.linspace(1.1, 5.2, 9)
    if meth == 'percent_point':
        xs1, xs2 = np.linspace(0.05, 0.95, 9), np.linspace(0.12, 0.88, 9)
    with _default_ambient():
        m = _uni_fitted(cname)
        raw1 = getattr(m, meth)(xs1.copy())
        keep = np.array(raw1, dtype=float)
        raw2 = getattr(m, meth)(xs2.copy())
        if raw2 is raw1:
            return f'{cname}: two {meth} calls of the same length returned ONE array object (F(b) - F(a) computed from them is 0)'
        if not np.array_equal(np.asarray(raw1, dtype=float), keep, equal_nan=True):
            return f'{cname}: the array returned by {meth} changed when {meth} was called again: {keep.tolist()[:3]} -> {np.asarray(raw1, dtype=float).tolist()[:3]}'
        if isinstance(raw1, np.ndarray) and raw1.flags.writeable:
            raw1[...] = -7.0
            again = np.asarray(getattr(m, meth)(xs1.copy()), dtype=float)
            if not np.allclose(again, keep, rtol=1e-12, atol=0, equal_nan=True):
                return f'{cname}: writing into the array {meth} returned changes what {meth} answers for the same points'
    return None


def uni_results_owned(ctx):
    cases = [((c, m), 'uni_results_owned_replay', (c, m)) for c in ('GaussianKDE', 'GaussianUnivariate', 'TruncatedGaussian', 'Univariate', 'from_dict(GaussianKDE)')
             for m in ('cumulative_distribution', 'probability_density', 'percent_point')]
    _run_oracles(ctx, 'results-owned', 'search:returned-array-not-owned-by-caller', cases)


def uni_containers_replay(cname, meth):
    """the same numbers in a list, a float32 array, a strided view, a read-only array, a Series with default / permuted / string / duplicated
    index: the i-th output belongs to the i-th input"""
    import pandas as pd
    xs = np.array([4.4, 1.2, 3.3, 2.1, 5.0, 2.7, 3.9])
    if meth == 'percent_point':
        xs = np.array([0.62, 0.07, 0.41, 0.2, 0.93, 0.3, 0.77])
    n = len(xs)
    wide = np.empty((n, 3))
    wide[:, 1] = xs
    ro = xs.copy()
    ro.setflags(write=False)
    conts = {'list': list(xs), 'strided-view': wide[:, 1], 'read-only': ro, 'series-default-index': pd.Series(xs.copy()),
             'series-permuted-index': pd.Series(xs.copy(), index=[3, 0, 6, 1, 5, 2, 4]), 'series-string-index': pd.Series(xs.copy(), index=list('gfedcba')),
             'series-duplicated-index': pd.Series(xs.copy(), index=[0, 0, 1, 1, 2, 2, 3]), 'series-shifted-index': pd.Series(xs.copy(), index=range(100, 100 + n))}
    with _default_ambient():
        m = _uni_fitted(cname)
        ref = np.asarray(getattr(m, meth)(xs.copy()), dtype=float)
        for cn, c in conts.items():
            try:
                got = np.asarray(getattr(m, meth)(c), dtype=float)
            except Exception as ex:
                if cn == 'list':
                    continue            # a plain list is not promised
                return f'{cname}.{meth} raises {type(ex).__name__} ({str(ex)[:60]}) for the points given as {cn}; as an ndarray it answers'
            if got.shape != ref.shape or not np.allclose(got, ref, rtol=1e-9, atol=1e-12, equal_nan=True):
                return f'{cname}.{meth} with the points given as {cn} returns {got.tolist()}; as an ndarray {ref.tolist()}'
    return None


def uni_containers(ctx):
    cases = [((c, m), 'uni_containers_replay', (c, m)) for c in ('GaussianKDE', 'GaussianUnivariate', 'TruncatedGaussian', 'GammaUnivariate', 'Univariate')
             for m in ('cumulative_distribution', 'probability_density', 'percent_point')]
    _run_oracles(ctx, 'containers', 'search:result-depends-on-container', cases)


def kde_late_binding_replay(kind):
    """what the KDE is built from is fixed when fit / from_dict returns: editing the caller's weights array, the dict given to from_dict or
    the dict returned by to_dict afterwards does not move the model"""
    from copulas.univariate import GaussianKDE, Univariate
    data = _uni_data()[:40]
    pts = np.linspace(0.5, 6.0, 11)
    with _default_ambient():
        if kind == 'weights-after-fit':
            w = np.linspace(1.0, 3.0, len(data))
            ref = GaussianKDE(weights=w.copy())
            ref.fit(data.copy())
            want = np.asarray(ref.probability_density(pts), dtype=float)
            m = GaussianKDE(weights=w)
            m.fit(data.copy())
            w[:] = w[::-1] ** 3
            got = np.asarray(m.probability_density(pts), dtype=float)
            what = 'the weights array given to the constructor was edited after fit, before the first query'
        elif kind in ('from_dict-input', 'to_dict-output'):
            src = GaussianKDE()
            src.fit(data.copy())
            want = np.asarray(src.probability_density(pts), dtype=float)
            d = src.to_dict()
            if kind == 'from_dict-input':
                m = Univariate.from_dict(d)
                what = 'the dict given to from_dict was edited afterwards, before the first query'
            else:
                m = src
                what = 'the dict returned by to_dict was edited'
            for k, v in list(d.items()):
                if isinstance(v, list):
                    for i in range(len(v)):
                        v[i] = float(v[i]) * 2.0 + 1.0
                elif isinstance(v, np.ndarray):
                    v *= 2.0
            got = np.asarray(m.probability_density(pts), dtype=float)
            cdf = np.asarray(m.cumulative_distribution(pts), dtype=float)
            ref_cdf = GaussianKDE()
            ref_cdf.fit(data.copy())
            if not np.allclose(cdf, np.asarray(ref_cdf.cumulative_distribution(pts), dtype=float), rtol=1e-9, atol=1e-12):
                return f'GaussianKDE: {what}; cumulative_distribution moved'
        else:
            raise ValueError(kind)
    if not np.allclose(got, want, rtol=1e-9, atol=1e-12):
        return f'GaussianKDE: {what}; probability_density moved from {want.tolist()[:3]} to {got.tolist()[:3]}'
    return None


def kde_late_binding(ctx):
    cases = [((k,), 'kde_late_binding_replay', (k,)) for k in ('weights-after-fit', 'from_dict-input', 'to_dict-output')]
    _run_oracles(ctx, 'kde-late-binding', 'search:model-follows-caller-object-edited-later', cases)


def truncated_bound_kinds_replay(kind):
    """user bounds given as a Python int, numpy scalars of several widths or 0-d arrays are honoured like floats"""
    from copulas.univariate import TruncatedGaussian
    rs = np.random.RandomState(47)
    data = np.clip(rs.normal(5.0, 2.5, 300), 0.05, 9.95)
    mk = {'python-int': int, 'np.float64': np.float64, 'np.float32': np.float32, 'np.int64': np.int64, '0-d-array': lambda v: np.array(float(v)),
          '0-d-int-array': lambda v: np.asarray(int(v))}[kind]
    with _default_ambient():
        ref = TruncatedGaussian(minimum=0.0, maximum=10.0)
        ref.fit(data.copy())
        m = TruncatedGaussian(minimum=mk(0), maximum=mk(10))
        m.fit(data.copy())
        qs = np.array([0.0, 1e-6, 0.5, 1 - 1e-6, 1.0])
        a, b = np.asarray(ref.percent_point(qs), dtype=float), np.asarray(m.percent_point(qs), dtype=float)
        xs = np.array([0.01, 0.03, 5.0, 9.97, 9.99])
        pa, pb = np.asarray(ref.probability_density(xs), dtype=float), np.asarray(m.probability_density(xs), dtype=float)
    if not np.allclose(a, b, rtol=1e-6, atol=1e-9) or not np.allclose(pa, pb, rtol=1e-6, atol=1e-12):
        return (f'TruncatedGaussian(minimum=0, maximum=10) with the bounds given as {kind}: percent_point([0, 1e-6, .5, 1-1e-6, 1]) = {b.tolist()}, density near the '
                f'bounds {pb.tolist()}; with float bounds {a.tolist()} and {pa.tolist()} (the user bounds are not honoured)')
    return None


def truncated_bound_kinds(ctx):
    cases = [((k,), 'truncated_bound_kinds_replay', (k,)) for k in ('python-int', 'np.float64', 'np.float32', 'np.int64', '0-d-array', '0-d-int-array')]
    _run_oracles(ctx, 'truncated-bound-kinds', 'search:user-bounds-not-honoured:truncated', cases)


def default_candidates_shared_replay():
    """the candidate list a default Univariate hands out belongs to that object: editing it in place does not reach models built later"""
    from copulas.multivariate import GaussianMultivariate
    from copulas.univariate import Univariate
    with _default_ambient():
        first = Univariate()
        names0 = sorted(getattr(c, '__name__', type(c).__name__) for c in first.candidates)
        second = Univariate()
        if second.candidates is first.candidates:
            return 'two default Univariate() objects share ONE candidates list object'
        del first.candidates[1:]
        third = Univariate()
        names3 = sorted(getattr(c, '__name__', type(c).__name__) for c in third.candidates)
        if names3 != names0:
            return (f'after `del u.candidates[1:]` on one default Univariate, a NEW Univariate() has the candidates {names3} instead of {names0}')
        for kw in ({'parametric': 'PARAMETRIC'}, {'bounded': 'BOUNDED'}):
            from copulas.univariate import BoundedType, ParametricType
            k = {'parametric': ParametricType.PARAMETRIC} if 'parametric' in kw else {'bounded': BoundedType.BOUNDED}
            a = Univariate(**k)
            n_a = sorted(c.__name__ for c in a.candidates)
            a.candidates.clear()
            b = Univariate(**k)
            if sorted(c.__name__ for c in b.candidates) != n_a:
                return f'after clearing the candidates of one Univariate({kw}), a new one has {sorted(c.__name__ for c in b.candidates)} instead of {n_a}'
        rs = np.random.RandomState(3)
        import pandas as pd
        T = pd.DataFrame({'g': rs.gamma(2.0, 2.0, 400), 'u': rs.uniform(0, 1, 400)})
        gm = GaussianMultivariate()
        np.random.seed(0)
        gm.fit(T)
        fams = [u['type'] for u in gm.to_dict()['univariates']]
        if all(f.endswith('GaussianUnivariate') for f in fams):
            return f'after the edits above a default GaussianMultivariate models a gamma and a uniform column as {fams}'
    return None


def default_candidates_shared(ctx):
    _run_oracles(ctx, 'default-candidates', 'search:default-candidates-shared-between-models', [(('in-place-edit',), 'default_candidates_shared_replay', ())])


def fit_row_index_replay(config, index_kind):
    """GaussianMultivariate / Univariate fit depends on the VALUES of the table, not on its row labels"""
    import pandas as pd
    from copulas.multivariate import GaussianMultivariate
    from copulas.univariate import GammaUnivariate, GaussianKDE, Univariate
    rs = np.random.RandomState(59)
    n = 240
    T = pd.DataFrame({'g': rs.gamma(2.0, 1.5, n), 'u': rs.uniform(2, 5, n), 'z': rs.normal(0, 1, n)})
    idx = {'shifted': np.arange(3000, 3000 + n), 'reversed': np.arange(n)[::-1].copy(), 'permuted': rs.permutation(n), 'duplicated': np.arange(n) // 2,
           'strings': np.array([f'r{i}' for i in range(n)]), 'float': np.linspace(0.5, 99.5, n), 'multiindex': None}[index_kind]
    T2 = T.copy()
    if index_kind == 'multiindex':
        T2.index = pd.MultiIndex.from_arrays([np.arange(n) % 3, np.arange(n)])
    else:
        T2.index = idx

    def mk():
        if config == 'default':
            return GaussianMultivariate()
        if config == 'selection-sample-size':
            return GaussianMultivariate(distribution=Univariate(candidates=[GammaUnivariate, GaussianKDE], selection_sample_size=60))
        if config == 'kde-sample-size':
            return GaussianMultivariate(distribution=GaussianKDE(sample_size=50))
        return GaussianMultivariate(distribution={'g': GammaUnivariate, 'u': Univariate(selection_sample_size=40)})
    outs = []
    with _default_ambient():
        for tab in (T, T2):
            m = mk()
            np.random.seed(12)
            m.fit(tab)
            d = m.to_dict()
            outs.append(([u['type'].rsplit('.', 1)[1] for u in d['univariates']], np.asarray(d['correlation'], dtype=float),
                         [{k: v for k, v in u.items() if isinstance(v, (int, float))} for u in d['univariates']]))
    if outs[0][0] != outs[1][0]:
        return (f'GaussianMultivariate ({config}) fitted on a frame with a {index_kind} row index models the columns as {outs[1][0]}; the same values '
                f'with the default index give {outs[0][0]}')
    if not np.allclose(outs[0][1], outs[1][1], rtol=1e-9, atol=1e-12) or not _close(outs[0][2], outs[1][2], rtol=1e-9):
        return f'GaussianMultivariate ({config}): the fitted parameters depend on the row index ({index_kind})'
    return None


def fit_row_index(ctx, configs=('default', 'selection-sample-size', 'kde-sample-size', 'dict'), quick=True):
    kinds = ('shifted', 'permuted', 'duplicated', 'strings') if quick else ('shifted', 'reversed', 'permuted', 'duplicated', 'strings', 'float', 'multiindex')
    cases = [((c, k), 'fit_row_index_replay', (c, k)) for c in configs for k in kinds]
    _run_oracles(ctx, 'row-index', 'search:fit-depends-on-row-index', cases)


def gm_fit_ambient_replay(kind):
    """GaussianMultivariate.fit on tables with constant / duplicated / perfectly correlated columns under the ambient conditions"""
    import pandas as pd
    from copulas.multivariate import GaussianMultivariate
    from copulas.univariate import GaussianUnivariate
    rs = np.random.RandomState(61)
    n = 60
    a = rs.normal(0, 1, n)
    T = {'plain': pd.DataFrame({'a': a, 'b': 0.5 * a + rs.normal(0, 1, n), 'c': rs.normal(2, 3, n)}),
         'constant-column': pd.DataFrame({'a': a, 'k': np.full(n, 4.25), 'c': 0.3 * a + rs.normal(0, 1, n)}),
         'two-constant-columns': pd.DataFrame({'k1': np.full(n, 1.0), 'a': a, 'k2': np.full(n, -2.0)}),
         'duplicated-column': pd.DataFrame({'a': a, 'b': a.copy(), 'c': rs.normal(0, 1, n)}),
         'anti-correlated': pd.DataFrame({'a': a, 'b': -2.0 * a + 1.0, 'c': rs.normal(0, 1, n)})}[kind]

    def thunk():
        m = GaussianMultivariate(distribution=GaussianUnivariate)
        m.fit(T.copy())
        return np.asarray(m.to_dict()['correlation'], dtype=float).tolist()
    return ambient_compare(thunk)


def gm_fit_ambient(ctx):
    cases = [((k,), 'gm_fit_ambient_replay', (k,)) for k in ('plain', 'constant-column', 'two-constant-columns', 'duplicated-column', 'anti-correlated')]
    _run_oracles(ctx, 'gm-fit-ambient', 'search:ambient-condition-changes-fit', cases)


def gm_class_state_replay():
    """a fit on a table where a label is constant leaves nothing behind that changes how ANOTHER model treats that label"""
    import pandas as pd
    from copulas.multivariate import GaussianMultivariate
    from copulas.univariate import GaussianUnivariate
    rs = np.random.RandomState(67)
    n = 80
    a = rs.normal(0, 1, n)
    live = pd.DataFrame({'a': a, 'b': 0.7 * a + rs.normal(0, 0.5, n), 'c': rs.normal(0, 1, n)})
    with _default_ambient():
        ref = GaussianMultivariate(distribution=GaussianUnivariate)
        ref.fit(live.copy())
        want = np.asarray(ref.to_dict()['correlation'], dtype=float)
        const = live.copy()
        const['b'] = 3.0
        first = GaussianMultivariate(distribution=GaussianUnivariate)
        first.fit(const)
        try:
            broken = GaussianMultivariate(distribution=GaussianUnivariate)
            broken.fit(pd.DataFrame({'a': a, 'b': ['x'] * n}))
        except Exception:
            pass
        for how, m in (('a NEW model', GaussianMultivariate(distribution=GaussianUnivariate)), ('the same model, re-fitted', first)):
            m.fit(live.copy())
            got = np.asarray(m.to_dict()['correlation'], dtype=float)
            if not np.allclose(got, want, rtol=1e-9, atol=1e-12):
                return (f'after a fit on a table whose column b is constant, {how} fitted on a table where b varies has the correlation {got.tolist()} '
                        f'instead of {want.tolist()}')
    return None


def gm_class_state(ctx):
    _run_oracles(ctx, 'gm-class-state', 'search:fit-leaves-state-shared-between-models', [(('constant-label',), 'gm_class_state_replay', ())])


# ----------------------------------------------------------------------------------------------------------------------
# C11: select_copula - results handed out earlier, class-level state, hash-seed independence
# ----------------------------------------------------------------------------------------------------------------------
def _copula_table(fam, tau, n, seed, reflect=0.0):
    from .extra_oracles import _biv_new
    th = {'clayton': 2 * tau / (1 - tau), 'gumbel': 1 / (1 - tau), 'frank': 9.0 * tau}[fam]
    c = _biv_new(fam, th, seed=seed)
    with _default_ambient():
        X = np.asarray(c.sample(n), dtype=float)
    if reflect:
        k = int(n * reflect)
        X[:k] = 1.0 - X[:k]
    return np.clip(X, 1e-6, 1 - 1e-6)


def select_results_kept_replay():
    """copulas returned by select_copula keep their tau / theta / to_dict whatever is selected later; fresh instances start unfitted"""
    from copulas.bivariate import Bivariate, Clayton, Frank, Gumbel, select_copula
    from scipy.stats import kendalltau
    with _default_ambient():
        tabs = [_copula_table('clayton', 0.5, 600, 3), _copula_table('gumbel', 0.3, 600, 4), _copula_table('clayton', 0.65, 600, 5),
                np.column_stack([np.linspace(.01, .99, 50), np.linspace(.99, .01, 50)]), _copula_table('gumbel', 0.55, 600, 6),
                np.column_stack([np.linspace(.01, .99, 40), np.linspace(.01, .99, 40)])]
        kept = []
        for X in tabs:
            try:
                c = select_copula(X)
            except Exception:
                continue
            kept.append((c, float(kendalltau(X[:, 0], X[:, 1])[0]), float(c.theta), dict(c.to_dict())))
            for c0, t0, th0, d0 in kept:
                if not (abs(float(c0.tau) - t0) <= 1e-12) or float(c0.theta) != th0 or c0.to_dict() != d0:
                    return (f'a {type(c0).__name__} returned by select_copula (tau {t0!r}, theta {th0!r}) now reports tau = {c0.tau!r}, theta = {c0.theta!r}, '
                            f'to_dict = {c0.to_dict()} after {len(kept)} further select_copula calls')
        for cls in (Clayton, Frank, Gumbel):
            f = cls()
            if f.tau is not None or f.theta is not None:
                return f'after select_copula calls a fresh {cls.__name__}() has tau = {f.tau!r}, theta = {f.theta!r} (class-level state)'
        b = Bivariate(copula_type='clayton')
        if b.tau is not None:
            return f'after select_copula calls a fresh Bivariate(copula_type="clayton") has tau = {b.tau!r}'
    return None


_HASHSEED_SCRIPT = r'''
import sys, json, numpy as np, warnings
warnings.simplefilter('ignore')
sys.path.insert(0, sys.argv[1]); sys.path.insert(0, sys.argv[2])
from vf import extra_oracles3 as E
print(json.dumps(getattr(E, sys.argv[3])()))
'''


def _in_hashseeds(fname, seeds=(0, 1, 5, 11)):
    """runs E.<fname>() in fresh interpreters with different PYTHONHASHSEED; returns {seed: json value}"""
    import json
    import os
    import subprocess
    import sys
    from .core import REPO
    tools = os.path.dirname(os.path.dirname(os.path.abspath(__file__)))
    out = {}
    for s in seeds:
        env = dict(os.environ, PYTHONHASHSEED=str(s))
        r = subprocess.run([sys.executable, '-W', 'ignore', '-c', _HASHSEED_SCRIPT, REPO, tools, fname], env=env, stdout=subprocess.PIPE, stderr=subprocess.PIPE,
                           text=True, timeout=600)
        if r.returncode != 0:
            out[s] = ('err', r.stderr[-300:])
        else:
            out[s] = ('ok', json.loads(r.stdout.strip().split('\n')[-1]))
    return out


def _clayton_mixture(tau, weight, n, seed):
    """a Clayton sample mixed with its survival reflection: dependence in BOTH tails, where the Clayton and Gumbel rank scores of select_copula tie"""
    rs = np.random.RandomState(seed)
    theta = 2 * tau / (1 - tau)
    v = rs.uniform(size=n)
    c = rs.uniform(size=n)
    u = ((c ** (-theta / (1 + theta)) - 1) * v ** (-theta) + 1) ** (-1 / theta)
    X = np.column_stack((u, v))
    flip = rs.uniform(size=n) < weight
    X[flip] = 1 - X[flip]
    return X


def _select_tie_tables():
    from copulas.bivariate import select_copula
    res = []
    with _default_ambient():
        for tau, weight, seed in ((0.3, 0.4, 0), (0.4, 0.5, 1), (0.3, 0.5, 10), (0.4, 0.4, 24), (0.5, 0.4, 10), (0.5, 0.4, 24), (0.6, 0.45, 10)):
            c = select_copula(_clayton_mixture(tau, weight, 3000, seed))
            res.append([type(c).__name__, float(c.tau).hex(), float(c.theta).hex()])
    return res


def select_hashseed_replay():
    """the selected family is a function of X: the same arrays in interpreters with different PYTHONHASHSEED (data with dependence in BOTH tails,
    where the Clayton / Gumbel scores tie)"""
    outs = _in_hashseeds('_select_tie_tables')
    ref_seed = sorted(outs)[0]
    for s, v in outs.items():
        if v[0] == 'err':
            return f'select_copula raised in a fresh interpreter with PYTHONHASHSEED={s}: {v[1]}'
        if v != outs[ref_seed]:
            diff = [i for i, (a, b) in enumerate(zip(v[1], outs[ref_seed][1])) if a != b]
            return (f'select_copula on the same arrays returns {[v[1][i] for i in diff]} with PYTHONHASHSEED={s} and '
                    f'{[outs[ref_seed][1][i] for i in diff]} with PYTHONHASHSEED={ref_seed} (tables {diff})')
    return None


def select_round6(ctx):
    _run_oracles(ctx, 'select-copula', 'search:select-copula', [(('results-kept',), 'select_results_kept_replay', ()), (('hash-seed',), 'select_hashseed_replay', ())])


# ----------------------------------------------------------------------------------------------------------------------
# Gaussian copula: failed re-fit, restored models, nullable dtypes, float32 training, failed save, hash seeds (C12 - C15, C19)
# ----------------------------------------------------------------------------------------------------------------------
def _gm_table(seed=71, n=300):
    import pandas as pd
    rs = np.random.RandomState(seed)
    S = np.array([[1.0, 0.6, 0.3, 0.2], [0.6, 1.0, 0.5, 0.1], [0.3, 0.5, 1.0, 0.4], [0.2, 0.1, 0.4, 1.0]])
    z = rs.multivariate_normal(np.zeros(4), S, size=n)
    return pd.DataFrame({'a': 2.0 * z[:, 0] + 1.0, 'b': 0.5 * z[:, 1] + 3.0, 'c': z[:, 2] - 3.0, 'd': 4.0 * z[:, 3]})


def gm_failed_refit_replay(kind):
    """fit T1; a re-fit that RAISES half-way (kind); the model is what it was (same to_dict, same conditional and unconditional samples under
    the same seed) or declares itself unfitted"""
    import pandas as pd
    from copulas.multivariate import GaussianMultivariate
    G = 'copulas.univariate.gaussian.GaussianUnivariate'
    T1 = _gm_table()
    rs = np.random.RandomState(5)
    T2 = pd.DataFrame(rs.normal(size=(120, 5)) * [1, 2, 3, 4, 5] + [9, 8, 7, 6, 5], columns=list('abcde'))
    with _default_ambient():
        if kind == 'bad-name-last-column':
            m = GaussianMultivariate(distribution={'a': G, 'b': G, 'c': G, 'd': G, 'e': 'copulas.univariate.gausian.GaussianUnivariate'}, random_state=7)
            bad = T2
        elif kind == 'bad-name-middle-column':
            m = GaussianMultivariate(distribution={'a': G, 'b': G, 'c': G, 'd': G, 'x': 'copulas.univariate.nothere.Nope'}, random_state=7)
            bad = T2.rename(columns={'c': 'x'})[['a', 'b', 'x', 'd']]
        elif kind == 'string-column':
            m = GaussianMultivariate(distribution=G, random_state=7)
            bad = T2.assign(c=['s'] * len(T2))
        elif kind == 'nan-table':
            m = GaussianMultivariate(distribution=G, random_state=7)
            bad = T2.copy()
            bad.iloc[3, 2] = np.nan
        else:
            raise ValueError(kind)
        m.fit(T1)
        d0 = repr(m.to_dict())
        m.set_random_state(101)
        s0 = m.sample(50, {'b': 3.4, 'd': -2.0})
        u0 = m.sample(20)
        try:
            m.fit(bad)
            return None                 # not refused: nothing to compare (other oracles judge the accepted fit)
        except Exception:
            pass
        try:
            m.check_fit()
        except Exception:
            return None                 # declares itself unfitted
        if repr(m.to_dict()) != d0:
            return f'GaussianMultivariate: after a re-fit that raised ({kind}) the still-fitted model has another to_dict()'
        m.set_random_state(101)
        s1 = m.sample(50, {'b': 3.4, 'd': -2.0})
        u1 = m.sample(20)
    if list(s1.columns) != list(s0.columns) or not np.allclose(s1.to_numpy(dtype=float), s0.to_numpy(dtype=float), rtol=1e-12, atol=0):
        return (f'GaussianMultivariate: after a re-fit that raised ({kind}) the still-fitted model draws other conditional samples under the same seed '
                f'(first row {s1.iloc[0].tolist()} instead of {s0.iloc[0].tolist()})')
    if not np.allclose(u1.to_numpy(dtype=float), u0.to_numpy(dtype=float), rtol=1e-12, atol=0):
        return f'GaussianMultivariate: after a re-fit that raised ({kind}) the still-fitted model draws other samples under the same seed'
    return None


def gm_failed_refit(ctx):
    _run_oracles(ctx, 'gm-failed-refit', 'search:failed-refit-changes-model',
                 [((k,), 'gm_failed_refit_replay', (k,)) for k in ('bad-name-last-column', 'bad-name-middle-column', 'string-column', 'nan-table')])


def gm_restored_models_replay(path):
    """restore A, restore B (other labels / order / width), observe A: DataFrame, Series and array queries of A answer like the original"""
    import json
    import os
    import tempfile
    import pandas as pd
    from copulas.multivariate import GaussianMultivariate, Multivariate
    from copulas.univariate import GaussianUnivariate
    TA = _gm_table(73)
    TB = _gm_table(79)[['d', 'a']].rename(columns={'d': 'p', 'a': 'q'})
    TB['a'] = np.random.RandomState(2).gamma(2.0, 1.0, len(TB))
    with _default_ambient():
        A = GaussianMultivariate(distribution=GaussianUnivariate)
        A.fit(TA)
        B = GaussianMultivariate(distribution=GaussianUnivariate)
        B.fit(TB)
        Q = TA.iloc[:6].reset_index(drop=True)
        want_pdf, want_cdf = np.asarray(A.probability_density(Q), dtype=float), np.asarray(A.cumulative_distribution(Q), dtype=float)

        def rebuild(m):
            if path == 'dict':
                return GaussianMultivariate.from_dict(m.to_dict())
            if path == 'generic':
                return Multivariate.from_dict(m.to_dict())
            if path == 'json':
                return GaussianMultivariate.from_dict(json.loads(json.dumps(m.to_dict())))
            fd, p = tempfile.mkstemp(suffix='.pkl')
            os.close(fd)
            try:
                m.save(p)
                return GaussianMultivariate.load(p)
            finally:
                os.unlink(p)
        A2 = rebuild(A)
        B2 = rebuild(B)
        B2.probability_density(TB.iloc[:3])
        if list(A2.to_dict()['columns']) != list(TA.columns):
            return f'{path}: after a second model was rebuilt, the first rebuilt model reports the columns {list(A2.to_dict()["columns"])}'
        for cn, q in (('DataFrame', Q), ('permuted DataFrame', Q[['c', 'a', 'd', 'b']]), ('ndarray', Q.to_numpy()), ('Series', Q.iloc[0])):
            got = np.asarray(A2.probability_density(q), dtype=float).ravel()
            w = want_pdf[:1] if cn == 'Series' else want_pdf
            if got.shape != w.shape or not np.allclose(got, w, rtol=1e-9, atol=1e-300):
                return (f'{path}: rebuild(A); rebuild(B with other columns); A\'s probability_density on a {cn} = {got.tolist()[:3]}, the original model '
                        f'answers {w.tolist()[:3]}')
        got = np.asarray(A2.cumulative_distribution(Q), dtype=float)
        if not np.allclose(got, want_cdf, rtol=0, atol=2e-3):
            return f'{path}: rebuild(A); rebuild(B); A\'s cumulative_distribution = {got.tolist()[:3]} instead of {want_cdf.tolist()[:3]}'
    return None


def gm_restored_models(ctx):
    _run_oracles(ctx, 'gm-restored-models', 'search:restored-models-share-state', [((p,), 'gm_restored_models_replay', (p,)) for p in ('dict', 'generic', 'json', 'file')])


def gm_query_dtypes_replay(kind):
    """query frames / Series holding the same finite numbers in a nullable, integer, boolean-next-to-float or object representation"""
    import pandas as pd
    from copulas.multivariate import GaussianMultivariate
    from copulas.univariate import GaussianUnivariate
    rs = np.random.RandomState(83)
    T = pd.DataFrame({'a': rs.normal(2, 1, 200), 'b': rs.normal(0, 3, 200).round(), 'c': (rs.uniform(size=200) > 0.4).astype(float)})
    with _default_ambient():
        m = GaussianMultivariate(distribution=GaussianUnivariate)
        m.fit(T)
        Q = pd.DataFrame({'a': [1.5, 2.5, 3.0], 'b': [1.0, -2.0, 0.0], 'c': [1.0, 0.0, 1.0]})
        want = np.asarray(m.probability_density(Q), dtype=float)
        wc = np.asarray(m.cumulative_distribution(Q), dtype=float)
        Q2 = {'nullable-Float64': lambda: Q.astype('Float64'), 'nullable-Int64-column': lambda: Q.astype({'b': 'Int64'}), 'int64-column': lambda: Q.astype({'b': 'int64'}),
              'bool-column': lambda: Q.astype({'c': bool}), 'float32': lambda: Q.astype('float32'), 'mixed-nullable': lambda: Q.astype({'a': 'Float64', 'b': 'Int64'}),
              'series-nullable': lambda: Q.iloc[0].astype('Float64')}[kind]()
        try:
            got = np.asarray(m.probability_density(Q2), dtype=float).ravel()
            gc = np.asarray(m.cumulative_distribution(Q2), dtype=float).ravel()
        except Exception as ex:
            return (f'probability_density / cumulative_distribution raise {type(ex).__name__} ({str(ex)[:80]}) for query points given as {kind}; the same numbers '
                    'as float64 are answered')
    w = want[:1] if kind.startswith('series') else want
    rt = 1e-4 if kind == 'float32' else 1e-9
    if got.shape != w.shape or not np.allclose(got, w, rtol=rt, atol=1e-300):
        return f'probability_density with the query points given as {kind} = {got.tolist()}; as float64 {w.tolist()}'
    if not np.allclose(gc, wc[:1] if kind.startswith('series') else wc, rtol=0, atol=2e-3):
        return f'cumulative_distribution with the query points given as {kind} = {gc.tolist()}; as float64 {wc.tolist()}'
    return None


def gm_query_dtypes(ctx):
    _run_oracles(ctx, 'gm-query-dtypes', 'search:result-depends-on-container',
                 [((k,), 'gm_query_dtypes_replay', (k,)) for k in ('nullable-Float64', 'nullable-Int64-column', 'int64-column', 'bool-column', 'float32', 'mixed-nullable', 'series-nullable')])


def failed_save_replay(kind):
    """save() to a path that cannot be written raises; the model answers exactly as before (constant and non-constant univariates, copulas)"""
    import pandas as pd
    from copulas import univariate as U
    from copulas.bivariate import Bivariate
    from copulas.multivariate import GaussianMultivariate, VineCopula
    xs, qs = np.linspace(0.5, 6, 7), np.array([0.1, 0.5, 0.9])
    with _default_ambient():
        if kind.startswith('constant:') or kind.startswith('data:'):
            cls = getattr(U, kind.split(':')[1])
            m = cls()
            m.fit(np.full(20, 4.25) if kind.startswith('constant:') else _uni_data())

            def snap():
                m.set_random_state(3)
                return [np.asarray(m.cumulative_distribution(xs), dtype=float), np.asarray(m.probability_density(xs), dtype=float),
                        np.asarray(m.percent_point(qs), dtype=float), np.asarray(m.sample(4), dtype=float), repr(m.to_dict())]
        elif kind == 'frank':
            m = Bivariate(copula_type='frank', random_state=3)
            m.fit(_copula_table('frank', 0.4, 200, 9))
            P = _biv_batch('probability_density')

            def snap():
                return [np.asarray(m.cumulative_distribution(P), dtype=float), np.asarray(m.probability_density(P), dtype=float), repr(m.to_dict())]
        elif kind == 'gm-constant-column':
            T = _gm_table(87, 120)[['a', 'b']].assign(k=2.5)
            m = GaussianMultivariate(random_state=3, distribution=U.GaussianUnivariate)
            m.fit(T)

            def snap():
                m.set_random_state(3)
                return [m.sample(5).to_numpy(dtype=float), np.asarray(m.probability_density(T.iloc[:4]), dtype=float), repr(m.to_dict())]
        else:
            T = _gm_table(89, 80)[['a', 'b', 'c']]
            m = VineCopula('center', random_state=3)
            m.fit(T)

            def snap():
                m.set_random_state(3)
                return [np.asarray(m.sample(3), dtype=float), repr(sorted(m.to_dict().keys()))]
        before = snap()
        for p in ('/nonexistent-dir-vf/sub/model.pkl', '/proc/version/x.pkl'):
            try:
                m.save(p)
            except Exception:
                pass
        after = snap()
    for a, b in zip(before, after):
        same = (a == b) if isinstance(a, str) else (np.shape(a) == np.shape(b) and np.allclose(a, b, rtol=1e-12, atol=0, equal_nan=True))
        if not same:
            return f'{kind}: after save() to an unwritable path raised, the model answers {str(b)[:120]} instead of {str(a)[:120]}'
    return None


def failed_save(ctx):
    kinds = ['constant:GaussianUnivariate', 'constant:BetaUnivariate', 'constant:GaussianKDE', 'constant:TruncatedGaussian', 'data:GaussianKDE', 'data:GammaUnivariate',
             'frank', 'gm-constant-column', 'vine']
    _run_oracles(ctx, 'failed-save', 'search:failed-save-changes-model', [((k,), 'failed_save_replay', (k,)) for k in kinds])


def float32_roundtrip_replay(kind):
    """a model trained on float32 data answers float32 AND float64 queries bit for bit like its dict / JSON / file copies"""
    import json
    import pandas as pd
    from copulas import univariate as U
    from copulas.multivariate import GaussianMultivariate
    rs = np.random.RandomState(91)
    with _default_ambient():
        if kind.startswith('gm'):
            T = pd.DataFrame({'a': rs.normal(1.6e6, 300.0, 150), 'b': rs.uniform(0, 1, 150)}).astype('float32')
            m = GaussianMultivariate(distribution={'a': U.GaussianUnivariate, 'b': U.UniformUnivariate})
            m.fit(T)
            c = GaussianMultivariate.from_dict(m.to_dict())
            Q = T.iloc[:6]
            pairs = [('probability_density', m.probability_density(Q), c.probability_density(Q)), ('cumulative_distribution', m.cumulative_distribution(Q), c.cumulative_distribution(Q))]
        else:
            cname, loc = kind.split('@')
            data = (rs.normal(float(loc), 300.0, 150) if cname != 'UniformUnivariate' else rs.uniform(float(loc), float(loc) + 900, 150)).astype('float32')
            m = getattr(U, cname)() if cname != 'Univariate' else U.Univariate(candidates=[U.GaussianUnivariate, U.UniformUnivariate])
            m.fit(data)
            d = m.to_dict()
            c = U.Univariate.from_dict(d)        # (JSON of float32-trained parameters: finding F40, see float32_json_probe)
            x32, q32 = data[:7], np.array([0.1, 0.37, 0.5, 0.93], dtype='float32')
            pairs = []
            for nm, arg in (('cumulative_distribution', x32), ('probability_density', x32), ('percent_point', q32), ('cumulative_distribution', x32.astype('float64')),
                            ('percent_point', q32.astype('float64'))):
                pairs.append((f'{nm}[{arg.dtype}]', getattr(m, nm)(arg), getattr(c, nm)(arg)))
    for nm, a, b in pairs:
        a, b = np.asarray(a, dtype=float), np.asarray(b, dtype=float)
        if a.shape != b.shape or not np.array_equal(a, b, equal_nan=True):
            k = int(np.nanargmax(np.abs(a - b))) if a.shape == b.shape else 0
            return (f'{kind} trained on float32 data: {nm} of the original = {a.ravel()[k]!r}, of its from_dict copy = {b.ravel()[k]!r} '
                    f'(max |difference| {float(np.nanmax(np.abs(a - b))) if a.shape == b.shape else "shape"})')
    return None


def float32_json_replay(cname, const):
    import json
    from copulas import univariate as U
    data = np.full(12, 2.5, dtype='float32') if const else np.random.RandomState(0).gamma(2, 1, 50).astype('float32')
    with _default_ambient():
        m = getattr(U, cname)()
        m.fit(data)
        d = m.to_dict()
    try:
        json.dumps(d)
    except TypeError as ex:
        return (f'{cname} fitted on {"constant " if const else ""}float32 data: json.dumps(to_dict()) raises TypeError ({str(ex)[:60]}); the parameters are numpy float32 '
                f'scalars: { {k: type(v).__name__ for k, v in d.items() if k != "type" and not isinstance(v, list)} }')
    return None


def float32_roundtrip(ctx):
    kinds = ['GaussianUnivariate@1600000', 'GaussianUnivariate@3', 'UniformUnivariate@1600000', 'Univariate@1600000', 'gm']
    _run_oracles(ctx, 'float32-roundtrip', 'rt:float32-training', [((k,), 'float32_roundtrip_replay', (k,)) for k in kinds])
    # finding F40 (listed): reported through ctx.violation only, it is not an obligation of the run
    for cname in ('GaussianUnivariate', 'UniformUnivariate', 'GammaUnivariate', 'BetaUnivariate', 'LogLaplace', 'TruncatedGaussian', 'GaussianKDE', 'StudentTUnivariate'):
        for const in (False, True):
            ctx.case(('float32-json', cname, const), None)
            try:
                why = float32_json_replay(cname, const)
            except Exception as ex:
                why = f'oracle raised {type(ex).__name__}: {str(ex)[:120]}'
            if why:
                ctx.violation(f'F40:float32-parameters-not-json-serialisable:{cname}:{"constant" if const else "data"}', why,
                              {'class': cname, 'constant': const,
                               'repro': f'from vf.extra_oracles3 import float32_json_replay\nwhy = float32_json_replay({cname!r}, {const!r})\nprint(why)\nassert why is None\n'})


def _gm_conditional_bytes():
    import pandas as pd
    from copulas.multivariate import GaussianMultivariate
    from copulas.univariate import GaussianUnivariate
    with _default_ambient():
        rng = np.random.RandomState(7)
        z = rng.normal(size=(300, 6))
        z[:, 1] += 0.9 * z[:, 0]
        z[:, 2] += 0.5 * z[:, 0] - 0.7 * z[:, 1]
        z[:, 3] += z[:, 2]
        z[:, 4] -= 0.4 * z[:, 3] + 0.3 * z[:, 1]
        z[:, 5] += z[:, 4]
        T = pd.DataFrame(z, columns=['alpha', 'beta', 'gamma', 'delta', 'epsilon', 'zeta'])
        m = GaussianMultivariate(distribution=GaussianUnivariate, random_state=11)
        m.fit(T)
        out = []
        for cond in ({'alpha': 0.3, 'gamma': -0.2, 'epsilon': 1.1, 'zeta': 0.4}, {'zeta': 2.0, 'alpha': 0.5, 'gamma': -3.3}, pd.Series({'gamma': -2.0, 'beta': 2.9, 'delta': 0.1})):
            out.append(m.sample(6, cond).to_numpy(dtype=float).tobytes().hex())
        out.append(m.sample(4).to_numpy(dtype=float).tobytes().hex())
    return out


def gm_hashseed_replay():
    """equal models, equal seeds, equal calls: bit-identical conditional samples in interpreters with different PYTHONHASHSEED"""
    outs = _in_hashseeds('_gm_conditional_bytes', seeds=(0, 1, 2, 3))
    ref = sorted(outs)[0]
    for s, v in outs.items():
        if v[0] == 'err':
            return f'conditional sampling raised in a fresh interpreter with PYTHONHASHSEED={s}: {v[1]}'
        if v != outs[ref]:
            k = [i for i, (a, b) in enumerate(zip(v[1], outs[ref][1])) if a != b][0]
            a = np.frombuffer(bytes.fromhex(v[1][k])).ravel()
            b = np.frombuffer(bytes.fromhex(outs[ref][1][k])).ravel()
            j = int(np.argmax(a != b))
            return (f'seeded GaussianMultivariate.sample(conditions) call {k}: element {j} is {a[j]!r} with PYTHONHASHSEED={s} and {b[j]!r} with '
                    f'PYTHONHASHSEED={ref}: the stream is not a function of (parameters, seed, calls)')
    return None


def gm_hashseed(ctx):
    _run_oracles(ctx, 'gm-hash-seed', 'real:stream-depends-on-hash-seed', [(('conditional',), 'gm_hashseed_replay', ())])


def gm_failed_column_state_replay():
    """a fit in which a column could not be fitted by the configured class (it falls back, or the fit raises) leaves nothing behind that changes
    how ANOTHER fit treats a column of that name"""
    import pandas as pd
    from copulas.multivariate import GaussianMultivariate
    from copulas.univariate import GammaUnivariate, GaussianKDE
    rs = np.random.RandomState(101)
    clean = pd.DataFrame({'x': np.r_[rs.normal(-3, 0.5, 60), rs.normal(3, 0.5, 60)], 'y': rs.gamma(2.0, 1.0, 120)})
    with _default_ambient():
        for dist, poison in ((GaussianKDE, np.inf), (GammaUnivariate, 1e150), (GaussianKDE, np.nan)):
            def fams(m):
                return [u['type'].rsplit('.', 1)[1] for u in m.to_dict()['univariates']]
            ref = GaussianMultivariate(distribution=dist)
            ref.fit(clean.copy())
            want = fams(ref)
            bad = clean.copy()
            bad.iloc[5, 0] = poison
            first = GaussianMultivariate(distribution=dist)
            try:
                first.fit(bad)
            except Exception:
                pass
            for how, m in (('a NEW equal model', GaussianMultivariate(distribution=dist)), ('the same model, re-fitted', first)):
                m.fit(clean.copy())
                if fams(m) != want:
                    return (f'GaussianMultivariate(distribution={dist.__name__}): after a fit on a table whose column x holds {poison!r}, {how} fitted on clean data '
                            f'models the columns as {fams(m)} instead of {want}')
    return None


def gm_failed_column_state(ctx):
    _run_oracles(ctx, 'gm-failed-column', 'search:fit-leaves-state-shared-between-models', [(('poisoned-column',), 'gm_failed_column_state_replay', ())])


def uni_fit_ambient_replay(cname):
    """fit + queries of a univariate under the ambient conditions: same family, same parameters, same answers"""
    from copulas import univariate as U
    rs = np.random.RandomState(103)
    data = np.r_[rs.normal(-3, 0.6, 70), rs.normal(3, 0.6, 70)] if cname in ('Univariate', 'GaussianKDE') else np.abs(rs.normal(3, 1, 120)) + 0.2
    xs, qs = np.linspace(np.min(data), np.max(data), 6), np.array([0.1, 0.5, 0.9])

    def thunk():
        m = U.Univariate() if cname == 'Univariate' else getattr(U, cname)()
        np.random.seed(4)
        m.fit(data.copy())
        d = m.to_dict()
        return {'type': d['type'], 'params': {k: v for k, v in d.items() if isinstance(v, (int, float))},
                'cdf': np.asarray(m.cumulative_distribution(xs), dtype=float).tolist(), 'pdf': np.asarray(m.probability_density(xs), dtype=float).tolist(),
                'ppf': np.asarray(m.percent_point(qs), dtype=float).tolist()}
    # scipy's generic optimiser and the KDE kernel sums underflow / overflow internally as part of the computation as written
    traps = {'BetaUnivariate': ('errstate-raise', 'warnings-error'), 'GammaUnivariate': ('errstate-raise', 'warnings-error'), 'StudentTUnivariate': ('errstate-raise', 'warnings-error'),
             'LogLaplace': ('errstate-raise', 'warnings-error'), 'GaussianKDE': ('errstate-raise',), 'Univariate': ('errstate-raise',),
             'TruncatedGaussian': ('errstate-raise', 'warnings-error')}.get(cname, ())
    return ambient_compare(thunk, traps)


def uni_fit_ambient(ctx):
    names = ['GaussianUnivariate', 'UniformUnivariate', 'GaussianKDE', 'Univariate', 'TruncatedGaussian', 'GammaUnivariate', 'BetaUnivariate']
    _run_oracles(ctx, 'uni-ambient', 'search:ambient-condition-changes-fit', [((c,), 'uni_fit_ambient_replay', (c,)) for c in names])


# ----------------------------------------------------------------------------------------------------------------------
# vines (C16, C17), root finders (C18), plots (C20)
# ----------------------------------------------------------------------------------------------------------------------
class _Timeout(BaseException):          # not an Exception: no `except Exception` of the library swallows it
    pass


@contextlib.contextmanager
def _alarm(seconds, what):
    """a fit that does not return is a result, not a hung check (main thread only)"""
    import signal

    def handler(signum, frame):
        raise _Timeout(f'{what} did not return within {seconds} s')
    try:
        old = signal.signal(signal.SIGALRM, handler)
    except ValueError:          # not in the main thread: no guard
        yield
        return
    signal.alarm(seconds)
    try:
        yield
    finally:
        signal.alarm(0)
        signal.signal(signal.SIGALRM, old)


def vine_edited_export_replay(vtype):
    """runs _vine_edited_export in a fresh interpreter: the edit may poison process-wide state (a shared default object), and a construction
    loop that stops making progress must not hang the check"""
    import json
    import os
    import subprocess
    import sys
    from .core import REPO
    tools = os.path.dirname(os.path.dirname(os.path.abspath(__file__)))
    code = ('import sys, json, warnings\nwarnings.simplefilter("ignore")\nsys.path.insert(0, sys.argv[1]); sys.path.insert(0, sys.argv[2])\n'
            'from vf import extra_oracles3 as E\nprint(json.dumps(E._vine_edited_export(sys.argv[3])))\n')
    try:
        r = subprocess.run([sys.executable, '-W', 'ignore', '-c', code, REPO, tools, vtype], stdout=subprocess.PIPE, stderr=subprocess.PIPE, text=True, timeout=150)
    except subprocess.TimeoutExpired:
        return (f'{vtype} vine: after another vine\'s exported objects (first-tree conditioning sets, to_dict lists) were edited in place, fitting NEW vines '
                'did not finish within 150 s (the tree construction no longer makes progress)')
    if r.returncode != 0:
        return f'{vtype} vine: the edited-export history raised: {r.stderr[-200:]}'
    return json.loads(r.stdout.strip().split('\n')[-1])


def _vine_edited_export(vtype):
    """fit A; edit in place whatever A hands out (the conditioning sets of its first-tree edges, the lists of its to_dict); fit a NEW vine B: B is a
    valid vine of its own table; A.sample still returns the training columns in order"""
    from copulas.multivariate import VineCopula
    TA, TB = _gm_table(107, 90), _gm_table(109, 90)[['a', 'b', 'c']]
    with _default_ambient():
        A = VineCopula(vtype, random_state=1)
        A.fit(TA)
        d = A.to_dict()
        for e in A.trees[0].edges:
            if isinstance(e.D, set):
                e.D.add(99)
        for t in d.get('trees', []):
            for e in t.get('edges', []):
                if isinstance(e.get('D'), list):
                    e['D'].append(77)
        cols = d.get('columns')
        if isinstance(cols, list):
            cols.reverse()
        B = VineCopula(vtype, random_state=1)
        try:
            with _alarm(60, 'fit'):
                B.fit(TB)
        except _Timeout:
            return (f'{vtype} vine fitted AFTER another vine\'s exported first-tree edges were edited in place: fit did not return within 60 s '
                    '(the tree construction no longer makes progress)')
        except Exception as ex:
            return f'{vtype} vine fitted AFTER another vine\'s exported first-tree edges were edited in place: fit raises {type(ex).__name__}: {str(ex)[:80]}'
        for k, t in enumerate(B.trees):
            for e in t.edges:
                if len(e.D) != k:
                    return (f'{vtype} vine fitted AFTER another vine\'s exported first-tree edges were edited in place: tree {k + 1} edge ({e.L},{e.R}) has the '
                            f'conditioning set {sorted(e.D)} (size {len(e.D)} instead of {k})')
        A2 = VineCopula(vtype, random_state=1)
        try:
            with _alarm(60, 'fit'):
                A2.fit(TA)
        except _Timeout:
            return f'{vtype} vine: a NEW model\'s fit did not return within 60 s after another model\'s exported objects were edited in place'
        S = A2.sample(3)
        if list(S.columns) != list(TA.columns):
            return f'{vtype} vine: sample() of a NEW model has the columns {list(S.columns)} after another model\'s to_dict()["columns"] was edited'
        S1 = A.sample(3)
        if list(S1.columns) != list(TA.columns):
            return f'{vtype} vine: after the caller reversed to_dict()["columns"] in place, sample() returns the columns {list(S1.columns)} instead of {list(TA.columns)}'
    return None


def vine_truncation_kinds_replay(vtype, kind):
    from copulas.multivariate import VineCopula
    T = _gm_table(113, 70).assign(e=np.random.RandomState(1).normal(size=70))
    mk = {'python-int': int, 'np.int64': np.int64, 'np.int32': np.int32, 'np.uint8': np.uint8, '0-d-array': lambda v: np.array(v)}[kind]
    with _default_ambient():
        for t in (1, 2):
            m = VineCopula(vtype)
            m.fit(T, truncated=mk(t))
            if len(m.trees) != min(T.shape[1] - 1, t):
                return f'VineCopula({vtype!r}).fit(5 columns, truncated={kind}({t})) holds {len(m.trees)} trees instead of {min(T.shape[1] - 1, t)}'
    return None


def vine_int_table_replay(vtype):
    """an integer-valued table given as int64 and as float64: same model, same seeded sample"""
    import pandas as pd
    from copulas.multivariate import VineCopula
    rs = np.random.RandomState(127)
    lam = rs.gamma(3.0, 2.0, 150)
    T = pd.DataFrame({'n1': rs.poisson(lam), 'n2': rs.poisson(lam * 0.7 + 2), 'n3': rs.poisson(5, 150)}).astype('int64')
    with _default_ambient():
        outs = []
        for tab in (T, T.astype('float64')):
            m = VineCopula(vtype, random_state=5)
            np.random.seed(8)
            m.fit(tab)
            outs.append(m.sample(40).to_numpy(dtype=float))
    if outs[0].shape != outs[1].shape or not np.allclose(outs[0], outs[1], rtol=1e-12, atol=0, equal_nan=True):
        frac = float(np.mean(outs[0] == np.floor(outs[0])))
        return (f'VineCopula({vtype!r}) fitted on an int64 table samples {outs[0][0].tolist()}; fitted on the same numbers as float64 it samples {outs[1][0].tolist()} '
                f'(share of integer-valued cells {frac:.2f}: the fitted marginals are continuous)')
    return None


def vine_round6(ctx, which):
    cases = []
    for vt in ('center', 'direct', 'regular'):
        if which == 'C16':
            cases.append((('edited-export', vt), 'vine_edited_export_replay', (vt,)))
            cases += [(('truncation-kind', vt, k), 'vine_truncation_kinds_replay', (vt, k)) for k in ('np.int64', 'np.uint8', '0-d-array')]
        else:
            cases.append((('edited-export', vt), 'vine_edited_export_replay', (vt,)))
            cases.append((('int-table', vt), 'vine_int_table_replay', (vt,)))
    _run_oracles(ctx, 'vine-r6', 'search:vine', cases)


def rootfinder_results_owned_replay(which):
    """the root vector a solver returned is not rewritten by later calls of the same shape (direct calls and the library's own, through the KDE)"""
    from copulas.optimize import bisect, chandrupatla
    from copulas.univariate import GaussianKDE
    solver = bisect if which == 'bisect' else chandrupatla
    with _default_ambient():
        for n in (1, 4, 9):
            t1, t2 = np.linspace(0.5, 3.5, n), np.linspace(4.2, 7.7, n)
            r1 = solver(lambda x: x ** 3 - t1 ** 3, np.zeros(n), np.full(n, 10.0))
            keep = np.array(r1, dtype=float)
            r2 = solver(lambda x: x - t2, np.zeros(n), np.full(n, 10.0))
            if r2 is r1:
                return f'{which}: two calls with brackets of length {n} returned ONE array object'
            if not np.array_equal(np.asarray(r1, dtype=float), keep):
                return f'{which} (n = {n}): the roots returned by an earlier call changed when {which} was called again: {keep.tolist()} -> {np.asarray(r1, dtype=float).tolist()}'
            k = GaussianKDE()
            k.fit(_uni_data())
            k.percent_point(np.linspace(0.2, 0.8, n), method=which)
            if not np.array_equal(np.asarray(r1, dtype=float), keep):
                return f'{which} (n = {n}): the roots returned earlier changed when GaussianKDE.percent_point(method={which!r}) ran'
    return None


def rootfinder_round6(ctx):
    cases = [((w,), 'rootfinder_results_owned_replay', (w,)) for w in ('bisect', 'chandrupatla')]
    _run_oracles(ctx, 'rootfinder-results-owned', 'search:returned-array-not-owned-by-caller', cases)
    cases = [(('GaussianKDE', 'percent_point', meth), 'kde_ppf_lanes_replay', (meth,)) for meth in ('bisect', 'chandrupatla')]
    _run_oracles(ctx, 'kde-ppf-lanes', 'search:lane-solved-for-another-target', cases)
    cases = [(('GaussianKDE', 'percent_point', meth), 'kde_ppf_float32_replay', (meth,)) for meth in ('bisect', 'chandrupatla')]
    _run_oracles(ctx, 'kde-ppf-float32', 'search:lane-not-solved-to-tolerance:float32', cases)


def kde_ppf_lanes_replay(method):
    """the in-library caller of the solvers hands lane i the target of lane i: probabilities as Series with a permuted / gapped / string index"""
    import pandas as pd
    from copulas.univariate import GaussianKDE
    u = np.array([0.62, 0.07, 0.41, 0.2, 0.93, 0.3, 0.77, 0.0, 1.0, 0.55])
    with _default_ambient():
        k = GaussianKDE()
        k.fit(_uni_data())
        ref = np.asarray(k.percent_point(u.copy(), method=method), dtype=float)
        for nm, idx in (('permuted', [3, 0, 6, 1, 5, 2, 4, 9, 8, 7]), ('gapped', [0, 2, 4, 6, 8, 10, 12, 14, 16, 18]), ('strings', list('abcdefghij')), ('shifted', list(range(50, 60)))):
            try:
                got = np.asarray(k.percent_point(pd.Series(u.copy(), index=idx), method=method), dtype=float)
            except Exception as ex:
                return f'GaussianKDE.percent_point(method={method!r}) raises {type(ex).__name__} for probabilities in a Series with a {nm} index (every bracket is valid)'
            if got.shape != ref.shape or not np.allclose(got, ref, rtol=1e-9, atol=1e-12, equal_nan=True):
                j = int(np.nanargmax(np.abs(got - ref)))
                return (f'GaussianKDE.percent_point(method={method!r}) with the probabilities in a Series with a {nm} index: lane {j} = {got[j]!r}, solved alone '
                        f'{ref[j]!r} (target {u[j]})')
    return None


def plot_row_index_replay(fn, index_kind):
    """every given row appears exactly once under its label whatever the ROW index of the frames"""
    import pandas as pd
    from copulas import visualization as V
    rs = np.random.RandomState(131)
    k = 3 if fn.endswith('3d') else 2
    cols = ['x', 'y', 'z'][:k]
    n = 14
    real = pd.DataFrame(rs.randint(-9, 10, size=(n, k)).astype(float), columns=cols)
    synth = pd.DataFrame(rs.randint(-9, 10, size=(n - 3, k)).astype(float) + 0.5, columns=cols)

    def reindex(df):
        m = len(df)
        df = df.copy()
        if index_kind == 'filtered':
            big = pd.concat([df, df]).reset_index(drop=True)
            big.iloc[::2] = df.to_numpy()
            return big.iloc[::2]
        df.index = {'shifted': range(100, 100 + m), 'strings': [f'r{i}' for i in range(m)], 'duplicated': [i // 2 for i in range(m)], 'reversed': range(m - 1, -1, -1),
                    'timestamps': pd.date_range('2020-01-01', periods=m), 'multiindex': pd.MultiIndex.from_arrays([[i % 2 for i in range(m)], list(range(m))])}[index_kind]
        return df
    R, S = reindex(real), reindex(synth)
    with _default_ambient():
        fig = getattr(V, fn)(R, S) if fn.startswith('compare') else getattr(V, fn)(R)
    pts = {}
    for tr in fig.data:
        coords = [np.asarray(getattr(tr, a), dtype=float) for a in ('x', 'y', 'z')[:k]]
        for row in zip(*coords):
            pts.setdefault(tr.name, []).append(tuple(float(v) for v in row))
    want = {'Real': sorted(map(tuple, R.to_numpy(dtype=float).tolist()))}
    if fn.startswith('compare'):
        want['Synthetic'] = sorted(map(tuple, S.to_numpy(dtype=float).tolist()))
    got = {kk: sorted(v) for kk, v in pts.items()}
    if got != want:
        return (f'{fn} on frames with a {index_kind} row index draws { {kk: len(v) for kk, v in got.items()} } points; the frames hold '
                f'{ {kk: len(v) for kk, v in want.items()} } rows (every row once under its label)')
    return None


def plot_row_index(ctx, quick=True):
    kinds = ('filtered', 'strings', 'duplicated') if quick else ('filtered', 'shifted', 'strings', 'duplicated', 'reversed', 'timestamps', 'multiindex')
    cases = [((fn, k), 'plot_row_index_replay', (fn, k)) for fn in ('scatter_2d', 'scatter_3d', 'compare_2d', 'compare_3d') for k in kinds]
    _run_oracles(ctx, 'plot-row-index', 'plot-rows:row-index', cases)



# ----------------------------------------------------------------------------------------------------------------------
# round 7 (two cooperating sites): containers of the training table, fitted candidates, the independence member, float32
# ----------------------------------------------------------------------------------------------------------------------
def gm_fit_container_replay(kind):
    """the same numbers as a DataFrame and as a plain 2-d ndarray: same fitted correlation (tables with a constant column included)"""
    import pandas as pd
    from copulas.multivariate import GaussianMultivariate
    from copulas.univariate import GaussianUnivariate
    rs = np.random.RandomState(137)
    n = 90
    a = rs.normal(0, 1, n)
    b = 0.8 * a + rs.normal(0, 0.5, n)
    cols = {'plain': [a, b, rs.normal(0, 1, n)], 'constant-last': [a, b, np.full(n, 2.5)], 'constant-first': [np.full(n, -1.0), a, b],
            'constant-middle': [a, np.full(n, 7.0), b, rs.normal(2, 1, n)], 'integer-constant': [a, b, np.full(n, 3)]}[kind]
    A = np.column_stack(cols).astype(float)
    with _default_ambient():
        outs = []
        for tab in (pd.DataFrame(A, columns=[f'c{i}' for i in range(A.shape[1])]), A.copy(), np.asfortranarray(A)):
            m = GaussianMultivariate(distribution=GaussianUnivariate)
            m.fit(tab)
            outs.append(np.asarray(m.to_dict()['correlation'], dtype=float))
        k = A.shape[1]
        labelled = []
        for lab_name, labs in (('integer labels 1..k', list(range(1, k + 1))), ('integer labels rotated (k-1, 0, 1, ..)', [k - 1] + list(range(k - 1))),
                               ('mixed labels', ['a', 0, 1, 2][:k]), ('reversed integer labels', list(range(k))[::-1])):
            m = GaussianMultivariate(distribution=GaussianUnivariate)
            m.fit(pd.DataFrame(A, columns=labs))
            labelled.append((f'a DataFrame with {lab_name}', np.asarray(m.to_dict()['correlation'], dtype=float)))
    for nm, o in [('a C-ordered ndarray', outs[1]), ('a Fortran-ordered ndarray', outs[2])] + labelled:
        if o.shape != outs[0].shape or not np.allclose(o, outs[0], rtol=1e-9, atol=1e-12):
            return (f'GaussianMultivariate fitted on {nm} ({kind}) has the correlation {o.round(4).tolist()}; fitted on the same numbers as a DataFrame with string labels '
                    f'{outs[0].round(4).tolist()}')
    return None


def gm_fit_container(ctx):
    _run_oracles(ctx, 'gm-fit-container', 'search:fit-depends-on-container',
                 [((k,), 'gm_fit_container_replay', (k,)) for k in ('plain', 'constant-last', 'constant-first', 'constant-middle', 'integer-constant')])


def fitted_candidate_replay(how):
    """a candidate given as an INSTANCE that was fitted before (or rebuilt by from_dict) competes with a fresh fit to the NEW data: the selected
    model has the smallest KS distance among fresh fits of the candidate classes"""
    import pandas as pd
    from scipy.stats import kstest
    from copulas.multivariate import GaussianMultivariate
    from copulas.univariate import GaussianUnivariate, UniformUnivariate, Univariate
    from copulas.univariate.selection import select_univariate
    rs = np.random.RandomState(139)
    old, new = rs.normal(50.0, 2.0, 200), rs.normal(0.0, 1.0, 300)
    with _default_ambient():
        g = GaussianUnivariate()
        g.fit(old)
        if how.endswith('from_dict'):
            g = Univariate.from_dict(g.to_dict())
        cands = [g, UniformUnivariate()]
        best = {}
        for cls in (GaussianUnivariate, UniformUnivariate):
            f = cls()
            f.fit(new)
            best[cls.__name__] = float(kstest(new, f.cdf)[0])
        want = min(best, key=best.get)
        if how.startswith('select_univariate'):
            got = select_univariate(new, cands)
            if not getattr(got, 'fitted', False):       # the selection returns a new instance of the best class; its user fits it
                got.fit(new)
        elif how.startswith('Univariate'):
            u = Univariate(candidates=cands)
            u.fit(new)
            got = u._instance
        else:
            m = GaussianMultivariate(distribution=Univariate(candidates=cands))
            m.fit(pd.DataFrame({'x': new, 'y': rs.normal(size=300)}))
            got = m.univariates[0]._instance
        ks = float(kstest(new, got.cdf)[0])
    if type(got).__name__ != want or ks > best[want] + 1e-9:
        return (f'{how}: candidates [GaussianUnivariate instance fitted earlier on N(50, 2), UniformUnivariate()] on N(0, 1) data: selected '
                f'{type(got).__name__} with KS {ks:.4f}; a fresh {want} has KS {best[want]:.4f} (all: {best})')
    return None


def fitted_candidate(ctx):
    hows = ('select_univariate', 'Univariate', 'GaussianMultivariate', 'select_univariate:from_dict', 'Univariate:from_dict')
    _run_oracles(ctx, 'fitted-candidate', 'oracle:best-ks-not-minimal:fitted-candidate', [((h,), 'fitted_candidate_replay', (h,)) for h in hows])


def gumbel_independence_member_replay(meth, how):
    """Gumbel with theta exactly 1 (tau = 0, the closed end of its domain) IS the independence copula, through every method and every way
    of obtaining the object"""
    from copulas.bivariate import Bivariate, Gumbel
    X = _biv_batch('cumulative_distribution' if meth == 'cumulative_distribution' else 'probability_density')
    u, v = X[:, 0], X[:, 1]
    with _default_ambient():
        if how == 'attributes':
            c = Bivariate(copula_type='gumbel', random_state=3)
            c.theta, c.tau = 1.0, 0.0
        elif how == 'from_dict':
            c = Bivariate.from_dict({'copula_type': 'GUMBEL', 'theta': 1.0, 'tau': 0.0})
            c.set_random_state(3)
        elif how == 'compute_theta':
            c = Gumbel(random_state=3)
            c.tau = 0
            c.theta = c.compute_theta()
        else:
            c = Bivariate(copula_type='gumbel', random_state=3)
            c.theta, c.tau = 1, 0
        if meth == 'sample':
            from scipy.stats import kendalltau
            S = np.asarray(c.sample(4000), dtype=float)
            t = float(kendalltau(S[:, 0], S[:, 1])[0])
            if abs(t) > 0.08:        # Hoeffding: P(|tau_n| > 0.08) < 1e-9 for n = 4000 under independence
                return f'Gumbel theta = 1 ({how}): sample(4000) has Kendall tau {t:.3f}; the model is the independence copula (tau = 0)'
            return None
        got = np.asarray(c.percent_point(u.copy(), v.copy()) if meth == 'percent_point' else getattr(c, meth)(X.copy()), dtype=float)
    want = {'cumulative_distribution': u * v, 'partial_derivative': u, 'probability_density': np.ones_like(u), 'log_probability_density': np.zeros_like(u),
            'percent_point': u}[meth]
    if got.shape != want.shape or not np.allclose(got, want, rtol=1e-9, atol=1e-9):
        k = int(np.nanargmax(np.abs(got - want))) if got.shape == want.shape else 0
        return (f'Gumbel theta = 1 ({how}): {meth} at (u, v) = ({u[k]}, {v[k]}) is {got.ravel()[k]!r}; the independence copula gives {want[k]!r}')
    return None


def gumbel_independence_member(ctx, methods):
    cases = [((m, h), 'gumbel_independence_member_replay', (m, h)) for m in methods for h in ('attributes', 'from_dict', 'compute_theta', 'integer-theta')]
    _run_oracles(ctx, 'gumbel-theta1', 'search:gumbel-theta1-not-independence', cases)


def select_float32_replay(fam):
    """select_copula on the same pseudo-observations stored as float32: the same family, tau and theta up to the rounding of the data"""
    from copulas.bivariate import select_copula
    with _default_ambient():
        X = _copula_table(fam, 0.5, 1500, 17)
        X32 = X.astype(np.float32)
        ref = select_copula(X32.astype(np.float64))
        try:
            got = select_copula(X32)
        except Exception as ex:
            return (f'select_copula raises {type(ex).__name__} ({str(ex)[:80]}) on float32 pseudo-observations drawn from a {fam} copula; on the same numbers as '
                    f'float64 it returns {type(ref).__name__}')
    # scipy's kendalltau answers in the precision of its input: tau / theta agree to single precision
    if type(got) is not type(ref) or abs(float(got.tau) - float(ref.tau)) > 1e-6 or abs(float(got.theta) - float(ref.theta)) > 1e-5 * (1 + abs(float(ref.theta))):
        return (f'select_copula on float32 data returns {type(got).__name__}(tau={float(got.tau)!r}, theta={float(got.theta)!r}); on the same numbers as float64 '
                f'{type(ref).__name__}(tau={float(ref.tau)!r}, theta={float(ref.theta)!r})')
    return None


def select_float32(ctx):
    _run_oracles(ctx, 'select-float32', 'search:select-copula:float32', [((f,), 'select_float32_replay', (f,)) for f in ('clayton', 'gumbel', 'frank')])


def kde_ppf_float32_replay(method):
    """probabilities stored as float32: every lane is solved to the solver's tolerance for the (rounded) target it was given"""
    from copulas.univariate import GaussianKDE
    with _default_ambient():
        k = GaussianKDE()
        k.fit(_uni_data() + 100.0)
        u32 = np.array([0.62, 0.07, 0.41, 0.2, 0.93, 0.3, 0.77, 0.55, 0.011, 0.987], dtype=np.float32)
        ref = np.asarray(k.percent_point(u32.astype(np.float64), method=method), dtype=float)
        got = np.asarray(k.percent_point(u32, method=method), dtype=float)
    tol = 2e-8 if method == 'chandrupatla' else 2e-7
    if got.shape != ref.shape or not np.allclose(got, ref, rtol=0, atol=tol):
        j = int(np.nanargmax(np.abs(got - ref)))
        return (f'GaussianKDE.percent_point(method={method!r}) on float32 probabilities: lane {j} = {got[j]!r}; the same target held in float64 gives {ref[j]!r} '
                f'(|difference| {abs(got[j] - ref[j]):.3g}, allowed {tol:g})')
    return None
