"""Round-6 oracles (witness search on the real library; every oracle has a replay entry point that returns None or a description).

Mechanisms asked for in round 6 of the seeded changes:
  * ownership of returned / stored objects: an array a query returned earlier must not change when later queries run; a model
    must not move when the caller edits a constructor argument or the dict given to from_dict AFTER the call that consumed it;
    editing an attribute a model hands out (the candidate list of a default `Univariate`) must not reach OTHER models;
  * failure paths: a query or a fit that raises must not change what later valid calls on the same or another object return;
  * ambient conditions: `np.errstate(all='raise')` and `warnings.simplefilter('error')` active in the caller - a call that returns
    a value under numpy's default settings returns the same value (calls that legitimately trap there are listed, with the reason);
  * unusual but legal containers: pandas objects with a non-default / permuted / duplicated index, 0-d arrays and numpy scalars
    as constructor options.
"""
import contextlib
import warnings

import numpy as np


# ----------------------------------------------------------------------------------------------------------------------
# ambient conditions
# ----------------------------------------------------------------------------------------------------------------------
@contextlib.contextmanager
def _warnings_as_errors():
    with warnings.catch_warnings():
        warnings.simplefilter('error')
        yield


@contextlib.contextmanager
def _errstate_raise():
    with np.errstate(all='raise'):
        yield


@contextlib.contextmanager
def _default_ambient():
    with warnings.catch_warnings():
        warnings.simplefilter('ignore')
        with np.errstate(divide='warn', over='warn', under='ignore', invalid='warn'):
            yield


AMBIENTS = {'errstate-raise': _errstate_raise, 'warnings-error': _warnings_as_errors}


def _canon(v):
    if isinstance(v, dict):
        return ('dict', tuple((k, _canon(x)) for k, x in sorted(v.items(), key=lambda kv: str(kv[0]))))
    if isinstance(v, (list, tuple)):
        return ('seq', tuple(_canon(x) for x in v))
    try:
        a = np.asarray(v, dtype=float)
        return ('num', a.shape, tuple(np.round(a.ravel(), 12).tolist()) if a.size < 4000 else float(np.nansum(a)))
    except Exception:
        return ('repr', repr(v)[:200])


def _outcome(thunk, ambient):
    try:
        with ambient():
            return ('ok', thunk())
    except Exception as ex:
        return ('err', type(ex).__name__, str(ex)[:100])


def _close(a, b, rtol=1e-10):
    if type(a) is not type(b):
        return False
    if isinstance(a, dict):
        return a.keys() == b.keys() and all(_close(a[k], b[k], rtol) for k in a)
    if isinstance(a, (list, tuple)):
        return len(a) == len(b) and all(_close(x, y, rtol) for x, y in zip(a, b))
    try:
        x, y = np.asarray(a, dtype=float), np.asarray(b, dtype=float)
        return x.shape == y.shape and bool(np.allclose(x, y, rtol=rtol, atol=1e-300, equal_nan=True))
    except Exception:
        return repr(a) == repr(b)


def ambient_compare(thunk, traps=()):
    """thunk builds everything it needs (fresh objects) and returns plain numbers / arrays / dicts.  `traps` lists the ambients under
    which the PRISTINE library is known to trap on this call (a floating-point event that is part of the computation as written);
    there the ambient run may raise FloatingPointError / a Warning instead, but may not return another value."""
    ref = _outcome(thunk, _default_ambient)
    for name, amb in AMBIENTS.items():
        got = _outcome(thunk, amb)
        if ref[0] == 'err':
            if got[0] != 'err':
                return (f'under {name} the call returns {str(got[1])[:120]} although it is refused ({ref[1]}: {ref[2]}) under numpy\'s default '
                        'settings')
            continue
        if got[0] == 'err':
            if name in traps and got[1] in ('FloatingPointError', 'RuntimeWarning', 'UserWarning', 'DeprecationWarning', 'FutureWarning', 'IntegrationWarning', 'OptimizeWarning'):
                continue
            return f'under {name} the call raises {got[1]}: {got[2]}; under numpy\'s default settings it returns {str(ref[1])[:120]}'
        if not _close(ref[1], got[1]):
            return f'under {name} the call returns {str(got[1])[:160]}; under numpy\'s default settings it returns {str(ref[1])[:160]}'
    return None


def _run_oracles(ctx, prefix, key_prefix, cases, module='extra_oracles3'):
    """cases: list of (case id tuple, replay function name, args tuple)"""
    for cid, fname, args in cases:
        ctx.case((prefix,) + tuple(cid), {'oracle': prefix, 'case': list(map(str, cid))})
        try:
            why = globals()[fname](*args)
        except Exception as ex:
            why = f'oracle raised {type(ex).__name__}: {str(ex)[:160]}'
        name = ':'.join(map(str, cid))
        ctx.obligation(f'oracle:{prefix}:{name}', why is None, 'correspondence', why or '')
        if why:
            ctx.violation(f'{key_prefix}:{name}', why,
                          {'case': list(map(str, cid)),
                           'repro': (f'from vf.{module} import {fname}\nwhy = {fname}(*{args!r})\nprint(why)\nassert why is None\n')})


# ----------------------------------------------------------------------------------------------------------------------
# bivariate copulas (C06 - C10)
# ----------------------------------------------------------------------------------------------------------------------
_BIV_THETAS = {'clayton': [2.0], 'frank': [-4.0, 0.6, 6.0], 'gumbel': [1.3, 3.0]}


def _biv_batch(meth):
    if meth == 'cumulative_distribution':      # C06's domain includes the boundary
        return np.array([[0.2, 0.7], [0.0, 0.4], [0.6, 0.0], [1.0, 0.3], [0.8, 1.0], [0.5, 0.5], [0.0, 0.0], [1.0, 1.0], [0.31, 0.92]])
    return np.array([[0.2, 0.7], [0.01, 0.4], [0.6, 0.02], [0.97, 0.3], [0.8, 0.99], [0.5, 0.5], [0.31, 0.92], [0.66, 0.13]])


def _biv_call(o, meth, X):
    if meth == 'percent_point':
        return np.asarray(o.percent_point(X[:, 0].copy(), X[:, 1].copy()), dtype=float)
    if meth == 'sample':
        o.set_random_state(23)
        return np.asarray(o.sample(7), dtype=float)
    return np.asarray(getattr(o, meth)(X.copy()), dtype=float)


def biv_ambient_replay(fam, th, meth):
    from .extra_oracles import _biv_new
    X = _biv_batch(meth)
    # Gumbel's CDF takes log(u) of the boundary rows as written (log 0 = -inf, exp(-inf) = 0): with all='raise' that traps
    traps = ('errstate-raise', 'warnings-error') if (fam, meth) == ('gumbel', 'cumulative_distribution') else ()
    return ambient_compare(lambda: _biv_call(_biv_new(fam, th), meth, X).tolist(), traps)


def biv_ambient(ctx, methods):
    cases = [((fam, th, meth), 'biv_ambient_replay', (fam, th, meth)) for fam, ths in _BIV_THETAS.items() for th in ths for meth in methods]
    _run_oracles(ctx, 'ambient', 'search:ambient-condition-changes-result', cases)


def biv_failed_query_replay(fam, th, meth):
    """malformed arguments to `meth` (they must raise or be ignored), then every method and to_dict answer as before"""
    from .extra_oracles import _biv_new
    import pandas as pd
    o = _biv_new(fam, th)
    X = _biv_batch('probability_density')
    meths = ['cumulative_distribution', 'probability_density', 'log_probability_density', 'partial_derivative', 'percent_point']

    def snap(obj):
        with _default_ambient():
            return {m: _biv_call(obj, m, X) for m in meths} | {'to_dict': obj.to_dict()}
    before = snap(o)
    bad = [np.array([0.3, 0.4, 0.5]), np.array([[0.3], [0.4]]), np.array([[0.1, 0.2, 0.3]]), [[0.2, 0.3], [0.4]], pd.DataFrame({'a': [0.2, 0.4], 'b': [0.3, 0.9]}),
           None, 'abc', np.array([['a', 'b']]), np.zeros((0, 2)), np.array([[0.2, 0.3]], dtype=object)]
    for b in bad:
        try:
            with _default_ambient():
                if meth == 'percent_point':
                    o.percent_point(b, b)
                else:
                    getattr(o, meth)(b)
        except BaseException:
            pass
    after = snap(o)
    for m in before:
        if not _close(before[m], after[m], rtol=1e-12):
            return (f'{fam} theta={th}: after {meth} was called with malformed arguments (1-d, one column, three columns, ragged, frame, None, str, '
                    f'empty, object dtype), {m} answers {str(after[m])[:120]} instead of {str(before[m])[:120]}')
    return None


def biv_failed_query(ctx, methods):
    cases = [((fam, th, meth), 'biv_failed_query_replay', (fam, th, meth)) for fam, ths in _BIV_THETAS.items() for th in (ths[0], ths[-1])[:len(set(ths))]
             for meth in methods if meth != 'sample']
    _run_oracles(ctx, 'failed-query', 'search:failed-query-changes-model', cases)


def biv_results_owned_replay(fam, th, meth):
    """a returned array belongs to the caller: later calls (same length, other arguments; same or another instance) do not change it,
    and writing into it does not change what the model answers"""
    from .extra_oracles import _biv_new
    X1 = _biv_batch(meth)
    X2 = X1[::-1].copy() * 0.9 + 0.03
    with _default_ambient():
        o = _biv_new(fam, th)
        r1 = _biv_call(o, meth, X1) if meth != 'sample' else None
        if meth == 'percent_point':
            raw1 = o.percent_point(X1[:, 0].copy(), X1[:, 1].copy())
        elif meth == 'sample':
            o.set_random_state(23)
            raw1 = o.sample(8)
            r1 = np.array(raw1, dtype=float)
        else:
            raw1 = getattr(o, meth)(X1.copy())
        keep = np.array(raw1, dtype=float)
        other = _biv_new(fam, th)
        for obj in (o, other):
            if meth == 'percent_point':
                raw2 = obj.percent_point(X2[:, 0].copy(), X2[:, 1].copy())
            elif meth == 'sample':
                raw2 = obj.sample(8)
            else:
                raw2 = getattr(obj, meth)(X2.copy())
            if raw2 is raw1:
                return f'{fam} theta={th}: two {meth} calls returned ONE array object'
            if not np.array_equal(np.asarray(raw1, dtype=float), keep, equal_nan=True):
                return (f'{fam} theta={th}: the array returned by {meth} changed when {meth} was called again (on '
                        f'{"the same" if obj is o else "another"} instance): {keep.tolist()[:4]} -> {np.asarray(raw1, dtype=float).tolist()[:4]}')
        if meth != 'sample' and isinstance(raw1, np.ndarray) and raw1.flags.writeable:
            raw1[...] = -7.0
            again = _biv_call(o, meth, X1)
            if not np.array_equal(again, r1, equal_nan=True):
                return f'{fam} theta={th}: writing into the array {meth} returned changes what {meth} answers for the same points'
    return None


def biv_results_owned(ctx, methods):
    cases = [((fam, ths[-1], meth), 'biv_results_owned_replay', (fam, ths[-1], meth)) for fam, ths in _BIV_THETAS.items() for meth in methods]
    _run_oracles(ctx, 'results-owned', 'search:returned-array-not-owned-by-caller', cases)


def biv_refused_refit_replay(fam, kind):
    """fit good data; a re-fit that is REFUSED (kind) must leave an object that either declares itself unusable or still pairs theta
    with its own tau; a second attempt with the same table is refused again"""
    from copulas.bivariate import Bivariate
    from scipy.stats import norm
    from .props.C10 import consistent_pair
    rs = np.random.RandomState(31)
    good = norm.cdf(rs.multivariate_normal([0, 0], [[1, .6], [.6, 1]], 80))
    neg = np.column_stack([good[:, 0], 1.0 - good[:, 1]])
    bad = {'above-one': np.vstack([neg[:40], [[0.5, 1.7]], neg[40:]]),
           'below-zero': np.vstack([neg[:40], [[-0.3, 0.5]], neg[40:]]),
           'negative-dependence': neg,
           'nan': np.vstack([neg[:10], [[np.nan, 0.5]], neg[10:]])}[kind]
    c = Bivariate(copula_type=fam)
    with _default_ambient():
        c.fit(good)
        outs = []
        for _ in range(2):
            try:
                c.fit(bad.copy())
                outs.append('accepted')
            except ValueError:
                outs.append('refused')
            except Exception as ex:
                outs.append(type(ex).__name__)
            why = consistent_pair(c)
            if why:
                return f'{fam}: fit(good data); fit({kind} table) -> {outs[-1]}; now {why}'
    if outs[0] == 'refused' and outs[1] != 'refused':
        return f'{fam}: fit({kind} table) is refused the first time and {outs[1]} when the same table is given again'
    if kind in ('above-one', 'below-zero') and outs[0] != 'refused':
        return f'{fam}: fit accepted a table with a value outside [0, 1] ({outs[0]})'
    return None


def biv_refused_refit(ctx):
    cases = [((fam, kind), 'biv_refused_refit_replay', (fam, kind)) for fam in ('clayton', 'frank', 'gumbel')
             for kind in ('above-one', 'below-zero', 'negative-dependence', 'nan')]
    _run_oracles(ctx, 'refused-refit', 'search:refused-refit-leaves-inconsistent-model', cases)


def biv_fit_ambient_replay(fam, kind):
    """fit outcome (tau, theta | refusal) under the ambient conditions.  `nonuniform-then-outside`: first column inside [0, 1] but visibly
    non-uniform (the library warns), second column with a value outside [0, 1] (the library must refuse whatever the warning filter)"""
    from copulas.bivariate import Bivariate
    from scipy.stats import norm
    rs = np.random.RandomState(37)
    good = norm.cdf(rs.multivariate_normal([0, 0], [[1, .5], [.5, 1]], 90))
    X = {'good': good,
         'nonuniform-then-outside': np.column_stack([good[:, 0] ** 4, np.r_[good[:-1, 1], 1.7]]),
         'nonuniform-then-below': np.column_stack([good[:, 0] ** 4, np.r_[good[:-1, 1], -0.3]]),
         'nonuniform': np.column_stack([good[:, 0] ** 4, good[:, 1] ** 3])}[kind]

    def thunk():
        c = Bivariate(copula_type=fam)
        c.fit(X.copy())
        return [float(c.tau), float(c.theta)]
    # a visibly non-uniform margin makes check_marginal WARN: with warnings as errors that warning legitimately stops the fit
    return ambient_compare(thunk, traps=('warnings-error',) if kind == 'nonuniform' else ())


def biv_fit_ambient(ctx):
    cases = [((fam, kind), 'biv_fit_ambient_replay', (fam, kind)) for fam in ('clayton', 'frank', 'gumbel')
             for kind in ('good', 'nonuniform-then-outside', 'nonuniform-then-below', 'nonuniform')]
    _run_oracles(ctx, 'fit-ambient', 'search:ambient-condition-changes-fit', cases)


# ----------------------------------------------------------------------------------------------------------------------
# univariates (C03, C04) and the Gaussian copula (C01, C02, C05)
# ----------------------------------------------------------------------------------------------------------------------
def _uni_data():
    rs = np.random.RandomState(43)
    return np.abs(rs.normal(3.0, 1.0, 70)) + 0.3


def _uni_classes():
    from copulas import univariate as U
    return {'GaussianUnivariate': lambda: U.GaussianUnivariate(), 'UniformUnivariate': lambda: U.UniformUnivariate(), 'GammaUnivariate': lambda: U.GammaUnivariate(),
            'BetaUnivariate': lambda: U.BetaUnivariate(), 'StudentTUnivariate': lambda: U.StudentTUnivariate(), 'TruncatedGaussian': lambda: U.TruncatedGaussian(),
            'GaussianKDE': lambda: U.GaussianKDE(), 'LogLaplace': lambda: U.LogLaplace(),
            'Univariate': lambda: U.Univariate(candidates=[U.GaussianKDE, U.GaussianUnivariate]),
            'from_dict(GaussianKDE)': lambda: None}


def _uni_fitted(cname):
    from copulas import univariate as U
    if cname == 'from_dict(GaussianKDE)':
        m = U.GaussianKDE()
        m.fit(_uni_data())
        return U.Univariate.from_dict(m.to_dict())
    m = _uni_classes()[cname]()
    m.fit(_uni_data())
    return m


def uni_results_owned_replay(cname, meth):
    xs1 = np.linspace(0.8, 6.0, 9)
    xs2 = np.linspace(1.1, 5.2, 9)
    if meth == 'percent_point':
        xs1, xs2 = np.linspace(0.05, 0.95, 9), np.linspace(0.12, 0.88, 9)
    with _default_ambient():
        m = _uni_fitted(cname)
        raw1 = getattr(m, meth)(xs1.copy())
        keep = np.array(raw1, dtype=float)
        raw2 = getattr(m, meth)(xs2.copy())
        if raw2 is raw1:
            return f'{cname}: two {meth} calls of the same length returned ONE array object (F(b) - F(a) computed from them is 0)'
        if not np.array_equal(np.asarray(raw1, dtype=float), keep, equal_nan=True):
            return f'{cname}: the array returned by {meth} changed when {meth} was called again: {keep.tolist()[:3]} -> {np.asarray(raw1, dtype=float).tolist()[:3]}'
        if isinstance(raw1, np.ndarray) and raw1.flags.writeable:
            raw1[...] = -7.0
            again = np.asarray(getattr(m, meth)(xs1.copy()), dtype=float)
            if not np.allclose(again, keep, rtol=1e-12, atol=0, equal_nan=True):
                return f'{cname}: writing into the array {meth} returned changes what {meth} answers for the same points'
    return None


def uni_results_owned(ctx):
    cases = [((c, m), 'uni_results_owned_replay', (c, m)) for c in ('GaussianKDE', 'GaussianUnivariate', 'TruncatedGaussian', 'Univariate', 'from_dict(GaussianKDE)')
             for m in ('cumulative_distribution', 'probability_density', 'percent_point')]
    _run_oracles(ctx, 'results-owned', 'search:returned-array-not-owned-by-caller', cases)


def uni_containers_replay(cname, meth):
    """the same numbers in a list, a float32 array, a strided view, a read-only array, a Series with default / permuted / string / duplicated
    index: the i-th output belongs to the i-th input"""
    import pandas as pd
    xs = np.array([4.4, 1.2, 3.3, 2.1, 5.0, 2.7, 3.9])
    if meth == 'percent_point':
        xs = np.array([0.62, 0.07, 0.41, 0.2, 0.93, 0.3, 0.77])
    n = len(xs)
    wide = np.empty((n, 3))
    wide[:, 1] = xs
    ro = xs.copy()
    ro.setflags(write=False)
    conts = {'list': list(xs), 'strided-view': wide[:, 1], 'read-only': ro, 'series-default-index': pd.Series(xs.copy()),
             'series-permuted-index': pd.Series(xs.copy(), index=[3, 0, 6, 1, 5, 2, 4]), 'series-string-index': pd.Series(xs.copy(), index=list('gfedcba')),
             'series-duplicated-index': pd.Series(xs.copy(), index=[0, 0, 1, 1, 2, 2, 3]), 'series-shifted-index': pd.Series(xs.copy(), index=range(100, 100 + n))}
    with _default_ambient():
        m = _uni_fitted(cname)
        ref = np.asarray(getattr(m, meth)(xs.copy()), dtype=float)
        for cn, c in conts.items():
            try:
                got = np.asarray(getattr(m, meth)(c), dtype=float)
            except Exception as ex:
                if cn == 'list':
                    continue            # a plain list is not promised
                return f'{cname}.{meth} raises {type(ex).__name__} ({str(ex)[:60]}) for the points given as {cn}; as an ndarray it answers'
            if got.shape != ref.shape or not np.allclose(got, ref, rtol=1e-9, atol=1e-12, equal_nan=True):
                return f'{cname}.{meth} with the points given as {cn} returns {got.tolist()}; as an ndarray {ref.tolist()}'
    return None


def uni_containers(ctx):
    cases = [((c, m), 'uni_containers_replay', (c, m)) for c in ('GaussianKDE', 'GaussianUnivariate', 'TruncatedGaussian', 'GammaUnivariate', 'Univariate')
             for m in ('cumulative_distribution', 'probability_density', 'percent_point')]
    _run_oracles(ctx, 'containers', 'search:result-depends-on-container', cases)


def kde_late_binding_replay(kind):
    """what the KDE is built from is fixed when fit / from_dict returns: editing the caller's weights array, the dict given to from_dict or
    the dict returned by to_dict afterwards does not move the model"""
    from copulas.univariate import GaussianKDE, Univariate
    data = _uni_data()[:40]
    pts = np.linspace(0.5, 6.0, 11)
    with _default_ambient():
        if kind == 'weights-after-fit':
            w = np.linspace(1.0, 3.0, len(data))
            ref = GaussianKDE(weights=w.copy())
            ref.fit(data.copy())
            want = np.asarray(ref.probability_density(pts), dtype=float)
            m = GaussianKDE(weights=w)
            m.fit(data.copy())
            w[:] = w[::-1] ** 3
            got = np.asarray(m.probability_density(pts), dtype=float)
            what = 'the weights array given to the constructor was edited after fit, before the first query'
        elif kind in ('from_dict-input', 'to_dict-output'):
            src = GaussianKDE()
            src.fit(data.copy())
            want = np.asarray(src.probability_density(pts), dtype=float)
            d = src.to_dict()
            if kind == 'from_dict-input':
                m = Univariate.from_dict(d)
                what = 'the dict given to from_dict was edited afterwards, before the first query'
            else:
                m = src
                what = 'the dict returned by to_dict was edited'
            for k, v in list(d.items()):
                if isinstance(v, list):
                    for i in range(len(v)):
                        v[i] = float(v[i]) * 2.0 + 1.0
                elif isinstance(v, np.ndarray):
                    v *= 2.0
            got = np.asarray(m.probability_density(pts), dtype=float)
            cdf = np.asarray(m.cumulative_distribution(pts), dtype=float)
            ref_cdf = GaussianKDE()
            ref_cdf.fit(data.copy())
            if not np.allclose(cdf, np.asarray(ref_cdf.cumulative_distribution(pts), dtype=float), rtol=1e-9, atol=1e-12):
                return f'GaussianKDE: {what}; cumulative_distribution moved'
        else:
            raise ValueError(kind)
    if not np.allclose(got, want, rtol=1e-9, atol=1e-12):
        return f'GaussianKDE: {what}; probability_density moved from {want.tolist()[:3]} to {got.tolist()[:3]}'
    return None


def kde_late_binding(ctx):
    cases = [((k,), 'kde_late_binding_replay', (k,)) for k in ('weights-after-fit', 'from_dict-input', 'to_dict-output')]
    _run_oracles(ctx, 'kde-late-binding', 'search:model-follows-caller-object-edited-later', cases)


def truncated_bound_kinds_replay(kind):
    """user bounds given as a Python int, numpy scalars of several widths or 0-d arrays are honoured like floats"""
    from copulas.univariate import TruncatedGaussian
    rs = np.random.RandomState(47)
    data = np.clip(rs.normal(5.0, 2.5, 300), 0.05, 9.95)
    mk = {'python-int': int, 'np.float64': np.float64, 'np.float32': np.float32, 'np.int64': np.int64, '0-d-array': lambda v: np.array(float(v)),
          '0-d-int-array': lambda v: np.asarray(int(v))}[kind]
    with _default_ambient():
        ref = TruncatedGaussian(minimum=0.0, maximum=10.0)
        ref.fit(data.copy())
        m = TruncatedGaussian(minimum=mk(0), maximum=mk(10))
        m.fit(data.copy())
        qs = np.array([0.0, 1e-6, 0.5, 1 - 1e-6, 1.0])
        a, b = np.asarray(ref.percent_point(qs), dtype=float), np.asarray(m.percent_point(qs), dtype=float)
        xs = np.array([0.01, 0.03, 5.0, 9.97, 9.99])
        pa, pb = np.asarray(ref.probability_density(xs), dtype=float), np.asarray(m.probability_density(xs), dtype=float)
    if not np.allclose(a, b, rtol=1e-6, atol=1e-9) or not np.allclose(pa, pb, rtol=1e-6, atol=1e-12):
        return (f'TruncatedGaussian(minimum=0, maximum=10) with the bounds given as {kind}: percent_point([0, 1e-6, .5, 1-1e-6, 1]) = {b.tolist()}, density near the '
                f'bounds {pb.tolist()}; with float bounds {a.tolist()} and {pa.tolist()} (the user bounds are not honoured)')
    return None


def truncated_bound_kinds(ctx):
    cases = [((k,), 'truncated_bound_kinds_replay', (k,)) for k in ('python-int', 'np.float64', 'np.float32', 'np.int64', '0-d-array', '0-d-int-array')]
    _run_oracles(ctx, 'truncated-bound-kinds', 'search:user-bounds-not-honoured:truncated', cases)


def default_candidates_shared_replay():
    """the candidate list a default Univariate hands out belongs to that object: editing it in place does not reach models built later"""
    from copulas.multivariate import GaussianMultivariate
    from copulas.univariate import Univariate
    with _default_ambient():
        first = Univariate()
        names0 = sorted(getattr(c, '__name__', type(c).__name__) for c in first.candidates)
        second = Univariate()
        if second.candidates is first.candidates:
            return 'two default Univariate() objects share ONE candidates list object'
        del first.candidates[1:]
        third = Univariate()
        names3 = sorted(getattr(c, '__name__', type(c).__name__) for c in third.candidates)
        if names3 != names0:
            return (f'after `del u.candidates[1:]` on one default Univariate, a NEW Univariate() has the candidates {names3} instead of {names0}')
        for kw in ({'parametric': 'PARAMETRIC'}, {'bounded': 'BOUNDED'}):
            from copulas.univariate import BoundedType, ParametricType
            k = {'parametric': ParametricType.PARAMETRIC} if 'parametric' in kw else {'bounded': BoundedType.BOUNDED}
            a = Univariate(**k)
            n_a = sorted(c.__name__ for c in a.candidates)
            a.candidates.clear()
            b = Univariate(**k)
            if sorted(c.__name__ for c in b.candidates) != n_a:
                return f'after clearing the candidates of one Univariate({kw}), a new one has {sorted(c.__name__ for c in b.candidates)} instead of {n_a}'
        rs = np.random.RandomState(3)
        import pandas as pd
        T = pd.DataFrame({'g': rs.gamma(2.0, 2.0, 400), 'u': rs.uniform(0, 1, 400)})
        gm = GaussianMultivariate()
        np.random.seed(0)
        gm.fit(T)
        fams = [u['type'] for u in gm.to_dict()['univariates']]
        if all(f.endswith('GaussianUnivariate') for f in fams):
            return f'after the edits above a default GaussianMultivariate models a gamma and a uniform column as {fams}'
    return None


def default_candidates_shared(ctx):
    _run_oracles(ctx, 'default-candidates', 'search:default-candidates-shared-between-models', [(('in-place-edit',), 'default_candidates_shared_replay', ())])


def fit_row_index_replay(config, index_kind):
    """GaussianMultivariate / Univariate fit depends on the VALUES of the table, not on its row labels"""
    import pandas as pd
    from copulas.multivariate import GaussianMultivariate
    from copulas.univariate import GammaUnivariate, GaussianKDE, Univariate
    rs = np.random.RandomState(59)
    n = 240
    T = pd.DataFrame({'g': rs.gamma(2.0, 1.5, n), 'u': rs.uniform(2, 5, n), 'z': rs.normal(0, 1, n)})
    idx = {'shifted': np.arange(3000, 3000 + n), 'reversed': np.arange(n)[::-1].copy(), 'permuted': rs.permutation(n), 'duplicated': np.arange(n) // 2,
           'strings': np.array([f'r{i}' for i in range(n)]), 'float': np.linspace(0.5, 99.5, n), 'multiindex': None}[index_kind]
    T2 = T.copy()
    if index_kind == 'multiindex':
        T2.index = pd.MultiIndex.from_arrays([np.arange(n) % 3, np.arange(n)])
    else:
        T2.index = idx

    def mk():
        if config == 'default':
            return GaussianMultivariate()
        if config == 'selection-sample-size':
            return GaussianMultivariate(distribution=Univariate(candidates=[GammaUnivariate, GaussianKDE], selection_sample_size=60))
        if config == 'kde-sample-size':
            return GaussianMultivariate(distribution=GaussianKDE(sample_size=50))
        return GaussianMultivariate(distribution={'g': GammaUnivariate, 'u': Univariate(selection_sample_size=40)})
    outs = []
    with _default_ambient():
        for tab in (T, T2):
            m = mk()
            np.random.seed(12)
            m.fit(tab)
            d = m.to_dict()
            outs.append(([u['type'].rsplit('.', 1)[1] for u in d['univariates']], np.asarray(d['correlation'], dtype=float),
                         [{k: v for k, v in u.items() if isinstance(v, (int, float))} for u in d['univariates']]))
    if outs[0][0] != outs[1][0]:
        return (f'GaussianMultivariate ({config}) fitted on a frame with a {index_kind} row index models the columns as {outs[1][0]}; the same values '
                f'with the default index give {outs[0][0]}')
    if not np.allclose(outs[0][1], outs[1][1], rtol=1e-9, atol=1e-12) or not _close(outs[0][2], outs[1][2], rtol=1e-9):
        return f'GaussianMultivariate ({config}): the fitted parameters depend on the row index ({index_kind})'
    return None


def fit_row_index(ctx, configs=('default', 'selection-sample-size', 'kde-sample-size', 'dict'), quick=True):
    kinds = ('shifted', 'permuted', 'duplicated', 'strings') if quick else ('shifted', 'reversed', 'permuted', 'duplicated', 'strings', 'float', 'multiindex')
    cases = [((c, k), 'fit_row_index_replay', (c, k)) for c in configs for k in kinds]
    _run_oracles(ctx, 'row-index', 'search:fit-depends-on-row-index', cases)


def gm_fit_ambient_replay(kind):
    """GaussianMultivariate.fit on tables with constant / duplicated / perfectly correlated columns under the ambient conditions"""
    import pandas as pd
    from copulas.multivariate import GaussianMultivariate
    from copulas.univariate import GaussianUnivariate
    rs = np.random.RandomState(61)
    n = 60
    a = rs.normal(0, 1, n)
    T = {'plain': pd.DataFrame({'a': a, 'b': 0.5 * a + rs.normal(0, 1, n), 'c': rs.normal(2, 3, n)}),
         'constant-column': pd.DataFrame({'a': a, 'k': np.full(n, 4.25), 'c': 0.3 * a + rs.normal(0, 1, n)}),
         'two-constant-columns': pd.DataFrame({'k1': np.full(n, 1.0), 'a': a, 'k2': np.full(n, -2.0)}),
         'duplicated-column': pd.DataFrame({'a': a, 'b': a.copy(), 'c': rs.normal(0, 1, n)}),
         'anti-correlated': pd.DataFrame({'a': a, 'b': -2.0 * a + 1.0, 'c': rs.normal(0, 1, n)})}[kind]

    def thunk():
        m = GaussianMultivariate(distribution=GaussianUnivariate)
        m.fit(T.copy())
        return np.asarray(m.to_dict()['correlation'], dtype=float).tolist()
    return ambient_compare(thunk)


def gm_fit_ambient(ctx):
    cases = [((k,), 'gm_fit_ambient_replay', (k,)) for k in ('plain', 'constant-column', 'two-constant-columns', 'duplicated-column', 'anti-correlated')]
    _run_oracles(ctx, 'gm-fit-ambient', 'search:ambient-condition-changes-fit', cases)


def gm_class_state_replay():
    """a fit on a table where a label is constant leaves nothing behind that changes how ANOTHER model treats that label"""
    import pandas as pd
    from copulas.multivariate import GaussianMultivariate
    from copulas.univariate import GaussianUnivariate
    rs = np.random.RandomState(67)
    n = 80
    a = rs.normal(0, 1, n)
    live = pd.DataFrame({'a': a, 'b': 0.7 * a + rs.normal(0, 0.5, n), 'c': rs.normal(0, 1, n)})
    with _default_ambient():
        ref = GaussianMultivariate(distribution=GaussianUnivariate)
        ref.fit(live.copy())
        want = np.asarray(ref.to_dict()['correlation'], dtype=float)
        const = live.copy()
        const['b'] = 3.0
        first = GaussianMultivariate(distribution=GaussianUnivariate)
        first.fit(const)
        try:
            broken = GaussianMultivariate(distribution=GaussianUnivariate)
            broken.fit(pd.DataFrame({'a': a, 'b': ['x'] * n}))
        except Exception:
            pass
        for how, m in (('a NEW model', GaussianMultivariate(distribution=GaussianUnivariate)), ('the same model, re-fitted', first)):
            m.fit(live.copy())
            got = np.asarray(m.to_dict()['correlation'], dtype=float)
            if not np.allclose(got, want, rtol=1e-9, atol=1e-12):
                return (f'after a fit on a table whose column b is constant, {how} fitted on a table where b varies has the correlation {got.tolist()} '
                        f'instead of {want.tolist()}')
    return None


def gm_class_state(ctx):
    _run_oracles(ctx, 'gm-class-state', 'search:fit-leaves-state-shared-between-models', [(('constant-label',), 'gm_class_state_replay', ())])
