"""Generation of the bivariate-copula model (Gen_biv.v) from /repo's current source."""
import ast
import os
from . import py2coq as P
from .core import REPO

BIV = os.path.join(REPO, 'copulas', 'bivariate')
CLASS_METHODS = {'cumulative_distribution': 'matrix', 'partial_derivative': 'matrix', 'probability_density': 'matrix',
                 '_g': 'scalar', 'generator': 'scalar'}
FAMILIES = [('Clayton', 'clayton.py'), ('Frank', 'frank.py'), ('Gumbel', 'gumbel.py')]
ORDER = ['_g', 'generator', 'cumulative_distribution', 'partial_derivative', 'probability_density', 'percent_point']


def patch_pow_literals(tree):
    return tree


def translate_base_percent_point(path):
    """Bivariate.percent_point: strict shape check of the Brent loop, emitted with the solver as a parameter."""
    mod, c, f = P.find_method(path, 'Bivariate', 'percent_point')
    body = [s for s in f.body if not (isinstance(s, ast.Expr) and isinstance(s.value, ast.Constant))]
    src = [ast.unparse(s) for s in body]
    if len(body) != 4 or src[0] != 'self.check_fit()' or src[1] != 'result = []' or src[3] != 'return np.array(result)':
        raise P.Unsupported('Bivariate.percent_point: unexpected statement sequence: ' + ' ;; '.join(s[:40] for s in src))
    loop = body[2]
    if not isinstance(loop, ast.For) or ast.unparse(loop.iter) != 'zip(y, V)' or loop.orelse:
        raise P.Unsupported('Bivariate.percent_point: loop is not `for _y, _v in zip(y, V)`')
    ty, tv = [e.id for e in loop.target.elts]
    lb = loop.body
    if len(lb) != 4 or not isinstance(lb[0], ast.FunctionDef):
        raise P.Unsupported('Bivariate.percent_point: unexpected loop body')
    fdef = lb[0]
    if len(fdef.args.args) != 1 or len(fdef.body) != 1 or not isinstance(fdef.body[0], ast.Return):
        raise P.Unsupported('objective function shape')
    uarg = fdef.args.args[0].arg
    sc = P.Scope('Bivariate', {uarg: 'x', ty: 'y', tv: 'v'}, None, {}, {'EPSILON': 'EPSILON'}, {})

    class X(P.ExprTr):
        def call(self, n):
            if ast.unparse(n.func) == 'self.partial_derivative_scalar' and len(n.args) == 2 and not n.keywords:
                return f'(h {self.e(n.args[0])} {self.e(n.args[1])})'
            return super().call(n)

        def e(self, n):
            # np.ravel(<lane expr>)[0]: extraction of the scalar from a one-element array = identity on the lane value
            if isinstance(n, ast.Subscript) and isinstance(n.slice, ast.Constant) and n.slice.value == 0 \
                    and isinstance(n.value, ast.Call) and ast.unparse(n.value.func) == 'np.ravel' \
                    and len(n.value.args) == 1 and not n.value.keywords:
                return self.e(n.value.args[0])
            return super().e(n)
    x = X(sc)
    obj = x.e(fdef.body[0].value)
    call = lb[1]
    if not (isinstance(call, ast.Assign) and isinstance(call.value, ast.Call) and ast.unparse(call.value.func) == 'brentq'
            and len(call.value.args) == 3 and ast.unparse(call.value.args[0]) == fdef.name and not call.value.keywords):
        raise P.Unsupported('brentq call shape: ' + ast.unparse(call))
    lo, hi = x.e(call.value.args[1]), x.e(call.value.args[2])
    res = call.targets[0].id
    if ast.unparse(lb[2]) != f'if isinstance({res}, np.ndarray):\n    {res} = {res}[0]' or \
            ast.unparse(lb[3]) != f'result.append({res})':
        raise P.Unsupported('post-processing of the root: ' + ast.unparse(lb[2])[:60])
    return (
        '(* Bivariate.percent_point: one Brent solve per zipped lane; h = partial_derivative_scalar, '
        'brentq is an oracle parameter *)\n'
        f'Definition bivariate_ppf_objective (h : R -> R -> R) (y v : R) : R -> R := fun x => {obj}.\n'
        f'Definition bivariate_ppf_lo : R := {lo}.\nDefinition bivariate_ppf_hi : R := {hi}.\n'
        'Definition bivariate_percent_point (h : R -> R -> R) (brentq : (R -> R) -> R -> R -> R) (y v : R) : R :=\n'
        '  brentq (bivariate_ppf_objective h y v) bivariate_ppf_lo bivariate_ppf_hi.\n'
        'Definition bivariate_percent_point_batch (h : R -> R -> R) (brentq : (R -> R) -> R -> R -> R) '
        '(X : list (R * R)) : list R :=\n'
        '  map (fun p => bivariate_percent_point h brentq (fst p) (snd p)) X.\n')


def translate_base_log_pdf(path):
    mod, c, f = P.find_method(path, 'Bivariate', 'log_probability_density')
    body = [s for s in f.body if not (isinstance(s, ast.Expr) and isinstance(s.value, ast.Constant))]
    if len(body) != 1 or not isinstance(body[0], ast.Return) or [a.arg for a in f.args.args] != ['self', 'X']:
        raise P.Unsupported('Bivariate.log_probability_density: unexpected shape')
    sc = P.Scope('Bivariate', {}, 'X', {}, {}, {})

    class X(P.ExprTr):
        def call(self, n):
            if ast.unparse(n) == 'self.probability_density(X)':
                return '(pdf u v)'
            return super().call(n)
    e = X(sc).e(body[0].value)
    return ('Definition bivariate_log_probability_density (pdf : R -> R -> R) (u v : R) : R :=\n'
            f'  {e}.\n')


class KTr(P.ExprTr):
    """Kernel expression translator: integer-literal exponents become powerRZ; super().percent_point -> base."""

    def call(self, n):
        if ast.unparse(n.func) == 'np.power' and len(n.args) == 2 and not n.keywords:
            e = n.args[1]
            try:
                v = ast.literal_eval(e)
            except Exception:
                v = None
            if isinstance(v, int) and not isinstance(v, bool):
                return f'(powerRZ {self.e(n.args[0])} ({v})%Z)'
        if ast.unparse(n.func) == 'super().percent_point' and len(n.args) == 2 and not n.keywords:
            a = [self.e(x) for x in n.args]
            return f'(bivariate_percent_point ({self.s.cls.lower()}_partial_derivative theta) brentq {a[0]} {a[1]})'
        return super().call(n)


def generate(ctx):
    """Write Gen_biv.v; return dict name -> None (ok) | error string."""
    status = {}
    out = P.HEADER.format(src='copulas/bivariate/{base,clayton,frank,gumbel}.py')
    try:
        out += translate_base_percent_point(os.path.join(BIV, 'base.py'))
        status['bivariate_percent_point'] = None
    except (P.Unsupported, Exception) as e:   # fail-closed
        status['bivariate_percent_point'] = f'{type(e).__name__}: {e}'
        out += f'(* bivariate_percent_point: UNSUPPORTED {e} *)\n'
    try:
        out += translate_base_log_pdf(os.path.join(BIV, 'base.py'))
        status['bivariate_log_probability_density'] = None
    except Exception as e:
        status['bivariate_log_probability_density'] = f'{type(e).__name__}: {e}'
        out += f'(* bivariate_log_probability_density: UNSUPPORTED {e} *)\n'
    orig = P.ExprTr
    P.ExprTr = KTr
    try:
        for cls, fn in FAMILIES:
            path = os.path.join(BIV, fn)
            for m in ORDER:
                if m == '_g' and cls != 'Frank':
                    continue
                name = f'{cls.lower()}_{m}'
                try:
                    if m == 'percent_point' and cls != 'Clayton':
                        if status['bivariate_percent_point'] is not None:
                            raise P.Unsupported('base percent_point not translated')
                        t, info = P.translate_kernel(path, cls, m, CLASS_METHODS)
                        t = t.replace('(theta : R)', '(theta : R) (brentq : (R -> R) -> R -> R -> R)')
                    else:
                        t, info = P.translate_kernel(path, cls, m, CLASS_METHODS)
                    out += t
                    status[name] = None
                    ctx.extra.setdefault('generated', []).append(name)
                except Exception as e:
                    status[name] = f'{type(e).__name__}: {e}'
                    out += f'(* {name}: UNSUPPORTED {e} *)\n'
            for nm, fnc in (('theta_domain', P.translate_theta_domain), ('compute_theta', P.translate_compute_theta)):
                name = f'{cls.lower()}_{nm}'
                if cls == 'Frank' and nm == 'compute_theta':
                    continue
                try:
                    out += fnc(path, cls)
                    status[name] = None
                except Exception as e:
                    status[name] = f'{type(e).__name__}: {e}'
                    out += f'(* {name}: UNSUPPORTED {e} *)\n'
    finally:
        P.ExprTr = orig
    ctx.write('Gen_biv.v', out)
    return status
