"""Generation of the bivariate-copula model (Gen_biv.v) from /repo's current source."""
import ast
import os
from . import py2coq as P
from .core import REPO

BIV = os.path.join(REPO, 'copulas', 'bivariate')
CLASS_METHODS = {'cumulative_distribution': 'matrix', 'partial_derivative': 'matrix', 'probability_density': 'matrix',
                 '_g': 'scalar', 'generator': 'scalar'}
FAMILIES = [('Clayton', 'clayton.py'), ('Frank', 'frank.py'), ('Gumbel', 'gumbel.py')]
ORDER = ['_g', 'generator', 'cumulative_distribution', 'partial_derivative', 'probability_density', 'percent_point']


def patch_pow_literals(tree):
    return tree


def translate_base_percent_point(path):
    """Bivariate.percent_point: strict shape check of the Brent loop, emitted with the solver as a parameter."""
    mod, c, f = P.find_method(path, 'Bivariate', 'percent_point')
    body = [s for s in f.body if not (isinstance(s, ast.Expr) and isinstance(s.value, ast.Constant))]
    src = [ast.unparse(s) for s in body]
    if len(body) != 4 or src[0] != 'self.check_fit()' or src[1] != 'result = []' or src[3] != 'return np.array(result)':
        raise P.Unsupported('Bivariate.percent_point: unexpected statement sequence: ' + ' ;; '.join(s[:40] for s in src))
    loop = body[2]
    if not isinstance(loop, ast.For) or ast.unparse(loop.iter) != 'zip(y, V)' or loop.orelse:
        raise P.Unsupported('Bivariate.percent_point: loop is not `for _y, _v in zip(y, V)`')
    ty, tv = [e.id for e in loop.target.elts]
    lb = loop.body
    if len(lb) != 4 or not isinstance(lb[0], ast.FunctionDef):
        raise P.Unsupported('Bivariate.percent_point: unexpected loop body')
    fdef = lb[0]
    if len(fdef.args.args) != 1 or len(fdef.body) != 1 or not isinstance(fdef.body[0], ast.Return):
        raise P.Unsupported('objective function shape')
    uarg = fdef.args.args[0].arg
    sc = P.Scope('Bivariate', {uarg: 'x', ty: 'y', tv: 'v'}, None, {}, {'EPSILON': 'EPSILON'}, {})

    class X(P.ExprTr):
        def call(self, n):
            if ast.unparse(n.func) == 'self.partial_derivative_scalar' and len(n.args) == 2 and not n.keywords:
                return f'(h {self.e(n.args[0])} {self.e(n.args[1])})'
            return super().call(n)

        def e(self, n):
            # np.ravel(<lane expr>)[0]: extraction of the scalar from a one-element array = identity on the lane value
            if isinstance(n, ast.Subscript) and isinstance(n.slice, ast.Constant) and n.slice.value == 0 \
                    and isinstance(n.value, ast.Call) and ast.unparse(n.value.func) == 'np.ravel' \
                    and len(n.value.args) == 1 and not n.value.keywords:
                return self.e(n.value.args[0])
            return super().e(n)
    x = X(sc)
    obj = x.e(fdef.body[0].value)
    call = lb[1]
    if not (isinstance(call, ast.Assign) and isinstance(call.value, ast.Call) and ast.unparse(call.value.func) == 'brentq'
            and len(call.value.args) == 3 and ast.unparse(call.value.args[0]) == fdef.name and not call.value.keywords):
        raise P.Unsupported('brentq call shape: ' + ast.unparse(call))
    lo, hi = x.e(call.value.args[1]), x.e(call.value.args[2])
    res = call.targets[0].id
    if ast.unparse(lb[2]) != f'if isinstance({res}, np.ndarray):\n    {res} = {res}[0]' or \
            ast.unparse(lb[3]) != f'result.append({res})':
        raise P.Unsupported('post-processing of the root: ' + ast.unparse(lb[2])[:60])
    return (
        '(* Bivariate.percent_point: one Brent solve per zipped lane; h = partial_derivative_scalar, '
        'brentq is an oracle parameter *)\n'
        f'Definition bivariate_ppf_objective (h : R -> R -> R) (y v : R) : R -> R := fun x => {obj}.\n'
        f'Definition bivariate_ppf_lo : R := {lo}.\nDefinition bivariate_ppf_hi : R := {hi}.\n'
        'Definition bivariate_percent_point (h : R -> R -> R) (brentq : (R -> R) -> R -> R -> R) (y v : R) : R :=\n'
        '  brentq (bivariate_ppf_objective h y v) bivariate_ppf_lo bivariate_ppf_hi.\n'
        'Definition bivariate_percent_point_batch (h : R -> R -> R) (brentq : (R -> R) -> R -> R -> R) '
        '(X : list (R * R)) : list R :=\n'
        '  map (fun p => bivariate_percent_point h brentq (fst p) (snd p)) X.\n')


def translate_base_log_pdf(path):
    mod, c, f = P.find_method(path, 'Bivariate', 'log_probability_density')
    body = [s for s in f.body if not (isinstance(s, ast.Expr) and isinstance(s.value, ast.Constant))]
    if len(body) != 1 or not isinstance(body[0], ast.Return) or [a.arg for a in f.args.args] != ['self', 'X']:
        raise P.Unsupported('Bivariate.log_probability_density: unexpected shape')
    sc = P.Scope('Bivariate', {}, 'X', {}, {}, {})

    class X(P.ExprTr):
        def call(self, n):
            if ast.unparse(n) == 'self.probability_density(X)':
                return '(pdf u v)'
            return super().call(n)
    e = X(sc).e(body[0].value)
    return ('Definition bivariate_log_probability_density (pdf : R -> R -> R) (u v : R) : R :=\n'
            f'  {e}.\n')


class KTr(P.ExprTr):
    """Kernel expression translator: integer-literal exponents become powerRZ; super().percent_point -> base."""

    def call(self, n):
        if ast.unparse(n.func) == 'np.power' and len(n.args) == 2 and not n.keywords:
            e = n.args[1]
            try:
                v = ast.literal_eval(e)
            except Exception:
                v = None
            if isinstance(v, int) and not isinstance(v, bool):
                return f'(powerRZ {self.e(n.args[0])} ({v})%Z)'
        if ast.unparse(n.func) == 'super().percent_point' and len(n.args) == 2 and not n.keywords:
            a = [self.e(x) for x in n.args]
            return f'(bivariate_percent_point ({self.s.cls.lower()}_partial_derivative theta) brentq {a[0]} {a[1]})'
        return super().call(n)


QHEADER = '''(* GENERATED by tools/vf/py2coq.py (rational-arithmetic mode) from copulas/bivariate/*.py -- regenerated on every run *)
From Coq Require Import QArith List Bool.
From Cop Require Import Model.BivCtl.
Import ListNotations.
Open Scope Q_scope.
'''


def generate_q(ctx):
    """Gen_bivq.v: executable (Q) versions of the theta domains and closed-form compute_theta."""
    status = {}
    out = QHEADER
    for cls, fn in FAMILIES:
        path = os.path.join(BIV, fn)
        for nm, fnc in (('dom', P.translate_theta_domain_q), ('compute_theta_q', P.translate_compute_theta_q)):
            name = f'{cls.lower()}_{nm}'
            if cls == 'Frank' and nm == 'compute_theta_q':
                continue
            try:
                out += fnc(path, cls)
                status[name] = None
            except Exception as e:
                status[name] = f'{type(e).__name__}: {e}'
                out += f'(* {name}: UNSUPPORTED {P.comment_safe(e)} *)\n'
    ctx.write('Gen_bivq.v', out)
    return status


def generate(ctx):
    """Write Gen_biv.v; return dict name -> None (ok) | error string."""
    status = {}
    out = P.HEADER.format(src='copulas/bivariate/{base,clayton,frank,gumbel}.py')
    try:
        out += translate_base_percent_point(os.path.join(BIV, 'base.py'))
        status['bivariate_percent_point'] = None
    except (P.Unsupported, Exception) as e:   # fail-closed
        status['bivariate_percent_point'] = f'{type(e).__name__}: {e}'
        out += f'(* bivariate_percent_point: UNSUPPORTED {P.comment_safe(e)} *)\n'
    try:
        out += translate_base_log_pdf(os.path.join(BIV, 'base.py'))
        status['bivariate_log_probability_density'] = None
    except Exception as e:
        status['bivariate_log_probability_density'] = f'{type(e).__name__}: {e}'
        out += f'(* bivariate_log_probability_density: UNSUPPORTED {P.comment_safe(e)} *)\n'
    try:
        out += translate_base_sample(os.path.join(BIV, 'base.py'))
        status['bivariate_sample'] = None
    except Exception as e:
        status['bivariate_sample'] = f'{type(e).__name__}: {e}'
        out += f'(* bivariate_sample: UNSUPPORTED {P.comment_safe(e)} *)\n'
    orig = P.ExprTr
    P.ExprTr = KTr
    try:
        for cls, fn in FAMILIES:
            path = os.path.join(BIV, fn)
            for m in ORDER:
                if m == '_g' and cls != 'Frank':
                    continue
                name = f'{cls.lower()}_{m}'
                try:
                    if m == 'percent_point' and cls != 'Clayton':
                        if status['bivariate_percent_point'] is not None:
                            raise P.Unsupported('base percent_point not translated')
                        t, info = P.translate_kernel(path, cls, m, CLASS_METHODS)
                        t = t.replace('(theta : R)', '(theta : R) (brentq : (R -> R) -> R -> R -> R)')
                    else:
                        t, info = P.translate_kernel(path, cls, m, CLASS_METHODS)
                    out += t
                    status[name] = None
                    ctx.extra.setdefault('generated', []).append(name)
                except Exception as e:
                    status[name] = f'{type(e).__name__}: {e}'
                    out += f'(* {name}: UNSUPPORTED {P.comment_safe(e)} *)\n'
            for nm, fnc in (('theta_domain', P.translate_theta_domain), ('compute_theta', P.translate_compute_theta)):
                name = f'{cls.lower()}_{nm}'
                try:
                    if cls == 'Frank' and nm == 'compute_theta':
                        out += translate_frank_tau_to_theta(path) + translate_frank_compute_theta(path)
                    else:
                        out += fnc(path, cls)
                    status[name] = None
                except Exception as e:
                    status[name] = f'{type(e).__name__}: {e}'
                    out += f'(* {name}: UNSUPPORTED {P.comment_safe(e)} *)\n'
    finally:
        P.ExprTr = orig
    ctx.write('Gen_biv.v', out)
    return status


def translate_frank_tau_to_theta(path):
    """Frank._tau_to_theta: residual handed to least_squares; quad is an oracle (denoted by RInt in the bridge)."""
    mod, c, f = P.find_method(path, 'Frank', '_tau_to_theta')
    if [a.arg for a in f.args.args] != ['self', 'alpha']:
        raise P.Unsupported('_tau_to_theta signature')
    body = [s for s in f.body if not (isinstance(s, ast.Expr) and isinstance(s.value, ast.Constant))]
    # optional scalar extraction of the least_squares iterate: alpha = np.ravel(alpha)[0]
    if body and ast.unparse(body[0]) in ('alpha = np.ravel(alpha)[0]', 'alpha = alpha[0]', 'alpha = np.asarray(alpha).ravel()[0]'):
        body = body[1:]
    if len(body) != 3 or not isinstance(body[0], ast.FunctionDef) or not isinstance(body[2], ast.Return):
        raise P.Unsupported('_tau_to_theta: unexpected statement sequence')
    d = body[0]
    if len(d.args.args) != 1 or len(d.body) != 1 or not isinstance(d.body[0], ast.Return):
        raise P.Unsupported('integrand shape')
    t = d.args.args[0].arg
    sc = P.Scope('Frank', {t: 't'}, None, {}, {'EPSILON': 'EPSILON'}, {'tau': 'tau'})
    integrand = P.ExprTr(sc).e(d.body[0].value)
    a = body[1]
    sc2 = P.Scope('Frank', {'alpha': 'alpha'}, None, {}, {'EPSILON': 'EPSILON'}, {'tau': 'tau'})

    class X(P.ExprTr):
        def e(self, n):
            if isinstance(n, ast.Subscript) and isinstance(n.slice, ast.Constant) and n.slice.value == 0 \
                    and isinstance(n.value, ast.Call) and ast.unparse(n.value.func) == 'integrate.quad' \
                    and len(n.value.args) == 3 and not n.value.keywords and ast.unparse(n.value.args[0]) == d.name:
                return f'(quad frank_debye_integrand {self.e(n.value.args[1])} {self.e(n.value.args[2])})'
            return super().e(n)
    x = X(sc2)
    if not (isinstance(a, ast.Assign) and len(a.targets) == 1 and isinstance(a.targets[0], ast.Name)):
        raise P.Unsupported('debye_value assignment')
    dv = x.e(a.value)
    sc2.env[a.targets[0].id] = 'debye_value'
    res = x.e(body[2].value)
    return (f'Definition frank_debye_integrand (t : R) : R := {integrand}.\n'
            'Definition frank__tau_to_theta (quad : (R -> R) -> R -> R -> R) (tau alpha : R) : R :=\n'
            f'  let debye_value := {dv} in\n  {res}.\n')


def translate_frank_compute_theta(path):
    """Frank.compute_theta: least_squares(self._tau_to_theta, 1, bounds=(MIN_FLOAT_LOG, MAX_FLOAT_LOG)).x[0]"""
    mod, c, f = P.find_method(path, 'Frank', 'compute_theta')
    body = [s for s in f.body if not (isinstance(s, ast.Expr) and isinstance(s.value, ast.Constant))]
    src = [ast.unparse(s) for s in body]
    if src != ['result = least_squares(self._tau_to_theta, 1, bounds=(MIN_FLOAT_LOG, MAX_FLOAT_LOG))', 'return result.x[0]']:
        raise P.Unsupported('Frank.compute_theta: unexpected body: ' + ' ;; '.join(src))
    consts = {}
    for n in mod.body:
        if isinstance(n, ast.Assign) and isinstance(n.targets[0], ast.Name) and n.targets[0].id in ('MIN_FLOAT_LOG', 'MAX_FLOAT_LOG'):
            consts[n.targets[0].id] = ast.unparse(n.value)
    if consts != {'MIN_FLOAT_LOG': 'np.log(sys.float_info.min)', 'MAX_FLOAT_LOG': 'np.log(sys.float_info.max)'}:
        raise P.Unsupported('least_squares bounds constants: ' + repr(consts))
    return ('(* least_squares is an oracle: start 1, bounds (ln DBL_MIN, ln DBL_MAX); returns its first coordinate *)\n'
            'Definition frank_compute_theta (least_squares : (R -> R) -> R -> R) (quad : (R -> R) -> R -> R -> R) (tau : R) : theta_result :=\n'
            '  ThetaVal (least_squares (frank__tau_to_theta quad tau) 1).\n')


def translate_base_sample(path):
    """Bivariate.sample: tau guard, two uniform draws (v first, then c), u = percent_point(c, v), column_stack((u, v))."""
    mod, c, f = P.find_method(path, 'Bivariate', 'sample')
    decs = [ast.unparse(d) for d in f.decorator_list]
    if decs != ['random_state']:
        raise P.Unsupported(f'Bivariate.sample decorators are {decs}, expected [random_state]')
    if [a.arg for a in f.args.args] != ['self', 'n_samples']:
        raise P.Unsupported('Bivariate.sample signature')
    body = [s for s in f.body if not (isinstance(s, ast.Expr) and isinstance(s.value, ast.Constant))]
    # since the F23 fix the body starts with `self.check_fit()` (NotFittedError before anything else); recorded as a generated fact
    checks_fit = bool(body) and isinstance(body[0], ast.Expr) and ast.unparse(body[0]) == 'self.check_fit()'
    if checks_fit:
        body = body[1:]
    if len(body) != 5 or not isinstance(body[0], ast.If) or body[0].orelse or len(body[0].body) != 1 \
            or not isinstance(body[0].body[0], ast.Raise) or 'ValueError' not in ast.unparse(body[0].body[0]):
        raise P.Unsupported('Bivariate.sample: unexpected statement sequence / guard')
    sc = P.Scope('Bivariate', {}, None, {}, {}, {'tau': 'tau'})
    guard = P.ExprTr(sc).b(body[0].test)
    draws = []
    for st in body[1:3]:
        if not (isinstance(st, ast.Assign) and isinstance(st.targets[0], ast.Name)
                and ast.unparse(st.value) == 'np.random.uniform(0, 1, n_samples)'):
            raise P.Unsupported('Bivariate.sample: draw statement ' + ast.unparse(st))
        draws.append(st.targets[0].id)
    st = body[3]
    if not (isinstance(st, ast.Assign) and isinstance(st.value, ast.Call) and ast.unparse(st.value.func) == 'self.percent_point'
            and len(st.value.args) == 2 and not st.value.keywords):
        raise P.Unsupported('Bivariate.sample: percent_point call ' + ast.unparse(st))
    a1, a2 = (ast.unparse(x) for x in st.value.args)
    uname = st.targets[0].id
    if sorted([a1, a2]) != sorted(draws):
        raise P.Unsupported('Bivariate.sample: percent_point arguments are not the two draws')
    ret = ast.unparse(body[4])
    other = [d for d in draws if d != a1]
    if ret != f'return np.column_stack(({uname}, {a2}))':
        raise P.Unsupported('Bivariate.sample: return ' + ret)
    # first draw -> d1, second draw -> d2 ; percent_point(y = a1, V = a2)
    names = {draws[0]: 'd1', draws[1]: 'd2'}
    return ('(* Bivariate.sample (decorated with @random_state): guard, first uniform draw d1, second uniform draw d2 *)\n'
            f'Definition bivariate_sample_check_fit_first : bool := {"true" if checks_fit else "false"}.\n'
            f'Definition bivariate_sample_guard (tau : R) : bool := {guard}.\n'
            'Definition bivariate_sample (ppf : R -> R -> R) (tau : R) (d1 d2 : list R) : option (list (R * R)) :=\n'
            '  if bivariate_sample_guard tau then None\n'
            f'  else Some (map (fun p => let d1 := fst p in let d2 := snd p in (ppf {names[a1]} {names[a2]}, {names[a2]})) (combine d1 d2)).\n')
