"""Generation of Gen_selcop.v: the code-shaped parts of copulas.bivariate.select_copula
(`_compute_empirical`, `_compute_tail`, `_compute_candidates`, `select_copula`, `Bivariate._compute_theta`)
translated from the current source by strict shape translators (fail closed).

Every generated definition is proved equal to its hand-written counterpart of Model.SelectCopula in
Props/C11.v, so a changed constant, comparison, order of candidates, tail formula, rank direction or
argmax breaks a bridge lemma (or is refused here with `Unsupported`).

The formulas (fragment E) go through py2coq.QExprTr; the statement skeleton is matched against
patterns written as Python source with pattern variables:
    V_xxx  matches any Name (consistently),   E_xxx  matches any expression (consistently).
"""
import ast
from . import srcnorm as _srcnorm
import os
import re
from . import py2coq as P
from .core import REPO

Unsupported = P.Unsupported
INIT = os.path.join(REPO, 'copulas', 'bivariate', '__init__.py')
BASE = os.path.join(REPO, 'copulas', 'bivariate', 'base.py')
UTILS = os.path.join(REPO, 'copulas', 'utils.py')
BUTILS = os.path.join(REPO, 'copulas', 'bivariate', 'utils.py')
FAMILY = {'Frank': 'Frank', 'Clayton': 'Clayton', 'Gumbel': 'Gumbel'}


# ----------------------------------------------------------------------------- pattern matching
def unify(p, n, b):
    if isinstance(p, ast.Name) and p.id.startswith('V_'):
        if not isinstance(n, ast.Name):
            return False
        if p.id in b:
            return b[p.id] == n.id
        b[p.id] = n.id
        return True
    if isinstance(p, ast.Name) and p.id.startswith('E_'):
        if not isinstance(n, ast.expr):
            return False
        if p.id in b:
            return ast.dump(b[p.id]) == ast.dump(n)
        b[p.id] = n
        return True
    if type(p) is not type(n):
        return False
    for f in p._fields:
        pv, nv = getattr(p, f, None), getattr(n, f, None)
        if isinstance(pv, list):
            if not isinstance(nv, list) or len(pv) != len(nv):
                return False
            for a, c in zip(pv, nv):
                if isinstance(a, ast.AST):
                    if not isinstance(c, ast.AST) or not unify(a, c, b):
                        return False
                elif a != c:
                    return False
        elif isinstance(pv, ast.AST):
            if not isinstance(nv, ast.AST) or not unify(pv, nv, b):
                return False
        else:
            if type(pv) is not type(nv) or pv != nv:
                return False
    return True


def pat(src):
    return ast.parse(src).body[0]


def match(src, node, b=None, what=''):
    """Match statement `node` against the pattern `src`; returns the bindings or raises Unsupported."""
    b = {} if b is None else b
    if not unify(pat(src), node, b):
        raise Unsupported(f'{what}: expected the shape `{src.strip()}`, found `{ast.unparse(node)[:160]}`')
    return b


def try_match(src, node, b=None):
    b2 = dict(b or {})
    if unify(pat(src), node, b2):
        return b2
    return None


def body_of(f):
    return [s for s in f.body if not (isinstance(s, ast.Expr) and isinstance(s.value, ast.Constant)
                                      and isinstance(s.value.value, str))]


def plain_signature(f, names):
    a = f.args
    if [x.arg for x in a.args] != names or a.vararg or a.kwarg or a.kwonlyargs or a.defaults or a.posonlyargs \
            or f.decorator_list:
        raise Unsupported(f'{f.name}: signature/decorators changed (expected parameters {names}, no decorator)')


# ----------------------------------------------------------------------------- expressions over Q
class SelQ(P.QExprTr):
    """QExprTr + names from an environment, `x ** 2`, `np.power(x, 2)`, `np.asarray(x)`, chosen subscripts/calls."""

    def __init__(self, env, subs=None, calls=None):
        super().__init__(P.Scope('select_copula', {}, None, {}, {}, {}))
        self.env = env            # python name -> coq term
        self.subs = subs or {}    # unparse(subscript) -> coq term
        self.calls = calls or {}  # unparse(call) -> coq term
        self.used = set()

    def e(self, n):
        src = ast.unparse(n)
        if isinstance(n, ast.Name):
            if n.id in self.env:
                self.used.add(n.id)
                return self.env[n.id]
            raise Unsupported(f'name `{n.id}` in a formula')
        if isinstance(n, ast.Subscript):
            if src in self.subs:
                self.used.add(src)
                return self.subs[src]
            raise Unsupported(f'subscript `{src}` in a formula')
        if isinstance(n, ast.Attribute):
            if src in self.env:
                self.used.add(src)
                return self.env[src]
            raise Unsupported(f'attribute `{src}` in a formula')
        if isinstance(n, ast.BinOp) and isinstance(n.op, ast.Pow):
            if isinstance(n.right, ast.Constant) and type(n.right.value) is int and n.right.value == 2:
                a = self.e(n.left)
                return f'({a} * {a})'
            raise Unsupported(f'power `{src}` (only `** 2` is supported)')
        if isinstance(n, ast.Call):
            if src in self.calls:
                self.used.add(src)
                return self.calls[src]
            fn = ast.unparse(n.func)
            if n.keywords:
                raise Unsupported(f'keyword arguments in `{src}`')
            if fn == 'np.asarray' and len(n.args) == 1:
                return self.e(n.args[0])
            if fn == 'np.power' and len(n.args) == 2 and isinstance(n.args[1], ast.Constant) \
                    and type(n.args[1].value) is int and n.args[1].value == 2:
                a = self.e(n.args[0])
                return f'({a} * {a})'
            if fn == '_compute_tail' and len(n.args) == 2:
                return f'(gen_tail_val {self.e(n.args[0])} {self.e(n.args[1])})'
            raise Unsupported(f'call `{src}` in a formula')
        return super().e(n)


# ----------------------------------------------------------------------------- constants
def module_int_const(mod, name):
    vals = [n.value for n in mod.body if isinstance(n, ast.Assign) and len(n.targets) == 1
            and isinstance(n.targets[0], ast.Name) and n.targets[0].id == name]
    if len(vals) != 1 or not isinstance(vals[0], ast.Constant) or type(vals[0].value) is not int or vals[0].value < 2:
        raise Unsupported(f'module constant {name} is not a single integer literal >= 2')
    return vals[0].value


def epsilon_q():
    mod = _srcnorm.parse_file(UTILS)
    vals = [ast.unparse(n.value) for n in mod.body if isinstance(n, ast.Assign) and len(n.targets) == 1
            and isinstance(n.targets[0], ast.Name) and n.targets[0].id == 'EPSILON']
    if vals != ['np.finfo(np.float32).eps']:
        raise Unsupported(f'copulas.utils.EPSILON is {vals}, expected np.finfo(np.float32).eps')
    return '(1 # 8388608)'      # 2^-23, the float32 machine epsilon


def check_imports(mod):
    """the names the translation relies on must be the expected objects"""
    need = {('copulas.utils', 'EPSILON'), ('copulas.bivariate.clayton', 'Clayton'), ('copulas.bivariate.frank', 'Frank'),
            ('copulas.bivariate.gumbel', 'Gumbel'), ('copulas.bivariate.utils', 'split_matrix')}
    have = set()
    for n in mod.body:
        if isinstance(n, ast.ImportFrom):
            for a in n.names:
                if a.asname is None:
                    have.add((n.module, a.name))
    missing = need - have
    if missing:
        raise Unsupported(f'imports changed, missing {sorted(missing)}')
    plain = {(a.name, a.asname) for n in mod.body if isinstance(n, ast.Import) for a in n.names}
    if ('numpy', 'np') not in plain or ('pandas', 'pd') not in plain:
        raise Unsupported('numpy/pandas are not imported as np/pd')
    # no rebinding of the names at module level
    for n in mod.body:
        if isinstance(n, (ast.Assign, ast.FunctionDef, ast.ClassDef)):
            names = [t.id for t in getattr(n, 'targets', []) if isinstance(t, ast.Name)] + ([n.name] if hasattr(n, 'name') else [])
            for nm in names:
                if nm in ('EPSILON', 'Clayton', 'Frank', 'Gumbel', 'split_matrix', 'np', 'pd'):
                    raise Unsupported(f'{nm} is rebound at module level')


def check_split_matrix():
    mod, f = P.find_function(BUTILS, 'split_matrix')
    src = [ast.unparse(s) for s in body_of(f)]
    if src != ['if len(X):\n    return (X[:, 0], X[:, 1])', 'return (np.array([]), np.array([]))']:
        raise Unsupported('split_matrix changed: ' + ' ;; '.join(src))


# ----------------------------------------------------------------------------- _compute_empirical
def tr_compute_empirical(mod):
    f = next((n for n in mod.body if isinstance(n, ast.FunctionDef) and n.name == '_compute_empirical'), None)
    if f is None:
        raise Unsupported('_compute_empirical not found')
    plain_signature(f, ['X'])
    st = body_of(f)
    if len(st) != 9:
        raise Unsupported(f'_compute_empirical: {len(st)} statements, expected 9')
    inits = sorted(ast.unparse(s) for s in st[:4])
    if inits != ['L = []', 'R = []', 'z_left = []', 'z_right = []']:
        raise Unsupported('_compute_empirical: list initialisations are ' + repr(inits))
    b = match('V_U, V_V = split_matrix(X)', st[4], what='_compute_empirical')
    match('V_N = len(V_U)', st[5], b, what='_compute_empirical')
    match('V_base = np.linspace(E_lo, E_hi, V_steps)', st[6], b, what='_compute_empirical')
    steps = module_int_const(mod, b['V_steps'])
    cq = SelQ({'EPSILON': 'gen_epsilon'})
    lo, hi = cq.e(b['E_lo']), cq.e(b['E_hi'])
    loop = st[7]
    match('for V_k in range(V_steps):\n    pass', ast.For(target=loop.target, iter=loop.iter, body=[ast.Pass()], orelse=loop.orelse,
                                                             type_comment=None), b, what='_compute_empirical loop header')
    if len(loop.body) != 4:
        raise Unsupported('_compute_empirical: loop body has %d statements, expected 4' % len(loop.body))
    match('V_left = sum(np.logical_and(E_a, E_b)) / V_N', loop.body[0], b, what='left count')
    match('V_right = sum(np.logical_and(E_c, E_d)) / V_N', loop.body[1], b, what='right count')
    match('if E_t1:\n    z_left.append(V_base[V_k])\n    L.append(E_Lexpr)', loop.body[2], b, what='left branch')
    match('if E_t2:\n    z_right.append(V_base[V_k])\n    R.append(E_Rexpr)', loop.body[3], b, what='right branch')
    if ast.unparse(st[8]) != 'return (z_left, L, z_right, R)':
        raise Unsupported('_compute_empirical: return statement is ' + ast.unparse(st[8]))
    if len({b['V_U'], b['V_V'], b['V_N'], b['V_base'], b['V_k'], b['V_left'], b['V_right'], 'z_left', 'z_right', 'L', 'R', 'X'}) != 12:
        raise Unsupported('_compute_empirical: local names collide')
    bk = f"{b['V_base']}[{b['V_k']}]"
    lane = SelQ({b['V_U']: '(fst uv)', b['V_V']: '(snd uv)'}, subs={bk: 'b'})
    pl = f"({lane.b(b['E_a'])} && {lane.b(b['E_b'])})"
    pr = f"({lane.b(b['E_c'])} && {lane.b(b['E_d'])})"
    sc = SelQ({b['V_left']: 'left', b['V_right']: 'right'}, subs={bk: 'b'})
    t1, lexpr, t2 = sc.b(b['E_t1']), sc.e(b['E_Lexpr']), sc.b(b['E_t2'])
    zk = f"z_right[{b['V_k']}]"
    sr = SelQ({b['V_left']: 'left', b['V_right']: 'right'}, subs={bk: 'b', zk: 'z'})
    rexpr = sr.e(b['E_Rexpr'])
    if zk in sr.used:
        rbranch = ('      match nth_error zr k with                      (* z_right[k] *)\n'
                   '      | Some z => Ok {| z_left := z_left st1; L := L st1; z_right := zr;\n'
                   f'                        R := R st1 ++ [{rexpr}] |}}\n'
                   '      | None => Err IndexError\n      end\n')
    else:
        rbranch = f'      Ok {{| z_left := z_left st1; L := L st1; z_right := zr; R := R st1 ++ [{rexpr}] |}}\n'
    out = (
        f'Definition gen_steps : nat := {steps}.\n'
        f'Definition gen_epsilon : Q := {epsilon_q()}.\n'
        f'(* {ast.unparse(st[6])} *)\n'
        f'Definition gen_base : list Q := linspace {lo} {hi} gen_steps.\n'
        f'(* {ast.unparse(loop.body[0])} *)\n'
        f'Definition gen_left_of (UV : list (Q * Q)) (b : Q) : Q :=\n  frac UV (length (filter (fun uv => {pl}) UV)).\n'
        f'(* {ast.unparse(loop.body[1])} *)\n'
        f'Definition gen_right_of (UV : list (Q * Q)) (b : Q) : Q :=\n  frac UV (length (filter (fun uv => {pr}) UV)).\n'
        '(* one iteration of the loop over k (b = base[k]) *)\n'
        'Definition gen_emp_step (UV : list (Q * Q)) (k : nat) (b : Q) (st : emp) : result emp :=\n'
        '  let left := gen_left_of UV b in\n  let right := gen_right_of UV b in\n'
        f'  let st1 :=\n      if {t1}\n      then {{| z_left := z_left st ++ [b]; L := L st ++ [{lexpr}];\n'
        '              z_right := z_right st; R := R st |}\n      else st in\n'
        f'  if {t2} then\n      let zr := z_right st1 ++ [b] in\n{rbranch}'
        '  else Ok st1.\n'
        'Fixpoint gen_emp_loop (UV : list (Q * Q)) (base : list Q) (k : nat) (st : emp) : result emp :=\n'
        '  match base with\n  | [] => Ok st\n  | b :: tl => match gen_emp_step UV k b st with\n'
        '               | Ok st\' => gen_emp_loop UV tl (S k) st\'\n               | Err e => Err e\n               end\n  end.\n'
        '(* N = len(U) = 0 makes `sum(...) / N` raise ZeroDivisionError at the first grid point *)\n'
        'Definition gen_compute_empirical (UV : list (Q * Q)) (base : list Q) : result emp :=\n'
        '  match UV with\n'
        '  | [] => match base with [] => Ok {| z_left := []; L := []; z_right := []; R := [] |}\n'
        '                        | _ => Err ZeroDivisionError end\n'
        '  | _ => gen_emp_loop UV base 0 {| z_left := []; L := []; z_right := []; R := [] |}\n  end.\n')
    return out, {'steps': steps, 'uses_z_right_k': zk in sr.used}


# ----------------------------------------------------------------------------- _compute_tail / _compute_candidates
def tr_compute_tail(mod):
    f = next((n for n in mod.body if isinstance(n, ast.FunctionDef) and n.name == '_compute_tail'), None)
    if f is None:
        raise Unsupported('_compute_tail not found')
    plain_signature(f, ['c', 'z'])
    st = body_of(f)
    if len(st) != 1 or not isinstance(st[0], ast.Return) or st[0].value is None:
        raise Unsupported('_compute_tail: body is not a single return')
    e = SelQ({'c': 'v', 'z': 'z'}).e(st[0].value)
    return (f'(* {ast.unparse(st[0])} *)\n'
            f'Definition gen_tail_val (v z : Q) : Q := {e}.\n'
            'Definition gen_compute_tail (cv : option Q) (z : Q) : option Q :=\n'
            '  match cv with Some v => Some (gen_tail_val v z) | None => None end.\n')


def tr_compute_candidates(mod):
    f = next((n for n in mod.body if isinstance(n, ast.FunctionDef) and n.name == '_compute_candidates'), None)
    if f is None:
        raise Unsupported('_compute_candidates not found')
    a = [x.arg for x in f.args.args]
    if len(a) != 3:
        raise Unsupported('_compute_candidates: expected 3 parameters')
    plain_signature(f, a)
    st = body_of(f)
    if len(st) != 6:
        raise Unsupported(f'_compute_candidates: {len(st)} statements, expected 6')
    b = match('V_l = []', st[0], what='_compute_candidates')
    match('V_r = []', st[1], b, what='_compute_candidates')
    match('V_XL = np.column_stack((V_pl, V_pl))', st[2], b, what='_compute_candidates (diagonal points)')
    match('V_XR = np.column_stack((V_pr, V_pr))', st[3], b, what='_compute_candidates (diagonal points)')
    match(f'for V_c in {a[0]}:\n    V_l.append(E_lexpr)\n    V_r.append(E_rexpr)', st[4], b, what='_compute_candidates loop')
    match('return V_l, V_r', st[5], b, what='_compute_candidates')
    if b['V_pl'] not in a[1:] or b['V_pr'] not in a[1:] or b['V_pl'] == b['V_pr'] or b['V_l'] == b['V_r'] or b['V_XL'] == b['V_XR']:
        raise Unsupported('_compute_candidates: the two diagonal matrices are not built from the two distinct tail parameters')
    coq_par = {a[1]: 'p1', a[2]: 'p2'}
    out = ''
    for name, ex, ret in (('gen_cand_first', b['E_lexpr'], 0), ('gen_cand_second', b['E_rexpr'], 1)):
        done = None
        for X, p in ((b['V_XL'], b['V_pl']), (b['V_XR'], b['V_pr'])):
            call = f"{b['V_c']}.cumulative_distribution({X})"
            tr = SelQ({p: 'z'}, calls={call: 'v'})
            try:
                term = tr.e(ex)
            except Unsupported:
                continue
            if call in tr.used:
                done = (term, p)
        if done is None:
            raise Unsupported(f'_compute_candidates: `{ast.unparse(ex)}` is not a lane formula of one diagonal cdf call and its own tail parameter')
        term, p = done
        out += (f'(* {ast.unparse(ex)}   [points: the diagonal ({p}, {p})] *)\n'
                f'Definition {name} (cdf : copula -> Q -> option Q) (c : copula) (p1 p2 : list Q) : list (option Q) :=\n'
                f'  map (fun z => match cdf c z with Some v => Some {term} | None => None end) {coq_par[p]}.\n')
    return out, {'params': a}


# ----------------------------------------------------------------------------- Bivariate._compute_theta / check_theta
def tr_base_compute_theta():
    mod, c, f = P.find_method(BASE, 'Bivariate', '_compute_theta')
    if [ast.unparse(s) for s in body_of(f)] != ['self.theta = self.compute_theta()', 'self.check_theta()'] or f.decorator_list:
        raise Unsupported('Bivariate._compute_theta changed: ' + ' ;; '.join(ast.unparse(s) for s in body_of(f)))
    mod, c, f = P.find_method(BASE, 'Bivariate', 'check_theta')
    st = body_of(f)
    if len(st) != 2 or ast.unparse(st[0]) != 'lower, upper = self.theta_interval' or not isinstance(st[1], ast.If) \
            or ast.unparse(st[1].test) != 'not lower <= self.theta <= upper or self.theta in self.invalid_thetas' \
            or st[1].orelse or not isinstance(st[1].body[-1], ast.Raise) or 'ValueError' not in ast.unparse(st[1].body[-1]):
        raise Unsupported('Bivariate.check_theta changed: ' + ' ;; '.join(ast.unparse(s)[:80] for s in st))
    for cls, fn in (('Clayton', 'clayton.py'), ('Gumbel', 'gumbel.py'), ('Frank', 'frank.py')):
        m = _srcnorm.parse_file(os.path.join(REPO, 'copulas', 'bivariate', fn))
        k = next((n for n in m.body if isinstance(n, ast.ClassDef) and n.name == cls), None)
        if k is None or [ast.unparse(x) for x in k.bases] != ['Bivariate']:
            raise Unsupported(f'class {cls} is not a direct subclass of Bivariate')
        for meth in ('_compute_theta', 'check_theta', '__init__', '__setattr__', '__new__'):
            if any(isinstance(x, ast.FunctionDef) and x.name == meth for x in k.body):
                raise Unsupported(f'{cls} overrides {meth}')
    return ('(* Bivariate._compute_theta: self.theta = self.compute_theta(); self.check_theta()   (None = ValueError raised) *)\n'
            'Definition gen_theta_of (d : BivCtl.dom) (compute : Q -> BivCtl.theta_res) (tau : Q) : option theta :=\n'
            '  match compute tau with\n'
            '  | BivCtl.TErr => None\n'
            '  | BivCtl.TInf => if BivCtl.check_theta d BivCtl.PInf then Some PosInf else None\n'
            '  | BivCtl.TVal q => if BivCtl.check_theta d (BivCtl.Fin q) then Some (Finite q) else None\n'
            '  end.\n'
            'Definition gen_family_theta (f : family) (tau : Q) : option theta :=\n'
            '  match f with\n'
            '  | Clayton => gen_theta_of clayton_dom clayton_compute_theta_q tau\n'
            '  | Gumbel => gen_theta_of gumbel_dom gumbel_compute_theta_q tau\n'
            '  | Frank => None\n  end.\n')


# ----------------------------------------------------------------------------- select_copula
def cn(name):
    """Coq name of a python local"""
    if not re.fullmatch(r'[A-Za-z_][A-Za-z0-9_]*', name):
        raise Unsupported(f'identifier {name!r}')
    return 'py_' + name


def tr_select_copula(mod, cand_info):
    f = next((n for n in mod.body if isinstance(n, ast.FunctionDef) and n.name == 'select_copula'), None)
    if f is None:
        raise Unsupported('select_copula not found')
    plain_signature(f, ['X'])
    st = body_of(f)
    if len(st) < 9:
        raise Unsupported('select_copula: too few statements')
    b = match('V_f = V_F0()', st[0], what='select_copula')
    if b['V_F0'] not in FAMILY:
        raise Unsupported(f"select_copula: first candidate class {b['V_F0']}")
    match('V_f.fit(X)', st[1], b, what='select_copula')
    match('if E_short:\n    return V_f', st[2], b, what='select_copula (shortcut)')
    short = SelQ({f"{b['V_f']}.tau": 'tau'}).b(b['E_short'])
    match('V_cands = [V_f]', st[3], b, what='select_copula')
    loop = st[4]
    if not (isinstance(loop, ast.For) and isinstance(loop.target, ast.Name) and isinstance(loop.iter, ast.List)
            and all(isinstance(e, ast.Name) for e in loop.iter.elts) and not loop.orelse and len(loop.body) == 1
            and isinstance(loop.body[0], ast.Try)):
        raise Unsupported('select_copula: candidate loop is not `for cls in [..]: try: ...`')
    extra = [e.id for e in loop.iter.elts]
    if any(x not in FAMILY or x == b['V_F0'] for x in extra) or len(set(extra)) != len(extra):
        raise Unsupported(f'select_copula: candidate classes {extra}')
    b['V_cc'] = loop.target.id
    tr = loop.body[0]
    if tr.orelse or tr.finalbody or len(tr.handlers) != 1 or len(tr.body) != 4:
        raise Unsupported('select_copula: try block shape')
    h = tr.handlers[0]
    if h.type is None or ast.unparse(h.type) != 'ValueError' or h.name is not None or [ast.unparse(s) for s in h.body] != ['pass']:
        raise Unsupported('select_copula: handler is not `except ValueError: pass`')
    match('V_c = V_cc()', tr.body[0], b, what='candidate construction')
    match('V_c.tau = V_f.tau', tr.body[1], b, what='candidate construction (shared tau)')
    match('V_c._compute_theta()', tr.body[2], b, what='candidate construction (calibration)')
    match('V_cands.append(V_c)', tr.body[3], b, what='candidate construction')
    # ---- the scoring pipeline: symbolic environment python name -> coq term
    env = {}
    lets = []
    be = match('V_e0, V_e1, V_e2, V_e3 = _compute_empirical(X)', st[5], what='select_copula')
    for k, fld in enumerate(['z_left', 'L', 'z_right', 'R']):
        env[be[f'V_e{k}']] = (f'({fld} e)', 'qlist')
    bc = match(f"V_c0, V_c1 = _compute_candidates({b['V_cands']}, V_p, V_q)", st[6], what='select_copula')
    for nm in (bc['V_p'], bc['V_q']):
        if nm not in env:
            raise Unsupported(f'_compute_candidates called with unknown list {nm}')
    args = f"{env[bc['V_p']][0]} {env[bc['V_q']][0]}"
    for nm, gen in ((bc['V_c0'], 'gen_cand_first'), (bc['V_c1'], 'gen_cand_second')):
        lets.append((cn(nm), f'map (fun c => {gen} cdf c {args}) cands'))
        env[nm] = (cn(nm), 'candlists')
    lane = None
    final = None
    for s in st[7:]:
        if final is not None:
            raise Unsupported('select_copula: statements after the final return')
        m = try_match(f"return {b['V_cands']}[V_sel]", s)
        if m:
            if env.get(m['V_sel'], (None, None))[1] != 'index':
                raise Unsupported('select_copula: returned index is not the argmax')
            final = env[m['V_sel']][0]
            continue
        if not (isinstance(s, ast.Assign) and len(s.targets) == 1 and isinstance(s.targets[0], ast.Name)):
            raise Unsupported('select_copula: unexpected statement `' + ast.unparse(s)[:100] + '`')
        x = s.targets[0].id
        if x in env or x in b.values() or x == 'X':
            raise Unsupported(f'select_copula: {x} is assigned twice')
        rhs = ast.Expr(value=s.value)

        def kind(n, k):
            if env.get(n, (None, None))[1] != k:
                raise Unsupported(f'select_copula: `{n}` in `{ast.unparse(s)[:80]}` is not a {k}')
            return env[n][0]
        m = try_match('np.concatenate((V_a, V_b))', rhs)
        if m:
            lets.append((cn(x), f"{kind(m['V_a'], 'qlist')} ++ {kind(m['V_b'], 'qlist')}"))
            env[x] = (cn(x), 'qlist')
            continue
        m = try_match('[np.concatenate((V_l, V_r)) for V_l, V_r in zip(V_a, V_b)]', rhs)
        if m:
            lets.append((cn(x), f"map (fun lr => fst lr ++ snd lr) (combine {kind(m['V_a'], 'candlists')} {kind(m['V_b'], 'candlists')})"))
            env[x] = (cn(x), 'candlists')
            continue
        m = try_match('[np.sum(E_lane) for V_v in V_list]', rhs)
        if m:
            names = {n.id for n in ast.walk(m['E_lane']) if isinstance(n, ast.Name)} - {m['V_v'], 'np'}
            if len(names) != 1:
                raise Unsupported('distance: `' + ast.unparse(m['E_lane']) + '` does not combine one empirical list with the candidate')
            emp = names.pop()
            t = SelQ({emp: 'x', m['V_v']: 'y'}).e(m['E_lane'])
            if lane is not None and lane != t:
                raise Unsupported(f'the three distances use different lane formulas: {lane} vs {t}')
            lane = t
            lets.append((cn(x), f"map (gen_sq_dist {kind(emp, 'qlist')}) {kind(m['V_list'], 'candlists')}"))
            env[x] = (cn(x), 'optlist')
            continue
        m = try_match('pd.Series(V_d).rank(ascending=False)', rhs)
        if m:
            lets.append((cn(x), f"rank_desc {kind(m['V_d'], 'optlist')}"))
            env[x] = (cn(x), 'optlist')
            continue
        m = try_match('V_a + V_b + V_c', rhs)
        if m:
            lets.append((cn(x), f"add3 {kind(m['V_a'], 'optlist')} {kind(m['V_b'], 'optlist')} {kind(m['V_c'], 'optlist')}"))
            env[x] = (cn(x), 'optlist')
            continue
        m = try_match('np.argmax(V_s.to_numpy())', rhs)
        if m:
            env[x] = (kind(m['V_s'], 'optlist'), 'index')
            continue
        raise Unsupported('select_copula: unsupported statement `' + ast.unparse(s)[:120] + '`')
    if final is None or lane is None:
        raise Unsupported('select_copula: no final `return candidates[argmax]` / no distance computed')
    fams = '; '.join(FAMILY[x] for x in extra)
    body = ''.join(f'  let {n} := {t} in\n' for n, t in lets)
    out = (
        f'(* candidate order: {b["V_F0"]} first (fitted), then {extra} inside try/except ValueError *)\n'
        f'Definition gen_first_family : family := {FAMILY[b["V_F0"]]}.\n'
        f'Definition gen_extra_families : list family := [{fams}].\n'
        'Definition gen_candidates (tau : Q) (first_theta : theta) : list copula :=\n'
        '  {| fam := gen_first_family; c_tau := tau; c_theta := first_theta |}\n'
        '    :: flat_map (fun f => opt_candidate f tau (gen_family_theta f tau)) gen_extra_families.\n'
        f'(* {ast.unparse(st[2].test)} *)\n'
        f'Definition gen_shortcut (tau : Q) : bool := {short}.\n'
        '(* np.sum(<lane formula>) over two aligned lists; a nan lane makes the sum nan *)\n'
        'Fixpoint gen_sq_dist (e : list Q) (c : list (option Q)) : option Q :=\n'
        '  match e, c with\n'
        f'  | x :: e\', Some y :: c\' => oadd (Some {lane}) (gen_sq_dist e\' c\')\n'
        '  | _ :: _, None :: _ => None\n  | _, _ => Some 0\n  end.\n'
        'Definition gen_scores (cdf : copula -> Q -> option Q) (cands : list copula) (e : emp) : list (option Q) :=\n'
        f'{body}  {final}.\n'
        'Definition gen_select_copula (cdf : copula -> Q -> option Q) (frank_fit : option (Q * theta))\n'
        '    (UV : list (Q * Q)) (base : list Q) : result copula :=\n'
        '  match frank_fit with\n  | None => Err FrankFitRaised\n  | Some (tau, th) =>\n'
        '      if gen_shortcut tau then Ok {| fam := gen_first_family; c_tau := tau; c_theta := th |}\n'
        '      else\n        let cands := gen_candidates tau th in\n'
        '        match gen_compute_empirical UV base with\n        | Err e => Err e\n        | Ok e =>\n'
        '            match np_argmax (gen_scores cdf cands e) with\n            | None => Err ValueError_empty\n'
        '            | Some i => match nth_error cands i with Some c => Ok c | None => Err IndexError end\n'
        '            end\n        end\n  end.\n'
        '(* the function the library exposes: the grid is fixed *)\n'
        'Definition gen_select_copula_lib (cdf : copula -> Q -> option Q) (frank_fit : option (Q * theta)) (UV : list (Q * Q))\n'
        '  : result copula := gen_select_copula cdf frank_fit UV gen_base.\n')
    return out, {'first': b['V_F0'], 'extra': extra, 'shortcut': ast.unparse(st[2].test)}


HEADER = '''(* GENERATED by tools/vf/selcop.py from copulas/bivariate/__init__.py (+ base.py, utils.py) -- regenerated on every run *)
From Coq Require Import QArith List Bool.
From Cop Require Import Model.BivCtl Model.SelectCopula.
From CopRun Require Import Gen_bivq.
Import ListNotations.
Open Scope Q_scope.
'''


def check_alias():
    """Bivariate.select_copula must delegate to copulas.bivariate.select_copula"""
    mod, c, f = P.find_method(BASE, 'Bivariate', 'select_copula')
    if [ast.unparse(d) for d in f.decorator_list] != ['classmethod']:
        raise Unsupported('Bivariate.select_copula is not a classmethod')
    st = body_of(f)
    if len(st) != 3 or ast.unparse(st[0]) != 'from copulas.bivariate import select_copula' \
            or not ast.unparse(st[1]).startswith('warnings.warn(') or ast.unparse(st[2]) != 'return select_copula(X)':
        raise Unsupported('Bivariate.select_copula (deprecated alias) changed: ' + ' ;; '.join(ast.unparse(s)[:60] for s in st))


def generate(ctx):
    """Write Gen_selcop.v; returns (status dict name -> None | error, info)."""
    status, info = {}, {}
    out = HEADER
    try:
        mod = _srcnorm.parse_file(INIT)
    except Exception as e:      # fail closed
        mod = None
        status['parse'] = f'{type(e).__name__}: {e}'
    parts = [
        ('imports', lambda: (check_imports(mod), check_split_matrix(), '')[2]),
        ('_compute_empirical', lambda: tr_compute_empirical(mod)),
        ('_compute_tail', lambda: tr_compute_tail(mod)),
        ('_compute_candidates', lambda: tr_compute_candidates(mod)),
        ('Bivariate._compute_theta', tr_base_compute_theta),
        ('select_copula', lambda: tr_select_copula(mod, info.get('_compute_candidates'))),
        ('Bivariate.select_copula-alias', lambda: (check_alias(), '')[1]),
    ]
    for name, fn in parts:
        if mod is None:
            status[name] = 'source does not parse'
            continue
        try:
            r = fn()
            if isinstance(r, tuple):
                info[name] = r[1]
                r = r[0]
            out += r
            status[name] = None
        except Exception as e:   # fail closed
            status[name] = f'{type(e).__name__}: {e}'
            out += f'(* {name}: UNSUPPORTED {P.comment_safe(e)} *)\n'
    ctx.write('Gen_selcop.v', out)
    return status, info
